#!/bin/bash
# Builds the checker from files on disk only (offline) and warms the Go build cache that
# go/packages needs for export data of b6's dependencies.
set -e
DIR="$(cd "$(dirname "${BASH_SOURCE[0]}")" && pwd)"
export GOFLAGS=-mod=mod GOPROXY=off GOSUMDB=off GOTOOLCHAIN=local GOWORK=off
mkdir -p "$DIR/bin" "$DIR/evidence" "$DIR/.cache"
(cd "$DIR/b6lint" && go build -o "$DIR/bin/b6lint" .)
"$DIR/bin/b6lint" run -brief > "$DIR/.cache/setup-run.txt" 2>&1 || true
tail -1 "$DIR/.cache/setup-run.txt"
