#!/bin/bash
# usage: tools/triage.sh <pkg-rel> <test-regex>   e.g.  tools/triage.sh ingest 'TestTriageC13'
# Copies /repo's working tree to a scratch directory, installs the triage tests (kept as text in
# /verif/triage) and runs them there. Not used by any registered check.
set -e
export GOFLAGS=-mod=mod GOPROXY=off GOSUMDB=off GOTOOLCHAIN=local
S=/tmp/b6scratch
mkdir -p $S
rsync -a --delete --exclude .git --exclude frontend --exclude python --exclude docs /repo/ $S/
M=$S/src/diagonal.works/b6
T=/verif/triage
cp $T/api_functions_triage_test.go.txt $M/api/functions/zz_triage_test.go
cp $T/b6_triage_test.go.txt $M/zz_triage_test.go
cp $T/compact_triage_test.go.txt $M/ingest/compact/zz_triage_test.go
cp $T/compact_triage2_test.go.txt $M/ingest/compact/zz_triage2_test.go
cp $T/compact_triage3_test.go.txt $M/ingest/compact/zz_triage3_test.go
cp $T/encoding_triage_test.go.txt $M/encoding/zz_triage_test.go
cp $T/ingest_triage_test.go.txt $M/ingest/zz_triage_test.go
cp $T/ingest_triage2_test.go.txt $M/ingest/zz_triage2_test.go
cp $T/search_triage_test.go.txt $M/search/zz_triage_test.go
cp $T/ui_triage_test.go.txt $M/ui/zz_triage_test.go
for f in $T/extra_*; do [ -e "$f" ] || continue; b=$(basename $f .txt); pkg=$(echo $b | sed 's/^extra_\(.*\)__.*$/\1/' | tr '+' '/'); cp $f $M/$pkg/zz_${b}; done
cd $M/$1
go test -vet=off -count=1 -timeout 120s -run "$2" . 2>&1 | tail -${3:-25}
