#!/usr/bin/env python3
"""Generates /verif/mutants/REVERT.json: for every 'fix:' commit in /repo, one mutant per hunk that
puts the original (defective) text back, with the rule and obligation key that must report it.
Run by hand after a fix lands; the JSON it writes is what the checker reads."""
import json, subprocess, re, sys, os

REPO = '/repo'
MOD = 'src/diagonal.works/b6/'
# (commit, hunk ordinal within commit, 1-based) -> list of (rule, property, expect_key)
EXPECT = {
 ('05a6c58', 1): [('RAWBASE', 'C12', 'RAWBASE/ingest.(*MutableOverlayWorld).AddTag#1')],
 ('05a6c58', 2): [('RAWBASE', 'C12', 'RAWBASE/ingest.(*MutableOverlayWorld).RemoveTag#1')],
 ('5bd9278', 1): [('SELFREF', 'C14', 'SELFREF/ingest.(*MutableOverlayWorld).Snapshot#1')],
 ('4db5f98', 1): [('SHADOW-FILTER', 'C15', 'SHADOW-FILTER/ingest.(*MutableOverlayWorld).FindReferences#1')],
 ('c7bc180', 1): [('RECURSION-GUARD', 'C15', 'RECURSION-GUARD/ingest.(*FeatureReferencesByID).findReferences#1')],
 ('7ef6b37', 1): [('SHRINK-IN-RANGE', 'C39', 'SHRINK-IN-RANGE/b6.(*Tags).RemoveTags#1')],
 ('6f63c72', 1): [('CLONE-DEPTH', 'C38', 'CLONE-DEPTH/ingest.(*AreaMembers).Clone')],
 ('8463825', 1): [('CLONE-DEPTH', 'C38', 'CLONE-DEPTH/ingest.(*CollectionFeature).Clone')],
 ('8463825', 2): [('CLONE-DEPTH', 'C38', 'CLONE-DEPTH/ingest.(*CollectionFeature).MergeFromCollectionFeature')],
 ('f637edf', 1): [('MEMBER-KEY', 'C29', 'MEMBER-KEY/ingest.(*pbfSource).Read#1')],
 ('c1b1f2e', 1): [('LAYOUT', 'C10', 'LAYOUT/encoding.NewUint64MapBuilder#1')],
 ('8abd2f7', 2): [('CLIENT-STEPPED-LOOP', 'C23', 'CLIENT-STEPPED-LOOP/api/functions.samplePoints#1')],
 ('4284048', 1): [('MUTATOR-ERR', 'C26', 'MUTATOR-ERR/ingest.(ingestedYAML).Apply#5')],
 ('6ba81dd', 1): [('GEOJSON-TYPES', 'C32', 'GEOJSON-TYPES/geojson#MultiLineString')],
 ('b559a96', 1): [('ESCAPE-LEX', 'C20', 'ESCAPE-LEX/api.EscapeTagValue#8')],
 ('2517138', 1): [('ORIENTED-CODEC', 'C19', 'ORIENTED-CODEC/b6.PolygonProtoToS2Polygon~NewPolygonProto')],
 ('43bdef0', 1): [('OVERLAY-WRAP', 'C12', 'OVERLAY-WRAP/ingest.(*MutableOverlayWorld).Traverse#out1')],
 ('b035320', 1): [('ABSENT-IS-ERROR', 'C26', 'ABSENT-IS-ERROR/ingest.(*BasicMutableWorld).RemoveTag')],
 ('1d7048f', 1): [('SLOT-GUARD', 'C23', 'SLOT-GUARD/api.compileLambda#1')],
 ('011aac2', 1): [('SIGNED-SHIFT', 'C09', 'SIGNED-SHIFT/encoding.ZigzagDecode')],
 ('5bbe755', 1): [('RESTART-ASSIGNS', 'C07', 'RESTART-ASSIGNS/search.(*treeListIterator).start')],
 ('3e4a8a0', 1): [('DECODE-ADVANCES', 'C08', 'DECODE-ADVANCES/ingest/compact.(*Iterator).Advance#1')],
 ('d834352', 1): [('YAML-NATIVE', 'C18', 'YAML-NATIVE/b6.(Expression).MarshalYAML#StringExpression')],
 ('0b184d3', 1): None,  # covered by mutants/RESTORE.json
 ('0b184d3', 2): None,
 ('5adedaa', 1): [('STOP-AFTER-ERROR', 'C28', 'STOP-AFTER-ERROR/encoding.(*Uint64Map).EachItem#1'), ('ERR-RETURNED', 'C28', 'ERR-RETURNED/encoding.(*Uint64Map).EachItem#1')],
 ('5adedaa', 2): [('PRODUCER', 'C28', 'PRODUCER/encoding.(*Uint64Map).EachItem#1')],
 ('2011475', 1): [('DEFPANIC', 'C01', 'DEFPANIC/ingest/compact.(*PolygonGeometryReferences).FromPathIDs#1')],
 ('8e12959', 1): [('APPEND-ONCE', 'C01', 'APPEND-ONCE/ingest/compact.fromCompactValue#3')],
 ('50dbf6e', 1): [('CODEC-SYM', 'C11', 'CODEC-SYM/ingest/compact.(*Area).Marshal')],
 ('50ae0a5', 1): [('BYTECOUNT', 'C11', 'BYTECOUNT/ingest/compact.(*AreaGeometryReferences).Unmarshal')],
 ('50ae0a5', 2): [('BYTECOUNT', 'C11', 'BYTECOUNT/ingest/compact.(*AreaGeometryLatLngs).Unmarshal')],
 ('3c5ae73', 1): [('EXISTENTIAL-LOOP', 'C05', 'EXISTENTIAL-LOOP/b6.multiPolygonIntersectsFeature#1')],
 ('5cda354', 1): [('EQUAL-TYPE', 'C19', 'EQUAL-TYPE/b6.NewQueryFromProto#6')],
 ('5cda354', 2): [('EQUAL-TYPE', 'C19', 'EQUAL-TYPE/b6.NewQueryFromProto#7')],
 ('5cda354', 3): [('EQUAL-TYPE', 'C19', 'EQUAL-TYPE/b6.NewQueryFromProto#8')],
 ('11ba793', 1): [('TOKEN-TOTALITY', 'C04', 'TOKEN-TOTALITY/search.TokensForCovering#1')],
 ('92c13b2', 1): [('APPLY-ERR', 'C26', 'APPLY-ERR/api.(*Evaluator).EvaluateExpression#1')],
 ('839b5f9', 1): [('LOCK-TYPESTATE', 'C40', 'LOCK-TYPESTATE/ui.(*EvaluateHandler).ServeHTTP#call1')],
 ('f3981f3', 1): [('DEFPANIC', 'C21', 'DEFPANIC/api.compileCall#1')],
 ('62b8080', 1): [('ZERO-NIL-DEREF', 'C23', 'ZERO-NIL-DEREF/api/functions.top#2')],
 ('06b7ade', 1): [('ERR-BEFORE-USE', 'C23', 'ERR-BEFORE-USE/api.NewHistogramFromCollection#1')],
 ('592a11e', 1): [('ERR-BEFORE-USE', 'C23', 'ERR-BEFORE-USE/b6.(Expression).ToProto#1')],
 ('a167bc3', 1): [('UNSAT-GUARD', 'C20', 'UNSAT-GUARD/api.EscapeTagKey#1')],
 ('a167bc3', 2): [('UNSAT-GUARD', 'C20', 'UNSAT-GUARD/api.EscapeTagValue#1')],
 ('2333e79', 1): None,  # covered by mutants/PANIC-ON-ERROR.json
 ('13b6c9b', 1): None,
 ('1be1c25', 1): [('VARIANT', 'C19', 'VARIANT/b6.expressionFromProto#14')],
 ('dc30c75', 1): [('VARIANT', 'C19', 'VARIANT/b6.expressionFromProto#15')],
}
EXPECT.update(json.load(open(os.path.join(os.path.dirname(__file__), 'revert_expect_more.json'))) if os.path.exists(os.path.join(os.path.dirname(__file__), 'revert_expect_more.json')) else {})

def hunks(commit, ctx):
    out = subprocess.run(['git', '-C', REPO, 'show', '--format=', '-U%d' % ctx, commit], capture_output=True, text=True, check=True).stdout
    res, cur_file, cur = [], None, None
    for line in out.split('\n'):
        if line.startswith('+++ b/'):
            cur_file = line[6:]
        elif line.startswith('--- ') or line.startswith('diff ') or line.startswith('index '):
            continue
        elif line.startswith('@@'):
            cur = {'file': cur_file, 'pre': [], 'post': []}
            res.append(cur)
        elif cur is not None:
            if line.startswith('+'):
                cur['post'].append(line[1:])
            elif line.startswith('-'):
                cur['pre'].append(line[1:])
            elif line.startswith(' '):
                cur['pre'].append(line[1:]); cur['post'].append(line[1:])
    return res

subjects = dict(l.split(' ', 1) for l in subprocess.run(['git', '-C', REPO, 'log', '--format=%h %s', '--grep=^fix:'], capture_output=True, text=True, check=True).stdout.strip().split('\n'))
mutants, problems = [], []
for (commit, n), exp in sorted(EXPECT.items(), key=lambda kv: str(kv[0])):
    if isinstance(commit, str) and exp is None:
        continue
    done = False
    for ctx in (2, 4, 7, 12):
        hs = hunks(commit, ctx)
        # more context may merge hunks: only accept if the hunk count is stable
        if n > len(hs):
            break
        h = hs[n - 1]
        old, new = '\n'.join(h['post']), '\n'.join(h['pre'])
        cur = open(os.path.join(REPO, h['file'])).read()
        if cur.count(old) == 1 and len(hunks(commit, 2)) == len(hs):
            for (rule, prop, key) in exp:
                mutants.append({'id': 'revert-%s-%d-%s' % (commit, n, rule), 'rule': rule, 'property': prop,
                                'file': h['file'][len(MOD):], 'old': old, 'new': new, 'expect_key': key,
                                'why': 'puts back the defect repaired by %s (%s)' % (commit, subjects.get(commit, '?'))})
            done = True
            break
    if not done:
        problems.append('%s hunk %d: no unique context found' % (commit, n))
# commits whose hunks do not type-check one at a time are reverted whole, as a patch
for commit, rule, prop, key in [('3b1d4ff', 'PRODUCER', 'C28', 'PRODUCER/osm.ReadPBFWithOptions#1'), ('b4ed2c5', 'PRODUCER', 'C28', 'PRODUCER/ingest.(MemoryFeatureSource).Read#1'),
        ('a17927f', 'APPLIED-UNWRAP', 'C26', 'APPLIED-UNWRAP/ui.(*EvaluateHandler).ServeHTTP#2'), ('9fa9787', 'REPEATABLE-APPLY', 'C26', 'REPEATABLE-APPLY/ingest.(ingestedYAML).Apply'),
        ('c0bc6c7', 'SIGNED-DETOUR', 'C10', 'SIGNED-DETOUR/b6.FeatureIDFromUKONSCode#parse1'),
        ('f8e960c', 'DIVISOR-POSITIVE', 'C23', 'DIVISOR-POSITIVE/api/functions.divide#1'),
        ('5a25d13', 'QUERY-BRACKETS', 'C20', 'QUERY-BRACKETS/api.unparseQuery#Intersection'),
        ('ead3c46', 'TOKEN-FORMAT', 'C03', 'TOKEN-FORMAT/b6.(Tagged).Compile#no-arm-at'),
        ('2e87d95', 'QUOTE-PAIR', 'C20', 'QUOTE-PAIR/api.(*lexer).lexStringLiteral#unquote'),
        ('0ae73b2', 'CONVEX-INSIDE', 'C05', 'CONVEX-INSIDE/b6.CapIntersectsPolygon'),
        ('94f74a7', 'EMIT-REJECT', 'C36', 'EMIT-REJECT/ingest.NewMutableWorldFromSource#1'),
        ('8b6a11c', 'DROP-REVALIDATES', 'C37', 'DROP-REVALIDATES/ingest.(*BasicWorldBuilder).Finish#1')]:
    mutants.append({'id': 'revert-%s-whole-%s' % (commit, rule), 'rule': rule, 'property': prop, 'patch': 'mutants/patches/revert-%s.diff' % commit,
                    'expect_key': key, 'why': 'puts back the defect repaired by %s (%s)' % (commit, subjects.get(commit, '?'))})
json.dump(mutants, open('/verif/mutants/REVERT.json', 'w'), indent=1)
print(len(mutants), 'revert mutants written;', 'problems:', problems)
