#!/bin/bash
# usage: tools/store_wave4.sh Cxx ... : copies /tmp/seed/Cxx/out4/{1,2} to seeded/Cxx-7, Cxx-8 (wave 4)
cd /verif
for p in "$@"; do for n in 1 2; do d=seeded/$p-$((n+6)); mkdir -p $d; cp /tmp/seed/$p/out4/$n/* $d/; python3 - <<PY
import json
m=json.load(open('$d/meta.json')); m['wave']=int('${WAVE:-4}'); json.dump(m,open('$d/meta.json','w'),indent=1)
PY
done; done
