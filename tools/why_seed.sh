#!/bin/bash
# usage: tools/why_seed.sh <seed id> <rules,comma> : prints the failing obligations (with detail) of the rules on the seeded tree
S=/verif/seeded/$1; T=/verif/.cache/why-$$; rm -rf $T; mkdir -p $T/src/diagonal.works
export GOFLAGS=-mod=mod GOPROXY=off GOSUMDB=off GOTOOLCHAIN=local
rsync -a --include='*/' --include='*.go' --include='*.y' --include='go.mod' --include='go.sum' --exclude='*' --prune-empty-dirs /repo/src/diagonal.works/b6 $T/src/diagonal.works/; find $T -name '*_test.go' -delete
(cd $T && patch -p1 -s -f --no-backup-if-mismatch < $S/patch.diff) || echo "patch does not apply"
/verif/bin/b6lint run -root $T/src/diagonal.works/b6 -brief -rules "$2" | grep -v "^RULE\|^packages" | cut -c1-${3:-900}
rm -rf $T
