#!/bin/bash
# validates MANIFEST.json and every evidence file against the schemas
cd "$(dirname "$0")/.."
python3-vt - <<'PY'
import json,jsonschema,glob
jsonschema.validate(json.load(open('MANIFEST.json')),json.load(open('/root/.vp/MANIFEST.schema.json')))
s=json.load(open('/root/.vp/EVIDENCE.schema.json'))
n=0
for f in sorted(glob.glob('evidence/C*.json')):
    jsonschema.validate(json.load(open(f)),s); n+=1
print('manifest valid;',n,'evidence files valid')
PY
