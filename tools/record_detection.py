#!/usr/bin/env python3
"""For every seeded change under /verif/seeded: apply it to a scratch copy, run all rules, and record
in its meta.json which obligations start failing ("detect": used by the thorough tier of the
checks as adequacy cases) or that nothing does ("detect": [] with "missed": true)."""
import json, os, subprocess, sys, glob
V='/verif'
rules={}
for line in subprocess.run([V+'/bin/b6lint','rules'],capture_output=True,text=True).stdout.splitlines():
    name=line.split()[0]; rules[name]=line[line.index('[')+1:line.index(']')].split()
only=sys.argv[1:]
for d in sorted(glob.glob(V+'/seeded/*')):
    name=os.path.basename(d)
    if only and name not in only: continue
    out=subprocess.run([V+'/tools/try_seed.sh',d],capture_output=True,text=True).stdout
    keys=[l.split()[1] for l in out.splitlines() if l.startswith(('violation','undecided'))]
    status={l.split()[1]:l.split()[0] for l in out.splitlines() if l.startswith(('violation','undecided'))}
    # the properties the failing obligation itself carries (falls back to the rule's list)
    oprops={}
    for l in out.splitlines():
        if l.startswith(('violation','undecided')):
            f=l.split()
            if len(f)>2 and f[2].startswith('['): oprops[f[1]]=f[2].strip('[]').split(',')
    meta=json.load(open(d+'/meta.json'))
    prop=meta['property']
    det=[{'rule':k.split('/')[0],'expect_key':k,'status':status[k]} for k in keys]
    # keep only detections by rules that serve the seeded property first; others are listed separately
    det.sort(key=lambda x: (x['status']!='violation'))
    carries=lambda x: prop in oprops.get(x['expect_key'], rules.get(x['rule'],[]))
    own=[x for x in det if carries(x)]
    other=[x for x in det if not carries(x)]
    meta['detect']=own[:3]
    meta['also_reported_by_checks_of_other_properties']=[{'rule':x['rule'],'key':x['expect_key'],'properties':rules.get(x['rule'],[])} for x in other[:3]]
    meta['missed']= (len(own)==0)
    if 'patch does not apply' in out: meta['missed']=None; meta['detect']=[]; meta['note']='patch no longer applies to /repo HEAD'
    json.dump(meta,open(d+'/meta.json','w'),indent=1)
    print(name, 'OWN' if own else ('other' if other else 'MISSED'), [x['expect_key'] for x in (own or other)][:2])
