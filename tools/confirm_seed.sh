#!/bin/bash
# usage: tools/confirm_seed.sh <dir with patch.diff demo_test.go meta.json> <scratch worktree of /repo>
# Confirms an independently written seeded change: the demonstration passes on the unchanged tree,
# fails with the change, and the existing tests of the touched packages still pass with the change.
set -u
export GOFLAGS=-mod=mod GOPROXY=off GOSUMDB=off GOTOOLCHAIN=local
S="$1"; W="$2"; M="$W/src/diagonal.works/b6"
PKG=$(python3 -c "import json;print(json.load(open('$S/meta.json'))['demo_pkg_dir'])")
RUN=$(python3 -c "import json;print(json.load(open('$S/meta.json'))['demo_run'])")
cd "$W" && git checkout -q -- . && git clean -fdq -e out -e out2 -e out3 -e out4 -e out5
cp "$S/demo_test.go" "$M/$PKG/zz_seeded_demo_test.go"
echo "== demo on the unchanged tree (must pass)"
(cd "$M/$PKG" && timeout 600 go test -vet=off -count=1 -timeout 300s -run "$RUN" . 2>&1 | tail -3)
echo "== apply"
git apply --whitespace=nowarn "$S/patch.diff" || { echo "PATCH DOES NOT APPLY"; exit 1; }
git diff --stat | cat
(cd "$M" && go build ./... 2>&1 | grep -v "gdal\|pkg-config\|Package\|Perhaps\|PKG_CONFIG" | head -5)
echo "== demo with the change (must fail)"
(cd "$M/$PKG" && timeout 600 go test -vet=off -count=1 -timeout 120s -run "$RUN" . 2>&1 | tail -6)
echo "== existing tests of touched packages with the change (must pass)"
PKGS=$(git diff --name-only | grep '\.go$' | xargs -n1 dirname | sort -u | sed "s#^src/diagonal.works/b6#.#")
rm -f "$M/$PKG/zz_seeded_demo_test.go"
(cd "$M" && for p in $PKGS ${3:-}; do timeout 1500 go test -vet=off -count=1 -timeout 20m $p/ 2>&1 | tail -2; done)
git checkout -q -- . && git clean -fdq -e out -e out2 -e out3 -e out4 -e out5
