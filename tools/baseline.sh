#!/bin/bash
# Runs the pinned baseline test suite (names in /root/.vp/BASELINE.json "stable_pass") on /repo's current tree
# and reports every baseline test that did not pass. Not used by any registered check.
export GOFLAGS=-mod=mod GOPROXY=off GOSUMDB=off GOTOOLCHAIN=local
OUT=${1:-/tmp/baseline.json}
(cd /repo/src/diagonal.works/b6 && go test -json -vet=off -count=1 -timeout 25m ./... > $OUT 2>/dev/null)
python3 - "$OUT" <<'PY'
import json,sys
base=set(json.load(open('/root/.vp/BASELINE.json'))['stable_pass'])
passed=set()
for l in open(sys.argv[1]):
    try: e=json.loads(l)
    except Exception: continue
    if e.get('Action')=='pass' and e.get('Test'): passed.add(e['Package']+'::'+e['Test'])
missing=sorted(base-passed)
print('baseline tests',len(base),'not passing:',len(missing)); print(missing[:20])
PY
git -C /repo log --oneline | head -1
