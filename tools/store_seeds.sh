#!/bin/bash
# usage: tools/store_seeds.sh <outdir> <wave> Cxx ... : copies /tmp/seed/Cxx/<outdir>/{1,2} to the next free seeded/Cxx-k ids
cd /verif
OUT=$1; WAVE=$2; shift 2
for p in "$@"; do for n in 1 2; do
  k=1; while [ -d seeded/$p-$k ]; do k=$((k+1)); done
  d=seeded/$p-$k; mkdir -p $d; cp /tmp/seed/$p/$OUT/$n/patch.diff /tmp/seed/$p/$OUT/$n/demo_test.go /tmp/seed/$p/$OUT/$n/meta.json $d/
  python3 - <<PY
import json
m=json.load(open('$d/meta.json')); m['wave']=$WAVE; json.dump(m,open('$d/meta.json','w'),indent=1)
PY
  echo "$p/$OUT/$n -> $d"
done; done
