#!/bin/bash
# confirms every seeded change that has no confirm.log yet, one property worktree at a time
cd /verif
for prop in $(ls seeded | sed 's/-[0-9]*$//' | sort -u); do
  (
  for d in seeded/$prop-*; do
    [ -f $d/confirm.log ] && continue
    [ -d /tmp/seed/$prop ] || continue
    tools/confirm_seed.sh /verif/$d /tmp/seed/$prop > $d/confirm.log.tmp 2>&1
    mv $d/confirm.log.tmp $d/confirm.log
  done
  ) &
  while [ $(jobs -r | wc -l) -ge 3 ]; do sleep 5; done
done
wait
echo all-confirmed
