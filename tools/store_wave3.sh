#!/bin/bash
# usage: tools/store_wave3.sh Cxx ... : copies /tmp/seed/Cxx/out3/{1,2} to seeded/Cxx-5, Cxx-6 (wave 3)
cd /verif
for p in "$@"; do for n in 1 2; do d=seeded/$p-$((n+4)); mkdir -p $d; cp /tmp/seed/$p/out3/$n/* $d/; python3 - <<PY
import json
m=json.load(open('$d/meta.json')); m['wave']=3; json.dump(m,open('$d/meta.json','w'),indent=1)
PY
done; done
