#!/bin/bash
# usage: tools/try_seed.sh <seeded dir> [b6lint binary]
# Applies a seeded patch to a scratch copy of /repo's Go sources and lists the obligations that
# start failing (all rules). Exploration aid; the registered checks use `b6lint mutants`.
S="$(realpath "$1")"; BIN="${2:-/verif/bin/b6lint}"
export GOFLAGS=-mod=mod GOPROXY=off GOSUMDB=off GOTOOLCHAIN=local
T=/verif/.cache/try-$$; rm -rf $T; mkdir -p $T/src/diagonal.works
rsync -a --include='*/' --include='*.go' --include='*.y' --include='go.mod' --include='go.sum' --exclude='*' --prune-empty-dirs /repo/src/diagonal.works/b6 $T/src/diagonal.works/; find $T -name '*_test.go' -delete
(cd $T && patch -p1 -s -f --no-backup-if-mismatch < "$S/patch.diff") || { echo "patch does not apply"; rm -rf $T; exit 1; }
[ -f /verif/.cache/base-brief.txt ] && [ /verif/.cache/base-brief.txt -nt $BIN ] || $BIN run -brief | grep -E "^(violation|undecided|ERROR)" | awk '{print $1, $2}' | sort > /verif/.cache/base-brief.txt
$BIN run -root $T/src/diagonal.works/b6 -brief > $T/out.txt 2>&1
grep -E "^(violation|undecided|ERROR|PANIC)" $T/out.txt | awk '{print $1, $2}' | sort > $T/keys.txt
echo "--- new failing obligations for $(basename $S):"
comm -13 /verif/.cache/base-brief.txt $T/keys.txt | while read st key; do
  props=$(grep -E "^$st $(printf '%s' "$key" | sed 's/[][\.*^$()+?{}|]/\\&/g') " $T/out.txt | head -1 | grep -o '\[C[0-9C,]*\]' | head -1)
  echo "$st $key $props"
done
grep -E "fewer than|vacuous" $T/out.txt
rm -rf $T
