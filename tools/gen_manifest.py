#!/usr/bin/env python3
"""Regenerates /verif/MANIFEST.json from the rules that are actually built into bin/b6lint.
A property is claimed only if at least one built rule serves it; the rest are listed under
not_applicable with the reason."""
import json, subprocess, os, sys

V = os.path.dirname(os.path.dirname(os.path.abspath(__file__)))
out = subprocess.run([os.path.join(V, 'bin/b6lint'), 'rules'], capture_output=True, text=True, check=True).stdout
rules_by_prop = {}
for line in out.splitlines():
    parts = line.split()
    name, ir = parts[0], parts[1]
    props = line[line.index('[') + 1:line.index(']')].split()
    for p in props:
        rules_by_prop.setdefault(p, []).append((name, ir))

# what each claimed property's check decides / does not decide (DESIGN.md section 5)
CLAIM = {
 'C01': ("Crash and length clauses of the compact round trip: no always-panicking index into an emptied slice on the build path (DEFPANIC), element-wise codec conversions append exactly once per element (APPEND-ONCE), both passes of the two-pass builder see the same stream (TWOPASS), hash-map headers keep all ID bits (LAYOUT).",
         "Does not decide equality of tags/geometry after the round trip, E7 precision or exactly-once enumeration."),
 'C03': ("Index side and query side build search tokens from the same pieces (TOKEN-FORMAT); every multi-source FindFeatures combines through an ID-ordered merger (MERGE-ORDERED).",
         "Does not decide that results equal the brute-force filter."),
 'C04': ("Totality of the two halves of the cell-token scheme (index: self + ancestors; query: self + ancestors + descendants marker) and agreement of the predicate used by Matches/Next/Advance.",
         "Does not decide s2 covering semantics."),
 'C05': ("Existential loops in the spatial predicates do not leave in their first iteration (any polygon of a multipolygon can match).",
         "Does not decide the geometric tests themselves."),
 'C07': ("Child/parent pointer stores are paired in the AVL tree; delete marks the node before leaving.",
         "Does not decide balance, ordering or iterator semantics."),
 'C09': ("Every hash-map layout the builder API accepts keeps all 64 ID bits in the bucket header; header codec shifts mirror.",
         "Does not decide integer sequences, tables or iteration."),
 'C10': ("Bit-field encoders and decoders use the same shifts/masks, fields are disjoint and every enumerated domain fits its field; hash-map layouts keep all ID bits.",
         "Does not decide zigzag identities or anything needing bit-vector reasoning."),
 'C11': ("Marshal/Unmarshal pairs of compact records use the same fields, order and primary namespaces (CODEC-SYM); consumed-byte results are byte counts (BYTECOUNT); every value kind written is read back as the same type (VALUE-KIND).",
         "Does not decide value equality for all 64-bit values."),
 'C12': ("A base feature fetched by the mutable overlay world is wrapped with the plain-tag modifications before its tags are read or copied (RAWBASE taint rule).",
         "Does not decide the full map semantics."),
 'C13': ("Every path from the temporary replacement of a feature to a function exit restores the previous feature (RESTORE); a merged change applies to the real world only after all parts applied to the canary (CANARY).",
         "Does not decide index/reference state after a rejection beyond the feature map."),
 'C14': ("Snapshot gives at least one side fresh storage for every field mutated in place (SNAPSHOT-FRESH) and re-seats back-references to the world (SELFREF).",
         "Does not decide behavioural immutability of everything reachable (no pointer analysis)."),
 'C15': ("Recursive reference collection is guarded by a visited test (RECURSION-GUARD); base referrers shadowed by the overlay are dropped (SHADOW-FILTER).",
         "Does not decide exactness of the referrer set."),
 'C16': ("Lookup/location/existence consult the upper layer first (OVERLAY-PRECEDENCE); search and enumeration filter shadowed base features (SHADOW-FILTER).",
         "Only the four queries the statement lists."),
 'C17': ("Scans over feature blocks do not stop at the first block of a namespace (BLOCKSCAN); switches over point kinds handle every kind whose record carries the field read (POINTKIND).",
         "Does not decide merged search order."),
 'C18': ("Keys written by the YAML exporters are read by the importer and dispatched on (YAML-KEYS).",
         "Thin: nothing about value kinds or ordering."),
 'C19': ("Every oneof variant accepted from protobuf is produced by the ToProto of the type returned (VARIANT); the dynamic type returned is accepted by the matching Equal method (EQUAL-TYPE).",
         "Does not decide value equality or source positions."),
 'C20': ("The first-character guards of the tag escapers are satisfiable (UNSAT-GUARD).",
         "Thin: nothing else about parse∘print."),
 'C21': ("No always-panicking construct (index into an emptied slice, contradictory type assertion) in the VM.",
         "Does not decide agreement with a reference interpreter."),
 'C23': ("Absence of three crash classes on the request path: always-panicking constructs, dereference before the error check, dereference of a never-assigned interface variable.",
         "All other panics and hangs are beyond reach."),
 'C25': ("Every send of map-parallel is cancellable and leaves its loop on cancellation (PRODUCER); all channels are closed on every path (CLOSE-ALL).",
         "Does not decide ordering or values."),
 'C26': ("The error of every Change.Apply call reaches the caller's result (APPLY-ERR).",
         "Does not decide that returned IDs are the modified features."),
 'C28': ("Streaming enumerators: sends are cancellable and leave the loop on cancellation (PRODUCER), no callback call after a callback error (STOP-AFTER-ERROR), the callback's error reaches the result (ERR-RETURNED).",
         "Does not decide 'promptly' as a time bound."),
 'C29': ("Relation member typing is keyed by the member, not the relation (MEMBER-KEY); both ingest paths read the one tag-mapping table (TAGMAP-SHARED).",
         "Does not decide the full OSM mapping."),
 'C31': ("Alias table is pairwise unambiguous and pairs From/To of one family (ALIAS-TABLE); FeatureID.Less is lexicographic over all fields, type first (LESS-LEX); namespace codes are assigned after sorting (NS-SORT).",
         "Does not decide value round trips."),
 'C35': ("Writes to shared compact-world state on read paths happen under the owner's mutex (GUARDED-BY); parallel build stages do not both read shared features and write features (PARALLEL-EFFECTS).",
         "A lockset cannot see everything; equality of concurrent and serial answers is not decided."),
 'C37': ("Only enumerated, validated writers store into a world's feature map and AddFeature reaches the update only on the success edge of validation (VALIDATE-GATE).",
         "Does not decide that validation itself is right."),
 'C38': ("Clone/merge methods allocate fresh storage at every depth the feature API writes in place (CLONE-DEPTH).",
         "Only aliasing through the feature types' own fields."),
 'C39': ("No loop over a tag list shrinks the list by index and keeps iterating (SHRINK-IN-RANGE).",
         "Only removal; set/merge/lookup are not decided."),
 'C40': ("Change.Apply on a shared world happens only with the write lock held, every return leaves the lock in the state the deferred unlock expects, evaluator callers hold the read lock (LOCK-TYPESTATE); mutators are reachable only through Change.Apply (MUTATOR-REACH).",
         "Does not decide serialisability of outcomes."),
}

NA = {
 'C02': "equality of two implementations' answers over all inputs is a relation between runtime values; the only shape-level sibling check found flags by-design stubs",
 'C22': "soundness of a rewrite over all programs is not a shape property; a guard-presence check would be a frozen fragment",
 'C24': "functional semantics of each collection function over all inputs; not a shape property",
}

# Keep the claim texts in step with DESIGN.md section 5: "*Decides*: ..." and "*Not decided*: ..."
import re
_design = open(os.path.join(V, 'DESIGN.md')).read()
for _m in re.finditer(r'^### (C\d+) [^\n]*\n(.*?)(?=^### |^-{10,})', _design, re.S | re.M):
    _pid, _body = _m.group(1), ' '.join(_m.group(2).split())
    _d = re.search(r'\*Decides\*: (.*?)(?= \*Today\*| \*Not decided\*|$)', _body)
    _n = re.search(r'\*Not decided\*: (.*)$', _body)
    if _d:
        CLAIM[_pid] = (_d.group(1).strip(), ('Not decided: ' + _n.group(1).strip()) if _n else CLAIM.get(_pid, ('', ''))[1])

props = [json.loads(l) for l in open(os.path.join(V, 'properties.jsonl'))]
checks, na = [], []
for p in props:
    pid = p['id']
    rs = rules_by_prop.get(pid)
    if rs:
        decides, notdec = CLAIM.get(pid, ("structural necessary conditions", ""))
        names = ", ".join(n for n, _ in rs)
        irs = sorted({ir for _, ir in rs})
        checks.append({
            "property_id": pid,
            "quick_cmd": "./check %s quick" % pid,
            "thorough_cmd": "./check %s thorough" % pid,
            "evidence_file": "/verif/evidence/%s.json" % pid,
            "replay_cmd_template": "./check %s quick  # the report is in {path}" % pid,
            "engine": "b6lint",
            "level_claimed": {
                "category": "other",
                "text": "Static analysis, all paths of the analysed functions, decided on /repo's current source on every run. Decides: " + decides + " " + notdec +
                        " This is a structural necessary condition of the property (breaking it breaks the behaviour for some input), not a proof of the behavioural statement.",
                "design_ref": "DESIGN.md section 5 (%s) and section 4 (rules %s)" % (pid, names),
            },
            "level_note": "Trusted: go/types, golang.org/x/tools v0.29.0 (go/packages, go/cfg, go/ssa, VTA call graph), the rule implementations in /verif/b6lint and their accepted-idiom lists. Assumes callees resolved by types/VTA (no pointer analysis); packages needing cgo GDAL are skipped (no anchors there).",
            "technique": "static analysis: custom repository-specific rules (%s) over %s" % (names, "/".join(irs)),
        })
    else:
        reason = NA.get(pid)
        if reason is None:
            reason = "rule designed in DESIGN.md but not built (yet); no check is claimed until the rule exists and has been shown to fire on a seeded variant"
        na.append({"property_id": pid, "reason": reason})

manifest = {
    "version": 1,
    "setup_cmd": "./setup.sh",
    "hooks": {
        "guard": "verif",
        "enable": "none needed: static analysis reads the tree as it is; no hook is compiled into /repo",
        "baseline_off_cmd": "cd /repo/src/diagonal.works/b6 && GOFLAGS=-mod=mod go test -json -vet=off -count=1 -timeout 25m ./...",
        "source_commits": [],
        "add_only": True,
    },
    "engines": [{
        "name": "b6lint",
        "path": "/verif/b6lint",
        "serves_properties": [c["property_id"] for c in checks],
        "kind_free_text": "custom Go static analyser (go/packages + go/types + go/cfg + go/ssa + VTA call graph, x/tools v0.29.0) with repository-specific rules; results cached per content hash of the working tree",
    }],
    "checks": checks,
    "not_applicable": na,
    "notes": "All checks are static analysis (no b6 code is executed). Genuine defects found are repaired by 'fix:' commits in /repo or listed in /verif/known_findings.json; see DESIGN.md.",
}
json.dump(manifest, open(os.path.join(V, 'MANIFEST.json'), 'w'), indent=1)
print("claimed:", " ".join(c["property_id"] for c in checks))
print("not applicable:", " ".join(n["property_id"] for n in na))
