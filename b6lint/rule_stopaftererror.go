package main

import (
	"fmt"
	"go/ast"
	"go/types"
)

// STOP-AFTER-ERROR (C28): after a callback returned an error, no further invocation of the
// callback is reachable in the same function body without first passing a cancellation test.
//
// Slots: every function declaration with a parameter of a func type that takes at least one
// argument and returns exactly error (the per-item callback `func(...) error`; yaml's
// UnmarshalYAML protocol is excluded), in every module package. Inside it
// - the declaration body and each of its function literals is a separate body - the invocation
// sites are: a call of the callback; a call of a closure derived from it (a literal that returns
// error and invokes a callback, or a func value returned by a call that was given the callback,
// e.g. ParalleliseEmit); and a call that is handed the callback or a derived closure and returns
// an error (delegation: `eachIngestFeature(wrap, ...)`, `fb.Map.EachItem(emit, n)`,
// `s.Read(perFile, offset, ctx)`). errgroup.Group.Go is not an invocation.
//
// Obligation per site: walk the body's control-flow graph forward from the site assuming the
// result is a non-nil error (at `v != nil` / `v == nil` conditions of if/for only the feasible
// edge is followed while v is not reassigned). No invocation site of the same body may be
// reached, unless the path first passes a select that has a case receiving from a cancellation
// source (`<-ctx.Done()` of a context, or a struct{} channel). Accepted idioms: the result is the
// operand of `return`; `if err := cb(..); err != nil { return err }`; `err = cb(..)` with
// `if err != nil { break }` out of every enclosing loop up to the next site; recording the error
// and cancelling, then looping back to `select { case <-ctx.Done(): return; case x := <-c: .. }`;
// a loop condition `for .. && err == nil`.
//
// Obligations are raised for the enumerations C28 speaks about (aScopeOf: pool-owning streaming
// readers of encoding/ingest/ingest/compact/osm, EachFeature / EachModifiedFeature /
// EachModifiedTag implementations, and every function they hand the callback to); every other
// function with an error-returning callback is analysed the same way and reported as info.
func init() {
	register(&Rule{
		Name:  "STOP-AFTER-ERROR",
		IR:    "cfg",
		Props: []string{"C28"},
		Floor: aStopFloor,
		Doc: "in a function with an error-returning callback parameter, from an invocation of the callback (direct, through a derived closure, or by handing it to a callee) " +
			"whose result is a non-nil error, no further invocation is reachable in the same function body without passing a select that receives from a cancellation source",
		Run: runStopAfterError,
	})
}

// Instances confirmed by hand on the original tree (see the report); set after enumeration.
const aStopFloor = 44

func runStopAfterError(c *Ctx) []Obligation {
	var out []Obligation
	scope := aScopeOf(c)
	for _, e := range scope.enums {
		anchored := scope.why[e.decl] != ""
		byUnit := map[*aUnit][]*aSite{}
		for _, s := range e.sites {
			byUnit[s.unit] = append(byUnit[s.unit], s)
		}
		for _, s := range e.sites {
			ob := Obligation{Key: fmt.Sprintf("%s#%d", e.name, s.ord), Pos: c.Position(s.call.Pos())}
			what := "callback call " + nodeText(c.Fset, s.call)
			if s.delegate {
				what = "call that is handed the callback, " + nodeText(c.Fset, s.call) + ","
			}
			set := func(status, detail string, path []string) {
				ob.Status, ob.Detail, ob.Path = status, detail, path
				if !anchored && status != Info {
					ob.Status = Info
					ob.Detail = "not one of the enumerations C28 speaks about, no obligation; the analysis says " + status + ": " + detail
				}
				out = append(out, ob)
			}
			u := s.unit
			info := u.info()
			node, v, kind := aResultVar(u, s.call)
			if kind == "return" {
				set(OK, fmt.Sprintf("%s in %s is the operand of a return: nothing runs after it in this body", what, e.name), nil)
				continue
			}
			g := u.cfg()
			var loc nodeLoc
			ok := false
			if node != nil {
				loc, ok = findNode(g, s.call)
			}
			if !ok {
				set(Undecided, fmt.Sprintf("%s in %s not found in the control-flow graph", what, e.name), nil)
				continue
			}
			selOf := aSelectOfComm(u.body)
			sites := byUnit[u]
			fl := &aFlow{c: c, info: info, tagless: aTagless(u.body),
				bad: func(n ast.Node) string {
					for _, t := range sites {
						if n.Pos() <= t.call.Pos() && t.call.End() <= n.End() {
							return "invokes the callback again"
						}
					}
					return ""
				},
				stop: func(n ast.Node) bool {
					if sel := selOf[n]; sel != nil {
						return aSelectHasCancel(info, sel)
					}
					return false
				},
			}
			facts := map[types.Object]bool{}
			if v != nil {
				facts[v] = true
			}
			if w := fl.run(loc.b, loc.i+1, facts); w != nil {
				how := "its error result " + aVarName(v)
				if v == nil {
					how = "its result, which is not kept in an error variable,"
				}
				set(Violation, fmt.Sprintf("after %s in %s returned an error (%s), the callback can be invoked again in the same body without passing a cancellation test", what, e.name, how),
					append([]string{"from " + c.Position(s.call.Pos()) + " with a non-nil error"}, w...))
				continue
			}
			set(OK, fmt.Sprintf("after %s in %s returned an error no further invocation is reachable without a cancellation test", what, e.name), nil)
		}
	}
	return out
}

func aVarName(v types.Object) string {
	if v == nil {
		return ""
	}
	return v.Name()
}
