package main

import (
	"fmt"
	"go/ast"
	"go/token"
	"go/types"
	"sort"

	"golang.org/x/tools/go/ssa"
)

// ENV-SWAP (C21). The VM keeps the argument table of the running lambda in VM.Args. A function
// value that was created by partial application remembers the table that was current at
// creation in a field of its own (today partialCall.vmArgs); when the completed call finally
// runs, free variables of lambdas passed as arguments must be read from that captured table.
//
// Subjects, discovered by type: struct types of package api that implement api.Callable and
// have an *environment field* — a field whose type is identical to the type of VM.Args and that
// some composite literal of the type sets from `<vm>.Args`. (partialCall.args has the same type
// but is filled element by element from the stack: not an environment field.)
//
// Instances: in the methods of a subject, every call that *runs the wrapped callable*: a call,
// through a value read from a Callable-typed field of the receiver (also after a type
// assertion), of an api.Callable method that takes a *Context and returns an error
// (CallFromStack), or a call handing such a value to a function with a *Context parameter and
// an error result (VM.CallWithArgs, CallWithArgsAndExpressions, Call0/1/2).
//
// Obligation (save / replace / restore on the field VM.Args, as RESTORE does for map entries):
//   - a store `vm.Args = recv.<env>` dominates the call, and no path from that store to the call
//     passes another store to VM.Args;
//   - a load `saved := vm.Args` dominates that store;
//   - every path from the call to a return of the method passes a store `vm.Args = saved`.
//
// Accepted idioms: the straight-line `oargs := vm.Args; vm.Args = p.vmArgs; r, err :=
// p.c.CallFromStack(…); vm.Args = oargs; return r, err`; the restore may also sit in both arms
// of a branch as long as every return is behind one (a restore inside a deferred function
// literal is not recognised). Methods that only inspect the wrapped callable (NumArgs,
// Expression, String) are not instances.
func init() {
	register(&Rule{
		Name:  "ENV-SWAP",
		IR:    "ssa",
		Props: []string{"C21"},
		Floor: 1, // partialCall.CallFromStack runs p.c once
		Doc: "in the methods of api.Callable implementations that hold a captured VM argument table, every call that runs the wrapped callable is dominated by vm.Args = recv.<env> " +
			"(preceded by a load that saves vm.Args) and is followed on every path to a return by the store that restores the saved table",
		Run: runEnvSwap,
	})
}

func runEnvSwap(c *Ctx) []Obligation {
	api := c.Pkg("api")
	if api == nil {
		return nil
	}
	c.BuildSSA()
	und := func(msg string) []Obligation {
		return []Obligation{{Key: "api.VM", Status: Undecided, Detail: msg}}
	}
	ctn, _ := api.Types.Scope().Lookup("Callable").(*types.TypeName)
	vtn, _ := api.Types.Scope().Lookup("VM").(*types.TypeName)
	xtn, _ := api.Types.Scope().Lookup("Context").(*types.TypeName)
	if ctn == nil || vtn == nil || xtn == nil {
		return und("api.Callable, api.VM or api.Context not found")
	}
	iface, _ := ctn.Type().Underlying().(*types.Interface)
	vmStruct, _ := vtn.Type().Underlying().(*types.Struct)
	if iface == nil || vmStruct == nil {
		return und("api.Callable is not an interface or api.VM is not a struct")
	}
	argsIdx := -1
	for i := 0; i < vmStruct.NumFields(); i++ {
		if vmStruct.Field(i).Name() == "Args" {
			argsIdx = i
		}
	}
	if argsIdx < 0 {
		return und("api.VM has no field Args")
	}
	argsVar := vmStruct.Field(argsIdx)
	envType := argsVar.Type()
	ctxPtr := types.NewPointer(xtn.Type())
	runs := func(sig *types.Signature) bool { // takes *Context, returns an error
		hasCtx, hasErr := false, false
		for i := 0; i < sig.Params().Len(); i++ {
			if types.Identical(sig.Params().At(i).Type(), ctxPtr) {
				hasCtx = true
			}
		}
		for i := 0; i < sig.Results().Len(); i++ {
			if dIsErrorType(sig.Results().At(i).Type()) {
				hasErr = true
			}
		}
		return hasCtx && hasErr
	}

	// subjects and their environment fields
	type subject struct {
		named    *types.Named
		st       *types.Struct
		env      map[int]bool
		callable map[int]bool
	}
	var subjects []*subject
	sc := api.Types.Scope()
	for _, name := range sc.Names() {
		tn, ok := sc.Lookup(name).(*types.TypeName)
		if !ok || tn.IsAlias() {
			continue
		}
		nt, ok := tn.Type().(*types.Named)
		if !ok || nt.TypeParams().Len() > 0 {
			continue
		}
		st, ok := nt.Underlying().(*types.Struct)
		if !ok || !(types.Implements(nt, iface) || types.Implements(types.NewPointer(nt), iface)) {
			continue
		}
		s := &subject{named: nt, st: st, env: map[int]bool{}, callable: map[int]bool{}}
		cand := map[string]int{}
		for i := 0; i < st.NumFields(); i++ {
			if types.Identical(st.Field(i).Type(), envType) {
				cand[st.Field(i).Name()] = i
			}
			if types.Identical(st.Field(i).Type(), ctn.Type()) {
				s.callable[i] = true
			}
		}
		if len(cand) == 0 {
			continue
		}
		// set from <vm>.Args in a composite literal?
		for _, p := range c.SortedPkgs() {
			info := p.TypesInfo
			for _, f := range p.Syntax {
				ast.Inspect(f, func(n ast.Node) bool {
					lit, ok := n.(*ast.CompositeLit)
					if !ok || !types.Identical(types.Unalias(info.TypeOf(lit)), nt) {
						return true
					}
					for _, e := range lit.Elts {
						kv, ok := e.(*ast.KeyValueExpr)
						if !ok {
							continue
						}
						id, ok := kv.Key.(*ast.Ident)
						if !ok {
							continue
						}
						idx, isCand := cand[id.Name]
						if !isCand {
							continue
						}
						if sel, ok := ast.Unparen(kv.Value).(*ast.SelectorExpr); ok {
							if s2 := info.Selections[sel]; s2 != nil && s2.Obj() == types.Object(argsVar) {
								s.env[idx] = true
							}
						}
					}
					return true
				})
			}
		}
		if len(s.env) > 0 {
			subjects = append(subjects, s)
		}
	}

	isArgsAddr := func(v ssa.Value) (*ssa.FieldAddr, bool) {
		fa, ok := v.(*ssa.FieldAddr)
		if !ok || fa.Field != argsIdx {
			return nil, false
		}
		pt, ok := fa.X.Type().Underlying().(*types.Pointer)
		if !ok || !types.Identical(types.Unalias(pt.Elem()), vtn.Type()) {
			return nil, false
		}
		return fa, true
	}

	var sites []dSite
	for _, s := range subjects {
		var methods []*types.Func
		for i := 0; i < s.named.NumMethods(); i++ {
			methods = append(methods, s.named.Method(i))
		}
		sort.Slice(methods, func(i, j int) bool { return methods[i].Name() < methods[j].Name() })
		for _, m := range methods {
			fn := c.SSAFunc(m)
			fd, p := c.Decl(m)
			if fn == nil || len(fn.Blocks) == 0 || len(fn.Params) == 0 || fd == nil {
				continue
			}
			declName := c.FuncName(p, fd)
			recv := fn.Params[0]
			// values read from a Callable field of the receiver (also through assertions)
			wrapped := map[ssa.Value]bool{}
			envLoad := map[ssa.Value]bool{}
			var grow func(v ssa.Value)
			grow = func(v ssa.Value) {
				if wrapped[v] {
					return
				}
				wrapped[v] = true
				if v.Referrers() == nil {
					return
				}
				for _, r := range *v.Referrers() {
					switch x := r.(type) {
					case *ssa.TypeAssert:
						grow(x)
					case *ssa.Extract:
						if x.Index == 0 {
							grow(x)
						}
					case *ssa.ChangeInterface:
						grow(x)
					case *ssa.Phi:
						grow(x)
					}
				}
			}
			for _, b := range fn.Blocks {
				for _, in := range b.Instrs {
					fa, ok := in.(*ssa.FieldAddr)
					if !ok || fa.X != ssa.Value(recv) || fa.Referrers() == nil {
						continue
					}
					for _, r := range *fa.Referrers() {
						if ld, ok := r.(*ssa.UnOp); ok && ld.Op == token.MUL {
							if s.callable[fa.Field] {
								grow(ld)
							}
							if s.env[fa.Field] {
								envLoad[ld] = true
							}
						}
					}
				}
			}
			seq := 0
			for _, b := range fn.Blocks {
				for _, in := range b.Instrs {
					call, ok := in.(ssa.CallInstruction)
					if !ok {
						continue
					}
					com := call.Common()
					isRun := false
					if com.IsInvoke() {
						isRun = wrapped[com.Value] && runs(com.Method.Type().(*types.Signature))
					} else if callee := com.StaticCallee(); callee != nil && runs(callee.Signature) {
						for _, a := range com.Args {
							if wrapped[a] {
								isRun = true
							}
						}
					}
					if !isRun {
						continue
					}
					seq++
					site := dSite{decl: declName, pos: dInstrPos(in), seq: seq}
					dEnvSwapCheck(c, fn, in, envLoad, isArgsAddr, s.named.Obj().Name(), &site)
					sites = append(sites, site)
				}
			}
		}
	}
	return dObligations(c, sites)
}

func dEnvSwapCheck(c *Ctx, fn *ssa.Function, call ssa.Instruction, envLoad map[ssa.Value]bool, isArgsAddr func(ssa.Value) (*ssa.FieldAddr, bool), tname string, s *dSite) {
	what := fmt.Sprintf("call at %s runs the callable wrapped by %s", c.Position(dInstrPos(call)), tname)
	// all stores to VM.Args in the method
	var stores []*ssa.Store
	for _, b := range fn.Blocks {
		for _, in := range b.Instrs {
			if st, ok := in.(*ssa.Store); ok {
				if _, ok := isArgsAddr(st.Addr); ok {
					stores = append(stores, st)
				}
			}
		}
	}
	// install: vm.Args = recv.env, dominating the call, last store before it
	var install *ssa.Store
	for _, st := range stores {
		if envLoad[st.Val] && dBefore(st, call) {
			install = st
		}
	}
	if install == nil {
		s.status = Violation
		s.detail = what + " but no store of the captured table (vm.Args = recv.<environment field>) dominates it: the callable runs against the caller's current argument table"
		s.path = []string{"method " + fn.String(), "call " + c.Position(dInstrPos(call)) + ": " + call.String()}
		return
	}
	isStore := func(in ssa.Instruction) bool {
		st, ok := in.(*ssa.Store)
		if !ok {
			return false
		}
		_, ok = isArgsAddr(st.Addr)
		return ok
	}
	// another store to VM.Args between the install and the call: reachable from the install
	// without passing the call, and the call reachable from it
	for _, st := range stores {
		if st == install || !isStore(st) {
			continue
		}
		if dReaches(install, st, call) && dReaches(st, call, nil) {
			s.status = Violation
			s.detail = what + "; vm.Args = recv.<env> at " + c.Position(dInstrPos(install)) + " is overwritten at " + c.Position(dInstrPos(st)) + " before the call on some path"
			s.path = []string{"install " + c.Position(dInstrPos(install)), "other store " + c.Position(dInstrPos(st)) + ": " + st.String(), "call " + c.Position(dInstrPos(call))}
			return
		}
	}
	// save: a load of vm.Args dominating the install
	var saved ssa.Value
	for _, b := range fn.Blocks {
		for _, in := range b.Instrs {
			ld, ok := in.(*ssa.UnOp)
			if !ok || ld.Op != token.MUL {
				continue
			}
			if _, ok := isArgsAddr(ld.X); ok && dBefore(ld, install) {
				// must be the value some later store puts back
				for _, st := range stores {
					if st.Val == ssa.Value(ld) {
						saved = ld
					}
				}
			}
		}
	}
	if saved == nil {
		s.status = Violation
		s.detail = what + " after vm.Args = recv.<env> at " + c.Position(dInstrPos(install)) + ", but the previous table is never saved and stored back"
		return
	}
	// restore on every path from the call to a return
	w := dPathAvoiding(c, call, func(in ssa.Instruction) (bool, bool) {
		if st, ok := in.(*ssa.Store); ok && st.Val == saved {
			if _, ok := isArgsAddr(st.Addr); ok {
				return false, true
			}
		}
		_, isRet := in.(*ssa.Return)
		return isRet, false
	}, false)
	if w != nil {
		s.status = Violation
		s.detail = what + " with the captured table installed at " + c.Position(dInstrPos(install)) + ", but a path reaches a return without restoring the saved table (vm.Args = saved)"
		s.path = w
		return
	}
	s.status = OK
	s.detail = fmt.Sprintf("%s: table saved at %s, captured table installed at %s, restored on every path to a return", what, c.Position(dInstrPos(saved.(ssa.Instruction))), c.Position(dInstrPos(install)))
}

// dPathAvoiding searches forward from just after `from`. visit(in) returns (bad, stop): bad
// makes the path a witness (returned as a trail), stop discharges the path.
func dPathAvoiding(c *Ctx, from ssa.Instruction, visit func(ssa.Instruction) (bool, bool), _ bool) []string {
	type item struct {
		b     *ssa.BasicBlock
		start int
		trail []string
	}
	seen := map[*ssa.BasicBlock]bool{}
	work := []item{{from.Block(), dInstrIndex(from) + 1, nil}}
	for len(work) > 0 {
		it := work[0]
		work = work[1:]
		stopped := false
		for i := it.start; i < len(it.b.Instrs); i++ {
			bad, stop := visit(it.b.Instrs[i])
			if bad {
				return append(append([]string{"from " + c.Position(dInstrPos(from))}, it.trail...), "reaches "+c.Position(dInstrPos(it.b.Instrs[i]))+": "+it.b.Instrs[i].String())
			}
			if stop {
				stopped = true
				break
			}
		}
		if stopped {
			continue
		}
		for _, sb := range it.b.Succs {
			if seen[sb] {
				continue
			}
			seen[sb] = true
			work = append(work, item{sb, 0, append(append([]string(nil), it.trail...), fmt.Sprintf("block %d (%s) near %s", sb.Index, sb.Comment, c.Position(dInstrPos(sb.Instrs[0]))))})
		}
	}
	return nil
}

// dReaches: some control-flow path leads from just after `from` to `to` without executing
// `avoid` (nil: no restriction).
func dReaches(from, to, avoid ssa.Instruction) bool {
	type item struct {
		b     *ssa.BasicBlock
		start int
	}
	seen := map[*ssa.BasicBlock]bool{}
	work := []item{{from.Block(), dInstrIndex(from) + 1}}
	for len(work) > 0 {
		it := work[0]
		work = work[1:]
		blocked := false
		for i := it.start; i < len(it.b.Instrs); i++ {
			in := it.b.Instrs[i]
			if in == to {
				return true
			}
			if avoid != nil && in == avoid {
				blocked = true
				break
			}
		}
		if blocked {
			continue
		}
		for _, sb := range it.b.Succs {
			if !seen[sb] {
				seen[sb] = true
				work = append(work, item{sb, 0})
			}
		}
	}
	return false
}
