package main

import (
	"fmt"
	"go/ast"
	"go/types"
	"os"
	"path/filepath"
	"regexp"
	"strings"
)

// GRAMMAR-OPS (C20): three tables have to agree for a printed tag query to parse back: the printer
// (`unparseQuery`: an intersection is joined with " & ", a union with " | "), the reducers
// (`reduceAnd` builds b6.Intersection, `reduceOr` builds b6.Union) and the grammar, which says which
// reducer a production with the token '&' or '|' calls. The grammar is written in api/shell.y and
// compiled by hand into api/y.go (goyacc is not part of the build), so the third table exists
// twice.
//
// Discovery: the type each reducer builds is read from its body (the composite literal of a query
// type); the operator the printer writes for a type is read from the string literals in the arm of
// the printer's type switch for that type; the productions are read from shell.y as text
// (`lhs 'op' rhs` followed by an action that calls a reducer); the reducer calls of y.go are read
// from its syntax tree. Obligations: (1) per production with a query operator token: the reducer
// its action calls builds the type the printer writes that operator for; (2) the sequence of
// query-operator reducers called by the actions of y.go equals the sequence in shell.y.
func init() {
	register(&Rule{
		Name:  "GRAMMAR-OPS",
		IR:    "ast",
		Props: []string{"C20"},
		Floor: 5,
		Doc:   "the query operators agree between printer, grammar and reducers: a production with '&' calls the reducer that builds the type the printer joins with &, likewise for '|'; and the generated parser calls these reducers in the same order as the grammar file",
		Run:   runGrammarOps,
	})
}

func runGrammarOps(c *Ctx) []Obligation {
	var out []Obligation
	p := c.Pkg("api")
	if p == nil {
		return out
	}
	info := p.TypesInfo
	queryIface := func(t types.Type) bool {
		n := namedOf(t)
		return n != nil && n.Obj().Pkg() != nil && n.Obj().Pkg().Path() == ModulePath && (n.Obj().Name() == "Intersection" || n.Obj().Name() == "Union")
	}
	// reducers: function -> query type built
	builds := map[string]string{}
	for _, fd := range c.FuncDecls(p) {
		if fd.Recv != nil || fd.Body == nil || !strings.HasPrefix(fd.Name.Name, "reduce") {
			continue
		}
		ast.Inspect(fd.Body, func(n ast.Node) bool {
			if cl, ok := n.(*ast.CompositeLit); ok && queryIface(info.TypeOf(cl)) {
				builds[fd.Name.Name] = namedOf(info.TypeOf(cl)).Obj().Name()
			}
			return true
		})
	}
	// printer: type -> operator
	prints := map[string]string{}
	for _, fd := range c.FuncDecls(p) {
		if fd.Body == nil {
			continue
		}
		ast.Inspect(fd.Body, func(n ast.Node) bool {
			cc, ok := n.(*ast.CaseClause)
			if !ok {
				return true
			}
			for _, e := range cc.List {
				tv, ok := info.Types[e]
				if !ok || !tv.IsType() || !queryIface(tv.Type) {
					continue
				}
				name := namedOf(tv.Type).Obj().Name()
				for _, st := range cc.Body {
					ast.Inspect(st, func(m ast.Node) bool {
						if bl, ok := m.(*ast.BasicLit); ok {
							switch strings.TrimSpace(strings.Trim(bl.Value, "\"`")) {
							case "&", "|":
								prints[name] = strings.TrimSpace(strings.Trim(bl.Value, "\"`"))
							}
						}
						return true
					})
				}
			}
			return true
		})
	}
	// grammar file
	src, err := os.ReadFile(filepath.Join(c.Root, "api", "shell.y"))
	if err != nil {
		return []Obligation{{Key: "api/shell.y", Pos: "api/shell.y:1", Status: Undecided, Detail: "the grammar file cannot be read: " + err.Error()}}
	}
	prod := regexp.MustCompile(`^\s*\|?\s*(\w+\s*:)?\s*(\w+)\s+'([&|])'\s+(\w+)\s*$`)
	act := regexp.MustCompile(`\b(reduce\w+)\(`)
	var grammarSeq []string
	lines := strings.Split(string(src), "\n")
	n := 0
	for i, line := range lines {
		m := prod.FindStringSubmatch(line)
		if m == nil || !strings.Contains(m[2]+m[4], "query") {
			continue
		}
		op := m[3]
		reducer := ""
		for j := i + 1; j < len(lines) && j < i+6; j++ {
			if a := act.FindStringSubmatch(lines[j]); a != nil {
				reducer = a[1]
				break
			}
		}
		n++
		ob := Obligation{Key: fmt.Sprintf("api/shell.y#%d", n), Pos: fmt.Sprintf("api/shell.y:%d", i+1), Status: OK}
		built := builds[reducer]
		switch {
		case reducer == "" || built == "":
			ob.Status = Undecided
			ob.Detail = fmt.Sprintf("production `%s`: no reducer of a query type found in its action", strings.TrimSpace(line))
		case prints[built] != op:
			ob.Status = Violation
			ob.Detail = fmt.Sprintf("production `%s` calls %s, which builds b6.%s; the printer writes b6.%s with %q, so text printed with %q parses back as the other operator", strings.TrimSpace(line), reducer, built, built, prints[built], op)
		default:
			ob.Detail = fmt.Sprintf("production `%s` calls %s, which builds b6.%s, printed with %q", strings.TrimSpace(line), reducer, built, op)
		}
		grammarSeq = append(grammarSeq, reducer)
		out = append(out, ob)
	}
	// the generated parser
	var parserSeq []string
	// (generated files are skipped by FuncDecls; y.go carries //line directives, so the unadjusted
	// file name is used)
	for _, f := range p.Syntax {
		if !strings.HasSuffix(c.Fset.PositionFor(f.Pos(), false).Filename, "y.go") {
			continue
		}
		ast.Inspect(f, func(m ast.Node) bool {
			if call, ok := m.(*ast.CallExpr); ok {
				if id, ok := ast.Unparen(call.Fun).(*ast.Ident); ok && builds[id.Name] != "" {
					parserSeq = append(parserSeq, id.Name)
				}
			}
			return true
		})
	}
	ob := Obligation{Key: "api/y.go#sequence", Pos: "api/y.go:1", Status: OK,
		Detail: fmt.Sprintf("the generated parser calls the query-operator reducers in the grammar file's order: %s", strings.Join(parserSeq, ", "))}
	if strings.Join(parserSeq, ",") != strings.Join(grammarSeq, ",") {
		ob.Status = Violation
		ob.Detail = fmt.Sprintf("the actions of api/y.go call %s where api/shell.y has %s: the compiled parser and the grammar it is said to come from disagree", strings.Join(parserSeq, ", "), strings.Join(grammarSeq, ", "))
	}
	out = append(out, ob)
	return out
}
