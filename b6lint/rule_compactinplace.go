package main

import (
	"fmt"
	"go/ast"
	"go/token"
	"go/types"
	"strings"
)

// COMPACT-IN-PLACE (C01): the two-index in-place filter idiom copies kept elements forwards.
//
// Slots, discovered by shape in every module package (function declarations and literals; one
// instance per (loop, write index), keyed unit#ordinal): a for/range loop L, an integer local W
// declared before L that inside L is only ever incremented (`W++`, `W += 1`), and after L a
// truncation of a slice X to W elements, `X[:W]` / `X[0:W]` (typically `X = X[0:W]`). L must walk
// X: it ranges over X, or X is indexed inside L by the *read index* R -- the range key, the
// counter of a three-clause loop, or (for `for R < len(X) {...}`) an integer local other than W
// that indexes X and is incremented in the body.
// Today: compact.(*Validator).validateQueue (anchored, C01); b6.(*mergedFeatures).Next and the
// de-duplication in search.(*ArrayIndex).Finish$1 (other packages: reported as info with the
// same verdict text).
//
// Obligations:
//  1. every assignment inside L whose target is an element of X (`X[i] = ...`, `X[i].f = ...`)
//     is indexed by exactly W; a target indexed by R or by anything that does not mention W
//     is a violation (the reversed copy `X[R] = X[W]` overwrites an element not yet examined);
//  2. the value stored reads the current element: it mentions X[R] or the range value variable
//     (possibly through a local defined once from it inside the loop); reading X at another
//     index is a violation;
//     the element at the write index is never read inside L (`fs = append(fs, X[W])` hands on an
//     element examined earlier, not the current one);
//  3. every increment of W is preceded, in its own statement list, by the copy of the kept
//     element `X[W] = ...`, either bare or as the only statement of a guard that skips the copy
//     when nothing has been dropped yet (`if W != R`, `if R != W`, `if W < R`, `if R > W`);
//  4. for a condition-only loop, R advances on every path through the body (a top-level `R++`,
//     or an if/else or switch-with-default whose every arm advances it) and no `continue`
//     short-cuts it.
//
// Undecided: W assigned otherwise inside L, W incremented inside a nested loop or literal, a
// target index that mentions W in arithmetic (`X[W-1]`), a stored value whose origin is not
// recognised, no identifiable read index, `continue` in a condition-only loop.
func init() {
	register(&Rule{
		Name:  "COMPACT-IN-PLACE",
		IR:    "ast",
		Props: []string{"C01", "C37"},
		Floor: 1, // compact.(*Validator).validateQueue; instances outside ingest/compact and encoding are info
		Doc: "in a loop that filters a slice in place with a read index and a write index (the write index only incremented in the loop and used afterwards to truncate the slice), " +
			"every element store inside the loop has the form X[write] = <value read from X[read] or the range value>, every increment of the write index is preceded by that copy " +
			"(the copy may be skipped when write == read), and the read index advances on every path",
		Run: runCompactInPlace,
	})
}

type cipInst struct {
	loop  ast.Stmt
	body  *ast.BlockStmt
	w     types.Object
	x     ast.Expr // the compacted slice, as written in the truncation
	trunc *ast.SliceExpr
}

func cipIsInc(info *types.Info, st ast.Stmt, obj types.Object) bool {
	switch s := st.(type) {
	case *ast.IncDecStmt:
		id, ok := ast.Unparen(s.X).(*ast.Ident)
		return ok && s.Tok == token.INC && info.ObjectOf(id) == obj
	case *ast.AssignStmt:
		if s.Tok == token.ADD_ASSIGN && len(s.Lhs) == 1 && len(s.Rhs) == 1 {
			id, ok := ast.Unparen(s.Lhs[0]).(*ast.Ident)
			if ok && info.ObjectOf(id) == obj {
				tv := info.Types[s.Rhs[0]]
				return tv.Value != nil && tv.Value.ExactString() == "1"
			}
		}
	}
	return false
}

// cipWrites: does the statement assign obj in any way (including inc/dec)?
func cipWrites(info *types.Info, n ast.Node, obj types.Object) bool {
	switch s := n.(type) {
	case *ast.IncDecStmt:
		id, ok := ast.Unparen(s.X).(*ast.Ident)
		return ok && info.ObjectOf(id) == obj
	case *ast.AssignStmt:
		for _, l := range s.Lhs {
			if id, ok := ast.Unparen(l).(*ast.Ident); ok && info.ObjectOf(id) == obj {
				return true
			}
		}
	}
	return false
}

func cipSameSlice(info *types.Info, a, b ast.Expr) bool {
	return sameExpr(info, bStripStarParen(a), bStripStarParen(b))
}

// cipElemTarget: if e is X[i] or a field path below it, return the index expression.
func cipElemTarget(info *types.Info, e ast.Expr, x ast.Expr) (ast.Expr, bool) {
	for {
		switch y := ast.Unparen(e).(type) {
		case *ast.IndexExpr:
			if cipSameSlice(info, y.X, x) {
				return y.Index, true
			}
			e = y.X
		case *ast.SelectorExpr:
			e = y.X
		case *ast.StarExpr:
			e = y.X
		default:
			return nil, false
		}
	}
}

func cipIsIdent(info *types.Info, e ast.Expr, obj types.Object) bool {
	id, ok := ast.Unparen(e).(*ast.Ident)
	return ok && obj != nil && info.ObjectOf(id) == obj
}

func cipMentions(info *types.Info, n ast.Node, obj types.Object) bool {
	if obj == nil || n == nil {
		return false
	}
	return dsMentions(info, n, map[types.Object]bool{obj: true})
}

func runCompactInPlace(c *Ctx) []Obligation {
	var out []Obligation
	for _, p := range c.SortedPkgs() {
		anchored := false
		for _, cp := range bCodecPkgs(c) {
			if cp == p {
				anchored = true
			}
		}
		info := p.TypesInfo
		for _, u := range c.units(p, true) {
			// loops of the unit itself
			var loops []ast.Stmt
			inspectShallow(u.body, func(n ast.Node) bool {
				switch n.(type) {
				case *ast.ForStmt, *ast.RangeStmt:
					loops = append(loops, n.(ast.Stmt))
				}
				return true
			})
			ord := 0
			for _, l := range loops {
				var body *ast.BlockStmt
				switch x := l.(type) {
				case *ast.ForStmt:
					body = x.Body
				case *ast.RangeStmt:
					body = x.Body
				}
				// integer locals declared before the loop and incremented inside it
				var cands []types.Object
				seen := map[types.Object]bool{}
				inspectShallow(body, func(n ast.Node) bool {
					st, ok := n.(ast.Stmt)
					if !ok {
						return true
					}
					var id *ast.Ident
					switch s := st.(type) {
					case *ast.IncDecStmt:
						id, _ = ast.Unparen(s.X).(*ast.Ident)
					case *ast.AssignStmt:
						if s.Tok == token.ADD_ASSIGN && len(s.Lhs) == 1 {
							id, _ = ast.Unparen(s.Lhs[0]).(*ast.Ident)
						}
					}
					if id == nil {
						return true
					}
					obj := info.ObjectOf(id)
					v, isVar := obj.(*types.Var)
					if !isVar || v.IsField() || seen[obj] || !bUnnamedInteger(obj.Type()) {
						return true
					}
					if obj.Pos() >= l.Pos() || obj.Pos() < u.body.Pos() {
						return true // declared by/inside the loop, or a parameter / outer variable
					}
					if cipIsInc(info, st, obj) {
						seen[obj] = true
						cands = append(cands, obj)
					}
					return true
				})
				for _, w := range cands {
					// truncation after the loop
					var trunc *ast.SliceExpr
					inspectShallow(u.body, func(n ast.Node) bool {
						se, ok := n.(*ast.SliceExpr)
						if !ok || trunc != nil || se.Pos() < l.End() || se.Slice3 || !cipIsIdent(info, se.High, w) {
							return true
						}
						if se.Low != nil && !raIsZero(info, se.Low) {
							return true
						}
						if _, isSlice := info.TypeOf(se.X).Underlying().(*types.Slice); isSlice {
							trunc = se
						}
						return true
					})
					if trunc == nil {
						continue
					}
					x := trunc.X
					// the loop must walk X
					walks := false
					if rs, ok := l.(*ast.RangeStmt); ok && cipSameSlice(info, rs.X, x) {
						walks = true
					}
					ast.Inspect(l, func(n ast.Node) bool {
						if ix, ok := n.(*ast.IndexExpr); ok && cipSameSlice(info, ix.X, x) {
							walks = true
						}
						return !walks
					})
					if !walks {
						continue
					}
					ord++
					ob := Obligation{Key: fmt.Sprintf("%s#%d", u.name, ord), Pos: c.Position(l.Pos())}
					cipCheck(c, info, u, cipInst{l, body, w, x, trunc}, &ob)
					if !anchored {
						ob.Detail = "[" + ob.Status + "] " + ob.Detail
						ob.Status = Info
					}
					out = append(out, ob)
				}
			}
		}
	}
	return out
}

func cipCheck(c *Ctx, info *types.Info, u funcUnit, in cipInst, ob *Obligation) {
	xs := types.ExprString(in.x)
	what := fmt.Sprintf("in-place compaction of %s (write index %s, truncated at %s)", xs, in.w.Name(), c.Position(in.trunc.Pos()))
	var violations, undecided []string

	// W is only incremented inside the loop, at the loop's own nesting level (not in nested loops)
	ast.Inspect(in.body, func(n ast.Node) bool {
		if n == nil {
			return true
		}
		if cipWrites(info, n, in.w) {
			st := n.(ast.Stmt)
			if !cipIsInc(info, st, in.w) {
				undecided = append(undecided, fmt.Sprintf("%s: the write index is assigned other than by increment (`%s`)", c.Position(n.Pos()), nodeText(c.Fset, n)))
			}
		}
		return true
	})

	// the read index
	var r, val types.Object
	condOnly := false
	switch l := in.loop.(type) {
	case *ast.RangeStmt:
		if cipSameSlice(info, l.X, in.x) {
			if id, ok := l.Key.(*ast.Ident); ok && id.Name != "_" {
				r = info.ObjectOf(id)
			}
			if id, ok := l.Value.(*ast.Ident); ok && id.Name != "_" {
				val = info.ObjectOf(id)
			}
		}
	case *ast.ForStmt:
		if l.Post != nil {
			// three-clause: the variable stepped by the post statement
			ast.Inspect(l.Post, func(n ast.Node) bool {
				if id, ok := n.(*ast.Ident); ok && r == nil {
					if o, ok := info.ObjectOf(id).(*types.Var); ok && cipWrites(info, l.Post, o) {
						r = o
					}
				}
				return true
			})
		} else {
			condOnly = true
		}
	}
	if r == nil && val == nil {
		// an integer local other than W that indexes X and is incremented in the body
		var cands []types.Object
		ast.Inspect(in.loop, func(n ast.Node) bool {
			ix, ok := n.(*ast.IndexExpr)
			if !ok || !cipSameSlice(info, ix.X, in.x) {
				return true
			}
			id, ok := ast.Unparen(ix.Index).(*ast.Ident)
			if !ok {
				return true
			}
			o := info.ObjectOf(id)
			if o == nil || o == in.w {
				return true
			}
			for _, k := range cands {
				if k == o {
					return true
				}
			}
			incremented := false
			ast.Inspect(in.body, func(m ast.Node) bool {
				if st, ok := m.(ast.Stmt); ok && cipIsInc(info, st, o) {
					incremented = true
				}
				return !incremented
			})
			if incremented {
				cands = append(cands, o)
			}
			return true
		})
		if len(cands) == 1 {
			r = cands[0]
		}
	}
	if r == nil && val == nil {
		undecided = append(undecided, "no read index (range key/value, loop counter, or an incremented local indexing the slice) could be identified")
	}

	// 4. the read index advances on every path of a condition-only loop
	if condOnly && r != nil {
		var advances func(list []ast.Stmt) bool
		advances = func(list []ast.Stmt) bool {
			for _, st := range list {
				switch s := st.(type) {
				case *ast.IncDecStmt, *ast.AssignStmt:
					if cipIsInc(info, s, r) {
						return true
					}
				case *ast.BlockStmt:
					if advances(s.List) {
						return true
					}
				case *ast.IfStmt:
					if s.Else != nil && advances(s.Body.List) {
						switch e := s.Else.(type) {
						case *ast.BlockStmt:
							if advances(e.List) {
								return true
							}
						case *ast.IfStmt:
							if advances([]ast.Stmt{e}) {
								return true
							}
						}
					}
				case *ast.SwitchStmt:
					all, hasDefault := true, false
					for _, cl := range s.Body.List {
						cc := cl.(*ast.CaseClause)
						if cc.List == nil {
							hasDefault = true
						}
						if !advances(cc.Body) {
							all = false
						}
					}
					if all && hasDefault {
						return true
					}
				}
			}
			return false
		}
		if !advances(in.body.List) {
			undecided = append(undecided, fmt.Sprintf("the read index %s does not visibly advance on every path through the loop body", r.Name()))
		}
		inspectShallow(in.body, func(n ast.Node) bool {
			switch s := n.(type) {
			case *ast.ForStmt, *ast.RangeStmt:
				return false // continue inside belongs to the inner loop
			case *ast.BranchStmt:
				if s.Tok == token.CONTINUE {
					undecided = append(undecided, fmt.Sprintf("%s: `continue` in a condition-only loop may skip the advance of the read index", c.Position(s.Pos())))
				}
			}
			return true
		})
	}

	readsCurrent := func(e ast.Expr, depth int) (ok bool, other string) {
		var check func(n ast.Node, depth int)
		check = func(n ast.Node, depth int) {
			ast.Inspect(n, func(m ast.Node) bool {
				switch y := m.(type) {
				case *ast.IndexExpr:
					if cipSameSlice(info, y.X, in.x) {
						if cipIsIdent(info, y.Index, r) {
							ok = true
						} else if other == "" {
							other = types.ExprString(y)
						}
					}
				case *ast.Ident:
					o := info.ObjectOf(y)
					if o == nil {
						return true
					}
					if val != nil && o == val {
						ok = true
					} else if depth < 2 && o.Pos() > in.body.Pos() && o.Pos() < in.body.End() {
						// a local of the loop body defined once: look through it
						var defs []ast.Expr
						inspectShallow(in.body, func(k ast.Node) bool {
							if as, isAs := k.(*ast.AssignStmt); isAs && len(as.Lhs) == len(as.Rhs) {
								for i, lh := range as.Lhs {
									if li, isId := lh.(*ast.Ident); isId && info.ObjectOf(li) == o {
										defs = append(defs, as.Rhs[i])
									}
								}
							}
							return true
						})
						if len(defs) == 1 {
							check(defs[0], depth+1)
						}
					}
				}
				return true
			})
		}
		check(e, depth)
		return
	}

	// 1./2. element stores
	type store struct {
		stmt *ast.AssignStmt
		good bool
	}
	var stores []store
	ast.Inspect(in.body, func(n ast.Node) bool {
		if _, isLit := n.(*ast.FuncLit); isLit {
			return false
		}
		as, ok := n.(*ast.AssignStmt)
		if !ok {
			return true
		}
		for i, lhs := range as.Lhs {
			idx, ok := cipElemTarget(info, lhs, in.x)
			if !ok {
				continue
			}
			where := c.Position(as.Pos())
			text := nodeText(c.Fset, as)
			good := true
			switch {
			case cipIsIdent(info, idx, in.w):
			case r != nil && cipIsIdent(info, idx, r):
				good = false
				violations = append(violations, fmt.Sprintf("%s: `%s` stores into the element at the read index %s instead of the write index %s: an element that has not been examined yet is overwritten and the kept one is lost", where, text, r.Name(), in.w.Name()))
			case cipMentions(info, idx, in.w):
				good = false
				undecided = append(undecided, fmt.Sprintf("%s: `%s` stores at an index computed from the write index", where, text))
			default:
				good = false
				violations = append(violations, fmt.Sprintf("%s: `%s` stores into %s at an index that is not the write index %s", where, text, xs, in.w.Name()))
			}
			if good {
				var rhs ast.Expr
				if len(as.Lhs) == len(as.Rhs) {
					rhs = as.Rhs[i]
				}
				if rhs == nil {
					good = false
					undecided = append(undecided, fmt.Sprintf("%s: the value stored by `%s` comes from a multi-value call", where, text))
				} else if ok, other := readsCurrent(rhs, 0); !ok {
					good = false
					if other != "" {
						violations = append(violations, fmt.Sprintf("%s: `%s` copies %s, not the current element (read index %s)", where, text, other, cipName(r, val)))
					} else {
						undecided = append(undecided, fmt.Sprintf("%s: the value stored by `%s` is not recognisably the current element", where, text))
					}
				}
			}
			stores = append(stores, store{as, good})
		}
		return true
	})

	// 2b. the element at the write index is only ever a copy target: reading X[W] inside the loop
	// (handing it on, testing it) takes an element that has already been dealt with — or, before
	// anything was dropped, happens to be the current one, which is why it goes unnoticed
	ast.Inspect(in.body, func(n ast.Node) bool {
		if as, ok := n.(*ast.AssignStmt); ok {
			for _, r := range as.Rhs {
				ast.Inspect(r, func(m ast.Node) bool {
					if ix, ok := m.(*ast.IndexExpr); ok && cipSameSlice(info, ix.X, in.x) {
						if id, ok := ast.Unparen(ix.Index).(*ast.Ident); ok && info.ObjectOf(id) == types.Object(in.w) {
							violations = append(violations, fmt.Sprintf("%s: `%s` reads %s at the write index %s: that slot holds an element examined earlier, not the current one", c.Position(ix.Pos()), nodeText(c.Fset, as), xs, in.w.Name()))
						}
					}
					return true
				})
			}
			return false
		}
		if call, ok := n.(*ast.CallExpr); ok {
			// a comparison of the current element with the last one kept (de-duplication) reads both
			alsoCurrent := false
			for _, a := range call.Args {
				if ix, ok := ast.Unparen(a).(*ast.IndexExpr); ok && cipSameSlice(info, ix.X, in.x) {
					if id, ok := ast.Unparen(ix.Index).(*ast.Ident); ok && info.ObjectOf(id) != types.Object(in.w) {
						alsoCurrent = true
					}
				}
			}
			for _, a := range call.Args {
				if alsoCurrent {
					break
				}
				if ix, ok := ast.Unparen(a).(*ast.IndexExpr); ok && cipSameSlice(info, ix.X, in.x) {
					if id, ok := ast.Unparen(ix.Index).(*ast.Ident); ok && info.ObjectOf(id) == types.Object(in.w) {
						violations = append(violations, fmt.Sprintf("%s: `%s` reads %s at the write index %s: that slot holds an element examined earlier, not the current one", c.Position(ix.Pos()), nodeText(c.Fset, call), xs, in.w.Name()))
					}
				}
			}
		}
		return true
	})

	// 3. every increment of W is preceded by the copy
	isCopy := func(st ast.Stmt) bool {
		match := func(s ast.Stmt) bool {
			as, ok := s.(*ast.AssignStmt)
			if !ok {
				return false
			}
			for _, k := range stores {
				if k.stmt == as && k.good {
					return true
				}
			}
			return false
		}
		if match(st) {
			return true
		}
		ifs, ok := st.(*ast.IfStmt)
		if !ok || ifs.Else != nil || ifs.Init != nil || len(ifs.Body.List) != 1 || !match(ifs.Body.List[0]) || r == nil {
			return false
		}
		be, ok := ast.Unparen(ifs.Cond).(*ast.BinaryExpr)
		if !ok {
			return false
		}
		wx, rx := cipIsIdent(info, be.X, in.w), cipIsIdent(info, be.X, r)
		wy, ry := cipIsIdent(info, be.Y, in.w), cipIsIdent(info, be.Y, r)
		switch be.Op {
		case token.NEQ:
			return (wx && ry) || (rx && wy)
		case token.LSS:
			return wx && ry
		case token.GTR:
			return rx && wy
		}
		return false
	}
	var visit func(list []ast.Stmt, nested bool)
	visit = func(list []ast.Stmt, nested bool) {
		for i, st := range list {
			if cipIsInc(info, st, in.w) {
				if nested {
					undecided = append(undecided, fmt.Sprintf("%s: the write index is incremented inside a nested loop", c.Position(st.Pos())))
					continue
				}
				copied := false
				for _, prev := range list[:i] {
					if isCopy(prev) {
						copied = true
					}
				}
				if !copied {
					violations = append(violations, fmt.Sprintf("%s: the write index %s advances without the kept element having been copied to %s[%s] before it in the same block", c.Position(st.Pos()), in.w.Name(), xs, in.w.Name()))
				}
				continue
			}
			switch s := st.(type) {
			case *ast.BlockStmt:
				visit(s.List, nested)
			case *ast.IfStmt:
				visit(s.Body.List, nested)
				if s.Else != nil {
					visit([]ast.Stmt{s.Else}, nested)
				}
			case *ast.SwitchStmt:
				for _, cl := range s.Body.List {
					visit(cl.(*ast.CaseClause).Body, nested)
				}
			case *ast.TypeSwitchStmt:
				for _, cl := range s.Body.List {
					visit(cl.(*ast.CaseClause).Body, nested)
				}
			case *ast.SelectStmt:
				for _, cl := range s.Body.List {
					visit(cl.(*ast.CommClause).Body, nested)
				}
			case *ast.LabeledStmt:
				visit([]ast.Stmt{s.Stmt}, nested)
			case *ast.ForStmt:
				visit(s.Body.List, true)
			case *ast.RangeStmt:
				visit(s.Body.List, true)
			}
		}
	}
	visit(in.body.List, false)

	switch {
	case len(violations) > 0:
		ob.Status = Violation
		ob.Detail = what + ": " + strings.Join(violations, "; ")
		ob.Path = violations
	case len(undecided) > 0:
		ob.Status = Undecided
		ob.Detail = what + ": " + strings.Join(undecided, "; ")
	default:
		ob.Status = OK
		ob.Detail = fmt.Sprintf("%s: every store is %s[%s] = <current element (%s)>, and every %s++ follows that copy", what, xs, in.w.Name(), cipName(r, val), in.w.Name())
	}
	_ = u
}

func cipName(r, val types.Object) string {
	switch {
	case r != nil && val != nil:
		return r.Name() + "/" + val.Name()
	case r != nil:
		return r.Name()
	case val != nil:
		return val.Name()
	}
	return "?"
}
