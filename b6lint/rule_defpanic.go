package main

import (
	"fmt"
	"go/token"
	"go/types"

	"golang.org/x/tools/go/ssa"
)

// DEFPANIC (C01 for ingest/compact and encoding; C21 for the file of package api that declares
// the VM; C23 for api, api/functions, grpc and the proto-importing files of the root package).
// Constructs that panic whenever they are executed.
//
// (a) Index into a slice whose length is statically zero. Instances: every creation of a
// zero-length slice value — `x[0:0]`, `x[:0]` (ssa.Slice with constant high bound 0) and
// `make(T, 0, n)` (ssa.MakeSlice with constant length 0). For each one the rule follows the
// value itself (SSA values are immutable: `append` yields a new value, so "no append in
// between" is value identity, also through a conversion) and, when it is stored into a struct
// field (`p.F = p.F[0:0]`, in SSA a store to &p.F), every later load of the same field address
// (same root value and field path; SSA does no CSE so addresses are compared structurally)
// that a control-flow path reaches from the store without
//   - a store to that field address, to an enclosing aggregate of it, to the same field of
//     another value of the struct type, or through an unknown pointer to the field's type;
//   - a call (go/defer included) one of whose operands can reach the struct by type
//     (interfaces, function values and type parameters reach everything); when the struct is
//     a local whose address is never taken, only a call that is handed its address.
//
// A branch on `len(x) op k` of a tracked value is followed only on its feasible side, and not
// at all when k is not a constant (`if len(p.F) > 0 { p.F[0] }` is dead code, not a crash).
//
// An ssa.IndexAddr on such a value is reported with the path. Path existence, not all paths:
// the first loop iteration is enough to crash.
//
// (b) Contradictory assertion. Instances: every static call f(…, e, …) in scope where the caller
// has established the dynamic type T of e or of a field path e.F — by a non-comma assertion that
// dominates the call, or by the true edge of a comma-ok assertion/type-switch arm that
// dominates it — and f's entry block unconditionally asserts (non-comma) the same e / e.F to U.
// Violation when T and U are different concrete types, or T is concrete and does not
// implement the interface U. e may be a struct parameter spilled to a local (every access is a
// load of its alloc): then the alloc must have a single store that dominates the assertion and
// must not escape.
//
// Accepted idioms: append before indexing (`es = append(es, …)`; `p.F = append(p.F, …)` is a
// store to the field and ends the zero-length fact); re-making the slice; a zero-length slice
// that is only appended to, ranged over, passed on or returned; a callee that asserts the same
// type the caller's switch arm selected (compileTarget → compileCall/…).
func init() {
	register(&Rule{
		Name:  "DEFPANIC",
		IR:    "ssa",
		Props: []string{"C01", "C21", "C23"},
		// Instances on the original tree: C01 64 (zero-length slice creations in encoding and
		// ingest/compact), C21 8 (3 creations + 5 assertion call sites in api/vm.go), C23 90. The
		// recommended repair of partialCall.CallFromStack (make(T, n)) removes one creation, so the
		// floors of C21 and C23 are one below today's count.
		Floor:   7,
		FloorBy: map[string]int{"C01": 64, "C21": 7, "C23": 89},
		Doc: "no index into a slice value whose length is statically zero (x[0:0], x[:0], make(T,0,n) with no append in between, also through a struct field " +
			"along a path without a store to that field or a call that can reach the struct); no call passing e to a callee whose entry asserts e.F.(U) after the caller established e.F is T, U != T",
		Run: runDefPanic,
	})
}

type dDPScope struct {
	unit  dScopeUnit
	props func(pos token.Pos) []string
}

func runDefPanic(c *Ctx) []Obligation {
	c.BuildSSA()
	var scopes []dDPScope
	for _, rel := range []string{"encoding", "ingest/compact"} {
		if p := c.Pkg(rel); p != nil {
			scopes = append(scopes, dDPScope{dScopeUnit{p, rel, dScopeFiles(c, p, false)}, func(token.Pos) []string { return []string{"C01"} }})
		}
	}
	// The file of package api that declares type VM is the subject of C21.
	vmFile := ""
	if p := c.Pkg("api"); p != nil {
		if tn, ok := p.Types.Scope().Lookup("VM").(*types.TypeName); ok {
			vmFile = c.Fset.Position(tn.Pos()).Filename
		}
	}
	for _, u := range dRequestScope(c) {
		scopes = append(scopes, dDPScope{u, func(pos token.Pos) []string {
			if vmFile != "" && c.Fset.Position(pos).Filename == vmFile {
				return []string{"C21", "C23"}
			}
			return []string{"C23"}
		}})
	}
	var sites []dSite
	for _, sc := range scopes {
		for _, fd := range dDeclsIn(c, sc.unit) {
			declName := c.FuncName(sc.unit.pkg, fd)
			props := sc.props(fd.Pos())
			seq := 0
			for _, fn := range dFuncSSA(c, sc.unit.pkg, fd) {
				for _, s := range dZeroLenSites(c, fn) {
					seq++
					s.decl, s.props, s.seq = declName, props, seq
					sites = append(sites, s)
				}
				for _, s := range dAssertSites(c, fn) {
					seq++
					s.decl, s.props, s.seq = declName, props, seq
					sites = append(sites, s)
				}
			}
		}
	}
	return dObligations(c, sites)
}

// ---------------------------------------------------------------- (a) zero-length slices

// dZeroLen reports whether the instruction creates a slice value of constant length 0.
func dZeroLen(in ssa.Instruction) (ssa.Value, string, bool) {
	switch x := in.(type) {
	case *ssa.Slice:
		if _, ok := x.Type().Underlying().(*types.Slice); !ok {
			return nil, "", false
		}
		if x.High == nil {
			return nil, "", false
		}
		if h, ok := dConstInt(x.High); !ok || h != 0 {
			return nil, "", false
		}
		if x.Low != nil {
			if l, ok := dConstInt(x.Low); !ok || l != 0 {
				return nil, "", false
			}
		}
		return x, "x[:0]", true
	case *ssa.MakeSlice:
		if l, ok := dConstInt(x.Len); ok && l == 0 {
			return x, "make(T, 0, n)", true
		}
	}
	return nil, "", false
}

// dAddrPath decomposes an address into a root value and a field path.
func dAddrPath(v ssa.Value) (root ssa.Value, path []int) {
	var rev []int
	for {
		fa, ok := v.(*ssa.FieldAddr)
		if !ok {
			break
		}
		rev = append(rev, fa.Field)
		v = fa.X
	}
	for i := len(rev) - 1; i >= 0; i-- {
		path = append(path, rev[i])
	}
	return v, path
}

func dIsPrefix(a, b []int) bool {
	if len(a) > len(b) {
		return false
	}
	for i := range a {
		if a[i] != b[i] {
			return false
		}
	}
	return true
}

func dSamePath(a, b []int) bool { return len(a) == len(b) && dIsPrefix(a, b) }

// dIndexUses: the IndexAddr instructions that index exactly this slice value (also after a
// conversion to another slice type).
func dIndexUses(v ssa.Value, seen map[ssa.Value]bool) []*ssa.IndexAddr {
	if seen[v] {
		return nil
	}
	seen[v] = true
	var out []*ssa.IndexAddr
	if v.Referrers() == nil {
		return nil
	}
	for _, r := range *v.Referrers() {
		switch x := r.(type) {
		case *ssa.IndexAddr:
			if x.X == v {
				out = append(out, x)
			}
		case *ssa.ChangeType:
			out = append(out, dIndexUses(x, seen)...)
		}
	}
	return out
}

// dTypeReaches: can a value of type t lead to a value of struct type target?
func dTypeReaches(t types.Type, target types.Type, seen map[types.Type]bool) bool {
	t = types.Unalias(t)
	if types.Identical(t, target) {
		return true
	}
	if seen[t] {
		return false
	}
	seen[t] = true
	switch x := t.(type) {
	case *types.Named:
		return dTypeReaches(x.Underlying(), target, seen)
	case *types.Pointer:
		return dTypeReaches(x.Elem(), target, seen)
	case *types.Slice:
		return dTypeReaches(x.Elem(), target, seen)
	case *types.Array:
		return dTypeReaches(x.Elem(), target, seen)
	case *types.Chan:
		return dTypeReaches(x.Elem(), target, seen)
	case *types.Map:
		return dTypeReaches(x.Key(), target, seen) || dTypeReaches(x.Elem(), target, seen)
	case *types.Struct:
		for i := 0; i < x.NumFields(); i++ {
			if dTypeReaches(x.Field(i).Type(), target, seen) {
				return true
			}
		}
		return false
	case *types.Tuple:
		for i := 0; i < x.Len(); i++ {
			if dTypeReaches(x.At(i).Type(), target, seen) {
				return true
			}
		}
		return false
	case *types.Basic:
		return x.Kind() == types.UnsafePointer
	}
	return true // interface, func, type parameter: anything
}

// dContainsByValue: does a value of type t embed (by value) a value of type target?
func dContainsByValue(t, target types.Type) bool {
	t = types.Unalias(t)
	if types.Identical(t, target) {
		return true
	}
	switch x := t.Underlying().(type) {
	case *types.Struct:
		for i := 0; i < x.NumFields(); i++ {
			if dContainsByValue(x.Field(i).Type(), target) {
				return true
			}
		}
	case *types.Array:
		return dContainsByValue(x.Elem(), target)
	}
	return false
}

func dFieldName(fa *ssa.FieldAddr) string {
	st, ok := fa.X.Type().Underlying().(*types.Pointer)
	if !ok {
		return fmt.Sprintf("#%d", fa.Field)
	}
	s, ok := st.Elem().Underlying().(*types.Struct)
	if !ok || fa.Field >= s.NumFields() {
		return fmt.Sprintf("#%d", fa.Field)
	}
	return dShort(st.Elem()) + "." + s.Field(fa.Field).Name()
}

// dFieldFact: "the slice stored in this field has length 0".
type dFieldFact struct {
	store     *ssa.Store
	fa        *ssa.FieldAddr
	root      ssa.Value
	path      []int
	owner     types.Type // struct type that holds the field
	fieldType types.Type
}

func (f *dFieldFact) killedBy(in ssa.Instruction) bool {
	switch x := in.(type) {
	case *ssa.Store:
		r, p := dAddrPath(x.Addr)
		if r == f.root && (dIsPrefix(p, f.path) || dIsPrefix(f.path, p)) {
			return true
		}
		if xa, ok := x.Addr.(*ssa.FieldAddr); ok {
			if xp, ok := xa.X.Type().Underlying().(*types.Pointer); ok && types.Identical(xp.Elem(), f.owner) && xa.Field == f.fa.Field {
				return true // same field of a value that may be the same struct
			}
		}
		if dContainsByValue(x.Val.Type(), f.owner) {
			return true
		}
		if types.Identical(x.Val.Type(), f.fieldType) {
			switch x.Addr.(type) {
			case *ssa.FieldAddr, *ssa.Alloc:
			default:
				return true // through an unknown pointer
			}
		}
	case ssa.CallInstruction:
		com := x.Common()
		if _, ok := com.Value.(*ssa.Builtin); ok {
			return false
		}
		var ops []ssa.Value
		if com.IsInvoke() {
			ops = append(ops, com.Value)
		} else if mc, ok := com.Value.(*ssa.MakeClosure); ok {
			ops = append(ops, mc.Bindings...)
		} else if _, ok := com.Value.(*ssa.Function); !ok {
			ops = append(ops, com.Value) // dynamic call of a function value
		}
		ops = append(ops, com.Args...)
		// A local whose address is never taken (ssa: a non-heap alloc) is reachable by a callee
		// only through an operand that is its address.
		if al, ok := f.root.(*ssa.Alloc); ok && !al.Heap {
			for _, a := range ops {
				if r, _ := dAddrPath(a); r == f.root {
					return true
				}
			}
			return false
		}
		for _, a := range ops {
			if dTypeReaches(a.Type(), f.owner, map[types.Type]bool{}) {
				return true
			}
		}
	}
	return false
}

// dLenOf: v is len(x) for a tracked zero-length x.
func dLenOf(v ssa.Value, zero map[ssa.Value]bool) bool {
	call, ok := v.(*ssa.Call)
	if !ok {
		return false
	}
	b, ok := call.Call.Value.(*ssa.Builtin)
	return ok && b.Name() == "len" && len(call.Call.Args) == 1 && zero[call.Call.Args[0]]
}

// dLenBranch: for a block ending in `if len(x) op k` with x of length 0, which successors are
// feasible? (both when the condition does not mention the length of a tracked value; none when
// it compares it with a non-constant: the rule does not reason about that.)
func dLenBranch(b *ssa.BasicBlock, zero map[ssa.Value]bool) (t, f bool) {
	iff, ok := b.Instrs[len(b.Instrs)-1].(*ssa.If)
	if !ok {
		return true, true
	}
	bo, ok := iff.Cond.(*ssa.BinOp)
	if !ok {
		return true, true
	}
	lx, ly := dLenOf(bo.X, zero), dLenOf(bo.Y, zero)
	if !lx && !ly {
		return true, true
	}
	var l, r int64
	switch {
	case lx && ly:
		l, r = 0, 0
	case lx:
		k, ok := dConstInt(bo.Y)
		if !ok {
			return false, false
		}
		l, r = 0, k
	default:
		k, ok := dConstInt(bo.X)
		if !ok {
			return false, false
		}
		l, r = k, 0
	}
	var res bool
	switch bo.Op {
	case token.EQL:
		res = l == r
	case token.NEQ:
		res = l != r
	case token.LSS:
		res = l < r
	case token.LEQ:
		res = l <= r
	case token.GTR:
		res = l > r
	case token.GEQ:
		res = l >= r
	default:
		return false, false
	}
	return res, !res
}

// dZeroLenSites: one site per zero-length slice creation in fn, with the verdict of a forward
// search from the creation.
func dZeroLenSites(c *Ctx, fn *ssa.Function) []dSite {
	var out []dSite
	for _, b := range fn.Blocks {
		for idx, in := range b.Instrs {
			z, shape, ok := dZeroLen(in)
			if !ok {
				continue
			}
			s := dSite{pos: dInstrPos(in), status: OK}
			ix, via, trail, nfacts := dSearchZero(c, z, b, idx+1)
			switch {
			case ix != nil && via == nil:
				s.status = Violation
				s.detail = fmt.Sprintf("index into a slice of length 0: %s created at %s is indexed at %s with no append in between (index out of range whenever executed)",
					shape, c.Position(dInstrPos(in)), c.Position(dInstrPos(ix)))
				s.path = append(append([]string{"zero-length value created at " + c.Position(dInstrPos(in))}, trail...), "indexed at "+c.Position(dInstrPos(ix)))
			case ix != nil:
				fname := dFieldName(via.fa)
				s.status = Violation
				s.detail = fmt.Sprintf("index into a slice of length 0: field %s is set to %s at %s and indexed at %s on a path with no append/store to it in between (index out of range whenever executed)",
					fname, shape, c.Position(dInstrPos(via.store)), c.Position(dInstrPos(ix)))
				s.path = append(append([]string{"zero-length value stored to " + fname + " at " + c.Position(dInstrPos(via.store))}, trail...), "indexed at "+c.Position(dInstrPos(ix)))
			case nfacts > 0:
				s.detail = fmt.Sprintf("zero-length slice %s is stored into a struct field; no index of that field is reachable before it is stored again or the struct is passed on", shape)
			default:
				s.detail = fmt.Sprintf("zero-length slice %s (%s) is never indexed", shape, dShort(z.Type()))
			}
			out = append(out, s)
		}
	}
	return out
}

// dSearchZero explores the function forward from the creation of the zero-length value z. It
// tracks the SSA values known to have length 0 (z, its conversions, loads of a field while the
// field fact holds) and the field facts alive on the current path.
func dSearchZero(c *Ctx, z ssa.Value, b0 *ssa.BasicBlock, i0 int) (hit *ssa.IndexAddr, via *dFieldFact, trail []string, nfacts int) {
	zero := map[ssa.Value]bool{z: true}
	origin := map[ssa.Value]*dFieldFact{} // loaded value -> the fact it came from
	var facts []*dFieldFact
	type item struct {
		b     *ssa.BasicBlock
		start int
		mask  uint64
		trail []string
	}
	type key struct {
		b    *ssa.BasicBlock
		mask uint64
	}
	seen := map[key]bool{}
	work := []item{{b0, i0, 0, nil}}
	for len(work) > 0 {
		it := work[0]
		work = work[1:]
		mask := it.mask
		for i := it.start; i < len(it.b.Instrs); i++ {
			switch x := it.b.Instrs[i].(type) {
			case *ssa.IndexAddr:
				if zero[x.X] {
					return x, origin[x.X], it.trail, len(facts)
				}
			case *ssa.ChangeType:
				if zero[x.X] {
					zero[x] = true
					origin[x] = origin[x.X]
				}
			case *ssa.UnOp:
				if x.Op != token.MUL {
					break
				}
				r, p := dAddrPath(x.X)
				for k, f := range facts {
					if mask&(1<<uint(k)) != 0 && r == f.root && dSamePath(p, f.path) {
						zero[x] = true
						origin[x] = f
					}
				}
			case *ssa.Store:
				for k, f := range facts {
					if mask&(1<<uint(k)) != 0 && f.killedBy(x) {
						mask &^= 1 << uint(k)
					}
				}
				fa, isField := x.Addr.(*ssa.FieldAddr)
				if !isField || !zero[x.Val] {
					break
				}
				ownerPtr, _ := fa.X.Type().Underlying().(*types.Pointer)
				if ownerPtr == nil || len(facts) >= 60 {
					break
				}
				k := -1
				for j, f := range facts {
					if f.store == x {
						k = j
					}
				}
				if k < 0 {
					root, path := dAddrPath(fa)
					facts = append(facts, &dFieldFact{store: x, fa: fa, root: root, path: path, owner: ownerPtr.Elem(),
						fieldType: fa.Type().Underlying().(*types.Pointer).Elem()})
					k = len(facts) - 1
				}
				mask |= 1 << uint(k)
			case ssa.CallInstruction:
				for k, f := range facts {
					if mask&(1<<uint(k)) != 0 && f.killedBy(x) {
						mask &^= 1 << uint(k)
					}
				}
			}
		}
		if len(it.b.Succs) == 0 {
			continue
		}
		takeT, takeF := true, true
		if len(it.b.Succs) == 2 {
			takeT, takeF = dLenBranch(it.b, zero)
		}
		for k, sb := range it.b.Succs {
			if len(it.b.Succs) == 2 && ((k == 0 && !takeT) || (k == 1 && !takeF)) {
				continue
			}
			if seen[key{sb, mask}] {
				continue
			}
			seen[key{sb, mask}] = true
			t := append(append([]string(nil), it.trail...), fmt.Sprintf("block %d (%s) near %s", sb.Index, sb.Comment, c.Position(dInstrPos(sb.Instrs[0]))))
			work = append(work, item{sb, 0, mask, t})
		}
	}
	return nil, nil, nil, len(facts)
}

// ---------------------------------------------------------------- (b) contradictory assertions

// dValPath describes a value as root + field path; mem is set when the value is read from
// memory rooted at an alloc.
type dValPath struct {
	root ssa.Value
	path []int
	mem  bool
}

func dValuePath(v ssa.Value) dValPath {
	switch x := v.(type) {
	case *ssa.UnOp:
		if x.Op == token.MUL {
			r, p := dAddrPath(x.X)
			if _, ok := r.(*ssa.Alloc); ok {
				return dValPath{r, p, true}
			}
		}
	case *ssa.Field:
		in := dValuePath(x.X)
		return dValPath{in.root, append(append([]int(nil), in.path...), x.Field), in.mem}
	}
	return dValPath{v, nil, false}
}

// dStableAlloc: the alloc is written by exactly one store (returned), is only read through
// loads and field addresses, and does not escape.
func dStableAlloc(a *ssa.Alloc) *ssa.Store {
	var store *ssa.Store
	ok := true
	var check func(addr ssa.Value, isRoot bool)
	check = func(addr ssa.Value, isRoot bool) {
		if addr.Referrers() == nil {
			return
		}
		for _, r := range *addr.Referrers() {
			switch x := r.(type) {
			case *ssa.UnOp:
				if x.Op != token.MUL {
					ok = false
				}
			case *ssa.FieldAddr:
				check(x, false)
			case *ssa.Store:
				if x.Addr != addr || !isRoot || store != nil {
					ok = false
				} else {
					store = x
				}
			case *ssa.DebugRef:
			default:
				ok = false
			}
		}
	}
	check(a, true)
	if !ok {
		return nil
	}
	return store
}

func dInstrIndex(in ssa.Instruction) int {
	for i, x := range in.Block().Instrs {
		if x == in {
			return i
		}
	}
	return -1
}

// dBefore: instruction a is executed before b on every path to b.
func dBefore(a, b ssa.Instruction) bool {
	if a.Block() == b.Block() {
		return dInstrIndex(a) < dInstrIndex(b)
	}
	return a.Block().Dominates(b.Block())
}

type dFact struct {
	vp   dValPath
	typ  types.Type
	ta   *ssa.TypeAssert
	hold func(at ssa.Instruction) bool
}

func dCallerFacts(fn *ssa.Function) []dFact {
	var out []dFact
	for _, b := range fn.Blocks {
		for _, in := range b.Instrs {
			ta, ok := in.(*ssa.TypeAssert)
			if !ok {
				continue
			}
			if _, tp := types.Unalias(ta.AssertedType).(*types.TypeParam); tp {
				continue
			}
			vp := dValuePath(ta.X)
			if vp.mem {
				st := dStableAlloc(vp.root.(*ssa.Alloc))
				if st == nil || !dBefore(st, ta) {
					continue
				}
			}
			if !ta.CommaOk {
				out = append(out, dFact{vp, ta.AssertedType, ta, func(at ssa.Instruction) bool { return dBefore(ta, at) }})
				continue
			}
			// comma-ok: the fact holds below the true edge of `if ok`
			if ta.Referrers() == nil {
				continue
			}
			for _, r := range *ta.Referrers() {
				ex, ok := r.(*ssa.Extract)
				if !ok || ex.Index != 1 || ex.Referrers() == nil {
					continue
				}
				for _, rr := range *ex.Referrers() {
					iff, ok := rr.(*ssa.If)
					if !ok || iff.Cond != ssa.Value(ex) {
						continue
					}
					t := iff.Block().Succs[0]
					if len(t.Preds) != 1 || t == iff.Block().Succs[1] {
						continue
					}
					out = append(out, dFact{vp, ta.AssertedType, ta, func(at ssa.Instruction) bool { return t.Dominates(at.Block()) }})
				}
			}
		}
	}
	return out
}

// dEntryAsserts: the non-comma assertions in the callee's entry block on a parameter or a field
// path of a parameter, keyed by parameter index.
type dEntryAssert struct {
	param int
	path  []int
	typ   types.Type
	ta    *ssa.TypeAssert
}

func dEntryAsserts(fn *ssa.Function) []dEntryAssert {
	if len(fn.Blocks) == 0 {
		return nil
	}
	paramIndex := map[ssa.Value]int{}
	for i, p := range fn.Params {
		paramIndex[p] = i
	}
	var out []dEntryAssert
	entry := fn.Blocks[0]
	for _, in := range entry.Instrs {
		ta, ok := in.(*ssa.TypeAssert)
		if !ok || ta.CommaOk {
			continue
		}
		vp := dValuePath(ta.X)
		if vp.mem {
			st := dStableAlloc(vp.root.(*ssa.Alloc))
			if st == nil || st.Block() != entry || !dBefore(st, ta) {
				continue
			}
			if i, ok := paramIndex[st.Val]; ok {
				out = append(out, dEntryAssert{i, vp.path, ta.AssertedType, ta})
			}
			continue
		}
		if i, ok := paramIndex[vp.root]; ok {
			out = append(out, dEntryAssert{i, vp.path, ta.AssertedType, ta})
		}
	}
	return out
}

func dAssertSites(c *Ctx, fn *ssa.Function) []dSite {
	var out []dSite
	var facts []dFact
	factsDone := false
	for _, b := range fn.Blocks {
		for _, in := range b.Instrs {
			call, ok := in.(ssa.CallInstruction)
			if !ok {
				continue
			}
			callee := call.Common().StaticCallee()
			if callee == nil || len(callee.Blocks) == 0 {
				continue
			}
			eas := dEntryAsserts(callee)
			if len(eas) == 0 {
				continue
			}
			if !factsDone {
				facts, factsDone = dCallerFacts(fn), true
			}
			args := call.Common().Args
			for _, ea := range eas {
				if ea.param >= len(args) {
					continue
				}
				ap := dValuePath(args[ea.param])
				want := append(append([]int(nil), ap.path...), ea.path...)
				for _, f := range facts {
					if f.vp.root != ap.root || f.vp.mem != ap.mem || !dSamePath(f.vp.path, want) || !f.hold(in) {
						continue
					}
					s := dSite{pos: dInstrPos(in)}
					T, U := f.typ, ea.typ
					what := fmt.Sprintf("call of %s at %s: the caller established %s at %s, the callee's entry asserts .(%s) at %s",
						callee.Name(), c.Position(dInstrPos(in)), dShort(T), c.Position(dInstrPos(f.ta)), dShort(U), c.Position(dInstrPos(ea.ta)))
					switch dCompat(T, U) {
					case 1:
						s.status, s.detail = OK, what+": consistent"
					case -1:
						s.status = Violation
						s.detail = what + ": the assertion in the callee fails whenever this call is executed (interface conversion panic)"
						s.path = []string{
							"caller establishes " + dShort(T) + " at " + c.Position(dInstrPos(f.ta)),
							"passes the value to " + callee.Name() + " at " + c.Position(dInstrPos(in)),
							"callee asserts " + dShort(U) + " at " + c.Position(dInstrPos(ea.ta)),
						}
					default:
						continue // an interface on the caller's side decides nothing
					}
					out = append(out, s)
				}
			}
		}
	}
	return out
}

// dCompat: 1 = a value whose dynamic type was established as T passes .(U); -1 = it cannot;
// 0 = undetermined.
func dCompat(T, U types.Type) int {
	if types.Identical(T, U) {
		return 1
	}
	if types.IsInterface(T) {
		return 0
	}
	if types.IsInterface(U) {
		if iface, ok := U.Underlying().(*types.Interface); ok && types.Implements(T, iface) {
			return 1
		}
		return -1
	}
	return -1
}
