package main

import (
	"fmt"
	"go/types"
	"sort"

	"golang.org/x/tools/go/callgraph"
	"golang.org/x/tools/go/ssa"
)

// MUTATOR-REACH (C40): while a request is evaluated, the worlds shared between requests are
// mutated only from inside Change.Apply (whose lock state LOCK-TYPESTATE decides).
//
// Mutators (by type): the methods ingest.MutableWorld declares itself that return only an error
// and take no callback — AddFeature, AddTag, RemoveTag — on the interface and on every type that
// implements it. A function that passes its own parameter or receiver as the world of a mutator
// call (ingest.(*MutableOverlayWorld).MergeInto(other), MergeSource) is a derived mutator of that
// parameter, to a fixpoint; its call sites are mutator sites too.
//
// Sites: every call of a mutator or derived mutator in the module, outside the bodies of the
// mutators themselves. A site is an obligation when its function is reachable from the
// evaluation entry points in the call graph: every function declared in packages grpc, ui and
// renderer (request handlers), the methods of api.Evaluator, api.Evaluate, and — because the VM
// calls them by reflection, which no call graph sees — every function stored in an
// api.FunctionSymbols table. Edges: VTA (seeded by CHA), plus, for every interface call of
// Change.Apply, edges to all implementations (the changes reach the entry points through
// reflect.Value.Interface(), where VTA loses the types). Unreachable sites are listed as info.
//
// Obligation for a reachable site, decided on the SSA value of the mutated world:
//   - it is the world parameter of the enclosing implementation of Change.Apply: ok;
//   - it is a world freshly allocated in the function (new T, or a constructor that returns new T,
//     also through a captured local): private, ok — this is how functions legitimately build and
//     fill overlay worlds;
//   - it is the function's own parameter/receiver: the function is a derived mutator, ok here,
//     decided at its call sites;
//   - it is the result of Worlds.FindOrCreateWorld, or read from a struct field into which the
//     module stores such a result (api.Context.World): shared, violation;
//   - anything else: undecided.
//
// Precision limits (stated, not hidden): VTA is not a pointer analysis — reachability is an
// over-approximation through interfaces within typed flows and an under-approximation across
// reflection (hence the synthetic roots and Apply edges); the world classification is
// intraprocedural plus field-based, object-insensitive stores. The slot is therefore "direct
// mutator calls whose receiver is decidably shared/private/parameter"; mutation of a shared
// world through an alias stored in a data structure the classifier does not follow is reported
// as undecided, never as ok.
func init() {
	register(&Rule{
		Name:  "MUTATOR-REACH",
		IR:    "callgraph",
		Props: []string{"C40"},
		// ingest.(*AddFeatures).Apply#1, (AddTags).Apply#1, (RemoveTags).Apply#1, (ingestedYAML).Apply#1..#6
		Floor: 9,
		Doc: "every call of an ingest.MutableWorld mutator (AddFeature/AddTag/RemoveTag, interface or implementation, and functions forwarding their own world parameter to one) " +
			"in a function reachable from the evaluation entry points (grpc, ui, renderer, api.Evaluator, api.Evaluate, api.FunctionSymbols callbacks; VTA + CHA edges for Change.Apply) " +
			"acts on the world parameter of a Change.Apply implementation, on a world freshly built in that function, or on the function's own parameter (then decided at its callers); " +
			"a shared world (Worlds.FindOrCreateWorld, api.Context.World) is a violation",
		Run: runMutatorReach,
	})
}

type iMSite struct {
	instr ssa.CallInstruction
	fn    *ssa.Function // function containing the call (may be a literal)
	top   *ssa.Function // declared function
	world ssa.Value
	what  string
	class iWorldClass
}

func runMutatorReach(c *Ctx) []Obligation {
	t, err := iLoadTypes(c)
	if err != nil {
		return iAnchorFailure(err)
	}
	k := iNewClassifier(c, t)
	cg := c.CallGraph()

	// declared functions of the module, in deterministic order
	type declFn struct {
		fn   *ssa.Function
		name string
		rel  string
		obj  *types.Func
	}
	var decls []declFn
	byFn := map[*ssa.Function]declFn{}
	for _, p := range c.SortedPkgs() {
		for _, fd := range c.FuncDecls(p) {
			obj, _ := p.TypesInfo.Defs[fd.Name].(*types.Func)
			if obj == nil {
				continue
			}
			fn := c.SSAFunc(obj)
			if fn == nil || len(fn.Blocks) == 0 || fn.TypeParams().Len() > 0 {
				continue
			}
			d := declFn{fn, c.FuncName(p, fd), relPkg(p), obj}
			decls = append(decls, d)
			byFn[fn] = d
		}
	}
	isMutatorFn := func(fn *ssa.Function) bool {
		obj, _ := fn.Object().(*types.Func)
		return obj != nil && t.iIsMutator(obj)
	}
	isApplyImpl := func(fn *ssa.Function) bool {
		obj, _ := fn.Object().(*types.Func)
		return obj != nil && t.iIsApplyImpl(obj)
	}

	// derived mutators: declared function → SSA parameter indices it mutates (receiver = 0)
	derived := map[*ssa.Function]map[int]bool{}
	ssaIndex := func(top *ssa.Function, cl iWorldClass) int {
		if cl.kind == iWSelf {
			return 0
		}
		if top.Signature.Recv() != nil {
			return cl.param + 1
		}
		return cl.param
	}
	argAt := func(cc *ssa.CallCommon, idx int) ssa.Value {
		// idx counts the callee's SSA parameters (receiver first)
		if cc.IsInvoke() {
			if idx == 0 {
				return cc.Value
			}
			idx--
		}
		if idx < len(cc.Args) {
			return cc.Args[idx]
		}
		return nil
	}
	var sites []iMSite
	collect := func() {
		sites = sites[:0]
		for _, d := range decls {
			if isMutatorFn(d.fn) {
				continue // the body of a mutator is the world's own business
			}
			for _, f := range iFuncTree(d.fn) {
				node := cg.Nodes[f]
				for _, ci := range iCalls(f) {
					cc := ci.instr.Common()
					add := func(world ssa.Value, what string) {
						if world != nil {
							sites = append(sites, iMSite{instr: ci.instr, fn: f, top: d.fn, world: world, what: what})
						}
					}
					if obj := iCalleeOfCommon(cc); obj != nil && t.iIsMutator(obj) {
						add(argAt(cc, 0), obj.FullName())
						continue
					}
					if callee := cc.StaticCallee(); callee != nil {
						for _, idx := range iSortedInts(derived[callee]) {
							add(argAt(cc, idx), callee.String()+" (forwards its parameter to a mutator)")
						}
						continue
					}
					if node != nil { // dynamic call: use the call graph's callees
						seenIdx := map[int]bool{}
						for _, e := range node.Out {
							if e.Site != ci.instr || e.Callee == nil {
								continue
							}
							for _, idx := range iSortedInts(derived[e.Callee.Func]) {
								if !seenIdx[idx] {
									seenIdx[idx] = true
									add(argAt(cc, idx), e.Callee.Func.String()+" (forwards its parameter to a mutator; resolved by VTA)")
								}
							}
						}
					}
				}
			}
		}
	}
	for iter := 0; iter < 10; iter++ {
		collect()
		changed := false
		for i := range sites {
			s := &sites[i]
			s.class = k.classify(s.world)
			if (s.class.kind == iWParam || s.class.kind == iWSelf) && !isApplyImpl(s.top) {
				idx := ssaIndex(s.top, s.class)
				if derived[s.top] == nil {
					derived[s.top] = map[int]bool{}
				}
				if !derived[s.top][idx] {
					derived[s.top][idx] = true
					changed = true
				}
			}
		}
		if !changed {
			break
		}
	}

	// reachability from the evaluation entry points
	callbacks := iCallbackFuncs(c)
	var roots []*ssa.Function
	rootWhy := map[*ssa.Function]string{}
	for _, d := range decls {
		why := ""
		switch {
		case d.rel == "grpc" || d.rel == "ui" || d.rel == "renderer":
			why = "request handler package " + d.rel
		case d.rel == "api" && d.obj.Name() == "Evaluate" && d.fn.Signature.Recv() == nil:
			why = "api.Evaluate"
		case d.rel == "api" && iRecvType(d.obj) != nil && isNamed(iRecvType(d.obj), ModulePath+"/api", "Evaluator"):
			why = "method of api.Evaluator"
		case callbacks[d.obj]:
			why = "evaluation callback (api.FunctionSymbols)"
		}
		if why != "" {
			roots = append(roots, d.fn)
			rootWhy[d.fn] = why
		}
	}
	var applyImpls []*ssa.Function
	for _, d := range decls {
		if isApplyImpl(d.fn) {
			applyImpls = append(applyImpls, d.fn)
		}
	}
	pred := map[*ssa.Function]*ssa.Function{}
	reached := map[*ssa.Function]bool{}
	var queue []*ssa.Function
	push := func(f, from *ssa.Function) {
		if f == nil || reached[f] {
			return
		}
		reached[f] = true
		pred[f] = from
		queue = append(queue, f)
	}
	for _, r := range roots {
		push(r, nil)
	}
	for len(queue) > 0 {
		f := queue[0]
		queue = queue[1:]
		for _, a := range f.AnonFuncs {
			push(a, f)
		}
		if node := cg.Nodes[f]; node != nil {
			outs := append([]*callgraph.Edge(nil), node.Out...)
			sort.SliceStable(outs, func(i, j int) bool { return outs[i].Callee.Func.String() < outs[j].Callee.Func.String() })
			for _, e := range outs {
				push(e.Callee.Func, f)
			}
		}
		for _, ci := range iCalls(f) {
			cc := ci.instr.Common()
			if cc.IsInvoke() && t.iIsApply(cc.Method) {
				for _, impl := range applyImpls {
					push(impl, f)
				}
			}
		}
	}
	chain := func(f *ssa.Function) []string {
		var rev []string
		for g := f; g != nil; g = pred[g] {
			s := g.String()
			if pred[g] == nil && rootWhy[g] != "" {
				s += "  [entry: " + rootWhy[g] + "]"
			}
			rev = append(rev, s)
			if len(rev) > 40 {
				break
			}
		}
		for i, j := 0, len(rev)-1; i < j; i, j = i+1, j-1 {
			rev[i], rev[j] = rev[j], rev[i]
		}
		return rev
	}

	// obligations
	sort.SliceStable(sites, func(i, j int) bool {
		if byFn[sites[i].top].name != byFn[sites[j].top].name {
			return byFn[sites[i].top].name < byFn[sites[j].top].name
		}
		return sites[i].instr.Pos() < sites[j].instr.Pos()
	})
	var out []Obligation
	ord := map[string]int{}
	for _, s := range sites {
		name := byFn[s.top].name
		ord[name]++
		ob := Obligation{Key: fmt.Sprintf("%s#%d", name, ord[name]), Pos: c.Position(s.instr.Pos())}
		what := fmt.Sprintf("call of %s on %s", s.what, s.class)
		isReached := reached[s.fn] || reached[s.top]
		switch {
		case !isReached:
			ob.Status, ob.Detail = Info, what+": not reachable from the evaluation entry points"
		case isApplyImpl(s.top) && (s.class.kind == iWParam):
			ob.Status, ob.Detail = OK, what+" inside an implementation of Change.Apply"
		case s.class.kind == iWPrivate:
			ob.Status, ob.Detail = OK, what
		case s.class.kind == iWParam || s.class.kind == iWSelf:
			ob.Status, ob.Detail = OK, what+": the function is a derived mutator of that parameter, decided at its call sites"
		case s.class.kind == iWShared:
			ob.Status = Violation
			ob.Detail = what + " outside Change.Apply, reachable while a request is evaluated (under the read lock at most)"
			ob.Path = chain(s.fn)
		default:
			ob.Status = Undecided
			ob.Detail = what + ": the rule cannot tell whether this world is shared between requests"
			ob.Path = chain(s.fn)
		}
		if isReached && ob.Path == nil {
			ob.Path = chain(s.fn)
		}
		out = append(out, ob)
	}
	return out
}

func iSortedInts(m map[int]bool) []int {
	var out []int
	for k := range m {
		out = append(out, k)
	}
	sort.Ints(out)
	return out
}

// iCallbackFuncs returns the functions stored in api.FunctionSymbols tables (composite literals
// and index assignments), found through types.
func iCallbackFuncs(c *Ctx) map[*types.Func]bool {
	lt := &iLT{c: c, byObj: map[*types.Func]*iLUnit{}}
	for _, p := range c.SortedPkgs() {
		for _, fd := range c.FuncDecls(p) {
			if obj, ok := p.TypesInfo.Defs[fd.Name].(*types.Func); ok {
				lt.byObj[obj] = &iLUnit{}
			}
		}
	}
	lt.markCallbacks()
	out := map[*types.Func]bool{}
	for obj, u := range lt.byObj {
		if u.callback {
			out[obj] = true
		}
	}
	return out
}
