package main

import (
	"fmt"
	"go/ast"
	"go/token"
	"go/types"
	"sort"
)

// FIELD-USED (C05): what a spatial query computes and stores in itself takes part in its answer.
//
// Subjects: the spatial query types and their iterator types (the pairs FILTER-AGREE discovers:
// IntersectsCells/intersectsCells, IntersectsCap/intersectsCap, …). For every field of such a
// struct that some code of the module sets — a keyed or positional element of a composite literal
// of the type, or an assignment `x.f = v` / `x.f[k] = v` — there must be at least one read of
// the field somewhere in the module: a selector expression resolving (through go/types
// selections, embedded fields included) to that field object in any position other than the
// target of a plain store. `x.f op= v`, `x.f++`, `&x.f`, `range x.f`, a method called through an
// embedded field are reads. One instance per (type, field), keyed `b6.Type.field#1`.
//
// A field that is set and never read is a violation: the value computed for it (for instance the
// exterior covering of a cap, computed by the constructor) cannot influence the predicate.
//
// The same test over every other struct type declared in the root package is reported as `info`.
//
// Not covered: that the read happens on a path of the predicate (a read in String() satisfies the
// rule); fields read only through reflection or whole-struct copies/comparisons count as unread.
func init() {
	register(&Rule{
		Name:  "FIELD-USED",
		IR:    "ast",
		Props: []string{"C05"},
		Floor: 28, // 6 query types (1+3+1+1+1+2 fields: Tagged since ead3c46) and 6 iterator types (5 with 3 fields, taggedValue with 4)
		Doc: "every field of a spatial query type or of its iterator type that the module sets (composite literal or assignment) is read somewhere in the module; " +
			"a field that is written and never read holds a computation that cannot take part in the predicate",
		Run: runFieldUsed,
	})
}

type c2FieldUse struct {
	writes    []token.Pos
	reads     []token.Pos
	writeText string
}

// c2FieldUses indexes every write and read of a struct field over the module.
func (c *Ctx) c2FieldUses() map[*types.Var]*c2FieldUse {
	uses := map[*types.Var]*c2FieldUse{}
	get := func(f *types.Var) *c2FieldUse {
		f = f.Origin()
		u := uses[f]
		if u == nil {
			u = &c2FieldUse{}
			uses[f] = u
		}
		return u
	}
	for _, p := range c.SortedPkgs() {
		info := p.TypesInfo
		files := append([]*ast.File(nil), p.Syntax...)
		sort.Slice(files, func(i, j int) bool {
			return c.Fset.Position(files[i].Pos()).Filename < c.Fset.Position(files[j].Pos()).Filename
		})
		for _, file := range files {
			// selectors that are the target of a plain store
			storeTarget := map[*ast.SelectorExpr]bool{}
			ast.Inspect(file, func(n ast.Node) bool {
				as, ok := n.(*ast.AssignStmt)
				if !ok || (as.Tok != token.ASSIGN && as.Tok != token.DEFINE) {
					return true
				}
				for _, l := range as.Lhs {
					l = ast.Unparen(l)
					for {
						if ix, ok := l.(*ast.IndexExpr); ok {
							l = ast.Unparen(ix.X)
							continue
						}
						break
					}
					if sel, ok := l.(*ast.SelectorExpr); ok {
						storeTarget[sel] = true
					}
				}
				return true
			})
			ast.Inspect(file, func(n ast.Node) bool {
				switch x := n.(type) {
				case *ast.SelectorExpr:
					fields, final := c2FieldsOnPath(info, x)
					for i, f := range fields {
						if final && i == len(fields)-1 && storeTarget[x] {
							u := get(f)
							u.writes = append(u.writes, x.Pos())
							if u.writeText == "" {
								u.writeText = "assignment to " + types.ExprString(x)
							}
						} else {
							get(f).reads = append(get(f).reads, x.Pos())
						}
					}
				case *ast.CompositeLit:
					t := info.TypeOf(x)
					if t == nil {
						return true
					}
					st, ok := t.Underlying().(*types.Struct)
					if !ok {
						return true
					}
					for i, el := range x.Elts {
						var f *types.Var
						var val ast.Expr
						if kv, ok := el.(*ast.KeyValueExpr); ok {
							if id, ok := kv.Key.(*ast.Ident); ok {
								f, _ = info.ObjectOf(id).(*types.Var)
							}
							val = kv.Value
						} else if i < st.NumFields() {
							f, val = st.Field(i), el
						}
						if f == nil || !f.IsField() {
							continue
						}
						u := get(f)
						u.writes = append(u.writes, el.Pos())
						if u.writeText == "" {
							u.writeText = fmt.Sprintf("%s: %s in a composite literal", f.Name(), types.ExprString(val))
						}
					}
				}
				return true
			})
		}
	}
	return uses
}

func runFieldUsed(c *Ctx) []Obligation {
	subjects, _ := c.c2SpatialTypes()
	if len(subjects) == 0 {
		return []Obligation{{Key: "b6.spatial#1", Pos: "-", Status: Undecided, Detail: "no spatial query/iterator types found (FILTER-AGREE discovery is empty)"}}
	}
	uses := c.c2FieldUses()
	var out []Obligation
	isSubject := map[*types.TypeName]bool{}
	check := func(n *types.Named, deciding bool) {
		st, ok := n.Underlying().(*types.Struct)
		if !ok {
			return
		}
		rel := "b6"
		if n.Obj().Pkg() != nil {
			if r := n.Obj().Pkg().Path(); len(r) > len(ModulePath) {
				rel = r[len(ModulePath)+1:]
			}
		}
		for i := 0; i < st.NumFields(); i++ {
			f := st.Field(i)
			u := uses[f.Origin()]
			if u == nil || len(u.writes) == 0 {
				continue // never set explicitly: not an instance
			}
			key := fmt.Sprintf("%s.%s.%s#1", rel, n.Obj().Name(), f.Name())
			switch {
			case len(u.reads) > 0 && deciding:
				out = append(out, Obligation{Key: key, Pos: c.Position(f.Pos()), Status: OK,
					Detail: fmt.Sprintf("field %s.%s is set (%s, %s) and read %d times, first at %s", n.Obj().Name(), f.Name(), u.writeText, c.Position(u.writes[0]), len(u.reads), c.Position(u.reads[0]))})
			case len(u.reads) == 0:
				status, pre := Violation, ""
				if !deciding {
					status, pre = Info, "outside the spatial query types: "
				}
				out = append(out, Obligation{Key: key, Pos: c.Position(f.Pos()), Status: status,
					Detail: fmt.Sprintf("%sfield %s.%s is set (%s, %s) but nothing in the module reads it: the value computed for it cannot influence any result", pre, n.Obj().Name(), f.Name(), u.writeText, c.Position(u.writes[0]))})
			}
		}
	}
	for _, n := range subjects {
		if !isSubject[n.Obj()] {
			isSubject[n.Obj()] = true
			check(n, true)
		}
	}
	// every other struct type of the root package, as information
	if root := c.Pkg(""); root != nil {
		scope := root.Types.Scope()
		for _, name := range scope.Names() {
			tn, ok := scope.Lookup(name).(*types.TypeName)
			if !ok || isSubject[tn] || tn.IsAlias() {
				continue
			}
			n, ok := tn.Type().(*types.Named)
			if !ok {
				continue
			}
			generated := false
			for _, file := range root.Syntax {
				if file.Pos() <= tn.Pos() && tn.Pos() < file.End() && c.IsGenerated(file) {
					generated = true
				}
			}
			if !generated {
				check(n, false)
			}
		}
	}
	return out
}
