package main

import (
	"fmt"
	"go/ast"
	"go/token"
	"go/types"
	"sort"
	"strings"

	"golang.org/x/tools/go/packages"
	"golang.org/x/tools/go/ssa"
)

// LITERAL-FIELDS (C21, C23). Subjects: the struct types of package api that implement
// api.Callable, discovered through the interface (today goCall, lambdaCall, partialCall). These
// are the VM's function values; they are built by composite literals at several sibling sites
// (the partial-application branches of goCall/lambdaCall/partialCall.CallFromStack, compile*,
// NewNativeFunction*), and their methods run on every request.
//
// A field F of such a type T is *required* when
//   - it is initialised only through composite literals: no statement of the module assigns
//     x.F (or an element/sub-field of it), increments it, ranges into it or takes its address, and
//   - some method of T reads it on a path without a preceding nil/zero test of that field: in
//     the method's SSA a load of recv.F (value receivers: a Field of the receiver or a load
//     from its spill) lies in a block that is not dominated by a branch on `recv.F ==/!= nil/0`.
//
// Instances: every composite literal of a subject type in the module (function literals
// included). Obligation: a keyed literal names every required field of its type; an unkeyed
// literal sets all fields by construction; an empty literal `T{}` names none. Sibling
// constructors therefore agree on the fields the methods rely on.
//
// Accepted idioms: fields assigned after construction (`p.n = n`, `p.args[i] = …`,
// `l.pc = entrypoint` in a closure) are not required; fields whose every read is behind a
// nil/zero test of the field are optional; a blank declaration `var _ I = T{}` / `&T{}` that
// only asserts interface satisfaction is not an instance.
//
// api.Instruction and api.StackFrame are deliberately not subjects: their literals set
// op-dependent subsets of the fields (Instruction{Op: OpReturn}), so "every literal sets F"
// would not be exact for them.
func init() {
	register(&Rule{
		Name:  "LITERAL-FIELDS",
		IR:    "ssa",
		Props: []string{"C21", "C23"},
		Floor: 9, // goCall ×5, lambdaCall ×1, partialCall ×3 composite literals on today's tree
		Doc: "for the struct types of package api that implement api.Callable: a field that a method reads without a preceding nil/zero test and that is " +
			"initialised only by composite literals is named by every keyed composite literal of the type in the module",
		Run: runLiteralFields,
	})
}

type dLFType struct {
	named    *types.Named
	st       *types.Struct
	required map[int]string // field index -> where it is read
	assigned map[int]bool
}

func runLiteralFields(c *Ctx) []Obligation {
	api := c.Pkg("api")
	if api == nil {
		return nil
	}
	c.BuildSSA()
	ctn, _ := api.Types.Scope().Lookup("Callable").(*types.TypeName)
	if ctn == nil {
		return []Obligation{{Key: "api.Callable", Status: Undecided, Detail: "interface api.Callable not found"}}
	}
	iface, _ := ctn.Type().Underlying().(*types.Interface)
	if iface == nil {
		return []Obligation{{Key: "api.Callable", Status: Undecided, Detail: "api.Callable is not an interface"}}
	}
	// subjects
	var subjects []*dLFType
	byField := map[*types.Var]*dLFType{}
	fieldIndex := map[*types.Var]int{}
	sc := api.Types.Scope()
	for _, name := range sc.Names() {
		tn, ok := sc.Lookup(name).(*types.TypeName)
		if !ok || tn.IsAlias() {
			continue
		}
		nt, ok := tn.Type().(*types.Named)
		if !ok || nt.TypeParams().Len() > 0 {
			continue
		}
		st, ok := nt.Underlying().(*types.Struct)
		if !ok || !(types.Implements(nt, iface) || types.Implements(types.NewPointer(nt), iface)) {
			continue
		}
		t := &dLFType{named: nt, st: st, required: map[int]string{}, assigned: map[int]bool{}}
		subjects = append(subjects, t)
		for i := 0; i < st.NumFields(); i++ {
			byField[st.Field(i)] = t
			fieldIndex[st.Field(i)] = i
		}
	}
	if len(subjects) == 0 {
		return nil
	}

	// 1. fields assigned outside composite literals, anywhere in the module
	for _, p := range c.SortedPkgs() {
		info := p.TypesInfo
		mark := func(e ast.Expr) {
			// walk down x.F[i].G … to every field selector of a subject type on the way
			for e != nil {
				switch x := ast.Unparen(e).(type) {
				case *ast.SelectorExpr:
					if sel := info.Selections[x]; sel != nil && sel.Kind() == types.FieldVal {
						if v, ok := sel.Obj().(*types.Var); ok {
							if t := byField[v]; t != nil {
								t.assigned[fieldIndex[v]] = true
							}
						}
					}
					e = x.X
				case *ast.IndexExpr:
					e = x.X
				case *ast.StarExpr:
					e = x.X
				case *ast.SliceExpr:
					e = x.X
				default:
					e = nil
				}
			}
		}
		for _, f := range p.Syntax {
			ast.Inspect(f, func(n ast.Node) bool {
				switch x := n.(type) {
				case *ast.AssignStmt:
					for _, l := range x.Lhs {
						mark(l)
					}
				case *ast.IncDecStmt:
					mark(x.X)
				case *ast.RangeStmt:
					if x.Tok == token.ASSIGN {
						if x.Key != nil {
							mark(x.Key)
						}
						if x.Value != nil {
							mark(x.Value)
						}
					}
				case *ast.UnaryExpr:
					if x.Op == token.AND {
						if _, isLit := ast.Unparen(x.X).(*ast.CompositeLit); !isLit {
							mark(x.X)
						}
					}
				}
				return true
			})
		}
	}

	// 2. fields read by a method without a preceding nil/zero test
	for _, t := range subjects {
		var methods []*types.Func
		for i := 0; i < t.named.NumMethods(); i++ {
			methods = append(methods, t.named.Method(i))
		}
		sort.Slice(methods, func(i, j int) bool { return methods[i].Name() < methods[j].Name() })
		for _, m := range methods {
			fn := c.SSAFunc(m)
			if fn == nil || len(fn.Blocks) == 0 || len(fn.Params) == 0 {
				continue
			}
			for idx, where := range dLFUnguardedReads(c, fn) {
				if _, ok := t.required[idx]; !ok {
					t.required[idx] = where
				}
			}
		}
	}

	// 3. every composite literal of a subject type
	subjectOf := func(tt types.Type) *dLFType {
		for _, t := range subjects {
			if tt != nil && types.Identical(types.Unalias(tt), t.named) {
				return t
			}
		}
		return nil
	}
	var sites []dSite
	counts := map[*dLFType]int{}
	for _, p := range c.SortedPkgs() {
		info := p.TypesInfo
		files := append([]*ast.File(nil), p.Syntax...)
		sort.Slice(files, func(i, j int) bool {
			return c.Fset.Position(files[i].Pos()).Filename < c.Fset.Position(files[j].Pos()).Filename
		})
		for _, f := range files {
			if c.IsGenerated(f) {
				continue
			}
			blank := dLFBlankAssertions(f)
			for _, d := range f.Decls {
				declName := relPkg(p) + ".(package level)"
				if fd, ok := d.(*ast.FuncDecl); ok {
					declName = c.FuncName(p, fd)
				}
				ast.Inspect(d, func(n ast.Node) bool {
					lit, ok := n.(*ast.CompositeLit)
					if !ok {
						return true
					}
					t := subjectOf(info.TypeOf(lit))
					if t == nil || blank[lit] {
						return true
					}
					counts[t]++
					sites = append(sites, dLFCheck(c, p, t, lit, declName))
					return true
				})
			}
		}
	}
	out := dObligations(c, sites)
	// one informational line per subject type: the enumeration the verdicts rest on
	for _, t := range subjects {
		var req, opt []string
		for i := 0; i < t.st.NumFields(); i++ {
			name := t.st.Field(i).Name()
			switch {
			case t.assigned[i]:
				opt = append(opt, name+" (assigned after construction)")
			case t.required[i] != "":
				req = append(req, name+" (read at "+t.required[i]+")")
			default:
				opt = append(opt, name+" (every read is behind a nil/zero test, or never read by a method)")
			}
		}
		out = append(out, Obligation{Key: "api." + t.named.Obj().Name(), Pos: c.Position(t.named.Obj().Pos()), Status: Info,
			Detail: fmt.Sprintf("%d composite literal(s); required: %s; not required: %s", counts[t], strings.Join(req, ", "), strings.Join(opt, ", "))})
	}
	return out
}

func dLFCheck(c *Ctx, p *packages.Package, t *dLFType, lit *ast.CompositeLit, decl string) dSite {
	s := dSite{decl: decl, pos: lit.Pos(), status: OK}
	tname := t.named.Obj().Name()
	keyed := len(lit.Elts) == 0
	set := map[string]bool{}
	for _, e := range lit.Elts {
		if kv, ok := e.(*ast.KeyValueExpr); ok {
			keyed = true
			if id, ok := kv.Key.(*ast.Ident); ok {
				set[id.Name] = true
			}
		}
	}
	if !keyed {
		s.detail = fmt.Sprintf("unkeyed literal of %s sets every field", tname)
		return s
	}
	var missing []string
	for i := 0; i < t.st.NumFields(); i++ {
		if t.required[i] != "" && !t.assigned[i] && !set[t.st.Field(i).Name()] {
			missing = append(missing, fmt.Sprintf("%s (read without a test at %s)", t.st.Field(i).Name(), t.required[i]))
		}
	}
	if len(missing) > 0 {
		s.status = Violation
		s.detail = fmt.Sprintf("composite literal of %s does not set %s; the field is never assigned outside composite literals, so the method sees its zero value",
			tname, strings.Join(missing, ", "))
		return s
	}
	var names []string
	for n := range set {
		names = append(names, n)
	}
	sort.Strings(names)
	s.detail = fmt.Sprintf("literal of %s sets %s: every required field", tname, strings.Join(names, ", "))
	return s
}

// dLFBlankAssertions: literals that only occur as `var _ T = lit` / `var _ T = &lit`.
func dLFBlankAssertions(f *ast.File) map[*ast.CompositeLit]bool {
	out := map[*ast.CompositeLit]bool{}
	for _, d := range f.Decls {
		gd, ok := d.(*ast.GenDecl)
		if !ok || gd.Tok != token.VAR {
			continue
		}
		for _, sp := range gd.Specs {
			vs, ok := sp.(*ast.ValueSpec)
			if !ok {
				continue
			}
			for i, n := range vs.Names {
				if n.Name != "_" || i >= len(vs.Values) {
					continue
				}
				e := ast.Unparen(vs.Values[i])
				if u, ok := e.(*ast.UnaryExpr); ok && u.Op == token.AND {
					e = ast.Unparen(u.X)
				}
				if lit, ok := e.(*ast.CompositeLit); ok {
					out[lit] = true
				}
			}
		}
	}
	return out
}

// dLFUnguardedReads: field index -> position of a read of recv.<field> in method fn that no
// branch on a nil/zero comparison of the same field dominates.
func dLFUnguardedReads(c *Ctx, fn *ssa.Function) map[int]string {
	recv := fn.Params[0]
	_, ptrRecv := recv.Type().Underlying().(*types.Pointer)
	// the values that denote the receiver struct's address (pointer receiver: the parameter;
	// value receiver: the allocs it is spilled to) or its value (value receiver: the parameter
	// and loads of the spill)
	addr := map[ssa.Value]bool{}
	val := map[ssa.Value]bool{}
	if ptrRecv {
		addr[recv] = true
	} else {
		val[recv] = true
		if recv.Referrers() != nil {
			for _, r := range *recv.Referrers() {
				if st, ok := r.(*ssa.Store); ok && st.Val == ssa.Value(recv) {
					if a, ok := st.Addr.(*ssa.Alloc); ok {
						addr[a] = true
						if a.Referrers() != nil {
							for _, rr := range *a.Referrers() {
								if ld, ok := rr.(*ssa.UnOp); ok && ld.Op == token.MUL {
									val[ld] = true
								}
							}
						}
					}
				}
			}
		}
	}
	type read struct {
		field int
		v     ssa.Value // the value read (or the field address when used for more than a load)
		in    ssa.Instruction
	}
	var reads []read
	for _, b := range fn.Blocks {
		for _, in := range b.Instrs {
			switch x := in.(type) {
			case *ssa.Field:
				if val[x.X] {
					reads = append(reads, read{x.Field, x, x})
				}
			case *ssa.FieldAddr:
				if !addr[x.X] || x.Referrers() == nil {
					continue
				}
				for _, r := range *x.Referrers() {
					switch y := r.(type) {
					case *ssa.UnOp:
						if y.Op == token.MUL {
							reads = append(reads, read{x.Field, y, y})
						}
					case *ssa.Store:
						if y.Addr != ssa.Value(x) {
							reads = append(reads, read{x.Field, x, y})
						}
					case *ssa.DebugRef:
					default:
						// element access, address passed on, …: uses the field's current content
						if ri, ok := r.(ssa.Instruction); ok {
							reads = append(reads, read{x.Field, x, ri})
						}
					}
				}
			}
		}
	}
	// tests: branches on `read ==/!= nil|0`
	tests := map[int][]*ssa.BasicBlock{}
	onlyTested := map[ssa.Value]bool{}
	for _, rd := range reads {
		if rd.v.Referrers() == nil {
			continue
		}
		all := true
		any := false
		for _, r := range *rd.v.Referrers() {
			if _, ok := r.(*ssa.DebugRef); ok {
				continue
			}
			bo, ok := r.(*ssa.BinOp)
			if !ok || (bo.Op != token.EQL && bo.Op != token.NEQ) || !(dLFZero(bo.X) || dLFZero(bo.Y)) {
				all = false
				continue
			}
			if bo.Referrers() != nil {
				for _, rr := range *bo.Referrers() {
					if iff, ok := rr.(*ssa.If); ok {
						tests[rd.field] = append(tests[rd.field], iff.Block())
						any = true
					}
				}
			}
		}
		if all && any {
			onlyTested[rd.v] = true
		}
	}
	out := map[int]string{}
	for _, rd := range reads {
		if onlyTested[rd.v] {
			continue // the read is the test itself
		}
		guarded := false
		for _, tb := range tests[rd.field] {
			if tb != rd.in.Block() && tb.Dominates(rd.in.Block()) {
				guarded = true
			}
		}
		if !guarded {
			if _, ok := out[rd.field]; !ok {
				out[rd.field] = c.Position(dInstrPos(rd.in))
			}
		}
	}
	return out
}

func dLFZero(v ssa.Value) bool {
	k, ok := v.(*ssa.Const)
	if !ok {
		return false
	}
	if k.Value == nil {
		return true
	}
	s := k.Value.ExactString()
	return s == "0" || s == `""` || s == "false"
}
