package main

import (
	"fmt"
	"go/ast"
	"go/constant"
	"go/types"
	"sort"
	"strings"

	"golang.org/x/tools/go/packages"
)

// VALUE-KIND (C11): sibling-table agreement between the writers of tag values and their one reader.
//
// Slots: every concrete type of ingest/compact that is converted to the interface compact.Value
// anywhere in the module (SSA MakeInterface; "implements compact.Value" alone is too wide because
// the interface is structural and Tag, Tags, Members, the area geometries share its method set
// without ever being stored in a tag). One instance per such type, keyed by its Marshal method.
//
// Writer side: the first statement of T.Marshal that touches the buffer parameter contains
// binary.PutUvarint(<the buffer parameter itself>, EncodeValueType(K, x)) with K a constant
// b6.ExpressionType (the EncodeValueType/EncodeGeometry call may sit in a local defined once). If the reader dispatches kind K
// further on a geometry encoding, x must be EncodeGeometry(G, n) with G a constant.
//
// Reader side: the one function of ingest/compact with signature func([]byte) compact.Value
// (inferValueType): a switch over b6.ExpressionType constants whose arms either return a pointer
// to a codec type or switch again over GeometryEncoding constants (tag: DecodeGeometryEncoding(...))
// whose arms return one. This yields the table (K[,G]) -> type.
//
// Obligation for T: Marshal starts with EncodeValueType(K[,G]) and the reader's table maps (K[,G])
// to *T. A Value type whose Marshal writes no kind, or whose kind the reader maps to another type
// or to nothing, cannot be read back from a tag.
func init() {
	register(&Rule{
		Name:  "VALUE-KIND",
		IR:    "ssa",
		Props: []string{"C11"},
		Floor: 6, // Int, LatLng, LatLngs, Reference, References, ReferencesAndLatLngs
		Doc: "every concrete type that is converted to compact.Value starts its Marshal with EncodeValueType(K, ...) for a constant kind K " +
			"(for kinds that the reader dispatches further, EncodeGeometry(G, ...) with a constant geometry encoding G), and the reader of tag values (the func([]byte) Value of ingest/compact, inferValueType) maps (K[,G]) back to a pointer to that same type",
		Run: runValueKind,
	})
}

type bKindKey struct {
	k string // constant value of the kind
	g string // constant value of the geometry encoding, "" when the kind is not dispatched further
}

type bKindArm struct {
	typ   *types.Named
	pos   string
	kName string
	gName string
}

// bReaderTable parses the reader function. nested reports the kinds dispatched on a geometry encoding.
func bReaderTable(c *Ctx, p *packages.Package, fd *ast.FuncDecl) (table map[bKindKey]bKindArm, nested map[string]bool, problems []string) {
	info := p.TypesInfo
	table = map[bKindKey]bKindArm{}
	nested = map[string]bool{}
	var outer *ast.SwitchStmt
	for _, s := range fd.Body.List {
		if sw, ok := s.(*ast.SwitchStmt); ok && sw.Tag != nil {
			if outer != nil {
				problems = append(problems, "more than one top-level switch in the reader")
			}
			outer = sw
		}
	}
	if outer == nil {
		return table, nested, []string{"the reader has no top-level switch over the value kind"}
	}
	retType := func(body []ast.Stmt) (*types.Named, string, bool) {
		// the arm must end in `return <pointer to codec type>`
		for _, s := range body {
			if rs, ok := s.(*ast.ReturnStmt); ok && len(rs.Results) == 1 {
				n := namedOf(info.TypeOf(rs.Results[0]))
				if n != nil && bInCodecPkg(n.Obj()) {
					return n, c.Position(rs.Pos()), true
				}
			}
		}
		return nil, "", false
	}
	add := func(key bKindKey, arm bKindArm) {
		if old, dup := table[key]; dup {
			problems = append(problems, fmt.Sprintf("kind (%s,%s) is mapped twice (%s and %s)", arm.kName, arm.gName, old.pos, arm.pos))
			return
		}
		table[key] = arm
	}
	for _, cl := range outer.Body.List {
		cc := cl.(*ast.CaseClause)
		if cc.List == nil {
			continue // default: panics / unknown kind
		}
		// does the arm dispatch further?
		var inner *ast.SwitchStmt
		for _, s := range cc.Body {
			if sw, ok := s.(*ast.SwitchStmt); ok && sw.Tag != nil {
				inner = sw
			}
		}
		for _, ke := range cc.List {
			tv := info.Types[ke]
			if tv.Value == nil {
				problems = append(problems, fmt.Sprintf("%s: kind case %s is not a constant", c.Position(ke.Pos()), types.ExprString(ke)))
				continue
			}
			k := tv.Value.ExactString()
			if inner == nil {
				if n, pos, ok := retType(cc.Body); ok {
					add(bKindKey{k, ""}, bKindArm{n, pos, types.ExprString(ke), ""})
				} else if !bArmOnlyPanics(info, cc.Body) {
					problems = append(problems, fmt.Sprintf("%s: arm for kind %s neither returns a codec value nor dispatches on a geometry encoding", c.Position(cc.Pos()), types.ExprString(ke)))
				}
				continue
			}
			nested[k] = true
			for _, icl := range inner.Body.List {
				icc := icl.(*ast.CaseClause)
				if icc.List == nil {
					continue
				}
				for _, ge := range icc.List {
					gtv := info.Types[ge]
					if gtv.Value == nil {
						problems = append(problems, fmt.Sprintf("%s: geometry case %s is not a constant", c.Position(ge.Pos()), types.ExprString(ge)))
						continue
					}
					if n, pos, ok := retType(icc.Body); ok {
						add(bKindKey{k, gtv.Value.ExactString()}, bKindArm{n, pos, types.ExprString(ke), types.ExprString(ge)})
					} else if !bArmOnlyPanics(info, icc.Body) {
						problems = append(problems, fmt.Sprintf("%s: arm for geometry encoding %s does not return a codec value", c.Position(icc.Pos()), types.ExprString(ge)))
					}
				}
			}
		}
	}
	return table, nested, problems
}

func bArmOnlyPanics(info *types.Info, body []ast.Stmt) bool {
	if len(body) == 0 {
		return false
	}
	es, ok := body[len(body)-1].(*ast.ExprStmt)
	if !ok {
		return false
	}
	call, ok := es.X.(*ast.CallExpr)
	return ok && noReturn(info, call)
}

// bFindReader: the function(s) of ingest/compact with signature func([]byte) Value.
func bFindReader(c *Ctx, p *packages.Package, iface *types.Named) []*ast.FuncDecl {
	var out []*ast.FuncDecl
	for _, fd := range c.FuncDecls(p) {
		if fd.Recv != nil {
			continue
		}
		obj, _ := p.TypesInfo.Defs[fd.Name].(*types.Func)
		if obj == nil {
			continue
		}
		sig := obj.Type().(*types.Signature)
		if sig.Params().Len() == 1 && sig.Results().Len() == 1 && bIsPlainByteSlice(sig.Params().At(0).Type()) && types.Identical(sig.Results().At(0).Type(), iface) {
			out = append(out, fd)
		}
	}
	return out
}

// bWriterKind extracts (K, G) from the first statement of a Marshal method.
// found=false: no EncodeValueType call at the start.
func bWriterKind(c *Ctx, p *packages.Package, fd *ast.FuncDecl, encodeValueType, encodeGeometry types.Object) (k, g constant.Value, kName, gName string, found bool, elsewhere string, problem string) {
	info := p.TypesInfo
	// the buffer parameter
	var buffer types.Object
	for _, fl := range fd.Type.Params.List {
		for _, n := range fl.Names {
			if o := info.Defs[n]; o != nil && bIsPlainByteSlice(o.Type()) {
				buffer = o
			}
		}
	}
	isEVT := func(call *ast.CallExpr) bool {
		f := calleeFunc(info, call)
		return f != nil && types.Object(f) == encodeValueType
	}
	if len(fd.Body.List) == 0 {
		return nil, nil, "", "", false, "", ""
	}
	// resolve: the expression itself, or the single definition of a local it names
	resolve := func(e ast.Expr) ast.Expr {
		e = ast.Unparen(e)
		id, ok := e.(*ast.Ident)
		if !ok {
			return e
		}
		obj := info.ObjectOf(id)
		var defs []ast.Expr
		ast.Inspect(fd.Body, func(n ast.Node) bool {
			if as, ok := n.(*ast.AssignStmt); ok && len(as.Lhs) == len(as.Rhs) {
				for i, l := range as.Lhs {
					if li, ok := l.(*ast.Ident); ok && info.ObjectOf(li) == obj {
						defs = append(defs, as.Rhs[i])
					}
				}
			}
			return true
		})
		if len(defs) == 1 {
			return ast.Unparen(defs[0])
		}
		return e
	}
	// the header write must be in the first statement that touches the buffer
	var evt *ast.CallExpr
	for _, st := range fd.Body.List {
		touches := false
		inspectShallow(st, func(n ast.Node) bool {
			if id, ok := n.(*ast.Ident); ok && buffer != nil && info.ObjectOf(id) == buffer {
				touches = true
			}
			return true
		})
		if !touches {
			continue
		}
		inspectShallow(st, func(n ast.Node) bool {
			call, ok := n.(*ast.CallExpr)
			if !ok || evt != nil {
				return true
			}
			f := calleeFunc(info, call)
			if f == nil || f.Pkg() == nil || f.Pkg().Path() != "encoding/binary" || f.Name() != "PutUvarint" || len(call.Args) != 2 {
				return true
			}
			if id, ok := ast.Unparen(call.Args[0]).(*ast.Ident); !ok || info.ObjectOf(id) != buffer {
				return true
			}
			if inner, ok := resolve(call.Args[1]).(*ast.CallExpr); ok && isEVT(inner) {
				evt = inner
			}
			return true
		})
		break
	}
	if evt == nil {
		// is there one elsewhere in the body?
		inspectShallow(fd.Body, func(n ast.Node) bool {
			if call, ok := n.(*ast.CallExpr); ok && isEVT(call) && elsewhere == "" {
				elsewhere = c.Position(call.Pos())
			}
			return true
		})
		return nil, nil, "", "", false, elsewhere, ""
	}
	if len(evt.Args) != 2 {
		return nil, nil, "", "", true, "", "EncodeValueType call without two arguments"
	}
	ktv := info.Types[evt.Args[0]]
	if ktv.Value == nil {
		return nil, nil, "", "", true, "", fmt.Sprintf("value kind %s is not a constant", types.ExprString(evt.Args[0]))
	}
	k, kName = ktv.Value, types.ExprString(evt.Args[0])
	if gc, ok := resolve(evt.Args[1]).(*ast.CallExpr); ok {
		if f := calleeFunc(info, gc); f != nil && types.Object(f) == encodeGeometry && len(gc.Args) >= 1 {
			gtv := info.Types[gc.Args[0]]
			if gtv.Value == nil {
				return k, nil, kName, "", true, "", fmt.Sprintf("geometry encoding %s is not a constant", types.ExprString(gc.Args[0]))
			}
			g, gName = gtv.Value, types.ExprString(gc.Args[0])
		}
	}
	return k, g, kName, gName, true, "", ""
}

func runValueKind(c *Ctx) []Obligation {
	p := c.Pkg(bCompactRel)
	iface := bValueIface(c)
	if p == nil || iface == nil {
		return nil // floor reports the rule as vacuous
	}
	encodeValueType := p.Types.Scope().Lookup("EncodeValueType")
	encodeGeometry := p.Types.Scope().Lookup("EncodeGeometry")
	readers := bFindReader(c, p, iface)
	var table map[bKindKey]bKindArm
	var nested map[string]bool
	var readerProblems []string
	readerName := "(none)"
	switch {
	case encodeValueType == nil:
		readerProblems = append(readerProblems, "function EncodeValueType not found in ingest/compact")
	case len(readers) != 1:
		readerProblems = append(readerProblems, fmt.Sprintf("expected exactly one func([]byte) Value in ingest/compact, found %d", len(readers)))
	default:
		readerName = readers[0].Name.Name + " (" + c.Position(readers[0].Pos()) + ")"
		table, nested, readerProblems = bReaderTable(c, p, readers[0])
	}
	vts := bValueTypes(c)
	var out []Obligation
	for _, n := range bSortedNamed(vts) {
		mfd, mp := bMethodDecl(c, n, "Marshal")
		ob := Obligation{Pos: c.Position(vts[n])}
		if mfd == nil || mp != p || mfd.Body == nil {
			ob.Key = relPkg(p) + ".(" + n.Obj().Name() + ").Marshal"
			ob.Status, ob.Detail = Undecided, fmt.Sprintf("%s is converted to compact.Value (%s) but its Marshal method has no body in ingest/compact", n.Obj().Name(), c.Position(vts[n]))
			out = append(out, ob)
			continue
		}
		ob.Key, ob.Pos = c.FuncName(p, mfd), c.Position(mfd.Pos())
		name := n.Obj().Name()
		if len(readerProblems) > 0 {
			ob.Status, ob.Detail = Undecided, "reader of tag values not understood: "+strings.Join(readerProblems, "; ")
			out = append(out, ob)
			continue
		}
		k, g, kName, gName, found, elsewhere, problem := bWriterKind(c, p, mfd, encodeValueType, encodeGeometry)
		made := fmt.Sprintf("*%s becomes a compact.Value at %s", name, c.Position(vts[n]))
		switch {
		case !found && elsewhere != "":
			ob.Status, ob.Detail = Undecided, fmt.Sprintf("%s.Marshal calls EncodeValueType at %s but not as the first write into the buffer", name, elsewhere)
		case !found:
			ob.Status = Violation
			ob.Detail = fmt.Sprintf("%s.Marshal does not start with EncodeValueType(kind, ...): it writes no value kind, so %s cannot give back a *%s; %s", name, readerName, name, made)
			var yields []string
			for key, arm := range table {
				_ = key
				if arm.typ == n {
					yields = append(yields, arm.pos)
				}
			}
			sort.Strings(yields)
			if len(yields) == 0 {
				ob.Detail += fmt.Sprintf("; no arm of %s yields *%s", readers[0].Name.Name, name)
			}
		case problem != "":
			ob.Status, ob.Detail = Undecided, name+".Marshal: "+problem
		default:
			key := bKindKey{k.ExactString(), ""}
			if nested[key.k] {
				if g == nil {
					ob.Status, ob.Detail = Violation, fmt.Sprintf("%s.Marshal writes kind %s without EncodeGeometry(G, ...), but %s dispatches that kind on a geometry encoding", name, kName, readerName)
					break
				}
				key.g = g.ExactString()
			}
			arm, ok := table[key]
			label := kName
			if key.g != "" {
				label += ", " + gName
			}
			switch {
			case !ok:
				ob.Status, ob.Detail = Violation, fmt.Sprintf("%s.Marshal writes value kind (%s) but %s has no arm for it; %s", name, label, readerName, made)
			case arm.typ != n:
				ob.Status, ob.Detail = Violation, fmt.Sprintf("%s.Marshal writes value kind (%s) but %s maps it to *%s (%s)", name, label, readerName, arm.typ.Obj().Name(), arm.pos)
			default:
				ob.Status, ob.Detail = OK, fmt.Sprintf("%s.Marshal writes (%s); %s returns *%s for it (%s)", name, label, readers[0].Name.Name, name, arm.pos)
			}
		}
		out = append(out, ob)
	}
	return out
}
