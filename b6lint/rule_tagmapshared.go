package main

import (
	"fmt"
	"go/ast"
	"go/token"
	"go/types"
	"sort"
	"strings"

	"golang.org/x/tools/go/cfg"
)

// TAGMAP-SHARED (C29): the in-memory ingest (ingest/osm.go) and the compact build
// (ingest/compact) must map OSM tag keys to searchable keys ("highway" -> "#highway") through
// one table, otherwise the two worlds index different keys. A who-reads check.
//
// Slots, by type: every use of the field Key of osm.Tag outside package osm (which only reads
// and writes OSM files) that is not an operand of ==/!= or a switch/case value: these are the
// places where an OSM key leaves OSM data. Today: ingest.FillTagsFromOSM (twice) and
// compact.(*Tags).FromOSM.
//
// Obligation per use — it goes through a mapping table (a package-level map[string]string):
//
//	(a) it is the index of the table (`osmTagMapping[tag.Key]`), or
//	(b) it is an argument of a module function whose body indexes the table with that
//	    parameter (`ingest.KeyForOSMKey(tag.Key)`), or
//	(c) fallback idiom: it initialises a local that the same function also assigns from a
//	    table lookup (`key := tag.Key; if mapped, ok := table[tag.Key]; ok { key = mapped }`),
//	    and on the control-flow graph the lookup (index of the table, or call of a function of
//	    kind (b), with the key) lies on EVERY path from that initialisation to a statement
//	    that uses the local as a value. Uses inside branch conditions do not count; a lookup
//	    that is itself guarded by a condition on the key's content
//	    (`if !strings.Contains(key, ":") { lookup }`) therefore fails: the table contains keys
//	    such as `fhrs:id`.
//
// A function of kind (b) must make its lookup on every path to a return that hands back the
// parameter (no early `return key`).
//
// Anything else (the key stored, looked up in a string table, appended … unmapped) is a
// violation. One more obligation, keyed by the table: all uses resolve to one and the same
// table variable.
func init() {
	register(&Rule{
		Name:  "TAGMAP-SHARED",
		IR:    "ast",
		Props: []string{"C29"},
		// the table ingest.osmTagMapping; ingest.FillTagsFromOSM#1,#2; ingest/compact.(*Tags).FromOSM#1
		Floor: 4,
		Doc: "every place where the key of an OSM tag leaves OSM data (outside package osm, comparisons aside) maps it through the one " +
			"package-level key table, directly, through a function that indexes the table with its parameter, or as the fallback of such a lookup",
		Run: runTagMapShared,
	})
}

// fPkgStringMap returns the package-level map[string]string variable an expression denotes.
func fPkgStringMap(info *types.Info, e ast.Expr) *types.Var {
	var id *ast.Ident
	switch x := ast.Unparen(e).(type) {
	case *ast.Ident:
		id = x
	case *ast.SelectorExpr:
		if _, isPkg := info.Uses[fIdentOf(x.X)].(*types.PkgName); isPkg {
			id = x.Sel
		}
	}
	if id == nil {
		return nil
	}
	v, ok := info.Uses[id].(*types.Var)
	if !ok || v.Pkg() == nil || v.Parent() != v.Pkg().Scope() {
		return nil
	}
	m, ok := v.Type().Underlying().(*types.Map)
	if !ok {
		return nil
	}
	isString := func(t types.Type) bool {
		b, ok := t.Underlying().(*types.Basic)
		return ok && b.Info()&types.IsString != 0
	}
	if !isString(m.Key()) || !isString(m.Elem()) {
		return nil
	}
	return v
}

func fIdentOf(e ast.Expr) *ast.Ident {
	id, _ := ast.Unparen(e).(*ast.Ident)
	return id
}

// fTableFunc: does the module function f index a package-level string table with (a value
// derived from) its parameter number argi? Returns the tables.
func fTableFunc(c *Ctx, f *types.Func, argi int) []*types.Var {
	decl, p := c.Decl(f)
	if decl == nil || decl.Body == nil {
		return nil
	}
	info := p.TypesInfo
	var params []types.Object
	for _, fld := range decl.Type.Params.List {
		if len(fld.Names) == 0 {
			params = append(params, nil)
		}
		for _, nm := range fld.Names {
			params = append(params, info.Defs[nm])
		}
	}
	if argi >= len(params) || params[argi] == nil {
		return nil
	}
	deps := fDependents(info, decl.Body, params[argi])
	var tables []*types.Var
	isLookup := func(n ast.Node) bool {
		found := false
		ast.Inspect(n, func(m ast.Node) bool {
			if ix, ok := m.(*ast.IndexExpr); ok {
				if t := fPkgStringMap(info, ix.X); t != nil && fMentions(info, ix.Index, deps) {
					found = true
				}
			}
			return !found
		})
		return found
	}
	ast.Inspect(decl.Body, func(n ast.Node) bool {
		if ix, ok := n.(*ast.IndexExpr); ok {
			if t := fPkgStringMap(info, ix.X); t != nil && fMentions(info, ix.Index, deps) {
				tables = append(tables, t)
			}
		}
		return true
	})
	if len(tables) == 0 {
		return nil
	}
	// the lookup lies on every path to a return that hands back (something derived from) the parameter
	g := newCFG(info, decl.Body)
	if len(g.Blocks) == 0 {
		return nil
	}
	type item struct {
		b *cfg.Block
		i int
	}
	seen := map[*cfg.Block]bool{g.Blocks[0]: true}
	work := []item{{g.Blocks[0], 0}}
	for len(work) > 0 {
		it := work[0]
		work = work[1:]
		stopped := false
		for i := it.i; i < len(it.b.Nodes); i++ {
			n := it.b.Nodes[i]
			if isLookup(n) {
				stopped = true
				break
			}
			if r, ok := n.(*ast.ReturnStmt); ok {
				for _, e := range r.Results {
					if fMentions(info, e, deps) {
						return nil // the parameter is returned on a path that never consulted the table
					}
				}
			}
		}
		if stopped {
			continue
		}
		for _, sc := range it.b.Succs {
			if !seen[sc] {
				seen[sc] = true
				work = append(work, item{sc, 0})
			}
		}
	}
	return tables
}

// fLookupOnEveryPath checks, on the CFG of the innermost function around the K-use, that every
// path from the statement `def` (k := tag.Key) to a statement that uses k as a value passes a
// lookup of the key in one of the tables. Uses of k inside branch conditions, on the left of
// an assignment and inside the lookup itself are not "uses as a value". It returns a witness
// path and the text of the use reached, or nil.
func fLookupOnEveryPath(c *Ctx, info *types.Info, fd *ast.FuncDecl, chain []ast.Node, def ast.Node, k, tagObj types.Object, tables []*types.Var) ([]string, string) {
	body := fd.Body
	for _, n := range chain {
		if fl, ok := n.(*ast.FuncLit); ok {
			body = fl.Body
		}
	}
	deps := fDependents(info, body, k, tagObj)
	isTable := func(t *types.Var) bool {
		for _, x := range tables {
			if x == t {
				return true
			}
		}
		return false
	}
	// lookup expressions inside a node
	hasLookup := func(n ast.Node) bool {
		found := false
		ast.Inspect(n, func(m ast.Node) bool {
			switch x := m.(type) {
			case *ast.FuncLit:
				return false
			case *ast.IndexExpr:
				if t := fPkgStringMap(info, x.X); t != nil && isTable(t) && fMentions(info, x.Index, deps) {
					found = true
				}
			case *ast.CallExpr:
				if f := calleeFunc(info, x); f != nil {
					for i, a := range x.Args {
						if fMentions(info, a, deps) {
							for _, t := range fTableFunc(c, f.Origin(), i) {
								if isTable(t) {
									found = true
								}
							}
						}
					}
				}
			}
			return !found
		})
		return found
	}
	// does the statement use k as a value?
	valueUse := func(n ast.Node) bool {
		if _, isStmt := n.(ast.Stmt); !isStmt {
			if _, isSpec := n.(*ast.ValueSpec); !isSpec {
				return false // a bare expression in the CFG is a branch condition
			}
		}
		lhs := map[*ast.Ident]bool{}
		if as, ok := n.(*ast.AssignStmt); ok {
			for _, l := range as.Lhs {
				if id := fIdentOf(l); id != nil {
					lhs[id] = true
				}
			}
		}
		found := false
		ast.Inspect(n, func(m ast.Node) bool {
			if _, isLit := m.(*ast.FuncLit); isLit {
				return false
			}
			if id, ok := m.(*ast.Ident); ok && !lhs[id] && info.ObjectOf(id) == k {
				found = true
			}
			return !found
		})
		return found
	}
	redefines := func(n ast.Node) bool {
		as, ok := n.(*ast.AssignStmt)
		if !ok {
			return false
		}
		for i, l := range as.Lhs {
			if id := fIdentOf(l); id != nil && info.ObjectOf(id) == k {
				if len(as.Lhs) != len(as.Rhs) || !fMentions(info, as.Rhs[i], map[types.Object]bool{k: true}) {
					return true
				}
			}
		}
		return false
	}
	g := newCFG(info, body)
	loc, ok := findNode(g, def)
	if !ok {
		return []string{"the assignment was not found in the control-flow graph"}, "an unknown use"
	}
	type item struct {
		b     *cfg.Block
		i     int
		trail []string
	}
	seen := map[*cfg.Block]bool{}
	work := []item{{loc.b, loc.i + 1, nil}}
	for len(work) > 0 {
		it := work[0]
		work = work[1:]
		stopped := false
		for i := it.i; i < len(it.b.Nodes); i++ {
			n := it.b.Nodes[i]
			if hasLookup(n) {
				stopped = true
				break
			}
			if valueUse(n) {
				at := nodeText(c.Fset, n) + " at " + c.Position(n.Pos())
				return append(append([]string(nil), it.trail...), "reaches "+c.Position(n.Pos())+" "+nodeText(c.Fset, n)), at
			}
			if redefines(n) || n == def {
				stopped = true
				break
			}
		}
		if stopped {
			continue
		}
		for _, sc := range it.b.Succs {
			if seen[sc] {
				continue
			}
			seen[sc] = true
			t := it.trail
			if len(sc.Nodes) > 0 {
				t = append(append([]string(nil), it.trail...), fmt.Sprintf("%s (%s)", c.Position(sc.Nodes[0].Pos()), sc.Kind))
			}
			work = append(work, item{sc, 0, t})
		}
	}
	return nil, ""
}

func runTagMapShared(c *Ctx) []Obligation {
	osmp := c.Pkg("osm")
	if osmp == nil {
		return nil
	}
	tn, _ := osmp.Types.Scope().Lookup("Tag").(*types.TypeName)
	if tn == nil {
		return nil
	}
	st, _ := tn.Type().Underlying().(*types.Struct)
	if st == nil {
		return nil
	}
	var keyVar *types.Var
	for i := 0; i < st.NumFields(); i++ {
		if st.Field(i).Name() == "Key" {
			keyVar = st.Field(i)
		}
	}
	if keyVar == nil {
		return nil
	}
	var out []Obligation
	type tableUse struct {
		t   *types.Var
		pos string
		fn  string
	}
	var uses []tableUse
	for _, p := range c.SortedPkgs() {
		if p == osmp {
			continue
		}
		info := p.TypesInfo
		for _, fd := range c.FuncDecls(p) {
			name := c.FuncName(p, fd)
			ord := 0
			var sites []*ast.SelectorExpr
			ast.Inspect(fd.Body, func(n ast.Node) bool {
				if se, ok := n.(*ast.SelectorExpr); ok {
					if sel := info.Selections[se]; sel != nil && sel.Obj() == types.Object(keyVar) {
						sites = append(sites, se)
					}
				}
				return true
			})
			for _, se := range sites {
				chain := enclosing(fd.Body, se)
				// the closest non-paren ancestor
				var parent ast.Node
				var child ast.Node = se
				for i := len(chain) - 2; i >= 0; i-- {
					if _, isParen := chain[i].(*ast.ParenExpr); isParen {
						child = chain[i]
						continue
					}
					parent = chain[i]
					break
				}
				// comparisons are not mappings
				switch x := parent.(type) {
				case *ast.BinaryExpr:
					if x.Op == token.EQL || x.Op == token.NEQ {
						continue
					}
				case *ast.SwitchStmt:
					if x.Tag == child {
						continue
					}
				case *ast.CaseClause:
					continue
				}
				ord++
				ob := Obligation{Key: fmt.Sprintf("%s#%d", name, ord), Pos: c.Position(se.Pos())}
				what := fmt.Sprintf("OSM key %s", types.ExprString(se))
				var tables []*types.Var
				how, bypass := "", ""
				var bypassPath []string
				switch x := parent.(type) {
				case *ast.IndexExpr:
					if x.Index == child {
						if t := fPkgStringMap(info, x.X); t != nil {
							tables, how = []*types.Var{t}, "indexes the table "+t.Pkg().Name()+"."+t.Name()
						}
					}
				case *ast.CallExpr:
					if f := calleeFunc(info, x); f != nil {
						for i, a := range x.Args {
							if a == child {
								if ts := fTableFunc(c, f.Origin(), i); len(ts) > 0 {
									tables, how = ts, fmt.Sprintf("is mapped by %s.%s, which indexes the table %s.%s with that parameter", f.Pkg().Name(), f.Name(), ts[0].Pkg().Name(), ts[0].Name())
								}
							}
						}
					}
				case *ast.AssignStmt, *ast.ValueSpec:
					// fallback idiom
					var lhs *ast.Ident
					switch a := parent.(type) {
					case *ast.AssignStmt:
						for i, r := range a.Rhs {
							if r == child && len(a.Lhs) == len(a.Rhs) {
								lhs = fIdentOf(a.Lhs[i])
							}
						}
					case *ast.ValueSpec:
						for i, r := range a.Values {
							if r == child && len(a.Names) == len(a.Values) {
								lhs = a.Names[i]
							}
						}
					}
					if lhs != nil {
						if k := info.ObjectOf(lhs); k != nil {
							if ts := fFallbackTables(c, info, fd, k); len(ts) > 0 {
								tables, how = ts, fmt.Sprintf("is only the fallback of %s, which the function also assigns from a lookup in the table %s.%s", lhs.Name, ts[0].Pkg().Name(), ts[0].Name())
								// … and the lookup is made on every path from here to a use of the local
								if w, sink := fLookupOnEveryPath(c, info, fd, chain, parent, k, fBaseObj(info, se.X), ts); w != nil {
									bypass = fmt.Sprintf("%s is initialised from the raw OSM key and reaches %s on a path that skips the lookup in %s.%s (the lookup is conditional): keys the table maps are stored unmapped on that path",
										lhs.Name, sink, ts[0].Pkg().Name(), ts[0].Name())
									bypassPath = w
								} else {
									how += "; the lookup lies on every path from this assignment to a use of " + lhs.Name
								}
							}
						}
					}
				}
				if bypass != "" {
					ob.Status, ob.Detail, ob.Path = Violation, what+": "+bypass, bypassPath
					for _, t := range tables {
						uses = append(uses, tableUse{t, ob.Pos, name})
					}
				} else if len(tables) > 0 {
					ob.Status, ob.Detail = OK, what+" "+how
					for _, t := range tables {
						uses = append(uses, tableUse{t, ob.Pos, name})
					}
				} else {
					ob.Status = Violation
					ob.Detail = what + " leaves OSM data without passing through the key mapping table (" + nodeText(c.Fset, parent) + "): the two ingest paths would index different keys"
				}
				out = append(out, ob)
			}
		}
	}
	// one table
	byTable := map[*types.Var][]string{}
	var tables []*types.Var
	for _, u := range uses {
		if _, ok := byTable[u.t]; !ok {
			tables = append(tables, u.t)
		}
		byTable[u.t] = append(byTable[u.t], u.fn+" ("+u.pos+")")
	}
	sort.Slice(tables, func(i, j int) bool {
		a, b := tables[i], tables[j]
		if a.Pkg().Path() != b.Pkg().Path() {
			return a.Pkg().Path() < b.Pkg().Path()
		}
		return a.Name() < b.Name()
	})
	if len(tables) > 0 {
		t := tables[0]
		rel := strings.TrimPrefix(strings.TrimPrefix(t.Pkg().Path(), ModulePath), "/")
		if rel == "" {
			rel = "b6"
		}
		ob := Obligation{Key: rel + "." + t.Name(), Pos: c.Position(t.Pos())}
		if len(tables) == 1 {
			ob.Status = OK
			ob.Detail = fmt.Sprintf("the single key mapping table; read for OSM keys by %s", strings.Join(fSortedStrings(byTable[t]), ", "))
		} else {
			ob.Status = Violation
			var names []string
			for _, x := range tables {
				names = append(names, fmt.Sprintf("%s.%s (read by %s)", x.Pkg().Name(), x.Name(), strings.Join(fSortedStrings(byTable[x]), ", ")))
			}
			ob.Detail = "OSM keys are mapped through more than one table: " + strings.Join(names, "; ")
		}
		out = append(out, ob)
	}
	return out
}

// fFallbackTables: the tables from which fd assigns the local k (k = v with v defined by a
// table lookup, k = table[…], or k = tableFunc(…)).
func fFallbackTables(c *Ctx, info *types.Info, fd *ast.FuncDecl, k types.Object) []*types.Var {
	// objects defined from a table lookup
	fromTable := map[types.Object]*types.Var{}
	lookup := func(e ast.Expr) *types.Var {
		switch x := ast.Unparen(e).(type) {
		case *ast.IndexExpr:
			return fPkgStringMap(info, x.X)
		case *ast.CallExpr:
			if f := calleeFunc(info, x); f != nil {
				for i := range x.Args {
					if ts := fTableFunc(c, f.Origin(), i); len(ts) > 0 {
						return ts[0]
					}
				}
			}
		}
		return nil
	}
	ast.Inspect(fd.Body, func(n ast.Node) bool {
		if as, ok := n.(*ast.AssignStmt); ok && len(as.Rhs) == 1 && len(as.Lhs) >= 1 {
			if t := lookup(as.Rhs[0]); t != nil {
				if id := fIdentOf(as.Lhs[0]); id != nil {
					if o := info.ObjectOf(id); o != nil && o != k {
						fromTable[o] = t
					}
				}
			}
		}
		return true
	})
	var out []*types.Var
	ast.Inspect(fd.Body, func(n ast.Node) bool {
		as, ok := n.(*ast.AssignStmt)
		if !ok || as.Tok != token.ASSIGN || len(as.Lhs) != len(as.Rhs) {
			return true
		}
		for i, l := range as.Lhs {
			id := fIdentOf(l)
			if id == nil || info.ObjectOf(id) != k {
				continue
			}
			if t := lookup(as.Rhs[i]); t != nil {
				out = append(out, t)
			} else if rid := fIdentOf(as.Rhs[i]); rid != nil {
				if t := fromTable[info.ObjectOf(rid)]; t != nil {
					out = append(out, t)
				}
			}
		}
		return true
	})
	return out
}
