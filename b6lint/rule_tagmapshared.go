package main

import (
	"fmt"
	"go/ast"
	"go/token"
	"go/types"
	"sort"
	"strings"
)

// TAGMAP-SHARED (C29): the in-memory ingest (ingest/osm.go) and the compact build
// (ingest/compact) must map OSM tag keys to searchable keys ("highway" -> "#highway") through
// one table, otherwise the two worlds index different keys. A who-reads check.
//
// Slots, by type: every use of the field Key of osm.Tag outside package osm (which only reads
// and writes OSM files) that is not an operand of ==/!= or a switch/case value: these are the
// places where an OSM key leaves OSM data. Today: ingest.FillTagsFromOSM (twice) and
// compact.(*Tags).FromOSM.
//
// Obligation per use — it goes through a mapping table (a package-level map[string]string):
//
//	(a) it is the index of the table (`osmTagMapping[tag.Key]`), or
//	(b) it is an argument of a module function whose body indexes the table with that
//	    parameter (`ingest.KeyForOSMKey(tag.Key)`), or
//	(c) fallback idiom: it initialises a local that the same function also assigns from a
//	    table lookup (`key := tag.Key; if mapped, ok := table[tag.Key]; ok { key = mapped }`).
//
// Anything else (the key stored, looked up in a string table, appended … unmapped) is a
// violation. One more obligation, keyed by the table: all uses resolve to one and the same
// table variable.
func init() {
	register(&Rule{
		Name:  "TAGMAP-SHARED",
		IR:    "ast",
		Props: []string{"C29"},
		// the table ingest.osmTagMapping; ingest.FillTagsFromOSM#1,#2; ingest/compact.(*Tags).FromOSM#1
		Floor: 4,
		Doc: "every place where the key of an OSM tag leaves OSM data (outside package osm, comparisons aside) maps it through the one " +
			"package-level key table, directly, through a function that indexes the table with its parameter, or as the fallback of such a lookup",
		Run: runTagMapShared,
	})
}

// fPkgStringMap returns the package-level map[string]string variable an expression denotes.
func fPkgStringMap(info *types.Info, e ast.Expr) *types.Var {
	var id *ast.Ident
	switch x := ast.Unparen(e).(type) {
	case *ast.Ident:
		id = x
	case *ast.SelectorExpr:
		if _, isPkg := info.Uses[fIdentOf(x.X)].(*types.PkgName); isPkg {
			id = x.Sel
		}
	}
	if id == nil {
		return nil
	}
	v, ok := info.Uses[id].(*types.Var)
	if !ok || v.Pkg() == nil || v.Parent() != v.Pkg().Scope() {
		return nil
	}
	m, ok := v.Type().Underlying().(*types.Map)
	if !ok {
		return nil
	}
	isString := func(t types.Type) bool {
		b, ok := t.Underlying().(*types.Basic)
		return ok && b.Info()&types.IsString != 0
	}
	if !isString(m.Key()) || !isString(m.Elem()) {
		return nil
	}
	return v
}

func fIdentOf(e ast.Expr) *ast.Ident {
	id, _ := ast.Unparen(e).(*ast.Ident)
	return id
}

// fTableFunc: does the module function f index a package-level string table with (a value
// derived from) its parameter number argi? Returns the tables.
func fTableFunc(c *Ctx, f *types.Func, argi int) []*types.Var {
	decl, p := c.Decl(f)
	if decl == nil || decl.Body == nil {
		return nil
	}
	info := p.TypesInfo
	var params []types.Object
	for _, fld := range decl.Type.Params.List {
		if len(fld.Names) == 0 {
			params = append(params, nil)
		}
		for _, nm := range fld.Names {
			params = append(params, info.Defs[nm])
		}
	}
	if argi >= len(params) || params[argi] == nil {
		return nil
	}
	deps := fDependents(info, decl.Body, params[argi])
	var tables []*types.Var
	ast.Inspect(decl.Body, func(n ast.Node) bool {
		if ix, ok := n.(*ast.IndexExpr); ok {
			if t := fPkgStringMap(info, ix.X); t != nil && fMentions(info, ix.Index, deps) {
				tables = append(tables, t)
			}
		}
		return true
	})
	return tables
}

func runTagMapShared(c *Ctx) []Obligation {
	osmp := c.Pkg("osm")
	if osmp == nil {
		return nil
	}
	tn, _ := osmp.Types.Scope().Lookup("Tag").(*types.TypeName)
	if tn == nil {
		return nil
	}
	st, _ := tn.Type().Underlying().(*types.Struct)
	if st == nil {
		return nil
	}
	var keyVar *types.Var
	for i := 0; i < st.NumFields(); i++ {
		if st.Field(i).Name() == "Key" {
			keyVar = st.Field(i)
		}
	}
	if keyVar == nil {
		return nil
	}
	var out []Obligation
	type tableUse struct {
		t   *types.Var
		pos string
		fn  string
	}
	var uses []tableUse
	for _, p := range c.SortedPkgs() {
		if p == osmp {
			continue
		}
		info := p.TypesInfo
		for _, fd := range c.FuncDecls(p) {
			name := c.FuncName(p, fd)
			ord := 0
			var sites []*ast.SelectorExpr
			ast.Inspect(fd.Body, func(n ast.Node) bool {
				if se, ok := n.(*ast.SelectorExpr); ok {
					if sel := info.Selections[se]; sel != nil && sel.Obj() == types.Object(keyVar) {
						sites = append(sites, se)
					}
				}
				return true
			})
			for _, se := range sites {
				chain := enclosing(fd.Body, se)
				// the closest non-paren ancestor
				var parent ast.Node
				var child ast.Node = se
				for i := len(chain) - 2; i >= 0; i-- {
					if _, isParen := chain[i].(*ast.ParenExpr); isParen {
						child = chain[i]
						continue
					}
					parent = chain[i]
					break
				}
				// comparisons are not mappings
				switch x := parent.(type) {
				case *ast.BinaryExpr:
					if x.Op == token.EQL || x.Op == token.NEQ {
						continue
					}
				case *ast.SwitchStmt:
					if x.Tag == child {
						continue
					}
				case *ast.CaseClause:
					continue
				}
				ord++
				ob := Obligation{Key: fmt.Sprintf("%s#%d", name, ord), Pos: c.Position(se.Pos())}
				what := fmt.Sprintf("OSM key %s", types.ExprString(se))
				var tables []*types.Var
				how := ""
				switch x := parent.(type) {
				case *ast.IndexExpr:
					if x.Index == child {
						if t := fPkgStringMap(info, x.X); t != nil {
							tables, how = []*types.Var{t}, "indexes the table "+t.Pkg().Name()+"."+t.Name()
						}
					}
				case *ast.CallExpr:
					if f := calleeFunc(info, x); f != nil {
						for i, a := range x.Args {
							if a == child {
								if ts := fTableFunc(c, f.Origin(), i); len(ts) > 0 {
									tables, how = ts, fmt.Sprintf("is mapped by %s.%s, which indexes the table %s.%s with that parameter", f.Pkg().Name(), f.Name(), ts[0].Pkg().Name(), ts[0].Name())
								}
							}
						}
					}
				case *ast.AssignStmt, *ast.ValueSpec:
					// fallback idiom
					var lhs *ast.Ident
					switch a := parent.(type) {
					case *ast.AssignStmt:
						for i, r := range a.Rhs {
							if r == child && len(a.Lhs) == len(a.Rhs) {
								lhs = fIdentOf(a.Lhs[i])
							}
						}
					case *ast.ValueSpec:
						for i, r := range a.Values {
							if r == child && len(a.Names) == len(a.Values) {
								lhs = a.Names[i]
							}
						}
					}
					if lhs != nil {
						if k := info.ObjectOf(lhs); k != nil {
							if ts := fFallbackTables(c, info, fd, k); len(ts) > 0 {
								tables, how = ts, fmt.Sprintf("is only the fallback of %s, which the function also assigns from a lookup in the table %s.%s", lhs.Name, ts[0].Pkg().Name(), ts[0].Name())
							}
						}
					}
				}
				if len(tables) > 0 {
					ob.Status, ob.Detail = OK, what+" "+how
					for _, t := range tables {
						uses = append(uses, tableUse{t, ob.Pos, name})
					}
				} else {
					ob.Status = Violation
					ob.Detail = what + " leaves OSM data without passing through the key mapping table (" + nodeText(c.Fset, parent) + "): the two ingest paths would index different keys"
				}
				out = append(out, ob)
			}
		}
	}
	// one table
	byTable := map[*types.Var][]string{}
	var tables []*types.Var
	for _, u := range uses {
		if _, ok := byTable[u.t]; !ok {
			tables = append(tables, u.t)
		}
		byTable[u.t] = append(byTable[u.t], u.fn+" ("+u.pos+")")
	}
	sort.Slice(tables, func(i, j int) bool {
		a, b := tables[i], tables[j]
		if a.Pkg().Path() != b.Pkg().Path() {
			return a.Pkg().Path() < b.Pkg().Path()
		}
		return a.Name() < b.Name()
	})
	if len(tables) > 0 {
		t := tables[0]
		rel := strings.TrimPrefix(strings.TrimPrefix(t.Pkg().Path(), ModulePath), "/")
		if rel == "" {
			rel = "b6"
		}
		ob := Obligation{Key: rel + "." + t.Name(), Pos: c.Position(t.Pos())}
		if len(tables) == 1 {
			ob.Status = OK
			ob.Detail = fmt.Sprintf("the single key mapping table; read for OSM keys by %s", strings.Join(fSortedStrings(byTable[t]), ", "))
		} else {
			ob.Status = Violation
			var names []string
			for _, x := range tables {
				names = append(names, fmt.Sprintf("%s.%s (read by %s)", x.Pkg().Name(), x.Name(), strings.Join(fSortedStrings(byTable[x]), ", ")))
			}
			ob.Detail = "OSM keys are mapped through more than one table: " + strings.Join(names, "; ")
		}
		out = append(out, ob)
	}
	return out
}

// fFallbackTables: the tables from which fd assigns the local k (k = v with v defined by a
// table lookup, k = table[…], or k = tableFunc(…)).
func fFallbackTables(c *Ctx, info *types.Info, fd *ast.FuncDecl, k types.Object) []*types.Var {
	// objects defined from a table lookup
	fromTable := map[types.Object]*types.Var{}
	lookup := func(e ast.Expr) *types.Var {
		switch x := ast.Unparen(e).(type) {
		case *ast.IndexExpr:
			return fPkgStringMap(info, x.X)
		case *ast.CallExpr:
			if f := calleeFunc(info, x); f != nil {
				for i := range x.Args {
					if ts := fTableFunc(c, f.Origin(), i); len(ts) > 0 {
						return ts[0]
					}
				}
			}
		}
		return nil
	}
	ast.Inspect(fd.Body, func(n ast.Node) bool {
		if as, ok := n.(*ast.AssignStmt); ok && len(as.Rhs) == 1 && len(as.Lhs) >= 1 {
			if t := lookup(as.Rhs[0]); t != nil {
				if id := fIdentOf(as.Lhs[0]); id != nil {
					if o := info.ObjectOf(id); o != nil && o != k {
						fromTable[o] = t
					}
				}
			}
		}
		return true
	})
	var out []*types.Var
	ast.Inspect(fd.Body, func(n ast.Node) bool {
		as, ok := n.(*ast.AssignStmt)
		if !ok || as.Tok != token.ASSIGN || len(as.Lhs) != len(as.Rhs) {
			return true
		}
		for i, l := range as.Lhs {
			id := fIdentOf(l)
			if id == nil || info.ObjectOf(id) != k {
				continue
			}
			if t := lookup(as.Rhs[i]); t != nil {
				out = append(out, t)
			} else if rid := fIdentOf(as.Rhs[i]); rid != nil {
				if t := fromTable[info.ObjectOf(rid)]; t != nil {
					out = append(out, t)
				}
			}
		}
		return true
	})
	return out
}
