package main

import (
	"fmt"
	"go/ast"
	"go/token"
	"go/types"

	"golang.org/x/tools/go/packages"
)

// SNAPSHOT-FRESH (C14): methods named Snapshot (the name is the property's anchor) with a pointer
// receiver, no parameters and the single result b6.World, in any module package. Let M be the
// fields of the receiver's struct whose type is a map, pointer or slice and that some method of
// the type mutates in place: a store `r.f[k] = v` / `(*r.f)[k] = v`, a store through the field
// (`r.f.g = v`), `delete(r.f, k)`, `r.f = append(r.f, ...)`, or a call `r.f.M(...)` of a method
// that (transitively) stores through its receiver. After Snapshot the live world and the
// snapshot must not share the storage of any member of M.
//
// The body of Snapshot is interpreted symbolically (straight-line code only; anything else is
// undecided). Values are: the storage a field had on entry, fresh storage, a world object, or
// unknown. Accepted idioms:
//   - the snapshot is a struct copy `c := *r` (published as &c) or a composite literal of the
//     receiver's type (published directly, through a local, or through a field such as r.base);
//     fields absent from a literal are zero, i.e. not shared;
//   - fresh storage: make, new, a composite literal or its address, the address of a local
//     variable defined in Snapshot (`i := *r.f; c.f = &i`), nil, and a call of a
//     constructor: a module function all of whose returns yield make/new/a literal/its address,
//     the address of a local initialised that way (also through a conversion), or another
//     constructor (NewFeaturesByID, NewFeatureReferences, NewModifiedTags, newMutableFeatureIndex);
//   - either side may receive the fresh storage (`r.f = New()` or `c.f = New()` / `f: make(...)`).
//
// One obligation per (Snapshot method, member of M), numbered in field declaration order.
func init() {
	register(&Rule{
		Name:  "SNAPSHOT-FRESH",
		IR:    "ast",
		Props: []string{"C14"},
		Floor: 6, // MutableOverlayWorld: features, references, index, tags; MutableTagsOverlayWorld: tags, watchers
		Doc: "after Snapshot() the live world and the returned snapshot share no map/pointer/slice field that a method of the type mutates in place: " +
			"for each such field at least one side receives fresh storage (make, a constructor, a composite literal) inside Snapshot",
		Run: runSnapshotFresh,
	})
}

func runSnapshotFresh(c *Ctx) []Obligation {
	ifs := eLoadIfaces(c)
	if !ifs.ok() {
		return []Obligation{{Key: "b6.World#1", Pos: "-", Status: Undecided, Detail: "interface b6.World not found"}}
	}
	var out []Obligation
	mut := &eMutSummary{c: c, memo: map[*types.Func]int{}}
	for _, p := range c.SortedPkgs() {
		info := p.TypesInfo
		for _, fd := range c.FuncDecls(p) {
			if fd.Name.Name != "Snapshot" || fd.Recv == nil {
				continue
			}
			obj, _ := info.Defs[fd.Name].(*types.Func)
			if obj == nil {
				continue
			}
			sig := obj.Type().(*types.Signature)
			if sig.Params().Len() != 0 || sig.Results().Len() != 1 || !types.Identical(sig.Results().At(0).Type(), ifs.worldNamed) {
				continue
			}
			ptr, ok := sig.Recv().Type().(*types.Pointer)
			if !ok {
				continue
			}
			named := namedOf(ptr)
			if named == nil {
				continue
			}
			st, ok := named.Underlying().(*types.Struct)
			if !ok {
				continue
			}
			name := c.FuncName(p, fd)
			M := eMutatedFields(c, mut, p, named, st)
			res := eInterpretSnapshot(c, p, fd, named, st)
			ord := 0
			for i := 0; i < st.NumFields(); i++ {
				f := st.Field(i)
				ev, in := M[f]
				if !in {
					continue
				}
				ord++
				ob := Obligation{Key: fmt.Sprintf("%s#%d", name, ord), Pos: c.Position(fd.Pos())}
				what := fmt.Sprintf("field %s (%s, mutated in place %s)", f.Name(), types.TypeString(f.Type(), types.RelativeTo(p.Types)), ev)
				switch {
				case res.undecided != "":
					ob.Status, ob.Detail = Undecided, what+": "+res.undecided
				default:
					live, snap := res.live.fields[f], res.snap.fields[f]
					switch {
					case res.live == res.snap:
						ob.Status, ob.Detail = Violation, what+": Snapshot returns the live world itself"
					case live.kind == eAVUnknown || snap.kind == eAVUnknown:
						ob.Status, ob.Detail = Undecided, fmt.Sprintf("%s: cannot tell what storage the %s holds after Snapshot (live: %s, snapshot: %s)", what, map[bool]string{true: "live world", false: "snapshot"}[live.kind == eAVUnknown], live.String(), snap.String())
					case live.same(snap):
						ob.Status = Violation
						ob.Detail = fmt.Sprintf("%s: after Snapshot the live world and the snapshot both hold %s; neither side receives fresh storage, so later edits of the live world change the snapshot", what, live.String())
					default:
						ob.Status = OK
						ob.Detail = fmt.Sprintf("%s: live world holds %s, snapshot holds %s", what, live.String(), snap.String())
					}
				}
				out = append(out, ob)
			}
		}
	}
	return out
}

// ---------------------------------------------------------------------------------------------
// which fields are mutated in place

type eMutSummary struct {
	c    *Ctx
	memo map[*types.Func]int // 0 unknown, 1 in progress / no, 2 yes
}

func eIsRefType(t types.Type) bool {
	switch t.Underlying().(type) {
	case *types.Map, *types.Pointer, *types.Slice:
		return true
	}
	return false
}

// eStoreThroughRef: the left-hand side l, rooted at obj, writes storage that is shared with the
// caller's value of obj (always for a pointer obj; for a value obj only through a map/slice
// element or a pointer dereference).
func eStoreThroughRef(info *types.Info, l ast.Expr, obj types.Object) bool {
	id := eRootIdent(l)
	if id == nil || info.ObjectOf(id) != obj {
		return false
	}
	if _, bare := ast.Unparen(l).(*ast.Ident); bare {
		return false
	}
	if _, isPtr := obj.Type().Underlying().(*types.Pointer); isPtr {
		return true
	}
	through := false
	e := l
	for {
		switch x := e.(type) {
		case *ast.ParenExpr:
			e = x.X
			continue
		case *ast.StarExpr:
			through = true
			e = x.X
			continue
		case *ast.IndexExpr:
			switch info.TypeOf(x.X).Underlying().(type) {
			case *types.Map, *types.Slice, *types.Pointer:
				through = true
			}
			e = x.X
			continue
		case *ast.SelectorExpr:
			if _, isPtr := info.TypeOf(x.X).Underlying().(*types.Pointer); isPtr {
				through = true
			}
			e = x.X
			continue
		}
		break
	}
	return through
}

// mutates: the method stores through its receiver (directly or by calling a method that does).
func (ms *eMutSummary) mutates(fn *types.Func) bool {
	fn = fn.Origin()
	switch ms.memo[fn] {
	case 1:
		return false
	case 2:
		return true
	}
	ms.memo[fn] = 1
	fd, p := ms.c.Decl(fn)
	if fd == nil || fd.Body == nil || p == nil {
		return false
	}
	info := p.TypesInfo
	r := eRecvObj(info, fd)
	if r == nil {
		return false
	}
	found := false
	ast.Inspect(fd.Body, func(n ast.Node) bool {
		if found {
			return false
		}
		switch x := n.(type) {
		case *ast.AssignStmt:
			for _, l := range x.Lhs {
				if eStoreThroughRef(info, l, r) {
					found = true
				}
			}
		case *ast.IncDecStmt:
			if eStoreThroughRef(info, x.X, r) {
				found = true
			}
		case *ast.CallExpr:
			if isBuiltin(info, x, "delete") && len(x.Args) == 2 {
				if id := eRootIdent(x.Args[0]); id != nil && info.ObjectOf(id) == r {
					found = true
				}
				return true
			}
			sel, ok := ast.Unparen(x.Fun).(*ast.SelectorExpr)
			if !ok {
				return true
			}
			if id := eRootIdent(sel.X); id == nil || info.ObjectOf(id) != r {
				return true
			}
			if callee := calleeFunc(info, x); callee != nil && callee.Type().(*types.Signature).Recv() != nil && ms.mutates(callee) {
				found = true
			}
		}
		return true
	})
	if found {
		ms.memo[fn] = 2
	}
	return found
}

// eMutatedFields computes M for a struct type: field -> evidence.
func eMutatedFields(c *Ctx, ms *eMutSummary, p *packages.Package, named *types.Named, st *types.Struct) map[*types.Var]string {
	info := p.TypesInfo
	M := map[*types.Var]string{}
	isField := map[*types.Var]bool{}
	for i := 0; i < st.NumFields(); i++ {
		if eIsRefType(st.Field(i).Type()) {
			isField[st.Field(i)] = true
		}
	}
	for _, fd := range eMethods(c, p, named) {
		r := eRecvObj(info, fd)
		if r == nil {
			continue
		}
		note := func(f *types.Var, how string, pos token.Pos) {
			if f == nil || !isField[f] {
				return
			}
			if _, ok := M[f]; !ok {
				M[f] = fmt.Sprintf("by %s in %s at %s", how, fd.Name.Name, c.Position(pos))
			}
		}
		// first field of the receiver on the access path of e, and whether e is exactly r.f
		firstField := func(e ast.Expr) (*types.Var, bool) {
			exact := true
			for {
				if f := eFieldOf(info, e, r); f != nil {
					if _, isSel := eStrip(e).(*ast.SelectorExpr); isSel {
						return f, exact
					}
				}
				switch x := eStrip(e).(type) {
				case *ast.SelectorExpr:
					e, exact = x.X, false
				case *ast.IndexExpr:
					e, exact = x.X, false
				case *ast.SliceExpr:
					e, exact = x.X, false
				default:
					return nil, false
				}
			}
		}
		lhs := func(l ast.Expr, rhs ast.Expr) {
			f, exact := firstField(l)
			if f == nil {
				return
			}
			if !exact {
				note(f, "a store through it", l.Pos())
				return
			}
			if call, ok := ast.Unparen(rhs).(*ast.CallExpr); ok && isBuiltin(info, call, "append") && len(call.Args) > 0 {
				if g, ex := firstField(call.Args[0]); g == f && ex {
					note(f, "append", l.Pos())
				}
			}
		}
		ast.Inspect(fd.Body, func(n ast.Node) bool {
			switch x := n.(type) {
			case *ast.AssignStmt:
				for i, l := range x.Lhs {
					var rhs ast.Expr
					if len(x.Rhs) == len(x.Lhs) {
						rhs = x.Rhs[i]
					}
					lhs(l, rhs)
				}
			case *ast.IncDecStmt:
				lhs(x.X, nil)
			case *ast.CallExpr:
				if isBuiltin(info, x, "delete") && len(x.Args) == 2 {
					if f, _ := firstField(x.Args[0]); f != nil {
						note(f, "delete", x.Pos())
					}
					return true
				}
				sel, ok := ast.Unparen(x.Fun).(*ast.SelectorExpr)
				if !ok {
					return true
				}
				f, _ := firstField(sel.X)
				if f == nil {
					return true
				}
				if callee := calleeFunc(info, x); callee != nil && callee.Type().(*types.Signature).Recv() != nil && ms.mutates(callee) {
					note(f, "a call of the mutating method "+callee.Name(), x.Pos())
				}
			}
			return true
		})
	}
	return M
}

// ---------------------------------------------------------------------------------------------
// symbolic interpretation of Snapshot

const (
	eAVUnknown = iota
	eAVOld     // the storage field `field` of the receiver had on entry
	eAVFresh   // storage allocated inside Snapshot (allocation number id)
	eAVObj     // a world object
)

type eAV struct {
	kind  int
	field *types.Var
	id    int
	obj   *eObj
	why   string
}

func (a eAV) same(b eAV) bool {
	if a.kind != b.kind {
		return false
	}
	switch a.kind {
	case eAVOld:
		return a.field == b.field
	case eAVFresh:
		return a.id == b.id
	case eAVObj:
		return a.obj == b.obj
	}
	return false
}

func (a eAV) String() string {
	switch a.kind {
	case eAVOld:
		return "the storage of " + a.field.Name() + " from before the call"
	case eAVFresh:
		return "fresh storage (" + a.why + ")"
	case eAVObj:
		return "world object " + a.obj.name
	}
	return "an unknown value (" + a.why + ")"
}

type eObj struct {
	name   string
	fields map[*types.Var]eAV
}

type eSnapResult struct {
	live, snap *eObj
	undecided  string
}

type eSnapInterp struct {
	c      *Ctx
	p      *packages.Package
	info   *types.Info
	named  *types.Named
	st     *types.Struct
	recv   types.Object
	live   *eObj
	locals map[types.Object]eAV
	nfresh int
	fresh  *eFreshSummary
}

func (in *eSnapInterp) newFresh(why string) eAV {
	in.nfresh++
	return eAV{kind: eAVFresh, id: in.nfresh, why: why}
}

func (in *eSnapInterp) clone(o *eObj, name string) *eObj {
	n := &eObj{name: name, fields: map[*types.Var]eAV{}}
	for k, v := range o.fields {
		n.fields[k] = v
	}
	return n
}

func (in *eSnapInterp) isWorldStruct(t types.Type) bool {
	return t != nil && namedOf(t) == in.named
}

func (in *eSnapInterp) fieldByName(name string) *types.Var {
	for i := 0; i < in.st.NumFields(); i++ {
		if in.st.Field(i).Name() == name {
			return in.st.Field(i)
		}
	}
	return nil
}

func (in *eSnapInterp) eval(e ast.Expr) eAV {
	switch x := e.(type) {
	case *ast.ParenExpr:
		return in.eval(x.X)
	case *ast.Ident:
		obj := in.info.ObjectOf(x)
		if obj == in.recv {
			return eAV{kind: eAVObj, obj: in.live}
		}
		if _, isNil := obj.(*types.Nil); isNil {
			return in.newFresh("nil")
		}
		if v, ok := in.locals[obj]; ok {
			return v
		}
		return eAV{kind: eAVUnknown, why: "variable " + x.Name}
	case *ast.UnaryExpr:
		if x.Op == token.AND {
			v := in.eval(x.X)
			if v.kind == eAVObj || v.kind == eAVFresh {
				return v
			}
			if id, ok := ast.Unparen(x.X).(*ast.Ident); ok {
				// the address of a local variable of the function is a new allocation
				if lv, ok := in.info.ObjectOf(id).(*types.Var); ok && lv != in.recv && !lv.IsField() && lv.Parent() != nil && lv.Pkg() != nil && lv.Parent() != lv.Pkg().Scope() {
					if _, seen := in.locals[lv]; seen {
						return in.newFresh("address of the local variable " + id.Name)
					}
				}
			}
			return eAV{kind: eAVUnknown, why: "address of " + types.ExprString(x.X)}
		}
	case *ast.StarExpr:
		v := in.eval(x.X)
		if v.kind == eAVObj {
			return eAV{kind: eAVObj, obj: in.clone(v.obj, "copy of "+v.obj.name)}
		}
		return eAV{kind: eAVUnknown, why: "dereference " + types.ExprString(x)}
	case *ast.SelectorExpr:
		if s := in.info.Selections[x]; s != nil && s.Kind() == types.FieldVal {
			v := in.eval(x.X)
			if f, ok := s.Obj().(*types.Var); ok && v.kind == eAVObj {
				if fv, ok := v.obj.fields[f]; ok {
					return fv
				}
			}
		}
		return eAV{kind: eAVUnknown, why: types.ExprString(x)}
	case *ast.CompositeLit:
		if !in.isWorldStruct(in.info.TypeOf(x)) {
			return in.newFresh("composite literal at " + in.c.Position(x.Pos()))
		}
		o := &eObj{name: "literal at " + in.c.Position(x.Pos()), fields: map[*types.Var]eAV{}}
		for i := 0; i < in.st.NumFields(); i++ {
			o.fields[in.st.Field(i)] = in.newFresh("zero value, absent from the literal")
		}
		for i, el := range x.Elts {
			if kv, ok := el.(*ast.KeyValueExpr); ok {
				if k, ok := kv.Key.(*ast.Ident); ok {
					if f := in.fieldByName(k.Name); f != nil {
						o.fields[f] = in.eval(kv.Value)
					}
				}
			} else if i < in.st.NumFields() {
				o.fields[in.st.Field(i)] = in.eval(el)
			}
		}
		return eAV{kind: eAVObj, obj: o}
	case *ast.BasicLit, *ast.FuncLit:
		return in.newFresh("literal")
	case *ast.CallExpr:
		if isBuiltin(in.info, x, "make") || isBuiltin(in.info, x, "new") {
			return in.newFresh(nodeText(in.c.Fset, x) + " at " + in.c.Position(x.Pos()))
		}
		if tv, ok := in.info.Types[x.Fun]; ok && tv.IsType() && len(x.Args) == 1 {
			return in.eval(x.Args[0]) // conversion
		}
		if f := calleeFunc(in.info, x); f != nil {
			if in.fresh.isCtor(f) {
				return in.newFresh("constructor " + f.Name() + " at " + in.c.Position(x.Pos()))
			}
			return eAV{kind: eAVUnknown, why: "result of " + f.Name() + ", which is not a constructor of fresh storage"}
		}
		return eAV{kind: eAVUnknown, why: "dynamic call " + nodeText(in.c.Fset, x)}
	}
	return eAV{kind: eAVUnknown, why: nodeText(in.c.Fset, e)}
}

func (in *eSnapInterp) assign(l, r ast.Expr) string {
	switch x := ast.Unparen(l).(type) {
	case *ast.Ident:
		if x.Name == "_" {
			return ""
		}
		obj := in.info.ObjectOf(x)
		if obj == in.recv {
			return "the receiver variable is reassigned"
		}
		v := in.eval(r)
		if _, isStruct := obj.Type().Underlying().(*types.Struct); isStruct && v.kind == eAVObj && in.isWorldStruct(obj.Type()) {
			v = eAV{kind: eAVObj, obj: in.clone(v.obj, x.Name)}
			v.obj.name = x.Name
		}
		in.locals[obj] = v
	case *ast.SelectorExpr:
		if s := in.info.Selections[x]; s != nil && s.Kind() == types.FieldVal {
			base := in.eval(x.X)
			if f, ok := s.Obj().(*types.Var); ok && base.kind == eAVObj {
				if _, tracked := base.obj.fields[f]; tracked {
					base.obj.fields[f] = in.eval(r)
					return ""
				}
			}
		}
		// a store deeper inside (x.f.g = v): changes no top-level field of a world object
	case *ast.StarExpr:
		if v := in.eval(x.X); v.kind == eAVObj {
			return "a whole world object is overwritten through a pointer"
		}
	}
	return ""
}

func eInterpretSnapshot(c *Ctx, p *packages.Package, fd *ast.FuncDecl, named *types.Named, st *types.Struct) *eSnapResult {
	info := p.TypesInfo
	in := &eSnapInterp{c: c, p: p, info: info, named: named, st: st, recv: eRecvObj(info, fd), locals: map[types.Object]eAV{},
		fresh: &eFreshSummary{c: c, memo: map[*types.Func]int{}}}
	in.live = &eObj{name: "the live world", fields: map[*types.Var]eAV{}}
	for i := 0; i < st.NumFields(); i++ {
		in.live.fields[st.Field(i)] = eAV{kind: eAVOld, field: st.Field(i)}
	}
	res := &eSnapResult{live: in.live}
	if in.recv == nil {
		res.undecided = "Snapshot has an unnamed receiver"
		return res
	}
	for _, s := range fd.Body.List {
		switch x := s.(type) {
		case *ast.AssignStmt:
			if x.Tok != token.DEFINE && x.Tok != token.ASSIGN || len(x.Lhs) != len(x.Rhs) {
				res.undecided = "statement not interpreted at " + c.Position(s.Pos())
				return res
			}
			// evaluate all right-hand sides first (tuple assignment semantics are not needed: one pair at a time is exact for 1:1)
			for i := range x.Lhs {
				if why := in.assign(x.Lhs[i], x.Rhs[i]); why != "" {
					res.undecided = why + " at " + c.Position(s.Pos())
					return res
				}
			}
		case *ast.DeclStmt:
			gd, ok := x.Decl.(*ast.GenDecl)
			if !ok || gd.Tok != token.VAR {
				continue
			}
			for _, sp := range gd.Specs {
				vs := sp.(*ast.ValueSpec)
				for i, nm := range vs.Names {
					if i < len(vs.Values) && len(vs.Values) == len(vs.Names) {
						if why := in.assign(nm, vs.Values[i]); why != "" {
							res.undecided = why + " at " + c.Position(s.Pos())
							return res
						}
					} else if len(vs.Values) == 0 {
						obj := info.Defs[nm]
						if in.isWorldStruct(obj.Type()) {
							if _, isStruct := obj.Type().Underlying().(*types.Struct); isStruct {
								o := &eObj{name: nm.Name, fields: map[*types.Var]eAV{}}
								for k := 0; k < st.NumFields(); k++ {
									o.fields[st.Field(k)] = in.newFresh("zero value")
								}
								in.locals[obj] = eAV{kind: eAVObj, obj: o}
								continue
							}
						}
						in.locals[obj] = in.newFresh("zero value")
					}
				}
			}
		case *ast.ReturnStmt:
			if len(x.Results) != 1 {
				res.undecided = "return without a single result at " + c.Position(s.Pos())
				return res
			}
			v := in.eval(x.Results[0])
			if v.kind != eAVObj {
				res.undecided = fmt.Sprintf("the returned value %s is not a world object of type %s the rule can follow (%s)", nodeText(c.Fset, x.Results[0]), named.Obj().Name(), v.String())
				return res
			}
			res.snap = v.obj
			return res
		case *ast.ExprStmt:
			// a call: if it is a method call on a world object it may reassign fields
			if call, ok := x.X.(*ast.CallExpr); ok {
				if sel, ok := ast.Unparen(call.Fun).(*ast.SelectorExpr); ok {
					if v := in.eval(sel.X); v.kind == eAVObj {
						res.undecided = fmt.Sprintf("the call %s may reassign fields of a world object (not interpreted)", nodeText(c.Fset, call))
						return res
					}
				}
				for _, a := range call.Args {
					if v := in.eval(a); v.kind == eAVObj {
						res.undecided = fmt.Sprintf("a world object is passed to %s (not interpreted)", nodeText(c.Fset, call))
						return res
					}
				}
			}
		case *ast.EmptyStmt:
		default:
			// control flow is tolerated only when it cannot change which storage a world object's
			// field holds: no return and no assignment to a variable or to a direct field inside it
			harmless := true
			ast.Inspect(s, func(n ast.Node) bool {
				switch y := n.(type) {
				case *ast.ReturnStmt, *ast.GoStmt, *ast.DeferStmt, *ast.FuncLit:
					harmless = false
				case *ast.AssignStmt:
					for _, l := range y.Lhs {
						switch z := ast.Unparen(l).(type) {
						case *ast.Ident:
							if y.Tok != token.DEFINE {
								harmless = false
							}
						case *ast.SelectorExpr:
							if v := in.eval(z.X); v.kind == eAVObj {
								harmless = false
							}
						case *ast.StarExpr:
							harmless = false
						}
					}
				case *ast.CallExpr:
					if sel, ok := ast.Unparen(y.Fun).(*ast.SelectorExpr); ok {
						if v := in.eval(sel.X); v.kind == eAVObj {
							harmless = false
						}
					}
				}
				return harmless
			})
			if !harmless {
				res.undecided = fmt.Sprintf("Snapshot contains control flow the rule does not interpret (%T at %s)", s, c.Position(s.Pos()))
				return res
			}
		}
	}
	res.undecided = "Snapshot ends without a return"
	return res
}

// ---------------------------------------------------------------------------------------------
// constructors of fresh storage

type eFreshSummary struct {
	c    *Ctx
	memo map[*types.Func]int // 1 in progress/no, 2 yes
}

func (fs *eFreshSummary) isCtor(fn *types.Func) bool {
	fn = fn.Origin()
	switch fs.memo[fn] {
	case 1:
		return false
	case 2:
		return true
	}
	fs.memo[fn] = 1
	fd, p := fs.c.Decl(fn)
	if fd == nil || fd.Body == nil || p == nil || fd.Recv != nil {
		return false
	}
	info := p.TypesInfo
	var freshExpr func(e ast.Expr, depth int) bool
	freshExpr = func(e ast.Expr, depth int) bool {
		if depth > 6 {
			return false
		}
		switch x := ast.Unparen(e).(type) {
		case *ast.CompositeLit:
			return true
		case *ast.UnaryExpr:
			if x.Op != token.AND {
				return false
			}
			if _, ok := ast.Unparen(x.X).(*ast.CompositeLit); ok {
				return true
			}
			if id, ok := ast.Unparen(x.X).(*ast.Ident); ok {
				v, _ := info.ObjectOf(id).(*types.Var)
				if v == nil || v.IsField() || v.Parent() == v.Pkg().Scope() {
					return false
				}
				d := eSingleDef(info, fd.Body, v)
				if d == nil {
					// `var x T` without initialiser: a fresh zero value, unless assigned later
					return eOnlyDeclared(info, fd.Body, v)
				}
				_, isRef := v.Type().Underlying().(*types.Map)
				if _, isSlice := v.Type().Underlying().(*types.Slice); isSlice || isRef {
					return d.n == 1 && freshExpr(d.rhs, depth+1) // the map/slice itself must be fresh too
				}
				return d.n == 1
			}
		case *ast.Ident:
			v, _ := info.ObjectOf(x).(*types.Var)
			if v == nil || v.IsField() || v.Parent() == v.Pkg().Scope() {
				return false
			}
			for _, prm := range fd.Type.Params.List {
				for _, nm := range prm.Names {
					if info.Defs[nm] == types.Object(v) {
						return false
					}
				}
			}
			d := eSingleDef(info, fd.Body, v)
			return d != nil && d.n == 1 && freshExpr(d.rhs, depth+1)
		case *ast.CallExpr:
			if isBuiltin(info, x, "make") || isBuiltin(info, x, "new") {
				return true
			}
			if tv, ok := info.Types[x.Fun]; ok && tv.IsType() && len(x.Args) == 1 {
				return freshExpr(x.Args[0], depth+1)
			}
			if f := calleeFunc(info, x); f != nil {
				return fs.isCtor(f)
			}
		}
		return false
	}
	all, n := true, 0
	inspectShallow(fd.Body, func(nd ast.Node) bool {
		if rs, ok := nd.(*ast.ReturnStmt); ok {
			n++
			if len(rs.Results) != 1 || !freshExpr(rs.Results[0], 0) {
				all = false
			}
		}
		return true
	})
	if all && n > 0 {
		fs.memo[fn] = 2
		return true
	}
	return false
}

// eOnlyDeclared: the variable is declared with `var` and never assigned as a whole.
func eOnlyDeclared(info *types.Info, root ast.Node, v *types.Var) bool {
	declared, assigned := false, false
	ast.Inspect(root, func(n ast.Node) bool {
		switch x := n.(type) {
		case *ast.ValueSpec:
			for _, id := range x.Names {
				if info.Defs[id] == types.Object(v) && len(x.Values) == 0 {
					declared = true
				}
			}
		case *ast.AssignStmt:
			for _, l := range x.Lhs {
				if id, ok := l.(*ast.Ident); ok && info.ObjectOf(id) == types.Object(v) {
					assigned = true
				}
			}
		}
		return true
	})
	return declared && !assigned
}
