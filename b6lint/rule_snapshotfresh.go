package main

import (
	"fmt"
	"go/ast"
	"go/token"
	"go/types"
	"strings"

	"golang.org/x/tools/go/packages"
)

// SNAPSHOT-FRESH (C14): methods named Snapshot (the name is the property's anchor) with a pointer
// receiver, no parameters and the single result b6.World, in any module package. Let M be the
// fields of the receiver's struct whose type is a map, pointer or slice and that some method of
// the type mutates in place. For every member the rule records the depth of each in-place write
// it finds, counted in storage levels below the field's value: level 0 is the storage the field
// refers to directly (`r.f[k] = v`, `delete(r.f, k)`, `r.f = append(r.f, ..)`), level 1 the storage
// its elements refer to (`r.f[k][j] = v`, `(*r.f)[k] = v` for a pointer to a map, a store through
// a local or range variable that was read from `r.f[k]`), and so on; a call `X.M(..)` of a method
// that stores through its receiver counts at the level of X plus the method's own level
// (summaries are transitive). After Snapshot the live world and the snapshot must not share any
// storage of a member of M at a level that is written in place.
//
// The body of Snapshot is interpreted symbolically on every path through its if/else statements
// (the conditions are not evaluated: a path on which a written level is shared is a violation
// whatever the condition says, and the report names the branch; two ifs with the same condition,
// with no assignment to its operands in between, take the same branch). Loops are accepted only
// as the element-wise copy below or when they cannot change what a world's field holds; switch,
// select, goto, defer and go that could do so are undecided. Values are: the storage a field had
// on entry, storage allocated in Snapshot, a copy of either that has new storage down to some level and shares the rest, a
// world object, or unknown. Accepted idioms:
//   - the snapshot is a struct copy `c := *r` (published as &c) or a composite literal of the
//     receiver's type (published directly, through a local, or through a field such as r.base);
//     fields absent from a literal are zero, i.e. not shared;
//   - fresh storage (all levels): make, new, a composite literal or its address, the address of a
//     local variable defined in Snapshot (`i := *r.f; c.f = &i`), nil, and a call of a
//     constructor: a module function all of whose returns yield make/new/a literal/its address,
//     the address of a local initialised that way (also through a conversion), or another
//     constructor (NewFeaturesByID, NewFeatureReferences, NewModifiedTags, newMutableFeatureIndex);
//   - shallow copies, fresh at level 0 and shared below: maps.Clone(x), slices.Clone(x),
//     append(T(nil), x...) / append(T{}, x...), `t := make(..); copy(t, x)`, and
//     `t := make(..); for k, v := range x { t[k] = v }`; the same loop with `t[k] = <shallow copy
//     of v>` is fresh at levels 0 and 1 (a deep copy of a map of maps);
//   - either side may receive the fresh storage.
//
// A field is decided per path: not shared (different origins) is ok; shared from level L on is
// ok exactly when every in-place write found for the field is above L (so a shallow copy is
// enough for a map that is only written with f[k] = v, and is a violation for ModifiedTags,
// whose per-feature maps are written through `tags := m.tags[id]; tags[key] = ..`).
// One obligation per (Snapshot method, member of M), numbered in field declaration order.
func init() {
	register(&Rule{
		Name:  "SNAPSHOT-FRESH",
		IR:    "ast",
		Props: []string{"C14"},
		Floor: 6, // MutableOverlayWorld: features, references, index, tags; MutableTagsOverlayWorld: tags, watchers
		Doc: "after Snapshot() the live world and the returned snapshot share no storage of a map/pointer/slice field at a level that a method of the type writes in place: " +
			"on every path through Snapshot at least one side receives storage that is fresh (make, a constructor, a composite literal, or a copy deep enough for the writes found)",
		Run: runSnapshotFresh,
	})
}

func runSnapshotFresh(c *Ctx) []Obligation {
	ifs := eLoadIfaces(c)
	if !ifs.ok() {
		return []Obligation{{Key: "b6.World#1", Pos: "-", Status: Undecided, Detail: "interface b6.World not found"}}
	}
	var out []Obligation
	mut := &eMutSummary{c: c, memo: map[*types.Func]int{}}
	for _, p := range c.SortedPkgs() {
		info := p.TypesInfo
		for _, fd := range c.FuncDecls(p) {
			if fd.Name.Name != "Snapshot" || fd.Recv == nil {
				continue
			}
			obj, _ := info.Defs[fd.Name].(*types.Func)
			if obj == nil {
				continue
			}
			sig := obj.Type().(*types.Signature)
			if sig.Params().Len() != 0 || sig.Results().Len() != 1 || !types.Identical(sig.Results().At(0).Type(), ifs.worldNamed) {
				continue
			}
			ptr, ok := sig.Recv().Type().(*types.Pointer)
			if !ok {
				continue
			}
			named := namedOf(ptr)
			if named == nil {
				continue
			}
			st, ok := named.Underlying().(*types.Struct)
			if !ok {
				continue
			}
			name := c.FuncName(p, fd)
			M := eMutatedFields(c, mut, p, named, st)
			paths, undecided := eInterpretSnapshot(c, p, fd, named, st)
			ord := 0
			for i := 0; i < st.NumFields(); i++ {
				f := st.Field(i)
				mi, in := M[f]
				if !in {
					continue
				}
				ord++
				ob := Obligation{Key: fmt.Sprintf("%s#%d", name, ord), Pos: c.Position(fd.Pos())}
				what := fmt.Sprintf("field %s (%s, written in place %s", f.Name(), types.TypeString(f.Type(), types.RelativeTo(p.Types)), mi.first)
				if mi.maxLevel > 0 {
					deeper := ""
					if mi.maxLevel == eMaxLevel {
						deeper = " or deeper"
					}
					what += fmt.Sprintf("; deepest write found at level %d%s %s", mi.maxLevel, deeper, mi.deepest)
				}
				what += ")"
				if undecided != "" {
					ob.Status, ob.Detail = Undecided, what+": "+undecided
					out = append(out, ob)
					continue
				}
				ob.Status = OK
				var okDetail string
				for _, pe := range paths {
					where := ""
					if len(pe.trail) > 0 {
						where = " on the path taking " + strings.Join(pe.trail, ", then ")
					}
					st2, d := eDecideField(f, mi, pe)
					switch st2 {
					case Violation:
						if ob.Status != Violation {
							ob.Status, ob.Detail = Violation, what+where+": "+d
						}
					case Undecided:
						if ob.Status == OK {
							ob.Status, ob.Detail = Undecided, what+where+": "+d
						}
					default:
						if okDetail == "" {
							okDetail = d
						}
					}
				}
				if ob.Status == OK {
					ob.Detail = what + ": " + okDetail
					if len(paths) > 1 {
						ob.Detail += fmt.Sprintf(" (and likewise on all %d paths through Snapshot)", len(paths))
					}
				}
				out = append(out, ob)
			}
		}
	}
	return out
}

// eDecideField decides one field on one path.
func eDecideField(f *types.Var, mi *eMutInfo, pe *ePathEnd) (string, string) {
	if pe.undecided != "" {
		return Undecided, pe.undecided
	}
	if pe.snap == pe.st.live {
		return Violation, "Snapshot returns the live world itself"
	}
	live, snap := pe.st.live.fields[f], pe.snap.fields[f]
	switch {
	case live.kind == eAVUnknown || snap.kind == eAVUnknown:
		side := "snapshot"
		if live.kind == eAVUnknown {
			side = "live world"
		}
		return Undecided, fmt.Sprintf("cannot tell what storage the %s holds after Snapshot (live: %s, snapshot: %s)", side, live.String(), snap.String())
	case !live.sameRoot(snap):
		return OK, fmt.Sprintf("live world holds %s, snapshot holds %s", live.String(), snap.String())
	}
	level := live.fd
	if snap.fd > level {
		level = snap.fd
	}
	if level == 0 {
		return Violation, fmt.Sprintf("after Snapshot the live world and the snapshot both hold %s; neither side receives fresh storage, so later edits of the live world change the snapshot", live.String())
	}
	if mi.maxLevel >= level {
		return Violation, fmt.Sprintf("live world holds %s, snapshot holds %s: the copy is shallow: it shares the inner storage from level %d on, but the field is written in place at level %d %s, so later edits of the live world change the snapshot",
			live.String(), snap.String(), level, mi.maxLevel, mi.deepest)
	}
	return OK, fmt.Sprintf("live world holds %s, snapshot holds %s: shared only from level %d on, every in-place write found is above (deepest at level %d)", live.String(), snap.String(), level, mi.maxLevel)
}

// ---------------------------------------------------------------------------------------------
// which fields are written in place, and how deep

type eMutInfo struct {
	first    string // evidence of the first write found
	maxLevel int
	deepest  string // evidence of the deepest write
}

type eMutSummary struct {
	c    *Ctx
	memo map[*types.Func]int // 0 unknown, 1 in progress / none, 2+k: writes through the receiver down to level k
}

func eIsRefType(t types.Type) bool {
	switch t.Underlying().(type) {
	case *types.Map, *types.Pointer, *types.Slice:
		return true
	}
	return false
}

// eRef is an access path: the member of M it starts from (nil inside method summaries, where it
// starts from the receiver) and the number of dereference steps (index into a map/slice, explicit
// or implicit pointer dereference) taken from the starting value.
type eRef struct {
	field *types.Var
	steps int
}

// eMaxLevel caps the levels the rule distinguishes (walks over linked structures such as trees
// would otherwise count every hop): a write at level eMaxLevel means "that deep or deeper".
const eMaxLevel = 4

func eCapLevel(n int) int {
	if n > eMaxLevel {
		return eMaxLevel
	}
	return n
}

// eSteps computes the access path of e; base recognises starting expressions.
func eSteps(info *types.Info, e ast.Expr, base func(ast.Expr) (eRef, bool)) (eRef, bool) {
	e = ast.Unparen(e)
	if r, ok := base(e); ok {
		return r, true
	}
	switch x := e.(type) {
	case *ast.StarExpr:
		r, ok := eSteps(info, x.X, base)
		r.steps++
		return r, ok
	case *ast.IndexExpr:
		r, ok := eSteps(info, x.X, base)
		if t := info.TypeOf(x.X); t != nil {
			switch t.Underlying().(type) {
			case *types.Map, *types.Slice, *types.Pointer:
				r.steps++
			}
		}
		return r, ok
	case *ast.SliceExpr:
		return eSteps(info, x.X, base)
	case *ast.SelectorExpr:
		if s := info.Selections[x]; s == nil || s.Kind() != types.FieldVal {
			return eRef{}, false
		}
		r, ok := eSteps(info, x.X, base)
		if t := info.TypeOf(x.X); t != nil {
			if _, isPtr := t.Underlying().(*types.Pointer); isPtr {
				r.steps++
			}
		}
		return r, ok
	}
	return eRef{}, false
}

// eAliases finds locals that hold a reference read from below a base (`tags := r.f[id]`,
// `for _, w := range r.f`), to a fixpoint.
func eAliases(info *types.Info, body ast.Node, base func(ast.Expr) (eRef, bool)) map[types.Object]eRef {
	aliases := map[types.Object]eRef{}
	full := func(e ast.Expr) (eRef, bool) {
		if id, ok := ast.Unparen(e).(*ast.Ident); ok {
			if r, ok := aliases[info.ObjectOf(id)]; ok {
				return r, true
			}
		}
		return base(e)
	}
	bind := func(l ast.Expr, r eRef) bool {
		id, ok := l.(*ast.Ident)
		if !ok || id.Name == "_" {
			return false
		}
		obj := info.ObjectOf(id)
		if obj == nil || !eIsRefType(obj.Type()) {
			return false
		}
		r.steps = eCapLevel(r.steps)
		if old, ok := aliases[obj]; ok && old.steps >= r.steps {
			return false
		}
		aliases[obj] = r
		return true
	}
	for changed, n := true, 0; changed && n < 8; n++ {
		changed = false
		ast.Inspect(body, func(nd ast.Node) bool {
			switch x := nd.(type) {
			case *ast.AssignStmt:
				if len(x.Rhs) == len(x.Lhs) {
					for i, rh := range x.Rhs {
						if r, ok := eSteps(info, rh, full); ok && r.steps >= 1 && bind(x.Lhs[i], r) {
							changed = true
						}
					}
				} else if len(x.Rhs) == 1 && len(x.Lhs) == 2 {
					if r, ok := eSteps(info, x.Rhs[0], full); ok && r.steps >= 1 && bind(x.Lhs[0], r) {
						changed = true
					}
				}
			case *ast.RangeStmt:
				if x.Value != nil {
					if r, ok := eSteps(info, x.X, full); ok {
						r.steps++
						if bind(x.Value, r) {
							changed = true
						}
					}
				}
			}
			return true
		})
	}
	return aliases
}

// eWrites enumerates the in-place writes inside body: for each, its access path below a base,
// the storage level written, a description and a position.
func eWrites(info *types.Info, ms *eMutSummary, body ast.Node, base func(ast.Expr) (eRef, bool), report func(r eRef, level int, how string, pos token.Pos)) {
	aliases := eAliases(info, body, base)
	full := func(e ast.Expr) (eRef, bool) {
		if id, ok := ast.Unparen(e).(*ast.Ident); ok {
			if r, ok := aliases[info.ObjectOf(id)]; ok {
				return r, true
			}
		}
		return base(e)
	}
	store := func(l ast.Expr, rhs ast.Expr) {
		if _, bare := ast.Unparen(l).(*ast.Ident); bare {
			return // assigning a variable is not a write through it
		}
		r, ok := eSteps(info, l, full)
		if !ok {
			return
		}
		if r.steps >= 1 {
			report(r, r.steps-1, "by the store "+types.ExprString(l)+" = ..", l.Pos())
			return
		}
		if rhs == nil {
			return
		}
		if call, ok := ast.Unparen(rhs).(*ast.CallExpr); ok && isBuiltin(info, call, "append") && len(call.Args) > 0 {
			if a, ok := eSteps(info, call.Args[0], full); ok && a == r {
				report(r, 0, "by append", l.Pos())
			}
		}
	}
	ast.Inspect(body, func(n ast.Node) bool {
		switch x := n.(type) {
		case *ast.AssignStmt:
			for i, l := range x.Lhs {
				if _, isIdent := ast.Unparen(l).(*ast.Ident); isIdent && x.Tok == token.DEFINE {
					continue
				}
				var rhs ast.Expr
				if len(x.Rhs) == len(x.Lhs) {
					rhs = x.Rhs[i]
				}
				store(l, rhs)
			}
		case *ast.IncDecStmt:
			store(x.X, nil)
		case *ast.CallExpr:
			if isBuiltin(info, x, "delete") && len(x.Args) == 2 {
				if r, ok := eSteps(info, x.Args[0], full); ok {
					report(r, r.steps, "by "+types.ExprString(x), x.Pos())
				}
				return true
			}
			sel, ok := ast.Unparen(x.Fun).(*ast.SelectorExpr)
			if !ok {
				return true
			}
			r, ok := eSteps(info, sel.X, full)
			if !ok {
				return true
			}
			if callee := calleeFunc(info, x); callee != nil && callee.Type().(*types.Signature).Recv() != nil {
				if lv := ms.level(callee); lv >= 0 {
					report(r, r.steps+lv, "by a call of the mutating method "+callee.Name(), x.Pos())
				}
			}
		}
		return true
	})
}

// level: the deepest storage level, counted from the receiver's value, that the method writes in
// place (directly or by calling a method that does); -1 when it writes nothing through it.
func (ms *eMutSummary) level(fn *types.Func) int {
	fn = fn.Origin()
	switch m := ms.memo[fn]; {
	case m == 1:
		return -1
	case m >= 2:
		return m - 2
	}
	ms.memo[fn] = 1
	fd, p := ms.c.Decl(fn)
	if fd == nil || fd.Body == nil || p == nil {
		return -1
	}
	info := p.TypesInfo
	r := eRecvObj(info, fd)
	if r == nil {
		return -1
	}
	base := func(e ast.Expr) (eRef, bool) {
		if id, ok := e.(*ast.Ident); ok && info.ObjectOf(id) == r {
			return eRef{}, true
		}
		return eRef{}, false
	}
	max := -1
	eWrites(info, ms, fd.Body, base, func(_ eRef, level int, _ string, _ token.Pos) {
		if level = eCapLevel(level); level > max {
			max = level
		}
	})
	if max >= 0 {
		ms.memo[fn] = 2 + max
	}
	return max
}

// eMutatedFields computes M for a struct type.
func eMutatedFields(c *Ctx, ms *eMutSummary, p *packages.Package, named *types.Named, st *types.Struct) map[*types.Var]*eMutInfo {
	info := p.TypesInfo
	M := map[*types.Var]*eMutInfo{}
	member := map[*types.Var]bool{}
	for i := 0; i < st.NumFields(); i++ {
		if eIsRefType(st.Field(i).Type()) {
			member[st.Field(i)] = true
		}
	}
	for _, fd := range eMethods(c, p, named) {
		r := eRecvObj(info, fd)
		if r == nil {
			continue
		}
		base := func(e ast.Expr) (eRef, bool) {
			sel, ok := e.(*ast.SelectorExpr)
			if !ok {
				return eRef{}, false
			}
			id, ok := ast.Unparen(sel.X).(*ast.Ident)
			if !ok || info.ObjectOf(id) != r {
				return eRef{}, false
			}
			if s := info.Selections[sel]; s != nil && s.Kind() == types.FieldVal {
				if f, ok := s.Obj().(*types.Var); ok && member[f] {
					return eRef{field: f}, true
				}
			}
			return eRef{}, false
		}
		eWrites(info, ms, fd.Body, base, func(ref eRef, level int, how string, pos token.Pos) {
			if ref.field == nil {
				return
			}
			level = eCapLevel(level)
			ev := fmt.Sprintf("%s in %s at %s", how, fd.Name.Name, c.Position(pos))
			mi := M[ref.field]
			if mi == nil {
				mi = &eMutInfo{first: ev, maxLevel: level, deepest: ev}
				M[ref.field] = mi
			} else if level > mi.maxLevel {
				mi.maxLevel, mi.deepest = level, ev
			}
		})
	}
	return M
}

// ---------------------------------------------------------------------------------------------
// symbolic interpretation of Snapshot

const (
	eAVUnknown = iota
	eAVOld     // the storage field `field` of the receiver had on entry
	eAVFresh   // storage allocated inside Snapshot (allocation number id)
	eAVObj     // a world object
)

// eAV is an abstract value. For Old and Fresh, fd > 0 means a copy of that storage that is fresh
// at the levels above fd and shares the levels from fd on with the original.
type eAV struct {
	kind  int
	field *types.Var
	id    int
	obj   *eObj
	fd    int
	why   string // how the storage came about
	cwhy  string // for a copy: how it was copied
}

func (a eAV) sameRoot(b eAV) bool {
	if a.kind != b.kind {
		return false
	}
	switch a.kind {
	case eAVOld:
		return a.field == b.field
	case eAVFresh:
		return a.id == b.id
	case eAVObj:
		return a.obj == b.obj
	}
	return false
}

func (a eAV) String() string {
	s := ""
	switch a.kind {
	case eAVOld:
		s = "the storage of " + a.field.Name() + " from before the call"
	case eAVFresh:
		s = "fresh storage (" + a.why + ")"
	case eAVObj:
		return "world object " + a.obj.name
	default:
		return "an unknown value (" + a.why + ")"
	}
	if a.fd > 0 {
		s = fmt.Sprintf("a copy (%s; new storage at levels 0..%d, shared from level %d on) of %s", a.cwhy, a.fd-1, a.fd, s)
	}
	return s
}

type eObj struct {
	name   string
	fields map[*types.Var]eAV
}

type eCondRec struct {
	cond    ast.Expr
	outcome bool
	roots   map[types.Object]bool
}

type eSnapState struct {
	live   *eObj
	locals map[types.Object]eAV
	conds  []eCondRec
	trail  []string
}

type ePathEnd struct {
	st        *eSnapState
	snap      *eObj
	trail     []string
	undecided string
}

type eSnapInterp struct {
	c      *Ctx
	p      *packages.Package
	info   *types.Info
	named  *types.Named
	st     *types.Struct
	recv   types.Object
	cur    *eSnapState
	nfresh int
	fresh  *eFreshSummary
}

// cloneState copies a state, preserving aliasing between world objects.
func cloneState(s *eSnapState) *eSnapState {
	memo := map[*eObj]*eObj{}
	var cobj func(o *eObj) *eObj
	cav := func(v eAV) eAV {
		if v.kind == eAVObj && v.obj != nil {
			v.obj = cobj(v.obj)
		}
		return v
	}
	cobj = func(o *eObj) *eObj {
		if n, ok := memo[o]; ok {
			return n
		}
		n := &eObj{name: o.name, fields: map[*types.Var]eAV{}}
		memo[o] = n
		for k, v := range o.fields {
			n.fields[k] = cav(v)
		}
		return n
	}
	n := &eSnapState{live: cobj(s.live), locals: map[types.Object]eAV{}}
	for k, v := range s.locals {
		n.locals[k] = cav(v)
	}
	n.conds = append([]eCondRec(nil), s.conds...)
	n.trail = append([]string(nil), s.trail...)
	return n
}

func (in *eSnapInterp) newFresh(why string) eAV {
	in.nfresh++
	return eAV{kind: eAVFresh, id: in.nfresh, why: why}
}

func (in *eSnapInterp) cloneObj(o *eObj, name string) *eObj {
	n := &eObj{name: name, fields: map[*types.Var]eAV{}}
	for k, v := range o.fields {
		n.fields[k] = v
	}
	return n
}

func (in *eSnapInterp) isWorldStruct(t types.Type) bool {
	return t != nil && namedOf(t) == in.named
}

func (in *eSnapInterp) fieldByName(name string) *types.Var {
	for i := 0; i < in.st.NumFields(); i++ {
		if in.st.Field(i).Name() == name {
			return in.st.Field(i)
		}
	}
	return nil
}

// shallow returns a copy of v that is fresh above level 1+extra.
func (in *eSnapInterp) shallow(v eAV, extra int, why string) eAV {
	switch v.kind {
	case eAVOld, eAVFresh:
		if v.kind == eAVFresh && v.fd == 0 && v.why == "nil" {
			return v
		}
		n := v
		if n.fd < 1+extra {
			n.fd = 1 + extra
		}
		n.cwhy = why
		return n
	}
	return eAV{kind: eAVUnknown, why: "copy of " + v.String()}
}

// isStdClone: maps.Clone / slices.Clone (shallow by definition).
func eIsStdClone(f *types.Func) bool {
	if f == nil || f.Pkg() == nil || f.Name() != "Clone" {
		return false
	}
	return f.Pkg().Path() == "maps" || f.Pkg().Path() == "slices"
}

// cloneDepth: e is `of` itself (0), or a shallow copy of it (1); -1 otherwise.
func (in *eSnapInterp) copyOf(e ast.Expr, of types.Object) int {
	e = ast.Unparen(e)
	if id, ok := e.(*ast.Ident); ok && in.info.ObjectOf(id) == of {
		return 0
	}
	if call, ok := e.(*ast.CallExpr); ok {
		if f := calleeFunc(in.info, call); eIsStdClone(f) && len(call.Args) == 1 {
			if in.copyOf(call.Args[0], of) == 0 {
				return 1
			}
		}
		if isBuiltin(in.info, call, "append") && len(call.Args) == 2 && call.Ellipsis.IsValid() && in.emptyBase(call.Args[0]) {
			if in.copyOf(call.Args[1], of) == 0 {
				return 1
			}
		}
	}
	return -1
}

// emptyBase: T(nil), T{}, nil or a zero-length make: the first argument of a copying append.
func (in *eSnapInterp) emptyBase(e ast.Expr) bool {
	switch x := ast.Unparen(e).(type) {
	case *ast.Ident:
		_, isNil := in.info.ObjectOf(x).(*types.Nil)
		return isNil
	case *ast.CompositeLit:
		return len(x.Elts) == 0
	case *ast.CallExpr:
		if tv, ok := in.info.Types[x.Fun]; ok && tv.IsType() && len(x.Args) == 1 {
			return in.emptyBase(x.Args[0])
		}
	}
	return false
}

func (in *eSnapInterp) eval(e ast.Expr) eAV {
	switch x := e.(type) {
	case *ast.ParenExpr:
		return in.eval(x.X)
	case *ast.Ident:
		obj := in.info.ObjectOf(x)
		if obj == in.recv {
			return eAV{kind: eAVObj, obj: in.cur.live}
		}
		if _, isNil := obj.(*types.Nil); isNil {
			return in.newFresh("nil")
		}
		if v, ok := in.cur.locals[obj]; ok {
			return v
		}
		return eAV{kind: eAVUnknown, why: "variable " + x.Name}
	case *ast.UnaryExpr:
		if x.Op == token.AND {
			v := in.eval(x.X)
			if v.kind == eAVObj || (v.kind == eAVFresh && v.fd == 0) {
				return v
			}
			if id, ok := ast.Unparen(x.X).(*ast.Ident); ok {
				// the address of a local variable of the function is a new allocation
				if lv, ok := in.info.ObjectOf(id).(*types.Var); ok && types.Object(lv) != in.recv && !lv.IsField() && lv.Parent() != nil && lv.Pkg() != nil && lv.Parent() != lv.Pkg().Scope() {
					if _, seen := in.cur.locals[lv]; seen {
						return in.newFresh("address of the local variable " + id.Name)
					}
				}
			}
			return eAV{kind: eAVUnknown, why: "address of " + types.ExprString(x.X)}
		}
	case *ast.StarExpr:
		v := in.eval(x.X)
		if v.kind == eAVObj {
			return eAV{kind: eAVObj, obj: in.cloneObj(v.obj, "copy of "+v.obj.name)}
		}
		return eAV{kind: eAVUnknown, why: "dereference " + types.ExprString(x)}
	case *ast.SelectorExpr:
		if s := in.info.Selections[x]; s != nil && s.Kind() == types.FieldVal {
			v := in.eval(x.X)
			if f, ok := s.Obj().(*types.Var); ok && v.kind == eAVObj {
				if fv, ok := v.obj.fields[f]; ok {
					return fv
				}
			}
		}
		return eAV{kind: eAVUnknown, why: types.ExprString(x)}
	case *ast.CompositeLit:
		if !in.isWorldStruct(in.info.TypeOf(x)) {
			return in.newFresh("composite literal at " + in.c.Position(x.Pos()))
		}
		o := &eObj{name: "literal at " + in.c.Position(x.Pos()), fields: map[*types.Var]eAV{}}
		for i := 0; i < in.st.NumFields(); i++ {
			o.fields[in.st.Field(i)] = in.newFresh("zero value, absent from the literal")
		}
		for i, el := range x.Elts {
			if kv, ok := el.(*ast.KeyValueExpr); ok {
				if k, ok := kv.Key.(*ast.Ident); ok {
					if f := in.fieldByName(k.Name); f != nil {
						o.fields[f] = in.eval(kv.Value)
					}
				}
			} else if i < in.st.NumFields() {
				o.fields[in.st.Field(i)] = in.eval(el)
			}
		}
		return eAV{kind: eAVObj, obj: o}
	case *ast.BasicLit, *ast.FuncLit:
		return in.newFresh("literal")
	case *ast.CallExpr:
		if isBuiltin(in.info, x, "make") || isBuiltin(in.info, x, "new") {
			return in.newFresh(nodeText(in.c.Fset, x) + " at " + in.c.Position(x.Pos()))
		}
		if isBuiltin(in.info, x, "append") && len(x.Args) == 2 && x.Ellipsis.IsValid() && in.emptyBase(x.Args[0]) {
			return in.shallow(in.eval(x.Args[1]), 0, "append to an empty slice at "+in.c.Position(x.Pos()))
		}
		if tv, ok := in.info.Types[x.Fun]; ok && tv.IsType() && len(x.Args) == 1 {
			return in.eval(x.Args[0]) // conversion
		}
		if f := calleeFunc(in.info, x); f != nil {
			if eIsStdClone(f) && len(x.Args) == 1 {
				return in.shallow(in.eval(x.Args[0]), 0, f.Pkg().Name()+".Clone at "+in.c.Position(x.Pos()))
			}
			if in.fresh.isCtor(f) {
				return in.newFresh("constructor " + f.Name() + " at " + in.c.Position(x.Pos()))
			}
			return eAV{kind: eAVUnknown, why: "result of " + f.Name() + ", which is neither a constructor of fresh storage nor a known copy"}
		}
		return eAV{kind: eAVUnknown, why: "dynamic call " + nodeText(in.c.Fset, x)}
	}
	return eAV{kind: eAVUnknown, why: nodeText(in.c.Fset, e)}
}

// forget drops recorded branch decisions whose condition mentions obj.
func (in *eSnapInterp) forget(obj types.Object) {
	var keep []eCondRec
	for _, r := range in.cur.conds {
		if !r.roots[obj] {
			keep = append(keep, r)
		}
	}
	in.cur.conds = keep
}

func (in *eSnapInterp) assign(l, r ast.Expr) string {
	if id := eRootIdent(l); id != nil {
		if obj := in.info.ObjectOf(id); obj != nil {
			in.forget(obj)
		}
	}
	switch x := ast.Unparen(l).(type) {
	case *ast.Ident:
		if x.Name == "_" {
			return ""
		}
		obj := in.info.ObjectOf(x)
		if obj == in.recv {
			return "the receiver variable is reassigned"
		}
		v := in.eval(r)
		if _, isStruct := obj.Type().Underlying().(*types.Struct); isStruct && v.kind == eAVObj && in.isWorldStruct(obj.Type()) {
			v = eAV{kind: eAVObj, obj: in.cloneObj(v.obj, x.Name)}
		}
		in.cur.locals[obj] = v
	case *ast.SelectorExpr:
		if s := in.info.Selections[x]; s != nil && s.Kind() == types.FieldVal {
			base := in.eval(x.X)
			if f, ok := s.Obj().(*types.Var); ok && base.kind == eAVObj {
				if _, tracked := base.obj.fields[f]; tracked {
					base.obj.fields[f] = in.eval(r)
					return ""
				}
			}
		}
		// a store deeper inside (x.f.g = v): changes no top-level field of a world object
	case *ast.StarExpr:
		if v := in.eval(x.X); v.kind == eAVObj {
			return "a whole world object is overwritten through a pointer"
		}
	}
	return ""
}

// harmless: the statement cannot change which storage a world object's field or a tracked local
// holds: no return/defer/go/closure, no assignment to a variable or to a direct field of a world
// object, no method call on a world object.
func (in *eSnapInterp) harmless(s ast.Node) bool {
	ok := true
	ast.Inspect(s, func(n ast.Node) bool {
		switch y := n.(type) {
		case *ast.ReturnStmt, *ast.GoStmt, *ast.DeferStmt, *ast.FuncLit, *ast.BranchStmt:
			if b, isBranch := y.(*ast.BranchStmt); !isBranch || b.Tok == token.GOTO {
				ok = false
			}
		case *ast.AssignStmt:
			for _, l := range y.Lhs {
				switch z := ast.Unparen(l).(type) {
				case *ast.Ident:
					if y.Tok != token.DEFINE {
						ok = false
					}
				case *ast.SelectorExpr:
					if v := in.eval(z.X); v.kind == eAVObj {
						ok = false
					}
				case *ast.StarExpr:
					ok = false
				case *ast.IndexExpr:
					if id := eRootIdent(z); id != nil {
						if _, tracked := in.cur.locals[in.info.ObjectOf(id)]; tracked {
							ok = false
						}
					}
				}
			}
		case *ast.CallExpr:
			if sel, isSel := ast.Unparen(y.Fun).(*ast.SelectorExpr); isSel {
				if v := in.eval(sel.X); v.kind == eAVObj {
					ok = false
				}
			}
			if isBuiltin(in.info, y, "copy") {
				ok = false
			}
		}
		return ok
	})
	return ok
}

// elementwiseCopy recognises `for k, v := range SRC { DST[k] = <v or a shallow copy of v> }` with
// DST a local holding storage allocated in Snapshot, and applies it.
func (in *eSnapInterp) elementwiseCopy(rs *ast.RangeStmt) bool {
	if rs.Key == nil || rs.Value == nil || len(rs.Body.List) != 1 {
		return false
	}
	kid, ok1 := rs.Key.(*ast.Ident)
	vid, ok2 := rs.Value.(*ast.Ident)
	as, ok3 := rs.Body.List[0].(*ast.AssignStmt)
	if !ok1 || !ok2 || !ok3 || as.Tok != token.ASSIGN || len(as.Lhs) != 1 || len(as.Rhs) != 1 {
		return false
	}
	ix, ok := ast.Unparen(as.Lhs[0]).(*ast.IndexExpr)
	if !ok {
		return false
	}
	did, ok := ast.Unparen(ix.X).(*ast.Ident)
	iid, ok2 := ast.Unparen(ix.Index).(*ast.Ident)
	if !ok || !ok2 || in.info.ObjectOf(iid) != in.info.ObjectOf(kid) {
		return false
	}
	dobj := in.info.ObjectOf(did)
	dst, tracked := in.cur.locals[dobj]
	if !tracked || dst.kind != eAVFresh || dst.fd != 0 {
		return false
	}
	depth := in.copyOf(as.Rhs[0], in.info.ObjectOf(vid))
	if depth < 0 {
		return false
	}
	src := in.eval(rs.X)
	in.cur.locals[dobj] = in.shallow(src, depth, fmt.Sprintf("element-wise copy into %s at %s", did.Name, in.c.Position(rs.Pos())))
	return true
}

func (in *eSnapInterp) condRoots(e ast.Expr) map[types.Object]bool {
	m := map[types.Object]bool{}
	ast.Inspect(e, func(n ast.Node) bool {
		if id, ok := n.(*ast.Ident); ok {
			if obj := in.info.ObjectOf(id); obj != nil {
				m[obj] = true
			}
		}
		return true
	})
	return m
}

func (in *eSnapInterp) fail(st *eSnapState, why string) ([]*eSnapState, []*ePathEnd) {
	return nil, []*ePathEnd{{st: st, trail: st.trail, undecided: why}}
}

func (in *eSnapInterp) execList(list []ast.Stmt, st *eSnapState) ([]*eSnapState, []*ePathEnd) {
	states := []*eSnapState{st}
	var done []*ePathEnd
	for _, s := range list {
		var next []*eSnapState
		for _, cur := range states {
			c, d := in.execStmt(s, cur)
			next = append(next, c...)
			done = append(done, d...)
		}
		states = next
		if len(states)+len(done) > 64 {
			return in.fail(st, "Snapshot has more than 64 paths")
		}
	}
	return states, done
}

func (in *eSnapInterp) execStmt(s ast.Stmt, st *eSnapState) ([]*eSnapState, []*ePathEnd) {
	in.cur = st
	c := in.c
	switch x := s.(type) {
	case *ast.AssignStmt:
		if x.Tok != token.DEFINE && x.Tok != token.ASSIGN || len(x.Lhs) != len(x.Rhs) {
			if in.harmless(x) {
				return []*eSnapState{st}, nil
			}
			return in.fail(st, "statement not interpreted at "+c.Position(s.Pos()))
		}
		for i := range x.Lhs {
			if why := in.assign(x.Lhs[i], x.Rhs[i]); why != "" {
				return in.fail(st, why+" at "+c.Position(s.Pos()))
			}
		}
	case *ast.DeclStmt:
		gd, ok := x.Decl.(*ast.GenDecl)
		if !ok || gd.Tok != token.VAR {
			break
		}
		for _, sp := range gd.Specs {
			vs := sp.(*ast.ValueSpec)
			for i, nm := range vs.Names {
				if i < len(vs.Values) && len(vs.Values) == len(vs.Names) {
					if why := in.assign(nm, vs.Values[i]); why != "" {
						return in.fail(st, why+" at "+c.Position(s.Pos()))
					}
				} else if len(vs.Values) == 0 {
					obj := in.info.Defs[nm]
					if in.isWorldStruct(obj.Type()) {
						if _, isStruct := obj.Type().Underlying().(*types.Struct); isStruct {
							o := &eObj{name: nm.Name, fields: map[*types.Var]eAV{}}
							for k := 0; k < in.st.NumFields(); k++ {
								o.fields[in.st.Field(k)] = in.newFresh("zero value")
							}
							st.locals[obj] = eAV{kind: eAVObj, obj: o}
							continue
						}
					}
					st.locals[obj] = in.newFresh("zero value")
				}
			}
		}
	case *ast.ReturnStmt:
		if len(x.Results) != 1 {
			return in.fail(st, "return without a single result at "+c.Position(s.Pos()))
		}
		v := in.eval(x.Results[0])
		if v.kind != eAVObj {
			return in.fail(st, fmt.Sprintf("the returned value %s is not a world object of type %s the rule can follow (%s)", nodeText(c.Fset, x.Results[0]), in.named.Obj().Name(), v.String()))
		}
		return nil, []*ePathEnd{{st: st, snap: v.obj, trail: st.trail}}
	case *ast.ExprStmt:
		call, ok := x.X.(*ast.CallExpr)
		if !ok {
			break
		}
		// copy(t, s): t becomes a shallow copy of s
		if isBuiltin(in.info, call, "copy") && len(call.Args) == 2 {
			if id, ok := ast.Unparen(call.Args[0]).(*ast.Ident); ok {
				if dst, tracked := st.locals[in.info.ObjectOf(id)]; tracked {
					if dst.kind == eAVFresh && dst.fd == 0 {
						st.locals[in.info.ObjectOf(id)] = in.shallow(in.eval(call.Args[1]), 0, "make and copy at "+c.Position(call.Pos()))
					} else {
						st.locals[in.info.ObjectOf(id)] = eAV{kind: eAVUnknown, why: "copy into " + id.Name + ", which is not freshly made"}
					}
				}
			}
			break
		}
		if sel, ok := ast.Unparen(call.Fun).(*ast.SelectorExpr); ok {
			if v := in.eval(sel.X); v.kind == eAVObj {
				return in.fail(st, fmt.Sprintf("the call %s may reassign fields of a world object (not interpreted)", nodeText(c.Fset, call)))
			}
		}
		for _, a := range call.Args {
			if v := in.eval(a); v.kind == eAVObj {
				return in.fail(st, fmt.Sprintf("a world object is passed to %s (not interpreted)", nodeText(c.Fset, call)))
			}
		}
	case *ast.EmptyStmt:
	case *ast.BlockStmt:
		return in.execList(x.List, st)
	case *ast.IfStmt:
		if x.Init != nil {
			cont, done := in.execStmt(x.Init, st)
			if len(cont) != 1 {
				return cont, done
			}
			in.cur = st
		}
		cond := nodeText(c.Fset, x.Cond)
		at := c.Position(x.Pos())
		branch := func(b *eSnapState, outcome bool) ([]*eSnapState, []*ePathEnd) {
			if outcome {
				b.trail = append(b.trail, fmt.Sprintf("the branch where `%s` holds (if at %s)", cond, at))
				return in.execList(x.Body.List, b)
			}
			b.trail = append(b.trail, fmt.Sprintf("the branch where `%s` does not hold (%s)", cond, at))
			if x.Else == nil {
				return []*eSnapState{b}, nil
			}
			return in.execStmt(x.Else, b)
		}
		for _, r := range st.conds {
			if sameExpr(in.info, r.cond, x.Cond) {
				return branch(st, r.outcome) // same condition as before, operands unchanged
			}
		}
		roots := in.condRoots(x.Cond)
		thenSt := cloneState(st)
		thenSt.conds = append(thenSt.conds, eCondRec{x.Cond, true, roots})
		st.conds = append(st.conds, eCondRec{x.Cond, false, roots})
		c1, d1 := branch(thenSt, true)
		c2, d2 := branch(st, false)
		return append(c1, c2...), append(d1, d2...)
	case *ast.RangeStmt:
		if in.elementwiseCopy(x) {
			break
		}
		if !in.harmless(x) {
			return in.fail(st, fmt.Sprintf("Snapshot contains a loop the rule does not interpret (at %s): only an element-wise copy into a freshly made local, or a loop that assigns no variable and no field of a world, is accepted", c.Position(s.Pos())))
		}
	default:
		if !in.harmless(s) {
			return in.fail(st, fmt.Sprintf("Snapshot contains control flow the rule does not interpret (%T at %s)", s, c.Position(s.Pos())))
		}
	}
	return []*eSnapState{st}, nil
}

// eInterpretSnapshot returns the ends of all paths through Snapshot, or a reason why the method
// as a whole is undecided.
func eInterpretSnapshot(c *Ctx, p *packages.Package, fd *ast.FuncDecl, named *types.Named, st *types.Struct) ([]*ePathEnd, string) {
	info := p.TypesInfo
	in := &eSnapInterp{c: c, p: p, info: info, named: named, st: st, recv: eRecvObj(info, fd),
		fresh: &eFreshSummary{c: c, memo: map[*types.Func]int{}}}
	if in.recv == nil {
		return nil, "Snapshot has an unnamed receiver"
	}
	start := &eSnapState{live: &eObj{name: "the live world", fields: map[*types.Var]eAV{}}, locals: map[types.Object]eAV{}}
	for i := 0; i < st.NumFields(); i++ {
		start.live.fields[st.Field(i)] = eAV{kind: eAVOld, field: st.Field(i)}
	}
	cont, done := in.execList(fd.Body.List, start)
	for _, s := range cont {
		done = append(done, &ePathEnd{st: s, trail: s.trail, undecided: "Snapshot can end without a return"})
	}
	if len(done) == 0 {
		return nil, "Snapshot has no path to a return"
	}
	return done, ""
}

// ---------------------------------------------------------------------------------------------
// constructors of fresh storage

type eFreshSummary struct {
	c    *Ctx
	memo map[*types.Func]int // 1 in progress/no, 2 yes
}

func (fs *eFreshSummary) isCtor(fn *types.Func) bool {
	fn = fn.Origin()
	switch fs.memo[fn] {
	case 1:
		return false
	case 2:
		return true
	}
	fs.memo[fn] = 1
	fd, p := fs.c.Decl(fn)
	if fd == nil || fd.Body == nil || p == nil || fd.Recv != nil {
		return false
	}
	info := p.TypesInfo
	var freshExpr func(e ast.Expr, depth int) bool
	freshExpr = func(e ast.Expr, depth int) bool {
		if depth > 6 {
			return false
		}
		switch x := ast.Unparen(e).(type) {
		case *ast.CompositeLit:
			return true
		case *ast.UnaryExpr:
			if x.Op != token.AND {
				return false
			}
			if _, ok := ast.Unparen(x.X).(*ast.CompositeLit); ok {
				return true
			}
			if id, ok := ast.Unparen(x.X).(*ast.Ident); ok {
				v, _ := info.ObjectOf(id).(*types.Var)
				if v == nil || v.IsField() || v.Parent() == v.Pkg().Scope() {
					return false
				}
				d := eSingleDef(info, fd.Body, v)
				if d == nil {
					// `var x T` without initialiser: a fresh zero value, unless assigned later
					return eOnlyDeclared(info, fd.Body, v)
				}
				_, isRef := v.Type().Underlying().(*types.Map)
				if _, isSlice := v.Type().Underlying().(*types.Slice); isSlice || isRef {
					return d.n == 1 && freshExpr(d.rhs, depth+1) // the map/slice itself must be fresh too
				}
				return d.n == 1
			}
		case *ast.Ident:
			v, _ := info.ObjectOf(x).(*types.Var)
			if v == nil || v.IsField() || v.Parent() == v.Pkg().Scope() {
				return false
			}
			for _, prm := range fd.Type.Params.List {
				for _, nm := range prm.Names {
					if info.Defs[nm] == types.Object(v) {
						return false
					}
				}
			}
			d := eSingleDef(info, fd.Body, v)
			return d != nil && d.n == 1 && freshExpr(d.rhs, depth+1)
		case *ast.CallExpr:
			if isBuiltin(info, x, "make") || isBuiltin(info, x, "new") {
				return true
			}
			if tv, ok := info.Types[x.Fun]; ok && tv.IsType() && len(x.Args) == 1 {
				return freshExpr(x.Args[0], depth+1)
			}
			if f := calleeFunc(info, x); f != nil {
				return fs.isCtor(f)
			}
		}
		return false
	}
	all, n := true, 0
	inspectShallow(fd.Body, func(nd ast.Node) bool {
		if rs, ok := nd.(*ast.ReturnStmt); ok {
			n++
			if len(rs.Results) != 1 || !freshExpr(rs.Results[0], 0) {
				all = false
			}
		}
		return true
	})
	if all && n > 0 {
		fs.memo[fn] = 2
		return true
	}
	return false
}

// eOnlyDeclared: the variable is declared with `var` and never assigned as a whole.
func eOnlyDeclared(info *types.Info, root ast.Node, v *types.Var) bool {
	declared, assigned := false, false
	ast.Inspect(root, func(n ast.Node) bool {
		switch x := n.(type) {
		case *ast.ValueSpec:
			for _, id := range x.Names {
				if info.Defs[id] == types.Object(v) && len(x.Values) == 0 {
					declared = true
				}
			}
		case *ast.AssignStmt:
			for _, l := range x.Lhs {
				if id, ok := l.(*ast.Ident); ok && info.ObjectOf(id) == types.Object(v) {
					assigned = true
				}
			}
		}
		return true
	})
	return declared && !assigned
}
