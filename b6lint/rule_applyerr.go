package main

import (
	"fmt"
	"go/token"
	"go/types"
	"sort"
	"strings"

	"golang.org/x/tools/go/ssa"
)

// APPLY-ERR (C26): the caller of a change must be told whether it was applied.
//
// Instances (discovered by type, SSA): every call of ingest.Change.Apply — the interface method
// or a method of a type implementing ingest.Change — in the packages that apply changes on
// behalf of a client (api, api/functions, grpc, ui, ingest, ingest/compact); plus every call of a
// function literal of the same declaration that forwards the Apply error as its own error result
// (`apply := func(c Change) (…, error) { ids, err := c.Apply(w); return ids, err }` … `apply(c)`).
//
// Obligation (def-use on the error component of the call's result): the value reaches
//   - a `return` operand whose result type is error, or
//   - a comparison with nil whose error edge (true edge of `!= nil`, false edge of `== nil`) is a
//     closed region (it never rejoins the normal flow) in which every return yields a non-nil
//     error (the tested value, fmt.Errorf/errors.New, a concrete error value) or which calls
//     net/http.Error.
//
// Flow through phi nodes is followed. An error component without any use (assigned and
// overwritten, `_`, call used as a statement), or one that is only passed to other calls
// (logged), is a violation. An error stored into a captured/address-taken variable is an idiom
// the rule does not follow: undecided.
func init() {
	register(&Rule{
		Name:  "APPLY-ERR",
		IR:    "ssa",
		Props: []string{"C26"},
		// The seven Apply call sites: service.Evaluate (inside the literal), Evaluator.EvaluateExpression, withChange,
		// addWorldWithChange, ReadWorld, MergedChange.Apply (canary and real). The call of the forwarding literal in
		// service.Evaluate is an eighth, derived instance; it is not part of the floor so that inlining the literal
		// (a behaviour-preserving refactor) does not make the rule look vacuous.
		Floor: 7,
		Doc: "for every call of ingest.Change.Apply (interface method and all implementations, resolved by type) in api, api/functions, grpc, ui, ingest, ingest/compact, " +
			"and every call of a local function literal that forwards the Apply error: the error result reaches a return operand of type error, " +
			"or a nil test whose error edge is closed and returns a non-nil error or writes an HTTP error; dead, overwritten-before-use or only-logged is a violation",
		Run: runApplyErr,
	})
}

var iApplyErrPkgs = []string{"api", "api/functions", "grpc", "ui", "ingest", "ingest/compact"}

type iErrSite struct {
	call ssa.CallInstruction
	fn   *ssa.Function
	idx  int    // index of the error component in the result tuple (-1: single result)
	what string // rendered callee
}

func runApplyErr(c *Ctx) []Obligation {
	t, err := iLoadTypes(c)
	if err != nil {
		return iAnchorFailure(err)
	}
	c.BuildSSA()
	errT := types.Universe.Lookup("error").Type()
	var out []Obligation
	for _, rel := range iApplyErrPkgs {
		p := c.Pkg(rel)
		if p == nil {
			continue
		}
		for _, fd := range c.FuncDecls(p) {
			obj, _ := p.TypesInfo.Defs[fd.Name].(*types.Func)
			if obj == nil {
				continue
			}
			top := c.SSAFunc(obj)
			if top == nil {
				continue
			}
			tree := iFuncTree(top)
			var sites []iErrSite
			// 1. calls of Change.Apply
			for _, fn := range tree {
				for _, ci := range iCalls(fn) {
					callee := iCalleeOfCommon(ci.instr.Common())
					if callee == nil || !t.iIsApply(callee) {
						continue
					}
					sites = append(sites, iErrSite{ci.instr, fn, iErrIndex(callee.Type().(*types.Signature), errT), callee.FullName()})
				}
			}
			if len(sites) == 0 {
				continue
			}
			// 2. literals that return the Apply error, and the calls of those literals
			forwards := map[*ssa.Function]int{} // literal → result index carrying the Apply error
			for _, s := range sites {
				if s.fn.Parent() == nil {
					continue
				}
				for _, v := range iErrValues(s) {
					for _, ref := range *v.Referrers() {
						if ret, ok := ref.(*ssa.Return); ok {
							for i, r := range ret.Results {
								if r == v && types.Identical(s.fn.Signature.Results().At(i).Type(), errT) {
									forwards[s.fn] = i
								}
							}
						}
					}
				}
			}
			if len(forwards) > 0 {
				for _, fn := range tree {
					for _, ci := range iCalls(fn) {
						lit := iClosureTarget(ci.instr.Common().Value)
						if lit == nil || ci.instr.Common().IsInvoke() {
							continue
						}
						if i, ok := forwards[lit]; ok {
							idx := i
							if lit.Signature.Results().Len() == 1 {
								idx = -1
							}
							sites = append(sites, iErrSite{ci.instr, fn, idx, "function literal " + lit.Name() + " (forwards the error of Change.Apply)"})
						}
					}
				}
			}
			sort.SliceStable(sites, func(i, j int) bool { return sites[i].call.Pos() < sites[j].call.Pos() })
			name := c.FuncName(p, fd)
			for n, s := range sites {
				ob := Obligation{Key: fmt.Sprintf("%s#%d", name, n+1), Pos: c.Position(s.call.Pos())}
				ob.Status, ob.Detail = iCheckErrUse(c, s, errT)
				ob.Detail = fmt.Sprintf("error result of %s called at %s: %s", s.what, ob.Pos, ob.Detail)
				out = append(out, ob)
			}
		}
	}
	return out
}

func iErrIndex(sig *types.Signature, errT types.Type) int {
	res := sig.Results()
	if res.Len() == 1 {
		return -1
	}
	for i := res.Len() - 1; i >= 0; i-- {
		if types.Identical(res.At(i).Type(), errT) {
			return i
		}
	}
	return res.Len() - 1
}

// iClosureTarget resolves the value called to a function literal created in the same
// declaration (directly, or through a make-closure).
func iClosureTarget(v ssa.Value) *ssa.Function {
	switch x := v.(type) {
	case *ssa.MakeClosure:
		f, _ := x.Fn.(*ssa.Function)
		return f
	case *ssa.Function:
		if x.Parent() != nil {
			return x
		}
	case *ssa.Phi:
		var f *ssa.Function
		for _, e := range x.Edges {
			g := iClosureTarget(e)
			if g == nil || (f != nil && f != g) {
				return nil
			}
			f = g
		}
		return f
	}
	return nil
}

// iErrValues returns the SSA values that carry the error component of the call.
func iErrValues(s iErrSite) []ssa.Value {
	v, ok := s.call.(ssa.Value)
	if !ok { // go / defer: the results are discarded
		return nil
	}
	if s.idx < 0 {
		return []ssa.Value{v}
	}
	var out []ssa.Value
	if refs := v.Referrers(); refs != nil {
		for _, r := range *refs {
			if ex, ok := r.(*ssa.Extract); ok && ex.Index == s.idx {
				out = append(out, ex)
			}
		}
	}
	return out
}

func iCheckErrUse(c *Ctx, s iErrSite, errT types.Type) (string, string) {
	vals := iErrValues(s)
	if len(vals) == 0 {
		return Violation, "the error component is discarded (never read)"
	}
	seen := map[ssa.Value]bool{}
	work := append([]ssa.Value(nil), vals...)
	var notes []string
	undecided := ""
	uses := 0
	for len(work) > 0 {
		v := work[0]
		work = work[1:]
		if seen[v] {
			continue
		}
		seen[v] = true
		refs := v.Referrers()
		if refs == nil {
			continue
		}
		for _, ref := range *refs {
			switch in := ref.(type) {
			case *ssa.DebugRef:
				continue
			case *ssa.Return:
				uses++
				if iReturnsAsError(in, v, errT) {
					return OK, "returned as the error result at " + c.Position(in.Pos())
				}
			case *ssa.Phi:
				uses++
				work = append(work, in)
			case *ssa.BinOp:
				uses++
				if in.Op != token.NEQ && in.Op != token.EQL {
					continue
				}
				other := in.Y
				if other == v {
					other = in.X
				}
				if k, ok := other.(*ssa.Const); !ok || !k.IsNil() {
					continue
				}
				for _, r2 := range *in.Referrers() {
					br, ok := r2.(*ssa.If)
					if !ok {
						notes = append(notes, "nil test at "+c.Position(in.Pos())+" is not used directly as a branch condition")
						continue
					}
					edge := br.Block().Succs[0]
					if in.Op == token.EQL {
						edge = br.Block().Succs[1]
					}
					st, msg := iErrorEdge(c, br.Block(), edge, v)
					switch st {
					case OK:
						return OK, "tested at " + c.Position(in.Pos()) + " and " + msg
					case Undecided:
						if undecided == "" {
							undecided = "tested at " + c.Position(in.Pos()) + " but " + msg
						}
					default:
						notes = append(notes, "tested at "+c.Position(in.Pos())+" but "+msg)
					}
				}
			case *ssa.Store:
				uses++
				// In a function with defers the builder writes results to result cells, runs the
				// defers and returns the reloaded cells: `*r1 = v; rundefers; t = *r1; return …, t`.
				if ret, ok := in.Block().Instrs[len(in.Block().Instrs)-1].(*ssa.Return); ok && in.Val == v && iReturnsAsError(ret, v, errT) {
					return OK, "returned as the error result at " + c.Position(ret.Pos())
				}
				if in.Val == v && undecided == "" {
					undecided = "stored into a captured or address-taken variable at " + c.Position(in.Pos()) + " (flow through memory is not followed)"
				}
			default:
				uses++
				if ci, ok := ref.(ssa.CallInstruction); ok {
					name := "a call"
					if f := iCalleeOfCommon(ci.Common()); f != nil {
						name = f.FullName()
					}
					notes = append(notes, "passed to "+name+" at "+c.Position(ci.Pos()))
				} else if mi, ok := ref.(*ssa.MakeInterface); ok {
					// converted for a variadic/interface argument (logging, formatting)
					notes = append(notes, "converted to an interface value at "+c.Position(mi.Pos())+" (argument of a call)")
				}
			}
		}
	}
	if undecided != "" {
		return Undecided, undecided
	}
	if uses == 0 {
		return Violation, "the error is assigned but never used (dead or overwritten before use); the caller sees success"
	}
	return Violation, "the error never reaches the caller: " + strings.Join(notes, "; ")
}

// iReturnOperands resolves the operands of a return. In a function with defers the builder
// stores each result into a result cell, runs the defers and returns the reloaded cells; the
// operand is then the value last stored into the cell in the same block.
func iReturnOperands(ret *ssa.Return) []ssa.Value {
	out := make([]ssa.Value, len(ret.Results))
	instrs := ret.Block().Instrs
	for i, r := range ret.Results {
		out[i] = r
		ld, ok := r.(*ssa.UnOp)
		if !ok || ld.Op != token.MUL || ld.Block() != ret.Block() {
			continue
		}
		cell, ok := ld.X.(*ssa.Alloc)
		if !ok {
			continue
		}
		seenDefers := false
		for j := len(instrs) - 1; j >= 0; j-- {
			if _, ok := instrs[j].(*ssa.RunDefers); ok {
				seenDefers = true
			}
			if st, ok := instrs[j].(*ssa.Store); ok && st.Addr == ssa.Value(cell) {
				if seenDefers {
					out[i] = st.Val
				}
				break
			}
		}
	}
	return out
}

func iReturnsAsError(ret *ssa.Return, v ssa.Value, errT types.Type) bool {
	sig := ret.Parent().Signature
	for i, r := range iReturnOperands(ret) {
		if r == v && types.Identical(sig.Results().At(i).Type(), errT) {
			return true
		}
	}
	return false
}

// iErrorEdge decides whether the error edge of a nil test tells the caller: the region
// dominated by the edge's target is closed and every return in it yields a non-nil error, or it
// writes an HTTP error.
func iErrorEdge(c *Ctx, from, target *ssa.BasicBlock, tested ssa.Value) (string, string) {
	if len(target.Preds) != 1 {
		return Violation, "the error edge joins the normal flow immediately (nothing is returned on it)"
	}
	var region []*ssa.BasicBlock
	for _, b := range from.Parent().Blocks {
		if target.Dominates(b) {
			region = append(region, b)
		}
	}
	in := map[*ssa.BasicBlock]bool{}
	for _, b := range region {
		in[b] = true
	}
	errT := types.Universe.Lookup("error").Type()
	returns, httpErr := 0, false
	for _, b := range region {
		for _, s := range b.Succs {
			if !in[s] {
				return Violation, "the error edge rejoins the normal flow at " + iBlockPos(c, s) + " without returning"
			}
		}
		for _, instr := range b.Instrs {
			switch x := instr.(type) {
			case *ssa.Call:
				if f := iCalleeOfCommon(x.Common()); f != nil && f.Pkg() != nil && f.Pkg().Path() == "net/http" && f.Name() == "Error" {
					httpErr = true
				}
			case *ssa.Return:
				returns++
				sig := x.Parent().Signature
				hasErr := false
				for i, r := range iReturnOperands(x) {
					if !types.Identical(sig.Results().At(i).Type(), errT) {
						continue
					}
					hasErr = true
					switch iNonNil(r, tested, map[ssa.Value]bool{}) {
					case 0:
						return Violation, "the error edge returns a nil error at " + c.Position(x.Pos())
					case 2:
						return Undecided, "the error returned on the error edge at " + c.Position(x.Pos()) + " is not known to be non-nil"
					}
				}
				if !hasErr && !httpErr {
					return Violation, "the error edge returns at " + c.Position(x.Pos()) + " from a function without an error result and without writing an HTTP error"
				}
			}
		}
	}
	if returns == 0 {
		if httpErr {
			return OK, "the error edge writes an HTTP error"
		}
		return Undecided, "the error edge never returns (panics or loops): idiom not known"
	}
	if httpErr {
		return OK, "the error edge writes an HTTP error and returns"
	}
	return OK, "the error edge returns a non-nil error"
}

func iBlockPos(c *Ctx, b *ssa.BasicBlock) string {
	for _, in := range b.Instrs {
		if in.Pos().IsValid() {
			return c.Position(in.Pos())
		}
	}
	return fmt.Sprintf("block %d", b.Index)
}

// iNonNil: 1 = certainly non-nil on the error edge, 0 = nil constant, 2 = unknown.
func iNonNil(v, tested ssa.Value, seen map[ssa.Value]bool) int {
	if v == tested {
		return 1
	}
	if seen[v] {
		return 1
	}
	seen[v] = true
	switch x := v.(type) {
	case *ssa.Const:
		if x.IsNil() {
			return 0
		}
		return 1
	case *ssa.MakeInterface:
		return 1
	case *ssa.Call:
		if f := iCalleeOfCommon(x.Common()); f != nil && f.Pkg() != nil {
			switch f.Pkg().Path() + "." + f.Name() {
			case "fmt.Errorf", "errors.New", "errors.Join":
				return 1
			}
		}
		return 2
	case *ssa.Phi:
		r := 1
		for _, e := range x.Edges {
			switch iNonNil(e, tested, seen) {
			case 0:
				return 0
			case 2:
				r = 2
			}
		}
		return r
	}
	return 2
}
