package main

import (
	"fmt"
	"go/token"
	"go/types"
	"sort"
	"strings"

	"golang.org/x/tools/go/ssa"
)

// APPLY-ERR (C26): the caller of a change must be told whether it was applied.
//
// Instances (discovered by type, SSA): every call of ingest.Change.Apply — the interface method
// or a method of a type implementing ingest.Change — in the packages that apply changes on
// behalf of a client (api, api/functions, grpc, ui, ingest, ingest/compact); plus every call of a
// function literal of the same declaration that forwards the Apply error as its own error result
// (`apply := func(c Change) (…, error) { ids, err := c.Apply(w); return ids, err }` … `apply(c)`).
//
// Obligation (def-use on the error component of the call's result): the value reaches
//   - a `return` operand whose result type is error, or
//   - a comparison with nil whose error edge (true edge of `!= nil`, false edge of `== nil`) is a
//     closed region (it never rejoins the normal flow) in which every return yields a non-nil
//     error (the tested value, fmt.Errorf/errors.New, a concrete error value) or which calls
//     net/http.Error.
//
// On top of the def-use test, a path test (iErrDropPath): assuming the call returned a non-nil
// error, every path from the call to a return must return an error that is non-nil there: the
// failure itself (the result, or a phi node that received it and was not overwritten since),
// another value a nil test has shown to be non-nil on that path (an earlier failure kept in a
// "first error" variable), or a freshly made error (fmt.Errorf, errors.New). So
// `var err error; for … { if err = f(); err != nil { continue } }; return err` is a violation:
// the next iteration overwrites err and a later success makes the function report success.
// Edges on which a carrier was tested to be nil are not followed.
//
// Flow through phi nodes is followed. An error component without any use (assigned and
// overwritten, `_`, call used as a statement), or one that is only passed to other calls
// (logged), is a violation. An error stored into a captured/address-taken variable is an idiom
// the rule does not follow: undecided.
func init() {
	register(&Rule{
		Name:  "APPLY-ERR",
		IR:    "ssa",
		Props: []string{"C26"},
		// The seven Apply call sites: service.Evaluate (inside the literal), Evaluator.EvaluateExpression, withChange,
		// addWorldWithChange, ReadWorld, MergedChange.Apply (canary and real). The call of the forwarding literal in
		// service.Evaluate is an eighth, derived instance; it is not part of the floor so that inlining the literal
		// (a behaviour-preserving refactor) does not make the rule look vacuous.
		Floor: 7,
		Doc: "for every call of ingest.Change.Apply (interface method and all implementations, resolved by type) in api, api/functions, grpc, ui, ingest, ingest/compact, " +
			"and every call of a local function literal that forwards the Apply error: the error result reaches a return operand of type error, " +
			"or a nil test whose error edge is closed and returns a non-nil error or writes an HTTP error; dead, overwritten-before-use or only-logged is a violation",
		Run: runApplyErr,
	})
}

var iApplyErrPkgs = []string{"api", "api/functions", "grpc", "ui", "ingest", "ingest/compact"}

type iErrSite struct {
	call ssa.CallInstruction
	fn   *ssa.Function
	idx  int    // index of the error component in the result tuple (-1: single result)
	what string // rendered callee
}

func runApplyErr(c *Ctx) []Obligation {
	t, err := iLoadTypes(c)
	if err != nil {
		return iAnchorFailure(err)
	}
	c.BuildSSA()
	errT := types.Universe.Lookup("error").Type()
	var out []Obligation
	for _, rel := range iApplyErrPkgs {
		p := c.Pkg(rel)
		if p == nil {
			continue
		}
		for _, fd := range c.FuncDecls(p) {
			obj, _ := p.TypesInfo.Defs[fd.Name].(*types.Func)
			if obj == nil {
				continue
			}
			top := c.SSAFunc(obj)
			if top == nil {
				continue
			}
			tree := iFuncTree(top)
			var sites []iErrSite
			// 1. calls of Change.Apply
			for _, fn := range tree {
				for _, ci := range iCalls(fn) {
					callee := iCalleeOfCommon(ci.instr.Common())
					if callee == nil || !t.iIsApply(callee) {
						continue
					}
					sites = append(sites, iErrSite{ci.instr, fn, iErrIndex(callee.Type().(*types.Signature), errT), callee.FullName()})
				}
			}
			if len(sites) == 0 {
				continue
			}
			// 2. literals that return the Apply error, and the calls of those literals
			forwards := map[*ssa.Function]int{} // literal → result index carrying the Apply error
			for _, s := range sites {
				if s.fn.Parent() == nil {
					continue
				}
				for _, v := range iErrValues(s) {
					for _, ref := range *v.Referrers() {
						if ret, ok := ref.(*ssa.Return); ok {
							for i, r := range ret.Results {
								if r == v && types.Identical(s.fn.Signature.Results().At(i).Type(), errT) {
									forwards[s.fn] = i
								}
							}
						}
					}
				}
			}
			if len(forwards) > 0 {
				for _, fn := range tree {
					for _, ci := range iCalls(fn) {
						lit := iClosureTarget(ci.instr.Common().Value)
						if lit == nil || ci.instr.Common().IsInvoke() {
							continue
						}
						if i, ok := forwards[lit]; ok {
							idx := i
							if lit.Signature.Results().Len() == 1 {
								idx = -1
							}
							sites = append(sites, iErrSite{ci.instr, fn, idx, "function literal " + lit.Name() + " (forwards the error of Change.Apply)"})
						}
					}
				}
			}
			sort.SliceStable(sites, func(i, j int) bool { return sites[i].call.Pos() < sites[j].call.Pos() })
			name := c.FuncName(p, fd)
			for n, s := range sites {
				ob := Obligation{Key: fmt.Sprintf("%s#%d", name, n+1), Pos: c.Position(s.call.Pos())}
				ob.Status, ob.Detail = iCheckErrUse(c, s, errT)
				if ob.Status == OK {
					// the use exists; now no path may lose a non-nil error before it is used
					if st, why, path := iErrDropPath(c, s, errT); st != OK {
						ob.Status, ob.Detail, ob.Path = st, why, path
					}
				}
				ob.Detail = fmt.Sprintf("error result of %s called at %s: %s", s.what, ob.Pos, ob.Detail)
				out = append(out, ob)
			}
		}
	}
	return out
}

func iErrIndex(sig *types.Signature, errT types.Type) int {
	res := sig.Results()
	if res.Len() == 1 {
		return -1
	}
	for i := res.Len() - 1; i >= 0; i-- {
		if types.Identical(res.At(i).Type(), errT) {
			return i
		}
	}
	return res.Len() - 1
}

// iClosureTarget resolves the value called to a function literal created in the same
// declaration (directly, or through a make-closure).
func iClosureTarget(v ssa.Value) *ssa.Function {
	switch x := v.(type) {
	case *ssa.MakeClosure:
		f, _ := x.Fn.(*ssa.Function)
		return f
	case *ssa.Function:
		if x.Parent() != nil {
			return x
		}
	case *ssa.Phi:
		var f *ssa.Function
		for _, e := range x.Edges {
			g := iClosureTarget(e)
			if g == nil || (f != nil && f != g) {
				return nil
			}
			f = g
		}
		return f
	}
	return nil
}

// iErrValues returns the SSA values that carry the error component of the call.
func iErrValues(s iErrSite) []ssa.Value {
	v, ok := s.call.(ssa.Value)
	if !ok { // go / defer: the results are discarded
		return nil
	}
	if s.idx < 0 {
		return []ssa.Value{v}
	}
	var out []ssa.Value
	if refs := v.Referrers(); refs != nil {
		for _, r := range *refs {
			if ex, ok := r.(*ssa.Extract); ok && ex.Index == s.idx {
				out = append(out, ex)
			}
		}
	}
	return out
}

func iCheckErrUse(c *Ctx, s iErrSite, errT types.Type) (string, string) {
	vals := iErrValues(s)
	if len(vals) == 0 {
		return Violation, "the error component is discarded (never read)"
	}
	seen := map[ssa.Value]bool{}
	work := append([]ssa.Value(nil), vals...)
	var notes []string
	undecided := ""
	uses := 0
	for len(work) > 0 {
		v := work[0]
		work = work[1:]
		if seen[v] {
			continue
		}
		seen[v] = true
		refs := v.Referrers()
		if refs == nil {
			continue
		}
		for _, ref := range *refs {
			switch in := ref.(type) {
			case *ssa.DebugRef:
				continue
			case *ssa.Return:
				uses++
				if iReturnsAsError(in, v, errT) {
					return OK, "returned as the error result at " + c.Position(in.Pos())
				}
			case *ssa.Phi:
				uses++
				work = append(work, in)
			case *ssa.BinOp:
				uses++
				if in.Op != token.NEQ && in.Op != token.EQL {
					continue
				}
				other := in.Y
				if other == v {
					other = in.X
				}
				if k, ok := other.(*ssa.Const); !ok || !k.IsNil() {
					continue
				}
				for _, r2 := range *in.Referrers() {
					br, ok := r2.(*ssa.If)
					if !ok {
						notes = append(notes, "nil test at "+c.Position(in.Pos())+" is not used directly as a branch condition")
						continue
					}
					edge := br.Block().Succs[0]
					if in.Op == token.EQL {
						edge = br.Block().Succs[1]
					}
					st, msg := iErrorEdge(c, br.Block(), edge, v)
					switch st {
					case OK:
						return OK, "tested at " + c.Position(in.Pos()) + " and " + msg
					case Undecided:
						if undecided == "" {
							undecided = "tested at " + c.Position(in.Pos()) + " but " + msg
						}
					default:
						notes = append(notes, "tested at "+c.Position(in.Pos())+" but "+msg)
					}
				}
			case *ssa.Store:
				uses++
				// In a function with defers the builder writes results to result cells, runs the
				// defers and returns the reloaded cells: `*r1 = v; rundefers; t = *r1; return …, t`.
				if ret, ok := in.Block().Instrs[len(in.Block().Instrs)-1].(*ssa.Return); ok && in.Val == v && iReturnsAsError(ret, v, errT) {
					return OK, "returned as the error result at " + c.Position(ret.Pos())
				}
				if in.Val == v && undecided == "" {
					undecided = "stored into a captured or address-taken variable at " + c.Position(in.Pos()) + " (flow through memory is not followed)"
				}
			default:
				uses++
				if ci, ok := ref.(ssa.CallInstruction); ok {
					name := "a call"
					if f := iCalleeOfCommon(ci.Common()); f != nil {
						name = f.FullName()
					}
					notes = append(notes, "passed to "+name+" at "+c.Position(ci.Pos()))
				} else if mi, ok := ref.(*ssa.MakeInterface); ok {
					// converted for a variadic/interface argument (logging, formatting)
					notes = append(notes, "converted to an interface value at "+c.Position(mi.Pos())+" (argument of a call)")
				}
			}
		}
	}
	if undecided != "" {
		return Undecided, undecided
	}
	if uses == 0 && s.idx < 0 {
		if v, ok := s.call.(ssa.Value); ok && (v.Referrers() == nil || len(*v.Referrers()) == 0) {
			return Violation, "the call is used as a statement and its error is discarded; the caller sees success"
		}
	}
	if uses == 0 {
		return Violation, "the error is assigned but never used (dead or overwritten before use); the caller sees success"
	}
	return Violation, "the error never reaches the caller: " + strings.Join(notes, "; ")
}

// iReturnOperands resolves the operands of a return. In a function with defers the builder
// stores each result into a result cell, runs the defers and returns the reloaded cells; the
// operand is then the value last stored into the cell in the same block.
func iReturnOperands(ret *ssa.Return) []ssa.Value {
	out := make([]ssa.Value, len(ret.Results))
	instrs := ret.Block().Instrs
	for i, r := range ret.Results {
		out[i] = r
		ld, ok := r.(*ssa.UnOp)
		if !ok || ld.Op != token.MUL || ld.Block() != ret.Block() {
			continue
		}
		cell, ok := ld.X.(*ssa.Alloc)
		if !ok {
			continue
		}
		seenDefers := false
		for j := len(instrs) - 1; j >= 0; j-- {
			if _, ok := instrs[j].(*ssa.RunDefers); ok {
				seenDefers = true
			}
			if st, ok := instrs[j].(*ssa.Store); ok && st.Addr == ssa.Value(cell) {
				if seenDefers {
					out[i] = st.Val
				}
				break
			}
		}
	}
	return out
}

func iReturnsAsError(ret *ssa.Return, v ssa.Value, errT types.Type) bool {
	sig := ret.Parent().Signature
	for i, r := range iReturnOperands(ret) {
		if r == v && types.Identical(sig.Results().At(i).Type(), errT) {
			return true
		}
	}
	return false
}

// iErrorEdge decides whether the error edge of a nil test tells the caller: the region
// dominated by the edge's target is closed and every return in it yields a non-nil error, or it
// writes an HTTP error.
func iErrorEdge(c *Ctx, from, target *ssa.BasicBlock, tested ssa.Value) (string, string) {
	if len(target.Preds) != 1 {
		return Violation, "the error edge joins the normal flow immediately (nothing is returned on it)"
	}
	var region []*ssa.BasicBlock
	for _, b := range from.Parent().Blocks {
		if target.Dominates(b) {
			region = append(region, b)
		}
	}
	in := map[*ssa.BasicBlock]bool{}
	for _, b := range region {
		in[b] = true
	}
	errT := types.Universe.Lookup("error").Type()
	returns, httpErr := 0, false
	for _, b := range region {
		for _, s := range b.Succs {
			if !in[s] {
				return Violation, "the error edge rejoins the normal flow at " + iBlockPos(c, s) + " without returning"
			}
		}
		for _, instr := range b.Instrs {
			switch x := instr.(type) {
			case *ssa.Call:
				if f := iCalleeOfCommon(x.Common()); f != nil && f.Pkg() != nil && f.Pkg().Path() == "net/http" && f.Name() == "Error" {
					httpErr = true
				}
			case *ssa.Return:
				returns++
				sig := x.Parent().Signature
				hasErr := false
				for i, r := range iReturnOperands(x) {
					if !types.Identical(sig.Results().At(i).Type(), errT) {
						continue
					}
					hasErr = true
					switch iNonNil(r, tested, map[ssa.Value]bool{}) {
					case 0:
						return Violation, "the error edge returns a nil error at " + c.Position(x.Pos())
					case 2:
						return Undecided, "the error returned on the error edge at " + c.Position(x.Pos()) + " is not known to be non-nil"
					}
				}
				if !hasErr && !httpErr {
					return Violation, "the error edge returns at " + c.Position(x.Pos()) + " from a function without an error result and without writing an HTTP error"
				}
			}
		}
	}
	if returns == 0 {
		if httpErr {
			return OK, "the error edge writes an HTTP error"
		}
		return Undecided, "the error edge never returns (panics or loops): idiom not known"
	}
	if httpErr {
		return OK, "the error edge writes an HTTP error and returns"
	}
	return OK, "the error edge returns a non-nil error"
}

func iBlockPos(c *Ctx, b *ssa.BasicBlock) string {
	for _, in := range b.Instrs {
		if in.Pos().IsValid() {
			return c.Position(in.Pos())
		}
	}
	return fmt.Sprintf("block %d", b.Index)
}

// iNonNil: 1 = certainly non-nil on the error edge, 0 = nil constant, 2 = unknown.
func iNonNil(v, tested ssa.Value, seen map[ssa.Value]bool) int {
	if v == tested {
		return 1
	}
	if seen[v] {
		return 1
	}
	seen[v] = true
	switch x := v.(type) {
	case *ssa.Const:
		if x.IsNil() {
			return 0
		}
		return 1
	case *ssa.MakeInterface:
		return 1
	case *ssa.Call:
		if f := iCalleeOfCommon(x.Common()); f != nil && f.Pkg() != nil {
			switch f.Pkg().Path() + "." + f.Name() {
			case "fmt.Errorf", "errors.New", "errors.Join":
				return 1
			}
		}
		return 2
	case *ssa.Phi:
		r := 1
		for _, e := range x.Edges {
			switch iNonNil(e, tested, seen) {
			case 0:
				return 0
			case 2:
				r = 2
			}
		}
		return r
	}
	return 2
}

// iErrDropPath explores the SSA control-flow graph from the call under the assumption that the
// call returned a non-nil error. The state is the set of values that carry that error on the
// path (the error component and the phi nodes that received it). A path is discharged when a
// carrier is returned as the error result (or a non-nil error of another kind is returned, or an
// HTTP error was written and the function has no error result), when it panics, or when a
// carrier was just tested to be nil (edge not taken). Besides the carriers the state holds the
// other values a nil test has shown to be non-nil on the path (an earlier error kept in a
// "first error" variable). A path is a witness of a lost error when it reaches a return whose
// error operand is neither a carrier nor known to be non-nil and can be nil (the nil constant, or
// a phi node with a nil edge such as a loop variable overwritten by a later iteration).
// Re-executing the call replaces its own result (a new obligation of the same site); the old
// error then lives only in the phi nodes that hold it.
func iErrDropPath(c *Ctx, s iErrSite, errT types.Type) (string, string, []string) {
	vals := iErrValues(s)
	callVal, _ := s.call.(ssa.Value)
	if len(vals) == 0 || callVal == nil {
		return OK, "", nil
	}
	isErrVal := map[ssa.Value]bool{}
	for _, v := range vals {
		isErrVal[v] = true
	}
	type state struct {
		b        *ssa.BasicBlock
		from     int // first instruction to execute
		carriers map[ssa.Value]bool
		nonnil   map[ssa.Value]bool // other values known to be non-nil on this path (tested)
		http     bool
		trail    []string
	}
	keyOf := func(st state) string {
		var names []string
		for v := range st.carriers {
			names = append(names, v.Name())
		}
		sort.Strings(names)
		var nn []string
		for v := range st.nonnil {
			nn = append(nn, v.Name())
		}
		sort.Strings(nn)
		return fmt.Sprintf("%d/%d/%v/%s/%s", st.b.Index, st.from, st.http, strings.Join(names, ","), strings.Join(nn, ","))
	}
	sig := s.fn.Signature
	hasErrResult := false
	for i := 0; i < sig.Results().Len(); i++ {
		if types.Identical(sig.Results().At(i).Type(), errT) {
			hasErrResult = true
		}
	}
	start := -1
	for i, in := range s.call.Block().Instrs {
		if in == ssa.Instruction(s.call) {
			start = i + 1
		}
	}
	if start < 0 {
		return OK, "", nil
	}
	// the carriers of the first execution: the error component itself (its extract instructions
	// follow the call in the same block); the results of later executions are never carriers
	init := state{b: s.call.Block(), from: start, carriers: map[ssa.Value]bool{}}
	for _, v := range vals {
		init.carriers[v] = true
	}
	seen := map[string]bool{}
	work := []state{init}
	undecided, undecidedPath := "", []string(nil)
	for len(work) > 0 {
		st := work[len(work)-1]
		work = work[:len(work)-1]
		if k := keyOf(st); seen[k] {
			continue
		} else {
			seen[k] = true
		}
		carriers := map[ssa.Value]bool{}
		for v := range st.carriers {
			carriers[v] = true
		}
		httpErr := st.http
		ended := false
		var pruned *ssa.BasicBlock   // successor not to take (the carrier is nil there)
		var learnt ssa.Value         // value tested against nil by the block's branch …
		var learntOn *ssa.BasicBlock // … and the successor on which it is non-nil
		for i := st.from; i < len(st.b.Instrs) && !ended; i++ {
			switch in := st.b.Instrs[i].(type) {
			case *ssa.Return:
				ended = true
				ops := iReturnOperands(in)
				carried, verdict := false, 1
				for j, r := range ops {
					if !types.Identical(sig.Results().At(j).Type(), errT) {
						continue
					}
					if carriers[r] || st.nonnil[r] {
						carried = true // the failure itself, or another error known to be non-nil on this path
					} else if nn := iNonNil(r, nil, map[ssa.Value]bool{}); nn != 1 {
						verdict = nn
					}
				}
				switch {
				case carried:
				case !hasErrResult && httpErr:
				case !hasErrResult:
					return Violation, "the function returns at " + c.Position(in.Pos()) + " after a failed call without an error result and without writing an HTTP error", append(st.trail, "returns at "+c.Position(in.Pos()))
				case verdict == 0:
					return Violation, "a path from the failed call reaches the return at " + c.Position(in.Pos()) + " with an error that can be nil (the failure was overwritten or dropped on the way, e.g. by a later iteration that succeeds): the caller sees success", append(st.trail, "returns a possibly nil error at "+c.Position(in.Pos()))
				case verdict == 2 && undecided == "":
					undecided = "a path from the failed call reaches the return at " + c.Position(in.Pos()) + " with an error value the rule cannot relate to the failure"
					undecidedPath = append(st.trail, "returns at "+c.Position(in.Pos()))
				}
			case *ssa.Panic:
				ended = true
			case *ssa.Store:
				if carriers[in.Val] {
					if ret, ok := st.b.Instrs[len(st.b.Instrs)-1].(*ssa.Return); !ok || !iReturnsAsError(ret, in.Val, errT) {
						if undecided == "" {
							undecided = "the error is stored into a captured or address-taken variable at " + c.Position(in.Pos()) + " (flow through memory is not followed)"
							undecidedPath = st.trail
						}
						ended = true
					}
				}
			case *ssa.If:
				if bo, ok := in.Cond.(*ssa.BinOp); ok && (bo.Op == token.NEQ || bo.Op == token.EQL) {
					x, y := bo.X, bo.Y
					if k, isK := x.(*ssa.Const); isK && k.IsNil() {
						x, y = y, x
					}
					if k, isK := y.(*ssa.Const); isK && k.IsNil() {
						nonNilSucc, nilSucc := st.b.Succs[0], st.b.Succs[1]
						if bo.Op == token.EQL {
							nonNilSucc, nilSucc = nilSucc, nonNilSucc
						}
						if carriers[x] || st.nonnil[x] {
							pruned = nilSucc
						} else {
							learnt, learntOn = x, nonNilSucc
						}
					}
				}
			default:
				if ci, ok := in.(ssa.CallInstruction); ok {
					if in == ssa.Instruction(s.call) {
						// the same call again: its result is a new value
						// (the new value is a new obligation of the same site and is not followed)
						delete(carriers, callVal)
						for v := range isErrVal {
							delete(carriers, v)
						}
					} else if f := iCalleeOfCommon(ci.Common()); f != nil && f.Pkg() != nil && f.Pkg().Path() == "net/http" && f.Name() == "Error" {
						httpErr = true
					}
				}
			}
		}
		if ended {
			continue
		}
		for _, succ := range st.b.Succs {
			if succ == pruned && len(st.b.Succs) == 2 {
				continue
			}
			// phi nodes of the successor
			next := map[ssa.Value]bool{}
			for v := range carriers {
				next[v] = true
			}
			nextNN := map[ssa.Value]bool{}
			for v := range st.nonnil {
				nextNN[v] = true
			}
			if learnt != nil && succ == learntOn && st.b.Succs[0] != st.b.Succs[1] {
				nextNN[learnt] = true
			}
			oldNN := map[ssa.Value]bool{}
			for v := range nextNN {
				oldNN[v] = true
			}
			edge := -1
			for pi, pr := range succ.Preds {
				if pr == st.b {
					edge = pi
				}
			}
			var lost []string
			for _, in := range succ.Instrs {
				phi, ok := in.(*ssa.Phi)
				if !ok {
					break
				}
				if edge >= 0 && carriers[phi.Edges[edge]] {
					next[phi] = true
				} else if next[phi] {
					delete(next, phi)
					lost = append(lost, phi.Comment)
				}
				// phi nodes are assigned in parallel: look the incoming value up in the sets as they were
				if edge >= 0 && phi.Edges[edge] != ssa.Value(phi) {
					if carriers[phi.Edges[edge]] || oldNN[phi.Edges[edge]] {
						nextNN[phi] = true
					} else {
						delete(nextNN, phi)
					}
				}
			}
			trail := append(append([]string(nil), st.trail...), iBlockPos(c, succ)+" ("+succ.Comment+")")
			if len(lost) > 0 {
				trail = append(trail, "  "+strings.Join(lost, ", ")+" no longer holds the error here (overwritten)")
			}
			work = append(work, state{b: succ, from: 0, carriers: next, nonnil: nextNN, http: httpErr, trail: trail})
		}
	}
	if undecided != "" {
		return Undecided, undecided, undecidedPath
	}
	return OK, "", nil
}
