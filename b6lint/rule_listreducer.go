package main

import (
	"fmt"
	"go/ast"
	"go/types"
)

// LIST-REDUCER (C20): the grammar's lists are left-recursive (`symbols: symbols ',' SYMBOL`,
// `args: args arg`), so the reducer is handed the list so far and the new element, in source
// order. The list it returns has to end with the new element: a reducer that puts it first returns
// the parameters of `{total, x -> …}` as [x total] — another function — and the lambda's span then
// starts at its last parameter.
//
// Subjects, by type (package api): functions with the signature func(list []T, item T) []T.
// Obligation: the new element goes last — the function returns append(list, item) (possibly onto a
// copy of list), or stores item at index len(list) / len(result)-1 of a result that holds list
// before it; storing item at index 0, or appending list after a slice that already holds item, is
// a violation; any other construction is undecided.
func init() {
	register(&Rule{
		Name:  "LIST-REDUCER",
		IR:    "ast",
		Props: []string{"C20"},
		Floor: 2,
		Doc:   "a reducer of a left-recursive list rule (list so far, new element) returns the list with the new element last",
		Run:   runListReducer,
	})
}

func runListReducer(c *Ctx) []Obligation {
	var out []Obligation
	p := c.Pkg("api")
	if p == nil {
		return out
	}
	info := p.TypesInfo
	for _, fd := range c.FuncDecls(p) {
		obj, _ := info.Defs[fd.Name].(*types.Func)
		if obj == nil || fd.Recv != nil || fd.Body == nil {
			continue
		}
		sig := obj.Type().(*types.Signature)
		if sig.Params().Len() != 2 || sig.Results().Len() != 1 {
			continue
		}
		lt, ok := sig.Params().At(0).Type().(*types.Slice)
		if !ok || !types.Identical(lt.Elem(), sig.Params().At(1).Type()) || !types.Identical(sig.Results().At(0).Type(), sig.Params().At(0).Type()) {
			continue
		}
		list, item := types.Object(sig.Params().At(0)), types.Object(sig.Params().At(1))
		isObj := func(e ast.Expr, o types.Object) bool {
			id, ok := ast.Unparen(e).(*ast.Ident)
			return ok && info.Uses[id] == o
		}
		mentions := func(e ast.Node, o types.Object) bool {
			found := false
			ast.Inspect(e, func(n ast.Node) bool {
				if id, ok := n.(*ast.Ident); ok && info.Uses[id] == o {
					found = true
				}
				return true
			})
			return found
		}
		ob := Obligation{Key: c.FuncName(p, fd), Pos: c.Position(fd.Pos()), Status: Undecided,
			Detail: "the construction of the result is not one of the recognised forms"}
		// note: a range loop in the body may shadow the item's name; objects, not names, are compared
		ast.Inspect(fd.Body, func(n ast.Node) bool {
			switch x := n.(type) {
			case *ast.CallExpr:
				if !isBuiltin(info, x, "append") || len(x.Args) < 2 {
					return true
				}
				last := x.Args[len(x.Args)-1]
				switch {
				case !x.Ellipsis.IsValid() && isObj(last, item) && (mentions(x.Args[0], list) || !mentions(x.Args[0], item)):
					if ob.Status != Violation {
						ob.Status = OK
						ob.Detail = fmt.Sprintf("%s appends the new element after the list", srcText(c.Fset, x))
					}
				case x.Ellipsis.IsValid() && isObj(last, list):
					// append(X, list...): X must not hold the item yet
					holds := mentions(x.Args[0], item)
					if id, ok := ast.Unparen(x.Args[0]).(*ast.Ident); ok && !holds {
						v := info.Uses[id]
						ast.Inspect(fd.Body, func(m ast.Node) bool {
							if as, ok := m.(*ast.AssignStmt); ok && as.Pos() < x.Pos() {
								for i, l := range as.Lhs {
									if ix, ok := ast.Unparen(l).(*ast.IndexExpr); ok && isObj(ix.X, v) && i < len(as.Rhs) && isObj(as.Rhs[i], item) {
										holds = true
									}
									if lid, ok := l.(*ast.Ident); ok && (info.Defs[lid] == v || info.Uses[lid] == v) && i < len(as.Rhs) && mentions(as.Rhs[i], item) {
										holds = true
									}
								}
							}
							return true
						})
					}
					if holds {
						ob.Status = Violation
						ob.Pos = c.Position(x.Pos())
						ob.Detail = fmt.Sprintf("%s appends the list so far after a slice that already holds the new element: the new element comes first, so the elements of a left-recursive list come out in reverse of their source order", srcText(c.Fset, x))
					}
				}
			case *ast.AssignStmt:
				for i, l := range x.Lhs {
					ix, ok := ast.Unparen(l).(*ast.IndexExpr)
					if !ok || i >= len(x.Rhs) || !isObj(x.Rhs[i], item) {
						continue
					}
					if tv := info.Types[ix.Index]; tv.Value != nil && tv.Value.ExactString() == "0" {
						ob.Status = Violation
						ob.Pos = c.Position(x.Pos())
						ob.Detail = fmt.Sprintf("%s stores the new element first: the elements of a left-recursive list come out in reverse of their source order", srcText(c.Fset, x))
					} else if ob.Status != Violation {
						// len(result)-1 or len(list)
						txt := srcText(c.Fset, ix.Index)
						if len(txt) > 4 && txt[:4] == "len(" {
							ob.Status = OK
							ob.Detail = fmt.Sprintf("%s stores the new element after the copied list", srcText(c.Fset, x))
						}
					}
				}
			}
			return true
		})
		out = append(out, ob)
	}
	return out
}
