package main

import (
	"fmt"
	"go/ast"
	"go/token"
	"go/types"
	"strings"
)

// canonExpr prints an expression with identifiers renamed by object (locals, parameters and struct
// fields that play a known role get a role name), so that two functions that use different names for
// the same roles compare equal and a rename of a local does not change the text.
func canonExpr(fset *token.FileSet, info *types.Info, e ast.Expr, roles map[types.Object]string) string {
	switch x := ast.Unparen(e).(type) {
	case nil:
		return ""
	case *ast.Ident:
		if o := info.Uses[x]; o != nil {
			if r, ok := roles[o]; ok {
				return r
			}
		}
		if o := info.Defs[x]; o != nil {
			if r, ok := roles[o]; ok {
				return r
			}
		}
		return x.Name
	case *ast.SelectorExpr:
		if s := info.Selections[x]; s != nil {
			if r, ok := roles[s.Obj()]; ok {
				return r
			}
		}
		return canonExpr(fset, info, x.X, roles) + "." + x.Sel.Name
	case *ast.BinaryExpr:
		return canonExpr(fset, info, x.X, roles) + " " + x.Op.String() + " " + canonExpr(fset, info, x.Y, roles)
	case *ast.IndexExpr:
		return canonExpr(fset, info, x.X, roles) + "[" + canonExpr(fset, info, x.Index, roles) + "]"
	case *ast.CallExpr:
		var as []string
		for _, a := range x.Args {
			as = append(as, canonExpr(fset, info, a, roles))
		}
		return canonExpr(fset, info, x.Fun, roles) + "(" + strings.Join(as, ", ") + ")"
	case *ast.BasicLit:
		return x.Value
	}
	return srcText(fset, e)
}

// DP-SIBLINGS (C34): renderer/simplify.go has the Douglas-Peucker simplification twice: a recursive
// reference and the production version with an explicit stack of intervals. They return the same
// points only if they make the same decisions, and each decision is one visible construct:
//
//	#scan      both look for the farthest point with distance(points[first], points[last], points[i])
//	           over the same open range (first+1 … last-1), keeping the maximum with `>`;
//	#threshold both split when the maximum exceeds epsilon with the same comparison operator;
//	#split     the reference recurses on points[0:maxi] and points[maxi:]; the iterative version
//	           pushes exactly the intervals {begin, maxi} and {maxi, end};
//	#order     the left interval is pushed last, so that it is popped first and points are emitted
//	           in input order;
//	#early     the iterative version has no return before its end (the reference has no special
//	           case before its scan);
//	#emit      a leaf emits its first point only, and the last point of the input is appended once
//	           after the loop (the reference emits first and last of every leaf and drops the
//	           duplicate when it concatenates).
//
// Slots (by shape, package renderer): the function that calls itself on two re-slices of its first
// parameter (the reference) and the function with a local slice of a two-int-field struct used as a
// stack (the iterative version).
func init() {
	register(&Rule{
		Name:  "DP-SIBLINGS",
		IR:    "ast",
		Props: []string{"C34"},
		Floor: 6,
		Doc:   "the iterative Douglas-Peucker simplification makes the same decisions as the recursive reference: same farthest-point scan (arguments, range, strict maximum), same threshold comparison, the same split point for both halves, left half processed first, one point emitted per leaf plus the final point once",
		Run:   runDPSiblings,
	})
}

func runDPSiblings(c *Ctx) []Obligation {
	var out []Obligation
	p := c.Pkg("renderer")
	if p == nil {
		return out
	}
	info := p.TypesInfo
	var ref, iter *ast.FuncDecl
	for _, fd := range c.FuncDecls(p) {
		obj, _ := info.Defs[fd.Name].(*types.Func)
		if obj == nil || fd.Recv != nil {
			continue
		}
		selfCalls, stack := 0, false
		ast.Inspect(fd.Body, func(n ast.Node) bool {
			switch x := n.(type) {
			case *ast.CallExpr:
				if g := calleeFunc(info, x); g != nil && g == obj && len(x.Args) > 0 {
					if _, ok := ast.Unparen(x.Args[0]).(*ast.SliceExpr); ok {
						selfCalls++
					}
				}
			case *ast.CompositeLit:
				if nt := namedOf(info.TypeOf(x)); nt != nil {
					if st, ok := nt.Underlying().(*types.Struct); ok && st.NumFields() == 2 {
						stack = true
					}
				}
			}
			return true
		})
		if selfCalls == 2 {
			ref = fd
		} else if stack && selfCalls == 0 {
			// must also call distance-like function in a loop
			iter = fd
		}
	}
	if ref == nil || iter == nil {
		return out
	}
	// roles, by shape and not by name: POINTS and EPS are the two parameters; in the iterative version the
	// interval struct's first field is BEGIN and its second END (whatever variable they are selected from),
	// in the reference BEGIN is the constant 0 and END is len(POINTS); MAXI is the variable that is
	// assigned the scan's loop variable.
	rolesOf := func(fd *ast.FuncDecl) map[types.Object]string {
		roles := map[types.Object]string{}
		obj, _ := info.Defs[fd.Name].(*types.Func)
		sig := obj.Type().(*types.Signature)
		if sig.Params().Len() >= 2 {
			roles[sig.Params().At(0)] = "POINTS"
			roles[sig.Params().At(1)] = "EPS"
		}
		ast.Inspect(fd.Body, func(n ast.Node) bool {
			switch x := n.(type) {
			case *ast.CompositeLit:
				if nt := namedOf(info.TypeOf(x)); nt != nil {
					if st, ok := nt.Underlying().(*types.Struct); ok && st.NumFields() == 2 {
						roles[st.Field(0)] = "BEGIN"
						roles[st.Field(1)] = "END"
					}
				}
			case *ast.ForStmt:
				if as, ok := x.Init.(*ast.AssignStmt); ok && len(as.Lhs) == 1 {
					if lid, ok := as.Lhs[0].(*ast.Ident); ok {
						lv := info.Defs[lid]
						ast.Inspect(x.Body, func(m ast.Node) bool {
							if a2, ok := m.(*ast.AssignStmt); ok && len(a2.Lhs) == 1 && len(a2.Rhs) == 1 {
								if rid, ok := ast.Unparen(a2.Rhs[0]).(*ast.Ident); ok && lv != nil && info.Uses[rid] == lv {
									if tid, ok := a2.Lhs[0].(*ast.Ident); ok {
										if o := info.Uses[tid]; o != nil {
											roles[o] = "MAXI"
										}
									}
								}
							}
							return true
						})
						if lv != nil {
							roles[lv] = "I"
						}
					}
				}
			}
			return true
		})
		return roles
	}
	refRoles, iterRoles := rolesOf(ref), rolesOf(iter)
	cr := func(e ast.Expr) string { return canonExpr(c.Fset, info, e, refRoles) }
	ci := func(e ast.Expr) string { return canonExpr(c.Fset, info, e, iterRoles) }
	key := func(s string) string { return "renderer." + iter.Name.Name + "#" + s }
	add := func(k string, pos token.Pos, ok bool, good, bad string) {
		ob := Obligation{Key: key(k), Pos: c.Position(pos), Status: OK, Detail: good}
		if !ok {
			ob.Status, ob.Detail = Violation, bad
		}
		out = append(out, ob)
	}
	// the scan loop of a function: for i := A; i < B; i++ { if d := distance(X, Y, points[i]); d > max {…} }
	type scan struct {
		init, bound, cmp string
		args             []string
		pos              token.Pos
	}
	findScan := func(fd *ast.FuncDecl, cx func(ast.Expr) string) *scan {
		var s *scan
		ast.Inspect(fd.Body, func(n ast.Node) bool {
			fs, ok := n.(*ast.ForStmt)
			if !ok || s != nil {
				return true
			}
			as, ok1 := fs.Init.(*ast.AssignStmt)
			cond, ok2 := fs.Cond.(*ast.BinaryExpr)
			if !ok1 || !ok2 || len(as.Rhs) != 1 {
				return true
			}
			ast.Inspect(fs.Body, func(m ast.Node) bool {
				is, ok := m.(*ast.IfStmt)
				if !ok || s != nil {
					return true
				}
				init, ok := is.Init.(*ast.AssignStmt)
				if !ok || len(init.Rhs) != 1 {
					return true
				}
				call, ok := ast.Unparen(init.Rhs[0]).(*ast.CallExpr)
				if !ok || len(call.Args) != 3 {
					return true
				}
				be, ok := ast.Unparen(is.Cond).(*ast.BinaryExpr)
				if !ok {
					return true
				}
				s = &scan{init: cx(as.Rhs[0]), bound: cond.Op.String() + " " + cx(cond.Y), cmp: be.Op.String(), pos: fs.Pos()}
				for _, a := range call.Args {
					s.args = append(s.args, cx(a))
				}
				return true
			})
			return true
		})
		return s
	}
	rs, is := findScan(ref, cr), findScan(iter, ci)
	if rs == nil || is == nil {
		out = append(out, Obligation{Key: key("scan"), Pos: c.Position(iter.Pos()), Status: Undecided, Detail: "farthest-point scan not recognised in one of the two implementations"})
		return out
	}
	// normalise: reference uses 0 / len(points) where the iterative uses top.begin / top.end
	norm := func(s string) string {
		s = strings.ReplaceAll(s, "len(POINTS)", "END")
		s = strings.ReplaceAll(s, "POINTS[0]", "POINTS[BEGIN]")
		if s == "1" {
			s = "BEGIN + 1"
		}
		return s
	}
	scanOK := norm(rs.init) == norm(is.init) && norm(rs.bound) == norm(is.bound) && rs.cmp == is.cmp && len(rs.args) == 3 &&
		norm(rs.args[0]) == norm(is.args[0]) && norm(rs.args[1]) == norm(is.args[1]) && norm(rs.args[2]) == norm(is.args[2])
	add("scan", is.pos, scanOK,
		fmt.Sprintf("both scan i from %s while i %s with distance(%s) and keep the maximum with %s", norm(is.init), norm(is.bound), strings.Join(is.args, ", "), is.cmp),
		fmt.Sprintf("the farthest-point scans differ: reference scans from %s while i %s with distance(%s) keeping the maximum with %s; iterative scans from %s while i %s with distance(%s) keeping the maximum with %s",
			norm(rs.init), norm(rs.bound), strings.Join(rs.args, ", "), rs.cmp, norm(is.init), norm(is.bound), strings.Join(is.args, ", "), is.cmp))
	// threshold: if max OP epsilon
	threshold := func(fd *ast.FuncDecl) (string, *ast.IfStmt) {
		var op string
		var at *ast.IfStmt
		inspectShallow(fd.Body, func(n ast.Node) bool {
			ifs, ok := n.(*ast.IfStmt)
			if !ok || ifs.Init != nil {
				return true
			}
			if be, ok := ast.Unparen(ifs.Cond).(*ast.BinaryExpr); ok {
				if id, ok := ast.Unparen(be.Y).(*ast.Ident); ok {
					if v, ok := info.Uses[id].(*types.Var); ok {
						if b, ok := v.Type().Underlying().(*types.Basic); ok && b.Info()&types.IsFloat != 0 && ifs.Else != nil {
							op, at = be.Op.String(), ifs
						}
					}
				}
			}
			return true
		})
		return op, at
	}
	rop, _ := threshold(ref)
	iop, iif := threshold(iter)
	if iif == nil {
		out = append(out, Obligation{Key: key("threshold"), Pos: c.Position(iter.Pos()), Status: Undecided, Detail: "threshold test not recognised"})
		return out
	}
	add("threshold", iif.Pos(), rop == iop && rop != "", fmt.Sprintf("both split when max %s epsilon", iop),
		fmt.Sprintf("the reference splits when max %s epsilon, the iterative version when max %s epsilon: a point exactly at the tolerance is kept by one and dropped by the other", rop, iop))
	// split + order: the append of two interval literals in the then-branch
	var lits []*ast.CompositeLit
	ast.Inspect(iif.Body, func(n ast.Node) bool {
		if cl, ok := n.(*ast.CompositeLit); ok {
			lits = append(lits, cl)
		}
		return true
	})
	fieldsOf := func(cl *ast.CompositeLit) (string, string) {
		b, e := "", ""
		for i, el := range cl.Elts {
			if kv, ok := el.(*ast.KeyValueExpr); ok {
				k := ci(kv.Key)
				if k == "BEGIN" {
					b = ci(kv.Value)
				}
				if k == "END" {
					e = ci(kv.Value)
				}
			} else if i == 0 {
				b = ci(el)
			} else {
				e = ci(el)
			}
		}
		return b, e
	}
	if len(lits) != 2 {
		out = append(out, Obligation{Key: key("split"), Pos: c.Position(iif.Pos()), Status: Undecided, Detail: "the split does not push exactly two intervals"})
	} else {
		b1, e1 := fieldsOf(lits[0])
		b2, e2 := fieldsOf(lits[1])
		// reference: points[0:maxi] and points[maxi:]
		refSplit := ""
		ast.Inspect(ref.Body, func(n ast.Node) bool {
			if se, ok := n.(*ast.SliceExpr); ok {
				refSplit += "[" + cr(se.Low) + ":" + cr(se.High) + "]"
			}
			return true
		})
		splitOK := ((b1 == "MAXI" && e1 == "END" && b2 == "BEGIN" && e2 == "MAXI") || (b2 == "MAXI" && e2 == "END" && b1 == "BEGIN" && e1 == "MAXI")) && strings.Contains(refSplit, "[0:MAXI]") && strings.Contains(refSplit, "[MAXI:")
		add("split", lits[0].Pos(), splitOK, "the iterative version pushes {begin, maxi} and {maxi, end}, the halves the reference recurses on ([0:maxi], [maxi:])",
			fmt.Sprintf("the halves differ: reference slices %s; iterative pushes {%s, %s} and {%s, %s}", refSplit, b1, e1, b2, e2))
		add("order", lits[1].Pos(), b2 == "BEGIN", "the left interval is pushed last, so it is popped first: points are emitted in input order",
			"the right interval is pushed last and processed first: the points come out of input order")
	}
	// emit: else-branch appends points[top.begin]; after the loop appends points[len(points)-1]
	elseTxt := ""
	if iif.Else != nil {
		ast.Inspect(iif.Else, func(n ast.Node) bool {
			if call, ok := n.(*ast.CallExpr); ok && isBuiltin(info, call, "append") {
				for _, a := range call.Args[1:] {
					elseTxt += ci(a) + ";"
				}
			}
			return true
		})
	}
	tail := ""
	for _, st := range iter.Body.List {
		if as, ok := st.(*ast.AssignStmt); ok && len(as.Rhs) == 1 {
			if call, ok := ast.Unparen(as.Rhs[0]).(*ast.CallExpr); ok && isBuiltin(info, call, "append") && len(call.Args) == 2 {
				tail = ci(call.Args[1])
			}
		}
	}
	emitOK := elseTxt == "POINTS[BEGIN];" && tail == "POINTS[len(POINTS) - 1]"
	add("emit", iif.Pos(), emitOK, "a leaf emits its first point only; the last input point is appended once after the loop",
		fmt.Sprintf("leaf emission changed (else branch: %s; after the loop: %s): the reference yields each leaf's first point and the final point exactly once", strings.TrimSpace(elseTxt), tail))
	// #early: the reference has no special case before its scan (its two returns are the two arms of
	// the threshold test), so the iterative version has none either: its only return is its last
	// statement. A shortcut for some tolerance or some input length answers differently from the
	// reference for exactly those inputs.
	var early *ast.ReturnStmt
	ast.Inspect(iter.Body, func(n ast.Node) bool {
		if _, isLit := n.(*ast.FuncLit); isLit {
			return false
		}
		if ret, ok := n.(*ast.ReturnStmt); ok && ast.Stmt(ret) != iter.Body.List[len(iter.Body.List)-1] && early == nil {
			early = ret
		}
		return true
	})
	epos := iter.Pos()
	etxt := ""
	if early != nil {
		epos = early.Pos()
		etxt = srcText(c.Fset, early)
		for _, anc := range enclosing(iter.Body, early) {
			if ifs, ok := anc.(*ast.IfStmt); ok {
				etxt = "if " + srcText(c.Fset, ifs.Cond) + " { " + etxt + " }"
			}
		}
	}
	add("early", epos, early == nil, "the iterative version returns only at its end, like the reference, which has no special case before its scan",
		fmt.Sprintf("the iterative version returns early (%s) where the reference has no special case: for the inputs that take this shortcut the two can differ", etxt))
	return out
}
