package main

import (
	"fmt"
	"go/ast"
	"go/token"
	"go/types"
	"strings"

	"golang.org/x/tools/go/packages"
)

// TWOPASS (C01): the reserve pass and the write pass of a feature-block build see the same stream.
//
// Slots, found by shape in ingest/compact: a function that declares a local variable E of
// function type, assigns a function literal to it twice (`emit := func...`, later `emit = func...`)
// and passes E as an argument to calls of module functions ("producers"). The calls made while
// the first literal is current form pass 1, those after the second assignment pass 2. One
// instance per such function (today writePointsScratch, writePoints, writePathsAreasAndRelations).
//
// Obligations:
//  1. both passes contain the same number (>= 1) of producer calls and, pairwise in source order,
//     they call the same function with identical arguments (identifiers resolved to objects,
//     constants by value) except the closure. A call inside `range` loops corresponds to one
//     inside loops over the same collections; the loop variables are put in correspondence, and
//     the statements of the loop body before the call (state captured by the closure, e.g.
//     `ns = b.Namespaces[...]`) must be identical too.
//  2. the first literal only reserves and the second only writes: literal 1 calls a method named
//     Reserve (declared in ingest/compact or encoding) and no WriteItem; literal 2 calls WriteItem
//     on the same receiver and no Reserve.
//  3. what is reserved is what is written: the statements before the two calls are identical
//     (closure parameters correspond by position), the leading arguments of Reserve equal the
//     leading arguments of WriteItem, and the last argument of Reserve is len(x) where x is the
//     next argument of WriteItem.
//
// More than two literal assignments, a pass without producer call, or several Reserve/WriteItem
// calls in one literal are reported as undecided.
func init() {
	register(&Rule{
		Name:  "TWOPASS",
		IR:    "ast",
		Props: []string{"C01"},
		Floor: 3, // writePointsScratch, writePoints, writePathsAreasAndRelations
		Doc: "where a build function of ingest/compact assigns two function literals in turn to one local callback (reserve pass, write pass) and hands it to a producer, " +
			"both passes call the same producer with identical arguments except the callback (loop variables and preceding loop-body statements corresponding), " +
			"the first literal only calls Reserve, the second only WriteItem on the same builders, and Reserve's key arguments and length len(x) match WriteItem's key arguments and data x",
		Run: runTwoPass,
	})
}

type bPassCall struct {
	call   *ast.CallExpr
	argIdx int
	loops  []*ast.RangeStmt // enclosing range statements, outermost first
	before []ast.Stmt       // statements of the innermost loop body preceding the statement that holds the call
}

func runTwoPass(c *Ctx) []Obligation {
	p := c.Pkg(bCompactRel)
	if p == nil {
		return nil
	}
	info := p.TypesInfo
	var out []Obligation
	for _, fd := range c.FuncDecls(p) {
		// local function-typed variables assigned function literals at the top level of the body
		type asg struct {
			lit *ast.FuncLit
			pos token.Pos
		}
		lits := map[types.Object][]asg{}
		var order []types.Object
		for _, s := range fd.Body.List {
			as, ok := s.(*ast.AssignStmt)
			if !ok || len(as.Lhs) != len(as.Rhs) {
				continue
			}
			for i, l := range as.Lhs {
				id, ok := l.(*ast.Ident)
				fl, ok2 := ast.Unparen(as.Rhs[i]).(*ast.FuncLit)
				if !ok || !ok2 {
					continue
				}
				obj := info.ObjectOf(id)
				if obj == nil {
					continue
				}
				if _, seen := lits[obj]; !seen {
					order = append(order, obj)
				}
				lits[obj] = append(lits[obj], asg{fl, as.Pos()})
			}
		}
		for _, e := range order {
			as := lits[e]
			if len(as) < 2 {
				continue
			}
			// producer calls taking E as an argument (not inside the literals themselves)
			var calls []bPassCall
			bCollectPassCalls(info, fd.Body, e, nil, nil, &calls)
			if len(calls) == 0 {
				continue
			}
			ob := Obligation{Key: c.FuncName(p, fd), Pos: c.Position(as[0].pos)}
			bCheckTwoPass(c, p, fd, e, []*ast.FuncLit{as[0].lit, as[1].lit}, []token.Pos{as[0].pos, as[1].pos}, len(as), calls, &ob)
			out = append(out, ob)
		}
	}
	return out
}

// bCollectPassCalls walks statements, tracking enclosing range loops.
func bCollectPassCalls(info *types.Info, n ast.Node, e types.Object, loops []*ast.RangeStmt, before []ast.Stmt, out *[]bPassCall) {
	var walkStmt func(s ast.Stmt, loops []*ast.RangeStmt, before []ast.Stmt)
	exprCalls := func(x ast.Node, loops []*ast.RangeStmt, before []ast.Stmt) {
		if x == nil {
			return
		}
		inspectShallow(x, func(m ast.Node) bool {
			call, ok := m.(*ast.CallExpr)
			if !ok {
				return true
			}
			for i, a := range call.Args {
				if id, ok := ast.Unparen(a).(*ast.Ident); ok && info.ObjectOf(id) == e {
					*out = append(*out, bPassCall{call, i, append([]*ast.RangeStmt(nil), loops...), before})
				}
			}
			return true
		})
	}
	walkStmt = func(s ast.Stmt, loops []*ast.RangeStmt, before []ast.Stmt) {
		switch s := s.(type) {
		case nil:
		case *ast.BlockStmt:
			for _, t := range s.List {
				walkStmt(t, loops, before)
			}
		case *ast.IfStmt:
			walkStmt(s.Init, loops, before)
			exprCalls(s.Cond, loops, before)
			walkStmt(s.Body, loops, before)
			walkStmt(s.Else, loops, before)
		case *ast.ForStmt:
			walkStmt(s.Init, loops, before)
			exprCalls(s.Cond, loops, before)
			walkStmt(s.Post, loops, before)
			walkStmt(s.Body, loops, before)
		case *ast.RangeStmt:
			exprCalls(s.X, loops, before)
			inner := append(append([]*ast.RangeStmt(nil), loops...), s)
			for i, t := range s.Body.List {
				walkStmt(t, inner, s.Body.List[:i])
			}
		case *ast.SwitchStmt:
			walkStmt(s.Init, loops, before)
			exprCalls(s.Tag, loops, before)
			walkStmt(s.Body, loops, before)
		case *ast.TypeSwitchStmt:
			walkStmt(s.Init, loops, before)
			walkStmt(s.Assign, loops, before)
			walkStmt(s.Body, loops, before)
		case *ast.CaseClause:
			for _, x := range s.List {
				exprCalls(x, loops, before)
			}
			for _, t := range s.Body {
				walkStmt(t, loops, before)
			}
		case *ast.LabeledStmt:
			walkStmt(s.Stmt, loops, before)
		default:
			exprCalls(s, loops, before)
		}
	}
	if b, ok := n.(*ast.BlockStmt); ok {
		walkStmt(b, loops, before)
	}
}

type bBuilderCall struct {
	call   *ast.CallExpr
	stmt   ast.Stmt
	before []ast.Stmt
	name   string
}

// bBuilderCalls finds the Reserve / WriteItem method calls at the top level of a literal's body.
func bBuilderCalls(info *types.Info, lit *ast.FuncLit) []bBuilderCall {
	var out []bBuilderCall
	for i, s := range lit.Body.List {
		ast.Inspect(s, func(n ast.Node) bool {
			call, ok := n.(*ast.CallExpr)
			if !ok {
				return true
			}
			f := calleeFunc(info, call)
			if f == nil || !bInCodecPkg(f) {
				return true
			}
			if sig := f.Type().(*types.Signature); sig.Recv() == nil {
				return true
			}
			if f.Name() == "Reserve" || f.Name() == "WriteItem" {
				out = append(out, bBuilderCall{call, s, lit.Body.List[:i], f.Name()})
			}
			return true
		})
	}
	return out
}

func bCheckTwoPass(c *Ctx, p *packages.Package, fd *ast.FuncDecl, e types.Object, lits []*ast.FuncLit, at []token.Pos, nAssign int, calls []bPassCall, ob *Obligation) {
	info := p.TypesInfo
	name := e.Name()
	if nAssign != 2 {
		ob.Status, ob.Detail = Undecided, fmt.Sprintf("callback %s is assigned %d function literals, expected a reserve pass and a write pass", name, nAssign)
		return
	}
	var pass [2][]bPassCall
	for _, pc := range calls {
		switch {
		case pc.call.Pos() > at[1]:
			pass[1] = append(pass[1], pc)
		case pc.call.Pos() > at[0]:
			pass[0] = append(pass[0], pc)
		}
	}
	if len(pass[0]) == 0 || len(pass[1]) == 0 {
		ob.Status, ob.Detail = Undecided, fmt.Sprintf("callback %s: a pass makes no producer call (pass 1: %d, pass 2: %d)", name, len(pass[0]), len(pass[1]))
		return
	}
	var problems []string
	// 1. same producer calls
	if len(pass[0]) != len(pass[1]) {
		problems = append(problems, fmt.Sprintf("the reserve pass makes %d producer calls with %s, the write pass %d", len(pass[0]), name, len(pass[1])))
	} else {
		for i := range pass[0] {
			a, b := pass[0][i], pass[1][i]
			where := fmt.Sprintf("%s vs %s", c.Position(a.call.Pos()), c.Position(b.call.Pos()))
			fa, fb := callee(info, a.call), callee(info, b.call)
			if fa == nil || fb == nil || fa != fb {
				problems = append(problems, fmt.Sprintf("the passes call different producers (%s, %s; %s)", types.ExprString(a.call.Fun), types.ExprString(b.call.Fun), where))
				continue
			}
			if f, ok := fa.(*types.Func); !ok || f.Pkg() == nil || !strings.HasPrefix(f.Pkg().Path(), ModulePath) {
				problems = append(problems, fmt.Sprintf("producer %s is not a module function (%s)", types.ExprString(a.call.Fun), where))
				continue
			}
			al := newBAlpha(info)
			if len(a.loops) != len(b.loops) {
				problems = append(problems, fmt.Sprintf("the producer calls are nested in a different number of loops (%s)", where))
				continue
			}
			loopsOK := true
			for j := range a.loops {
				la, lb := a.loops[j], b.loops[j]
				if !al.expr(la.X, lb.X) {
					problems = append(problems, fmt.Sprintf("the passes iterate over different collections (%s, %s; %s)", types.ExprString(la.X), types.ExprString(lb.X), where))
					loopsOK = false
					break
				}
				for _, kv := range [][2]ast.Expr{{la.Key, lb.Key}, {la.Value, lb.Value}} {
					xi, okx := kv[0].(*ast.Ident)
					yi, oky := kv[1].(*ast.Ident)
					if okx && oky {
						if ox, oy := info.ObjectOf(xi), info.ObjectOf(yi); ox != nil && oy != nil {
							al.m[ox] = oy
						}
					} else if (kv[0] == nil) != (kv[1] == nil) {
						loopsOK = false
					}
				}
			}
			if !loopsOK {
				continue
			}
			if !al.stmts(a.before, b.before) {
				problems = append(problems, fmt.Sprintf("the statements that precede the producer call inside the loop body differ between the passes (%s)", where))
			}
			if a.argIdx != b.argIdx || len(a.call.Args) != len(b.call.Args) {
				problems = append(problems, fmt.Sprintf("the callback is passed at different argument positions (%s)", where))
				continue
			}
			if !al.expr(a.call.Fun, b.call.Fun) {
				problems = append(problems, fmt.Sprintf("the producer is called on different receivers (%s, %s; %s)", types.ExprString(a.call.Fun), types.ExprString(b.call.Fun), where))
			}
			for k := range a.call.Args {
				if k == a.argIdx {
					continue
				}
				if !al.expr(a.call.Args[k], b.call.Args[k]) {
					problems = append(problems, fmt.Sprintf("argument %d of %s differs between the passes: %s (%s) vs %s (%s)", k+1, types.ExprString(a.call.Fun),
						types.ExprString(a.call.Args[k]), c.Position(a.call.Pos()), types.ExprString(b.call.Args[k]), c.Position(b.call.Pos())))
				}
			}
		}
	}
	// 2. roles of the two literals
	r, w := bBuilderCalls(info, lits[0]), bBuilderCalls(info, lits[1])
	count := func(cs []bBuilderCall, n string) int {
		k := 0
		for _, x := range cs {
			if x.name == n {
				k++
			}
		}
		return k
	}
	undecided := ""
	switch {
	case count(r, "WriteItem") > 0:
		problems = append(problems, fmt.Sprintf("the reserve literal (%s) calls WriteItem", c.Position(lits[0].Pos())))
	case count(r, "Reserve") == 0:
		problems = append(problems, fmt.Sprintf("the reserve literal (%s) does not call Reserve", c.Position(lits[0].Pos())))
	case count(r, "Reserve") > 1:
		undecided = fmt.Sprintf("the reserve literal (%s) calls Reserve more than once", c.Position(lits[0].Pos()))
	}
	switch {
	case count(w, "Reserve") > 0:
		problems = append(problems, fmt.Sprintf("the write literal (%s) calls Reserve", c.Position(lits[1].Pos())))
	case count(w, "WriteItem") == 0:
		problems = append(problems, fmt.Sprintf("the write literal (%s) does not call WriteItem", c.Position(lits[1].Pos())))
	case count(w, "WriteItem") > 1:
		undecided = fmt.Sprintf("the write literal (%s) calls WriteItem more than once", c.Position(lits[1].Pos()))
	}
	// 3. reserved = written
	if len(r) == 1 && len(w) == 1 && r[0].name == "Reserve" && w[0].name == "WriteItem" {
		al := newBAlpha(info)
		pa, pb := bParamObjs(info, lits[0]), bParamObjs(info, lits[1])
		if len(pa) != len(pb) {
			problems = append(problems, "the two literals have different parameter lists")
		} else {
			for i := range pa {
				if pa[i] != nil && pb[i] != nil {
					al.m[pa[i]] = pb[i]
				}
			}
			rc, wc := r[0].call, w[0].call
			where := fmt.Sprintf("%s vs %s", c.Position(rc.Pos()), c.Position(wc.Pos()))
			if !al.stmts(r[0].before, w[0].before) {
				problems = append(problems, fmt.Sprintf("the statements before Reserve and before WriteItem differ (%s)", where))
			}
			rs, ws := ast.Unparen(rc.Fun).(*ast.SelectorExpr), ast.Unparen(wc.Fun).(*ast.SelectorExpr)
			if !al.expr(rs.X, ws.X) {
				problems = append(problems, fmt.Sprintf("Reserve and WriteItem are called on different builders (%s, %s; %s)", types.ExprString(rs.X), types.ExprString(ws.X), where))
			}
			nk := len(rc.Args) - 1
			if nk < 0 || len(wc.Args) < nk+1 {
				undecided = "Reserve/WriteItem argument lists not understood"
			} else {
				for k := 0; k < nk; k++ {
					if !al.expr(rc.Args[k], wc.Args[k]) {
						problems = append(problems, fmt.Sprintf("key argument %d differs: Reserve(%s) vs WriteItem(%s) (%s)", k+1, types.ExprString(rc.Args[k]), types.ExprString(wc.Args[k]), where))
					}
				}
				lc, ok := ast.Unparen(rc.Args[nk]).(*ast.CallExpr)
				if !ok || !isBuiltin(info, lc, "len") || len(lc.Args) != 1 || !al.expr(lc.Args[0], wc.Args[nk]) {
					problems = append(problems, fmt.Sprintf("the reserved length %s is not len(%s), the length of the data that WriteItem writes (%s)", types.ExprString(rc.Args[nk]), types.ExprString(wc.Args[nk]), where))
				}
			}
		}
	}
	switch {
	case len(problems) > 0:
		ob.Status, ob.Detail = Violation, fmt.Sprintf("two-pass build through callback %s: %s", name, strings.Join(problems, "; "))
	case undecided != "":
		ob.Status, ob.Detail = Undecided, fmt.Sprintf("two-pass build through callback %s: %s", name, undecided)
	default:
		ob.Status = OK
		ob.Detail = fmt.Sprintf("both passes call %s identically (%d call(s)); literal 1 only reserves len(data), literal 2 only writes the same data under the same key",
			types.ExprString(pass[0][0].call.Fun), len(pass[0]))
	}
}

func bParamObjs(info *types.Info, lit *ast.FuncLit) []types.Object {
	var out []types.Object
	if lit.Type.Params == nil {
		return nil
	}
	for _, fl := range lit.Type.Params.List {
		if len(fl.Names) == 0 {
			out = append(out, nil)
		}
		for _, n := range fl.Names {
			out = append(out, info.Defs[n])
		}
	}
	return out
}
