package main

import (
	"fmt"
	"go/token"
	"go/types"
	"sort"
	"strings"

	"golang.org/x/tools/go/callgraph"
	"golang.org/x/tools/go/ssa"
)

// GUARDED-BY (C35): concurrent readers of one compact world share compact.World, its
// compact.FeaturesByID (with the non-thread-safe lru.Cache) and the feature objects kept in that
// cache. Each of these struct types owns a sync.Mutex. Every write to a field of such an object
// (the field itself, an element of a slice/array/map held in the field) and every call of an
// lru.Cache method, in code reachable from a read-only entry point, must happen with the owner's
// mutex held exclusively.
//
// Slots, derived:
//   - guarded types: compact.FeaturesByID and compact.World (anchored by the property), plus every
//     struct type with a mutex field whose values can flow into the value argument of
//     (*lru.Cache).Add - found by walking that argument back through interface conversions, phis
//     and the return values of statically called module functions (depth 8). Types without a
//     mutex (per-query objects such as marshalledRelation) are outside the slot;
//   - read-only entry points: the methods by which types of ingest/compact implement the exported
//     interfaces of the root package b6 (b6.World queries, feature accessors); reachability over
//     the VTA call graph. Writers outside (Merge, constructors) carry no obligation, and neither
//     does a write to an object the function has just allocated itself (composite literal).
//
// Lockset: intraprocedural must-analysis (Lock/Unlock/RLock/RUnlock on an access path; a deferred
// unlock keeps the lock to the end). One idiom: a function that is unexported, never used as a
// value, cannot satisfy a module interface, and is called only from sites that hold mutex M of the
// object they pass, starts with M held (featureWithLock, fillGeometry).
//
// One obligation per write / cache call, ordinal in source order within the function.
func init() {
	register(&Rule{
		Name:  "GUARDED-BY",
		IR:    "ssa",
		Props: []string{"C35"},
		Floor: 8,
		Doc: "every write to a field of compact.FeaturesByID, compact.World or a mutex-owning feature type stored in the LRU cache, and every call into lru.Cache, " +
			"that is reachable from a read-only entry point (methods implementing b6 interfaces) happens with the owner's mutex held exclusively; " +
			"intraprocedural lockset plus inheritance for functions only called with the lock held",
		Run: runGuardedBy,
	})
}

const hLruPath = "github.com/golang/groupcache/lru"

// hConcreteTypes walks a value back to the concrete types it may hold.
func hConcreteTypes(v ssa.Value, depth int, seen map[ssa.Value]bool, out map[types.Type]bool) {
	if v == nil || depth > 8 || seen[v] {
		return
	}
	seen[v] = true
	switch x := v.(type) {
	case *ssa.MakeInterface:
		out[x.X.Type()] = true
	case *ssa.ChangeInterface:
		hConcreteTypes(x.X, depth, seen, out)
	case *ssa.TypeAssert:
		if _, isIface := x.AssertedType.Underlying().(*types.Interface); !isIface {
			out[x.AssertedType] = true
		} else {
			hConcreteTypes(x.X, depth, seen, out)
		}
	case *ssa.Phi:
		for _, e := range x.Edges {
			hConcreteTypes(e, depth, seen, out)
		}
	case *ssa.Extract:
		if call, ok := x.Tuple.(*ssa.Call); ok {
			hCallResultTypes(call, x.Index, depth, seen, out)
		} else if ta, ok := x.Tuple.(*ssa.TypeAssert); ok && x.Index == 0 {
			hConcreteTypes(ta, depth, seen, out)
		}
	case *ssa.Call:
		hCallResultTypes(x, 0, depth, seen, out)
	default:
		if _, isIface := v.Type().Underlying().(*types.Interface); !isIface {
			out[v.Type()] = true
		}
	}
}

func hCallResultTypes(call *ssa.Call, idx int, depth int, seen map[ssa.Value]bool, out map[types.Type]bool) {
	f := call.Common().StaticCallee()
	if f == nil || f.Blocks == nil {
		return // dynamic or external: unknown (stated limit)
	}
	for _, b := range f.Blocks {
		for _, ins := range b.Instrs {
			if r, ok := ins.(*ssa.Return); ok && idx < len(r.Results) {
				hConcreteTypes(r.Results[idx], depth+1, seen, out)
			}
		}
	}
}

// hOwner walks an address (or a loaded slice/map value) back to the closest enclosing object
// whose type is guarded; it returns the object value (a pointer) and its named type.
func hOwner(v ssa.Value, guarded map[*types.TypeName]bool) (ssa.Value, *types.Named) {
	for i := 0; i < 16 && v != nil; i++ {
		switch x := v.(type) {
		case *ssa.FieldAddr:
			if n := namedOf(x.X.Type()); n != nil && guarded[n.Obj()] {
				return x.X, n
			}
			v = x.X
		case *ssa.IndexAddr:
			v = x.X
		case *ssa.UnOp:
			if x.Op != token.MUL {
				return nil, nil
			}
			// a slice, map or array held in a field belongs to the object; a pointer leads elsewhere
			switch x.Type().Underlying().(type) {
			case *types.Slice, *types.Map, *types.Array:
				v = x.X
			default:
				return nil, nil
			}
		case *ssa.Slice:
			v = x.X
		default:
			return nil, nil
		}
	}
	return nil, nil
}

func hIsLruCacheMethod(com *ssa.CallCommon) bool {
	if com.IsInvoke() {
		return false
	}
	f := com.StaticCallee()
	if f == nil || f.Signature.Recv() == nil {
		return false
	}
	return isNamed(f.Signature.Recv().Type(), hLruPath, "Cache")
}

// hReadOnlyEntries: methods by which types of pkg implement exported interfaces of the root package.
func hReadOnlyEntries(c *Ctx, pkgRel string) []*ssa.Function {
	root := c.Pkg("")
	p := c.Pkg(pkgRel)
	if root == nil || p == nil {
		return nil
	}
	var ifaces []*types.Interface
	rs := root.Types.Scope()
	for _, n := range rs.Names() {
		if tn, ok := rs.Lookup(n).(*types.TypeName); ok && tn.Exported() {
			if it, ok := tn.Type().Underlying().(*types.Interface); ok && it.NumMethods() > 0 && !it.IsComparable() {
				if _, isTP := tn.Type().(*types.TypeParam); !isTP {
					if named, ok := tn.Type().(*types.Named); ok && named.TypeParams().Len() > 0 {
						continue
					}
					ifaces = append(ifaces, it)
				}
			}
		}
	}
	seen := map[*ssa.Function]bool{}
	var out []*ssa.Function
	ps := p.Types.Scope()
	for _, n := range ps.Names() {
		tn, ok := ps.Lookup(n).(*types.TypeName)
		if !ok {
			continue
		}
		if _, isIface := tn.Type().Underlying().(*types.Interface); isIface {
			continue
		}
		for _, t := range []types.Type{tn.Type(), types.NewPointer(tn.Type())} {
			for _, it := range ifaces {
				if !types.Implements(t, it) {
					continue
				}
				ms := c.Prog.MethodSets.MethodSet(t)
				for i := 0; i < it.NumMethods(); i++ {
					sel := ms.Lookup(it.Method(i).Pkg(), it.Method(i).Name())
					if sel == nil {
						continue
					}
					if fn := c.Prog.MethodValue(sel); fn != nil && !seen[fn] {
						seen[fn] = true
						out = append(out, fn)
					}
				}
			}
		}
	}
	sort.Slice(out, func(i, j int) bool { return out[i].String() < out[j].String() })
	return out
}

func hReachable(cg *callgraph.Graph, entries []*ssa.Function) map[*ssa.Function]bool {
	reach := map[*ssa.Function]bool{}
	var work []*ssa.Function
	for _, e := range entries {
		if !reach[e] {
			reach[e] = true
			work = append(work, e)
		}
	}
	for len(work) > 0 {
		f := work[len(work)-1]
		work = work[:len(work)-1]
		n := cg.Nodes[f]
		if n == nil {
			continue
		}
		for _, e := range n.Out {
			if g := e.Callee.Func; g != nil && !reach[g] {
				reach[g] = true
				work = append(work, g)
			}
		}
		// anonymous functions created by a reachable function run on its behalf
		for _, a := range f.AnonFuncs {
			if !reach[a] {
				reach[a] = true
				work = append(work, a)
			}
		}
	}
	return reach
}

func runGuardedBy(c *Ctx) []Obligation {
	c.BuildSSA()
	p := c.Pkg("ingest/compact")
	if p == nil {
		return []Obligation{{Key: "compact#anchor", Status: Undecided, Detail: "package ingest/compact not loaded"}}
	}
	guarded := map[*types.TypeName]bool{}
	var anchorsMissing []string
	for _, name := range []string{"FeaturesByID", "World"} {
		tn, _ := p.Types.Scope().Lookup(name).(*types.TypeName)
		if tn == nil || len(hMutexFields(tn.Type())) == 0 {
			anchorsMissing = append(anchorsMissing, name)
			continue
		}
		guarded[tn] = true
	}
	if len(anchorsMissing) > 0 {
		return []Obligation{{Key: "compact#anchor", Status: Undecided, Detail: "anchored type without a mutex field or not found: " + strings.Join(anchorsMissing, ", ")}}
	}

	var funcs []*ssa.Function
	for _, fn := range hModuleFuncs(c) {
		if pk := hFuncPkg(fn); pk != nil && pk.Pkg == p.Types {
			funcs = append(funcs, fn)
		}
	}

	// types stored in the LRU cache
	cacheAdds := 0
	var cached []string
	for _, fn := range funcs {
		for _, b := range fn.Blocks {
			for _, ins := range b.Instrs {
				call, ok := ins.(*ssa.Call)
				if !ok || !hIsLruCacheMethod(call.Common()) || call.Common().StaticCallee().Name() != "Add" || len(call.Common().Args) < 3 {
					continue
				}
				cacheAdds++
				ts := map[types.Type]bool{}
				hConcreteTypes(call.Common().Args[2], 0, map[ssa.Value]bool{}, ts)
				for t := range ts {
					n := namedOf(t)
					if n == nil || n.Obj().Pkg() != p.Types || len(hMutexFields(n)) == 0 {
						continue
					}
					if !guarded[n.Obj()] {
						guarded[n.Obj()] = true
						cached = append(cached, n.Obj().Name())
					}
				}
			}
		}
	}
	sort.Strings(cached)

	cg := c.CallGraph()
	reach := hReachable(cg, hReadOnlyEntries(c, "ingest/compact"))
	locker := hNewLocker(c)

	var out []Obligation
	if cacheAdds == 0 {
		out = append(out, Obligation{Key: "compact#cache", Status: Undecided, Detail: "no call of (*lru.Cache).Add found in ingest/compact: the cached feature types cannot be derived"})
	} else {
		out = append(out, Obligation{Key: "compact#cache", Status: Info, Detail: "mutex-owning types that flow into (*lru.Cache).Add: " + strings.Join(cached, ", ")})
	}

	for _, fn := range funcs {
		if !reach[fn] {
			continue
		}
		type site struct {
			ins   ssa.Instruction
			owner ssa.Value
			typ   *types.Named
			what  string
		}
		var sites []site
		for _, b := range fn.Blocks {
			for _, ins := range b.Instrs {
				switch x := ins.(type) {
				case *ssa.Store:
					if o, t := hOwner(x.Addr, guarded); o != nil {
						sites = append(sites, site{ins, o, t, "write to " + hPath(x.Addr)})
					}
				case *ssa.MapUpdate:
					if o, t := hOwner(x.Map, guarded); o != nil {
						sites = append(sites, site{ins, o, t, "map update of " + hPath(x.Map)})
					}
				case ssa.CallInstruction:
					com := x.Common()
					if !hIsLruCacheMethod(com) || len(com.Args) == 0 {
						continue
					}
					what := "call of (*lru.Cache)." + com.StaticCallee().Name() + " on " + hPath(com.Args[0])
					// the cache pointer is loaded from a field of its owner
					var o ssa.Value
					var t *types.Named
					if ld, ok := com.Args[0].(*ssa.UnOp); ok && ld.Op == token.MUL {
						if fa, ok := ld.X.(*ssa.FieldAddr); ok {
							if n := namedOf(fa.X.Type()); n != nil && guarded[n.Obj()] {
								o, t = fa.X, n
							}
						}
					}
					sites = append(sites, site{ins, o, t, what})
				}
			}
		}
		if len(sites) == 0 {
			continue
		}
		sort.SliceStable(sites, func(i, j int) bool { return sites[i].ins.Pos() < sites[j].ins.Pos() })
		held := locker.locks(fn)
		ord := 0
		for _, s := range sites {
			if s.owner != nil {
				if _, fresh := s.owner.(*ssa.Alloc); fresh {
					continue // object allocated here: construction, not shared yet
				}
			}
			ord++
			ob := Obligation{Key: fmt.Sprintf("%s#%d", hSSAName(fn), ord), Pos: c.Position(s.ins.Pos())}
			if s.owner == nil {
				ob.Status = Undecided
				ob.Detail = s.what + ": the cache is not reached through a field of a guarded object, its owner's mutex cannot be named"
				out = append(out, ob)
				continue
			}
			ls := held[s.ins]
			ok := false
			var want []string
			for _, mf := range hMutexFields(s.typ) {
				k := hPath(s.owner) + "." + mf
				want = append(want, k)
				if ls[k] == 2 {
					ok = true
				}
			}
			if ok {
				ob.Status = OK
				ob.Detail = fmt.Sprintf("%s with %s held", s.what, strings.Join(want, " / "))
				if len(locker.entry[fn]) > 0 {
					ob.Detail += " (inherited: every call site holds it)"
				}
			} else {
				ob.Status = Violation
				ob.Detail = fmt.Sprintf("%s of shared %s without %s held exclusively (held here: %s); reachable from a read-only entry point, so two readers race", s.what, s.typ.Obj().Name(), strings.Join(want, " / "), ls)
				if w := locker.why[fn]; w != "" {
					ob.Detail += "; the lock is not inherited because " + w
				}
			}
			out = append(out, ob)
		}
	}
	return out
}
