package main

import (
	"fmt"
	"go/ast"
	"go/token"
	"go/types"
	"sort"
	"strings"

	"golang.org/x/tools/go/packages"
)

// ACCUMULATE (C05, C04): a result collected over a loop must keep the contribution of every
// iteration.
//
// Shape (discovered in every function of the module, function literals on their own): a local
// variable, parameter or named result x that is declared outside a for/range statement L, is
// assigned inside L (`x = e`, `x op= e`, `x++`, or an element store `x[k] = e`) and is read after
// L. One instance per (L, x), L being the outermost loop that x is declared outside of.
//
// Decision. Every store to x inside L is classified:
//   - accumulating: a compound assignment or ++/--; a plain assignment whose right-hand side
//     mentions x (`x = f(x, …)`, `x = append(x, …)`); an element store whose index mentions
//     something that changes per iteration (the range key/value, a variable assigned in L, a call);
//   - idempotent: every right-hand side is a constant (`found = true`);
//   - selecting: the store is under an if/switch/select inside L (keeps an extreme, finds a match);
//   - overwriting: a plain, unconditional store that does not mention x (or an element store at a
//     loop-invariant index).
//
// An overwriting store is a violation — only the last iteration survives, the earlier stores are
// dead — unless x is read inside L (loop condition or body: x is state carried from one iteration
// to the next, e.g. `for ok && … { ok = it.Next() }`, `prev = cur`; a function literal of the same
// function that mentions x counts as such a read), or the body ends by leaving
// the loop (break/return/panic as its last statement: it never iterates twice).
//
// Deciding instances (C05, C04): the Compile methods of the spatial query types (the types
// FILTER-AGREE discovers) and every module function they reach through static calls — that is
// where the index pre-filter (search.NewSpatialFrom…) is built from the loop's result. The same
// shape anywhere else in the module is reported as `info` when it would be a violation.
//
// Not covered: values accumulated through pointers, fields or closures; whether the accumulating
// function really includes its accumulator argument in its result.
func init() {
	register(&Rule{
		Name:  "ACCUMULATE",
		IR:    "ast",
		Props: []string{"C05", "C04"},
		Floor: 5, // IntersectsCells.Compile union, IntersectsMultiPolygon.Compile covering, search.RewriteSpatialQuery rewritten (two loops) and ids
		Doc: "in the Compile methods of the spatial query types and the functions they statically reach, a variable declared before a loop, stored to in the loop and read after it " +
			"is accumulated: no store in the loop is a plain unconditional overwrite that does not mention the variable (unless the variable is loop-carried state read inside the loop, or the loop leaves after one iteration)",
		Run: runAccumulate,
	})
}

type c2Store struct {
	stmt    ast.Stmt
	kind    string // "accumulating", "selecting", "overwriting"
	how     string
	element bool
}

type c2AccGroup struct {
	loop   ast.Stmt
	obj    *types.Var
	stores []c2Store
}

func runAccumulate(c *Ctx) []Obligation {
	_, compiles := c.c2SpatialTypes()
	scope := c.c2StaticClosure(compiles)
	keys := c2NewKeys()
	var out []Obligation
	if len(compiles) == 0 {
		return []Obligation{{Key: "b6.Compile#1", Pos: "-", Status: Undecided, Detail: "no spatial query type with a Compile method found (FILTER-AGREE discovery is empty)"}}
	}
	for _, p := range c.SortedPkgs() {
		info := p.TypesInfo
		for _, u := range c.units(p, true) {
			fn, _ := info.Defs[u.decl.Name].(*types.Func)
			inScope := fn != nil && scope[fn.Origin()]
			for _, g := range c2AccGroups(c, p, u) {
				status, detail := c2AccDecide(c, p, u, g)
				if status == "" {
					continue // not read after the loop: not an instance
				}
				switch {
				case inScope:
					out = append(out, Obligation{Key: keys.next(u.name), Pos: c.Position(g.loop.Pos()), Status: status, Detail: detail})
				case status == Violation:
					out = append(out, Obligation{Key: keys.next(u.name), Pos: c.Position(g.loop.Pos()), Status: Info,
						Detail: "outside the spatial Compile methods: " + detail})
				}
			}
		}
	}
	return out
}

// c2AccGroups finds the (outermost loop, variable) groups of a function unit, in source order.
func c2AccGroups(c *Ctx, p *packages.Package, u funcUnit) []*c2AccGroup {
	info := p.TypesInfo
	var loops []ast.Stmt
	inspectShallow(u.body, func(n ast.Node) bool {
		switch n.(type) {
		case *ast.ForStmt, *ast.RangeStmt:
			loops = append(loops, n.(ast.Stmt))
		}
		return true
	})
	if len(loops) == 0 {
		return nil
	}
	outermost := func(pos token.Pos, obj *types.Var) ast.Stmt {
		for _, l := range loops { // source order: outer loops come first
			if l.Pos() <= pos && pos < l.End() && (obj.Pos() < l.Pos() || obj.Pos() >= l.End()) {
				// stores in the loop header (init/post, range key) are loop control, not results
				var body *ast.BlockStmt
				switch x := l.(type) {
				case *ast.ForStmt:
					body = x.Body
				case *ast.RangeStmt:
					body = x.Body
				}
				if body.Pos() <= pos && pos < body.End() {
					return l
				}
			}
		}
		return nil
	}
	index := map[string]*c2AccGroup{}
	var order []*c2AccGroup
	add := func(stmt ast.Stmt, target ast.Expr, element bool) {
		v := c2LocalVar(info, p, target)
		if v == nil {
			return
		}
		l := outermost(stmt.Pos(), v)
		if l == nil {
			return
		}
		k := fmt.Sprintf("%d/%d", l.Pos(), v.Pos())
		g := index[k]
		if g == nil {
			g = &c2AccGroup{loop: l, obj: v}
			index[k] = g
			order = append(order, g)
		}
		g.stores = append(g.stores, c2Store{stmt: stmt, element: element})
	}
	inspectShallow(u.body, func(n ast.Node) bool {
		switch s := n.(type) {
		case *ast.AssignStmt:
			if s.Tok == token.DEFINE {
				return true
			}
			for _, l := range s.Lhs {
				l = ast.Unparen(l)
				if ix, ok := l.(*ast.IndexExpr); ok {
					add(s, ix.X, true)
				} else {
					add(s, l, false)
				}
			}
		case *ast.IncDecStmt:
			x := ast.Unparen(s.X)
			if ix, ok := x.(*ast.IndexExpr); ok {
				add(s, ix.X, true)
			} else {
				add(s, x, false)
			}
		}
		return true
	})
	sort.SliceStable(order, func(i, j int) bool {
		if order[i].loop.Pos() != order[j].loop.Pos() {
			return order[i].loop.Pos() < order[j].loop.Pos()
		}
		return order[i].obj.Pos() < order[j].obj.Pos()
	})
	return order
}

// c2AccDecide classifies the stores of a group; status "" means x is not read after the loop.
func c2AccDecide(c *Ctx, p *packages.Package, u funcUnit, g *c2AccGroup) (string, string) {
	info := p.TypesInfo
	x := g.obj
	// writes: identifiers that are the pure target of a plain store
	pureTarget := map[*ast.Ident]bool{}
	for _, st := range g.stores {
		if as, ok := st.stmt.(*ast.AssignStmt); ok && as.Tok == token.ASSIGN {
			for _, l := range as.Lhs {
				l = ast.Unparen(l)
				if ix, ok := l.(*ast.IndexExpr); ok {
					l = ast.Unparen(ix.X)
				}
				if id, ok := l.(*ast.Ident); ok && info.ObjectOf(id) == types.Object(x) {
					pureTarget[id] = true
				}
			}
		}
	}
	// read after the loop? (named results are read by every return)
	readAfter := false
	if sig := c2UnitSignature(info, u); sig != nil {
		for i := 0; i < sig.Results().Len(); i++ {
			if sig.Results().At(i) == x {
				readAfter = true
			}
		}
	}
	var firstAfter token.Pos
	ast.Inspect(u.body, func(n ast.Node) bool {
		if id, ok := n.(*ast.Ident); ok && id.Pos() >= g.loop.End() && info.Uses[id] == types.Object(x) && !pureTarget[id] {
			if !readAfter {
				firstAfter = id.Pos()
			}
			readAfter = true
		}
		return true
	})
	if !readAfter {
		return "", ""
	}
	// what changes per iteration
	varying := map[types.Object]bool{}
	ast.Inspect(g.loop, func(n ast.Node) bool {
		switch s := n.(type) {
		case *ast.RangeStmt:
			for _, e := range []ast.Expr{s.Key, s.Value} {
				if id, ok := e.(*ast.Ident); ok {
					if o := info.ObjectOf(id); o != nil {
						varying[o] = true
					}
				}
			}
		case *ast.AssignStmt:
			for _, l := range s.Lhs {
				if id, ok := ast.Unparen(l).(*ast.Ident); ok {
					if o := info.ObjectOf(id); o != nil {
						varying[o] = true
					}
				}
			}
		case *ast.IncDecStmt:
			if id, ok := ast.Unparen(s.X).(*ast.Ident); ok {
				if o := info.ObjectOf(id); o != nil {
					varying[o] = true
				}
			}
		}
		return true
	})
	isVarying := func(e ast.Expr) bool {
		v := false
		ast.Inspect(e, func(n ast.Node) bool {
			switch y := n.(type) {
			case *ast.Ident:
				if o := info.ObjectOf(y); o != nil && varying[o] {
					v = true
				}
			case *ast.CallExpr:
				if tv, ok := info.Types[y.Fun]; !ok || !tv.IsType() {
					if !isBuiltin(info, y, "len") && !isBuiltin(info, y, "cap") {
						v = true
					}
				}
			}
			return !v
		})
		return v
	}
	var body *ast.BlockStmt
	switch l := g.loop.(type) {
	case *ast.ForStmt:
		body = l.Body
	case *ast.RangeStmt:
		body = l.Body
	}
	conditional := func(s ast.Stmt) bool {
		chain := enclosing(body, s)
		for _, a := range chain {
			switch a.(type) {
			case *ast.IfStmt, *ast.CaseClause, *ast.CommClause:
				return true
			}
		}
		return false
	}
	var overwrites, forms []string
	for i := range g.stores {
		st := &g.stores[i]
		switch s := st.stmt.(type) {
		case *ast.IncDecStmt:
			st.kind, st.how = "accumulating", nodeText(c.Fset, s.X)+s.Tok.String()
		case *ast.AssignStmt:
			switch {
			case s.Tok != token.ASSIGN:
				st.kind, st.how = "accumulating", nodeText(c.Fset, s)
			case st.element:
				vary := false
				for _, l := range s.Lhs {
					if ix, ok := ast.Unparen(l).(*ast.IndexExpr); ok && c2LocalVar(info, p, ix.X) == x && isVarying(ix.Index) {
						vary = true
					}
				}
				mention := false
				for _, r := range s.Rhs {
					mention = mention || c2Mentions(info, r, x)
				}
				if vary || mention {
					st.kind, st.how = "accumulating", nodeText(c.Fset, s)
				}
			default:
				for _, r := range s.Rhs {
					if c2Mentions(info, r, x) {
						st.kind, st.how = "accumulating", nodeText(c.Fset, s)
					}
				}
			}
		}
		if st.kind == "" {
			if as, ok := st.stmt.(*ast.AssignStmt); ok && c2AllConstant(info, as.Rhs) {
				// `found = true`: every iteration stores the same value, nothing is lost
				st.kind, st.how = "idempotent", nodeText(c.Fset, st.stmt)
			}
		}
		if st.kind == "" {
			if conditional(st.stmt) {
				st.kind, st.how = "selecting", nodeText(c.Fset, st.stmt)
			} else {
				st.kind, st.how = "overwriting", nodeText(c.Fset, st.stmt)
				overwrites = append(overwrites, fmt.Sprintf("`%s` (%s)", st.how, c.Position(st.stmt.Pos())))
			}
		}
		forms = append(forms, fmt.Sprintf("%s `%s`", st.kind, st.how))
	}
	head := fmt.Sprintf("%s, declared before the loop and read after it (%s)", x.Name(), c.Position(firstAfter))
	if len(overwrites) == 0 {
		return OK, head + ": " + strings.Join(forms, "; ")
	}
	// loop-carried state: x is read inside the loop
	var readIn token.Pos
	ast.Inspect(g.loop, func(n ast.Node) bool {
		if id, ok := n.(*ast.Ident); ok && info.Uses[id] == types.Object(x) && !pureTarget[id] && readIn == token.NoPos {
			readIn = id.Pos()
		}
		return true
	})
	if readIn == token.NoPos {
		// captured by a function literal that the loop may call (emit closures)
		ast.Inspect(u.body, func(n ast.Node) bool {
			if fl, ok := n.(*ast.FuncLit); ok && readIn == token.NoPos && c2Mentions(info, fl.Body, x) {
				readIn = fl.Pos()
			}
			return true
		})
	}
	if readIn != token.NoPos {
		return OK, fmt.Sprintf("%s: overwritten by %s but read inside the loop (%s): state carried between iterations", head, strings.Join(overwrites, ", "), c.Position(readIn))
	}
	if n := len(body.List); n > 0 {
		leaves := false
		switch l := body.List[n-1].(type) {
		case *ast.ReturnStmt:
			leaves = true
		case *ast.BranchStmt:
			leaves = l.Tok == token.BREAK || l.Tok == token.GOTO
		case *ast.ExprStmt:
			if call, ok := l.X.(*ast.CallExpr); ok && noReturn(info, call) {
				leaves = true
			}
		}
		if leaves {
			return OK, fmt.Sprintf("%s: overwritten by %s, but the loop body ends by leaving the loop: it runs at most once", head, strings.Join(overwrites, ", "))
		}
	}
	return Violation, fmt.Sprintf("%s: every iteration overwrites it with %s, which does not mention %s, and nothing reads it inside the loop: only the last iteration's value survives", head, strings.Join(overwrites, ", "), x.Name())
}

// c2UnitSignature returns the signature of a function unit.
func c2UnitSignature(info *types.Info, u funcUnit) *types.Signature {
	if u.lit != nil {
		sig, _ := info.TypeOf(u.lit).(*types.Signature)
		return sig
	}
	if f, ok := info.Defs[u.decl.Name].(*types.Func); ok {
		sig, _ := f.Type().(*types.Signature)
		return sig
	}
	return nil
}

// c2AllConstant reports whether every expression is a constant, nil, or a composite literal/zero
// value without operands.
func c2AllConstant(info *types.Info, es []ast.Expr) bool {
	if len(es) == 0 {
		return false
	}
	for _, e := range es {
		tv, ok := info.Types[e]
		if !ok || (tv.Value == nil && !tv.IsNil()) {
			return false
		}
	}
	return true
}
