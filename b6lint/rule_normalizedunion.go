package main

import (
	"fmt"
	"go/ast"
	"go/token"
	"go/types"
	"strings"

	"golang.org/x/tools/go/packages"
)

// NORMALIZED-UNION (C04): s2.CellUnion's region methods (IntersectsCell, ContainsCell, …, which
// s2.RegionCoverer calls while it computes a covering) binary-search the union and silently assume
// that it is normalised (sorted, no overlapping cells). A union assembled by hand and handed to
// the coverer unnormalised yields a covering that misses cells, so the index pre-filter hides
// features the exact predicate accepts.
//
// Uses (module-wide, one instance each, numbered per function in source order):
//   - an expression of type s2.CellUnion / *s2.CellUnion placed where an interface with the
//     region methods (s2.Region) is expected: call argument, explicit conversion, assignment or
//     declaration with that interface type, return value, composite-literal element;
//   - a call of one of the binary-searching methods on a union: ContainsCellID, IntersectsCellID,
//     ContainsCell, IntersectsCell, ContainsPoint, Contains, Intersects.
//
// Obligation: on every path to the use the union is normalised. Accepted normalised sources:
//   - the result of s2.RegionCoverer.Covering / InteriorCovering / CellUnion / InteriorCellUnion /
//     FastCovering, of s2.CellUnionFromUnion / FromIntersection / FromIntersectionWithCellID /
//     FromDifference / FromRange;
//   - an empty or one-element union: `var u s2.CellUnion`, `s2.CellUnion{}`, `s2.CellUnion{id}`,
//     `make(s2.CellUnion, 0[, n])`, nil;
//   - the result of a module function all of whose returns are normalised (depth 3);
//   - a local variable: every store that makes it dirty (an assignment from anything else,
//     `u = append(u, …)`, an element store `u[i] = …`, `make(s2.CellUnion, n)`, passing `&u` to a
//     call other than the use itself, Decode) is followed on every path to the use (go/cfg
//     must-pass-through) by `u.Normalize()` or by an assignment from a normalised source.
//     Denormalize/ExpandAtLevel/ExpandByRadius keep a union sorted and disjoint;
//   - a parameter of a declared function: every static call site in the module passes a
//     normalised union (same test at the call, depth 3).
//
// A field, package-level or captured variable used as a region without a dominating Normalize is
// `undecided` (the rule does not follow those values).
//
// Instances in the root package's spatial.go and in package search decide C04; instances
// elsewhere are reported as `info` with the same verdict.
func init() {
	register(&Rule{
		Name:  "NORMALIZED-UNION",
		IR:    "cfg",
		Props: []string{"C04"},
		Floor: 1, // IntersectsCells.Compile: search.NewSpatialFromRegion(&union)
		Doc: "every s2.CellUnion used as an s2.Region or through its binary-searching methods is normalised on every path from its construction to that use " +
			"(Normalize() call, RegionCoverer/CellUnionFrom… result, empty or single-cell union)",
		Run: runNormalizedUnion,
	})
}

var c2SearchingMethods = map[string]bool{"ContainsCellID": true, "IntersectsCellID": true, "ContainsCell": true, "IntersectsCell": true,
	"ContainsPoint": true, "Contains": true, "Intersects": true}

var c2NormalisedFuncs = map[string]bool{"CellUnionFromUnion": true, "CellUnionFromIntersection": true, "CellUnionFromIntersectionWithCellID": true,
	"CellUnionFromDifference": true, "CellUnionFromRange": true}

var c2CovererMethods = map[string]bool{"Covering": true, "InteriorCovering": true, "CellUnion": true, "InteriorCellUnion": true, "FastCovering": true}

type c2Norm struct {
	c *Ctx
}

type c2Use struct {
	value ast.Expr // the union expression (without &)
	node  ast.Node // the enclosing construct to find in the CFG
	what  string
}

func c2IsUnion(t types.Type) bool { return c2IsS2(t, "CellUnion") }

// c2IsRegionIface reports an interface type that carries the region methods.
func c2IsRegionIface(t types.Type) bool {
	if t == nil {
		return false
	}
	it, ok := t.Underlying().(*types.Interface)
	if !ok {
		return false
	}
	for i := 0; i < it.NumMethods(); i++ {
		if n := it.Method(i).Name(); n == "IntersectsCell" || n == "ContainsCell" {
			return true
		}
	}
	return false
}

func c2StripAddr(e ast.Expr) ast.Expr {
	e = ast.Unparen(e)
	if u, ok := e.(*ast.UnaryExpr); ok && u.Op == token.AND {
		return ast.Unparen(u.X)
	}
	if s, ok := e.(*ast.StarExpr); ok {
		return ast.Unparen(s.X)
	}
	return e
}

// uses finds the region uses of unions in one function unit, in source order.
func (nu *c2Norm) uses(p *packages.Package, u funcUnit) []c2Use {
	info := p.TypesInfo
	var out []c2Use
	sig := c2UnitSignature(info, u)
	asRegion := func(target types.Type, e ast.Expr, node ast.Node, what string) {
		if e == nil || !c2IsRegionIface(target) {
			return
		}
		if t := info.TypeOf(e); t != nil && c2IsUnion(t) && !types.IsInterface(t) {
			out = append(out, c2Use{value: c2StripAddr(e), node: node, what: what})
		}
	}
	inspectShallow(u.body, func(n ast.Node) bool {
		switch x := n.(type) {
		case *ast.CallExpr:
			if tv, ok := info.Types[x.Fun]; ok && tv.IsType() {
				if len(x.Args) == 1 {
					asRegion(tv.Type, x.Args[0], x, "converted to "+types.ExprString(x.Fun))
				}
				return true
			}
			if sel, ok := ast.Unparen(x.Fun).(*ast.SelectorExpr); ok {
				if f := calleeFunc(info, x); f != nil && c2SearchingMethods[f.Name()] {
					if fs, ok := f.Type().(*types.Signature); ok && fs.Recv() != nil && c2IsUnion(fs.Recv().Type()) {
						out = append(out, c2Use{value: c2StripAddr(sel.X), node: x, what: "receiver of CellUnion." + f.Name()})
					}
				}
			}
			ft := info.TypeOf(x.Fun)
			if ft == nil {
				return true
			}
			fs, ok := ft.Underlying().(*types.Signature)
			if !ok {
				return true
			}
			for i, a := range x.Args {
				var pt types.Type
				switch {
				case fs.Variadic() && i >= fs.Params().Len()-1:
					if x.Ellipsis.IsValid() {
						continue
					}
					if sl, ok := fs.Params().At(fs.Params().Len() - 1).Type().(*types.Slice); ok {
						pt = sl.Elem()
					}
				case i < fs.Params().Len():
					pt = fs.Params().At(i).Type()
				}
				asRegion(pt, a, x, "passed as a region to "+types.ExprString(x.Fun))
			}
		case *ast.AssignStmt:
			if len(x.Lhs) == len(x.Rhs) {
				for i := range x.Rhs {
					asRegion(info.TypeOf(x.Lhs[i]), x.Rhs[i], x, "assigned to the region "+types.ExprString(x.Lhs[i]))
				}
			}
		case *ast.ValueSpec:
			if x.Type != nil {
				for _, v := range x.Values {
					asRegion(info.TypeOf(x.Type), v, x, "declared as a region")
				}
			}
		case *ast.ReturnStmt:
			if sig != nil && len(x.Results) == sig.Results().Len() {
				for i, r := range x.Results {
					asRegion(sig.Results().At(i).Type(), r, x, "returned as a region")
				}
			}
		case *ast.CompositeLit:
			t := info.TypeOf(x)
			if t == nil {
				return true
			}
			switch ut := t.Underlying().(type) {
			case *types.Struct:
				for i, el := range x.Elts {
					if kv, ok := el.(*ast.KeyValueExpr); ok {
						if id, ok := kv.Key.(*ast.Ident); ok {
							if f, ok := info.ObjectOf(id).(*types.Var); ok {
								asRegion(f.Type(), kv.Value, x, "stored in the region field "+f.Name())
							}
						}
					} else if i < ut.NumFields() {
						asRegion(ut.Field(i).Type(), el, x, "stored in the region field "+ut.Field(i).Name())
					}
				}
			case *types.Slice:
				for _, el := range x.Elts {
					asRegion(ut.Elem(), el, x, "element of a slice of regions")
				}
			case *types.Array:
				for _, el := range x.Elts {
					asRegion(ut.Elem(), el, x, "element of an array of regions")
				}
			case *types.Map:
				for _, el := range x.Elts {
					if kv, ok := el.(*ast.KeyValueExpr); ok {
						asRegion(ut.Elem(), kv.Value, x, "value of a map of regions")
					}
				}
			}
		}
		return true
	})
	return out
}

// source classifies an expression: normalised (true), or not with the reason.
func (nu *c2Norm) source(p *packages.Package, e ast.Expr, depth int) (bool, string) {
	info := p.TypesInfo
	e = ast.Unparen(e)
	if tv, ok := info.Types[e]; ok && tv.IsNil() {
		return true, "nil"
	}
	switch x := e.(type) {
	case *ast.CompositeLit:
		if len(x.Elts) <= 1 {
			return true, fmt.Sprintf("literal with %d cells", len(x.Elts))
		}
		return false, fmt.Sprintf("a literal with %d cells is not known to be sorted and disjoint", len(x.Elts))
	case *ast.CallExpr:
		if tv, ok := info.Types[x.Fun]; ok && tv.IsType() {
			if len(x.Args) == 1 {
				if ok, _ := nu.source(p, x.Args[0], depth); ok && c2IsUnion(info.TypeOf(x.Args[0])) || func() bool { tv, ok := info.Types[x.Args[0]]; return ok && tv.IsNil() }() {
					return true, "conversion of a normalised union"
				}
			}
			return false, "conversion of a plain cell-id slice"
		}
		if isBuiltin(info, x, "append") {
			return false, "append can break the order"
		}
		if isBuiltin(info, x, "make") {
			if len(x.Args) >= 2 {
				if v, ok := cConstI64(info, x.Args[1]); ok && v == 0 {
					return true, "empty make"
				}
			}
			return false, "make with a non-zero length holds unset cell ids"
		}
		f := calleeFunc(info, x)
		if f == nil {
			return false, "result of a dynamic call"
		}
		if f.Pkg() != nil && f.Pkg().Path() == c2S2Path {
			fs, _ := f.Type().(*types.Signature)
			if fs != nil && fs.Recv() == nil && c2NormalisedFuncs[f.Name()] {
				return true, "s2." + f.Name()
			}
			if fs != nil && fs.Recv() != nil && c2IsS2(fs.Recv().Type(), "RegionCoverer") && c2CovererMethods[f.Name()] {
				return true, "RegionCoverer." + f.Name()
			}
			return false, "s2." + f.Name() + " is not known to return a normalised union"
		}
		// a module function all of whose returns are normalised
		fd, fp := nu.c.Decl(f)
		if fd == nil || fd.Body == nil || depth <= 0 {
			return false, "result of " + f.FullName()
		}
		fs := f.Type().(*types.Signature)
		idx := -1
		for i := 0; i < fs.Results().Len(); i++ {
			if c2IsUnion(fs.Results().At(i).Type()) {
				idx = i
			}
		}
		if idx < 0 {
			return false, "result of " + f.FullName()
		}
		unit := funcUnit{fp, fd, nil, fd.Body, nu.c.FuncName(fp, fd)}
		all, n := true, 0
		why := ""
		inspectShallow(fd.Body, func(nd ast.Node) bool {
			rs, ok := nd.(*ast.ReturnStmt)
			if !ok || !all {
				return true
			}
			n++
			if len(rs.Results) != fs.Results().Len() {
				all, why = false, "bare or tuple return in "+unit.name
				return true
			}
			st, d, _ := nu.at(fp, unit, c2Use{value: ast.Unparen(rs.Results[idx]), node: rs}, depth-1)
			if st != OK {
				all, why = false, fmt.Sprintf("%s returns %s: %s", unit.name, types.ExprString(rs.Results[idx]), d)
			}
			return true
		})
		if all && n > 0 {
			return true, "every return of " + unit.name + " is normalised"
		}
		return false, why
	}
	return false, types.ExprString(e) + " is not a known normalised source"
}

type c2Event struct {
	node  ast.Node
	clean bool
	text  string
}

// events lists the statements of the unit that change the state of variable v.
func (nu *c2Norm) events(p *packages.Package, u funcUnit, v *types.Var, use c2Use, depth int) (evs []c2Event, escaped string) {
	info := p.TypesInfo
	isV := func(e ast.Expr) bool {
		id, ok := ast.Unparen(e).(*ast.Ident)
		return ok && info.ObjectOf(id) == types.Object(v)
	}
	ast.Inspect(u.body, func(n ast.Node) bool {
		if fl, ok := n.(*ast.FuncLit); ok && ast.Node(fl.Body) != ast.Node(u.body) {
			// a nested literal that stores to v makes its state unknowable here
			ast.Inspect(fl.Body, func(m ast.Node) bool {
				if as, ok := m.(*ast.AssignStmt); ok {
					for _, l := range as.Lhs {
						l = ast.Unparen(l)
						if ix, ok := l.(*ast.IndexExpr); ok {
							l = ix.X
						}
						if isV(l) {
							escaped = "a function literal stores to " + v.Name() + " at " + nu.c.Position(as.Pos())
						}
					}
				}
				return true
			})
			return false
		}
		switch s := n.(type) {
		case *ast.AssignStmt:
			for i, l := range s.Lhs {
				l = ast.Unparen(l)
				if ix, ok := l.(*ast.IndexExpr); ok && isV(ix.X) {
					evs = append(evs, c2Event{s, false, "element store " + nodeText(nu.c.Fset, s)})
					continue
				}
				if !isV(l) {
					continue
				}
				if len(s.Lhs) == len(s.Rhs) && (s.Tok == token.ASSIGN || s.Tok == token.DEFINE) {
					ok, why := nu.source(p, s.Rhs[i], depth)
					evs = append(evs, c2Event{s, ok, nodeText(nu.c.Fset, s) + " (" + why + ")"})
				} else {
					evs = append(evs, c2Event{s, false, nodeText(nu.c.Fset, s)})
				}
			}
		case *ast.ValueSpec:
			for i, nm := range s.Names {
				if info.ObjectOf(nm) != types.Object(v) {
					continue
				}
				if i < len(s.Values) && len(s.Values) == len(s.Names) {
					ok, why := nu.source(p, s.Values[i], depth)
					evs = append(evs, c2Event{s, ok, "var " + nm.Name + " = " + types.ExprString(s.Values[i]) + " (" + why + ")"})
				} else if len(s.Values) == 0 {
					evs = append(evs, c2Event{s, true, "var " + nm.Name + " (empty)"})
				} else {
					evs = append(evs, c2Event{s, false, "var " + nm.Name + " from a tuple"})
				}
			}
		case *ast.RangeStmt:
			if (s.Key != nil && isV(s.Key)) || (s.Value != nil && isV(s.Value)) {
				evs = append(evs, c2Event{s, false, "range variable"})
			}
		case *ast.CallExpr:
			if sel, ok := ast.Unparen(s.Fun).(*ast.SelectorExpr); ok && isV(c2StripAddr(sel.X)) {
				if f := calleeFunc(info, s); f != nil {
					if fs, ok := f.Type().(*types.Signature); ok && fs.Recv() != nil && c2IsUnion(fs.Recv().Type()) {
						switch {
						case f.Name() == "Normalize":
							evs = append(evs, c2Event{s, true, types.ExprString(s)})
						case f.Name() == "Decode":
							evs = append(evs, c2Event{s, false, types.ExprString(s)})
						}
					}
				}
				return true
			}
			if ast.Node(s) == use.node {
				return true
			}
			for _, a := range s.Args {
				if ue, ok := ast.Unparen(a).(*ast.UnaryExpr); ok && ue.Op == token.AND && isV(ue.X) && !c2IsRegionIface(nu.paramType(info, s, a)) {
					evs = append(evs, c2Event{s, false, "&" + v.Name() + " passed to " + types.ExprString(s.Fun)})
				}
			}
		}
		return true
	})
	return evs, escaped
}

func (nu *c2Norm) paramType(info *types.Info, call *ast.CallExpr, arg ast.Expr) types.Type {
	ft := info.TypeOf(call.Fun)
	if ft == nil {
		return nil
	}
	fs, ok := ft.Underlying().(*types.Signature)
	if !ok {
		return nil
	}
	for i, a := range call.Args {
		if a == arg && i < fs.Params().Len() {
			return fs.Params().At(i).Type()
		}
	}
	return nil
}

// at decides one use: status, detail, witness path.
func (nu *c2Norm) at(p *packages.Package, u funcUnit, use c2Use, depth int) (string, string, []string) {
	info := p.TypesInfo
	v := c2LocalVar(info, p, use.value)
	if v == nil {
		if _, isID := ast.Unparen(use.value).(*ast.Ident); !isID {
			if _, isSel := ast.Unparen(use.value).(*ast.SelectorExpr); !isSel {
				ok, why := nu.source(p, use.value, depth)
				if ok {
					return OK, "normalised source: " + why, nil
				}
				return Violation, "not normalised: " + why, nil
			}
		}
		return Undecided, fmt.Sprintf("%s is a field or package-level variable: the rule does not follow its value across functions", types.ExprString(use.value)), nil
	}
	evs, escaped := nu.events(p, u, v, use, depth)
	if escaped != "" {
		return Undecided, escaped, nil
	}
	g := newCFG(info, u.body)
	if len(g.Blocks) == 0 {
		return Undecided, "empty control-flow graph", nil
	}
	isEvent := func(n ast.Node, except ast.Node) *c2Event {
		for i := range evs {
			e := &evs[i]
			if e.node != except && n.Pos() <= e.node.Pos() && e.node.End() <= n.End() {
				return e
			}
		}
		return nil
	}
	isUse := func(n ast.Node) bool { return n.Pos() <= use.node.Pos() && use.node.End() <= n.End() }
	// the variable's state at function entry
	declaredHere := v.Pos() >= u.body.Pos() && v.Pos() < u.body.End()
	var cleanTexts []string
	for _, e := range evs {
		if e.clean {
			cleanTexts = append(cleanTexts, e.text)
		}
	}
	if !declaredHere {
		ps := &pathSearch{c: nu.c, info: info, stop: func(n ast.Node) bool { return isEvent(n, nil) != nil }, bad: func(n ast.Node) bool { return isUse(n) && isEvent(n, nil) == nil }}
		if w := ps.run(nodeLoc{g.Blocks[0], -1}); w != nil {
			if st, d, ok := nu.atCallers(p, u, v, depth); ok {
				if st != OK {
					return st, d, w
				}
				// normalised by every caller: only the stores made here remain to be checked
				cleanTexts = append(cleanTexts, d)
				goto stores
			}
			return Undecided, fmt.Sprintf("%s is a parameter or captured variable and reaches the use without being normalised in this function: normalisation is left to the callers", v.Name()), w
		}
	}
stores:
	for i := range evs {
		d := &evs[i]
		if d.clean {
			continue
		}
		loc, ok := findNode(g, d.node)
		if !ok {
			return Undecided, "store not found in the control-flow graph: " + d.text, nil
		}
		ps := &pathSearch{c: nu.c, info: info,
			stop: func(n ast.Node) bool { return isEvent(n, d.node) != nil },
			bad:  func(n ast.Node) bool { return isUse(n) },
		}
		if w := ps.run(loc); w != nil {
			return Violation, fmt.Sprintf("%s can reach the use unnormalised: after `%s` (%s) a path leads to the use without %s.Normalize() or an assignment from a normalised source", v.Name(), d.text, nu.c.Position(d.node.Pos()), v.Name()), append([]string{"from " + nu.c.Position(d.node.Pos()) + " " + d.text}, w...)
		}
	}
	if len(cleanTexts) == 0 {
		return OK, v.Name() + " is never stored to in a way that could denormalise it", nil
	}
	return OK, fmt.Sprintf("every store to %s is followed by %s on all paths to the use", v.Name(), strings.Join(cleanTexts, " / ")), nil
}

// atCallers: v is a parameter of the declared function u; the union is normalised when every
// static call site in the module passes a normalised union.
func (nu *c2Norm) atCallers(p *packages.Package, u funcUnit, v *types.Var, depth int) (string, string, bool) {
	if u.lit != nil || depth <= 0 {
		return "", "", false
	}
	fn := cFuncObj(p, u.decl)
	idx := cParamIndex(fn, v)
	if fn == nil || idx < 0 {
		return "", "", false
	}
	sites := cCallSites(nu.c, fn)
	if len(sites) == 0 {
		return "", "", false
	}
	for _, cs := range sites {
		if idx >= len(cs.call.Args) {
			return "", "", false
		}
		cu := funcUnit{cs.pkg, cs.decl, nil, cs.decl.Body, cs.fn}
		st, d, _ := nu.at(cs.pkg, cu, c2Use{value: c2StripAddr(cs.call.Args[idx]), node: cs.call}, depth-1)
		if st != OK {
			return st, fmt.Sprintf("parameter %s of %s: the call at %s passes %s: %s", v.Name(), u.name, nu.c.Position(cs.call.Pos()), types.ExprString(cs.call.Args[idx]), d), true
		}
	}
	return OK, fmt.Sprintf("parameter %s is normalised at all %d call sites", v.Name(), len(sites)), true
}

func runNormalizedUnion(c *Ctx) []Obligation {
	nu := &c2Norm{c: c}
	keys := c2NewKeys()
	var out []Obligation
	for _, p := range c.SortedPkgs() {
		rel := relPkg(p)
		for _, u := range c.units(p, true) {
			file := c.Fset.PositionFor(u.body.Pos(), false).Filename
			for _, f := range p.Syntax {
				if f.Pos() <= u.body.Pos() && u.body.Pos() < f.End() && c.IsGenerated(f) {
					file = ""
				}
			}
			if file == "" {
				continue
			}
			for _, use := range nu.uses(p, u) {
				status, detail, path := nu.at(p, u, use, 3)
				deciding := rel == "search" || (rel == "b6" && c.c2InFile(u.body.Pos(), "/spatial.go"))
				head := fmt.Sprintf("union %s %s: ", types.ExprString(use.value), use.what)
				ob := Obligation{Key: keys.next(u.name), Pos: c.Position(use.node.Pos()), Status: status, Detail: head + detail, Path: path}
				if !deciding {
					ob.Status = Info
					ob.Detail = fmt.Sprintf("outside spatial.go/search (verdict %s): %s", status, ob.Detail)
				}
				out = append(out, ob)
			}
		}
	}
	return out
}
