package main

import (
	"fmt"
	"go/ast"
	"go/token"
	"go/types"
	"sort"
	"strings"

	"golang.org/x/tools/go/ssa"
)

// MARSHAL-FIELDS (C09, C01). Subjects: the named struct types of packages encoding and
// ingest/compact that have a method whose name starts with Marshal (the codec anchor of the
// property). For each subject T the rule computes the fields its Marshal* methods read
// without a preceding zero test of that field (SSA of the method: loads of recv.F not dominated
// by a branch on recv.F ==/!= 0/nil; methods of T that Marshal calls on the receiver are
// followed one level; a receiver handed to another function or converted to an interface —
// encoding.MarshalStruct(b, buffer) — reads every field).
//
// Instances: every composite literal of a subject type, anywhere in the module, whose value is
// subsequently marshalled in the same function: `x := T{…}` / `x := &T{…}` / `var x = T{…}`
// followed by `x.Marshal*(…)`, or `T{…}.Marshal*(…)` / `(&T{…}).Marshal*(…)` directly.
// Obligation: the literal is unkeyed (sets everything), or names every field that Marshal
// reads, or the missing field is assigned on the local (`x.F = …`) between the literal and the
// Marshal call. The reserve-side and the write-side literals of the two-pass builders
// (Uint64MapBuilder.Reserve / WriteItem) are such siblings: both must name ID, Tag and Length,
// because the size computed from one must equal the bytes written from the other.
//
// Accepted idioms / outside the slot: literals that are Unmarshal targets or accumulators
// (`T{}` then Unmarshal, `last := LatLng{…}` used for deltas) are not marshalled and are not
// instances; a field whose every read in Marshal is behind a zero test of it is optional;
// values that reach Marshal through a struct field, a slice element or another function are not
// followed.
func init() {
	register(&Rule{
		Name:  "MARSHAL-FIELDS",
		IR:    "ssa",
		Props: []string{"C09", "C01"},
		Floor: 6, // uint64MapBucketHeader in Reserve and WriteItem, BlockHeader in FeatureBlockBuilder.WriteHeader and writeIndex, Reference twice in emitPoints
		Doc: "for struct types of encoding and ingest/compact with a Marshal* method: every keyed composite literal whose value is marshalled in the same function names (or the function assigns " +
			"before the call) every field that the Marshal method reads without a preceding zero test, so sibling literals (reserve side / write side) encode the same fields",
		Run: runMarshalFields,
	})
}

type dMFType struct {
	named *types.Named
	st    *types.Struct
	reads map[int]string // field index -> where Marshal reads it
	all   string         // non-empty: the receiver escapes at this position, every field is read
}

func dMFMarshalMethod(f *types.Func) bool { return strings.HasPrefix(f.Name(), "Marshal") }

func dMFSubjects(c *Ctx) []*dMFType {
	var out []*dMFType
	for _, rel := range []string{"encoding", "ingest/compact"} {
		p := c.Pkg(rel)
		if p == nil {
			continue
		}
		sc := p.Types.Scope()
		for _, name := range sc.Names() {
			tn, ok := sc.Lookup(name).(*types.TypeName)
			if !ok || tn.IsAlias() {
				continue
			}
			nt, ok := tn.Type().(*types.Named)
			if !ok || nt.TypeParams().Len() > 0 {
				continue
			}
			st, ok := nt.Underlying().(*types.Struct)
			if !ok {
				continue
			}
			t := &dMFType{named: nt, st: st, reads: map[int]string{}}
			has := false
			for i := 0; i < nt.NumMethods(); i++ {
				m := nt.Method(i)
				if !dMFMarshalMethod(m) {
					continue
				}
				has = true
				fn := c.SSAFunc(m)
				if fn == nil || len(fn.Blocks) == 0 || len(fn.Params) == 0 {
					continue
				}
				dMFCollect(c, t, fn, 1)
			}
			if has {
				out = append(out, t)
			}
		}
	}
	return out
}

// dMFCollect adds the unguarded field reads of method fn (receiver = first parameter) to t and
// follows methods of the same type called on the receiver.
func dMFCollect(c *Ctx, t *dMFType, fn *ssa.Function, depth int) {
	for idx, where := range dLFUnguardedReads(c, fn) {
		if _, ok := t.reads[idx]; !ok {
			t.reads[idx] = where
		}
	}
	recv := fn.Params[0]
	if recv.Referrers() == nil {
		return
	}
	for _, r := range *recv.Referrers() {
		switch x := r.(type) {
		case ssa.CallInstruction:
			com := x.Common()
			callee := com.StaticCallee()
			if callee != nil && !com.IsInvoke() && len(com.Args) > 0 && com.Args[0] == ssa.Value(recv) && callee.Signature.Recv() != nil &&
				namedOf(callee.Signature.Recv().Type()) == t.named {
				onlyRecv := true
				for _, a := range com.Args[1:] {
					if a == ssa.Value(recv) {
						onlyRecv = false
					}
				}
				if onlyRecv {
					if depth > 0 && len(callee.Blocks) > 0 && len(callee.Params) > 0 {
						dMFCollect(c, t, callee, depth-1)
					}
					continue
				}
			}
			if t.all == "" {
				t.all = c.Position(dInstrPos(x))
			}
		case *ssa.MakeInterface, *ssa.ChangeInterface:
			if t.all == "" {
				t.all = c.Position(dInstrPos(r))
			}
		case *ssa.Store:
			if x.Val == ssa.Value(recv) {
				if _, isAlloc := x.Addr.(*ssa.Alloc); !isAlloc && t.all == "" {
					t.all = c.Position(dInstrPos(x))
				}
			}
		}
	}
}

func (t *dMFType) readAt(i int) string {
	if w := t.reads[i]; w != "" {
		return w
	}
	return t.all
}

func runMarshalFields(c *Ctx) []Obligation {
	c.BuildSSA()
	subjects := dMFSubjects(c)
	subjectOf := func(tt types.Type) *dMFType {
		if p, ok := tt.(*types.Pointer); ok {
			tt = p.Elem()
		}
		for _, t := range subjects {
			if tt != nil && types.Identical(types.Unalias(tt), t.named) {
				return t
			}
		}
		return nil
	}
	counts := map[*dMFType]int{}
	var sites []dSite
	for _, p := range c.SortedPkgs() {
		info := p.TypesInfo
		for _, fd := range c.FuncDecls(p) {
			declName := c.FuncName(p, fd)
			// literals bound to a local
			type bound struct {
				lit *ast.CompositeLit
				obj types.Object
				t   *dMFType
			}
			var bounds []bound
			direct := map[*ast.CompositeLit]*ast.CallExpr{}
			litOf := func(e ast.Expr) *ast.CompositeLit {
				e = ast.Unparen(e)
				if u, ok := e.(*ast.UnaryExpr); ok && u.Op == token.AND {
					e = ast.Unparen(u.X)
				}
				l, _ := e.(*ast.CompositeLit)
				return l
			}
			bind := func(lhs ast.Expr, rhs ast.Expr) {
				id, ok := lhs.(*ast.Ident)
				if !ok || id.Name == "_" {
					return
				}
				lit := litOf(rhs)
				if lit == nil {
					return
				}
				t := subjectOf(info.TypeOf(lit))
				obj := info.ObjectOf(id)
				if t != nil && obj != nil {
					bounds = append(bounds, bound{lit, obj, t})
				}
			}
			marshalCall := func(call *ast.CallExpr) (recv ast.Expr, t *dMFType) {
				sel, ok := ast.Unparen(call.Fun).(*ast.SelectorExpr)
				if !ok {
					return nil, nil
				}
				s := info.Selections[sel]
				if s == nil || s.Kind() != types.MethodVal {
					return nil, nil
				}
				m, ok := s.Obj().(*types.Func)
				if !ok || !dMFMarshalMethod(m) || len(s.Index()) != 1 {
					return nil, nil
				}
				t = subjectOf(s.Recv())
				if t == nil {
					return nil, nil
				}
				return sel.X, t
			}
			var calls []*ast.CallExpr
			ast.Inspect(fd.Body, func(n ast.Node) bool {
				switch x := n.(type) {
				case *ast.AssignStmt:
					if len(x.Lhs) == len(x.Rhs) {
						for i := range x.Lhs {
							bind(x.Lhs[i], x.Rhs[i])
						}
					}
				case *ast.ValueSpec:
					if len(x.Names) == len(x.Values) {
						for i := range x.Names {
							bind(x.Names[i], x.Values[i])
						}
					}
				case *ast.CallExpr:
					if recv, t := marshalCall(x); t != nil {
						calls = append(calls, x)
						if lit := litOf(recv); lit != nil {
							direct[lit] = x
						}
					}
				}
				return true
			})
			seq := 0
			check := func(t *dMFType, lit *ast.CompositeLit, call *ast.CallExpr, obj types.Object) {
				seq++
				counts[t]++
				s := dSite{decl: declName, pos: lit.Pos(), seq: seq, status: OK}
				tname := dMFRelPkg(t.named) + "." + t.named.Obj().Name()
				keyed := len(lit.Elts) == 0
				set := map[string]bool{}
				for _, e := range lit.Elts {
					if kv, ok := e.(*ast.KeyValueExpr); ok {
						keyed = true
						if id, ok := kv.Key.(*ast.Ident); ok {
							set[id.Name] = true
						}
					}
				}
				if !keyed {
					s.detail = fmt.Sprintf("unkeyed literal of %s (sets every field) is marshalled at %s", tname, c.Position(call.Pos()))
					sites = append(sites, s)
					return
				}
				// fields assigned on the local between the literal and the call
				if obj != nil {
					ast.Inspect(fd.Body, func(n ast.Node) bool {
						as, ok := n.(*ast.AssignStmt)
						if !ok || as.Pos() < lit.End() || as.Pos() > call.Pos() {
							return true
						}
						for _, l := range as.Lhs {
							e := ast.Unparen(l)
							for {
								switch y := e.(type) {
								case *ast.IndexExpr:
									e = ast.Unparen(y.X)
									continue
								case *ast.StarExpr:
									e = ast.Unparen(y.X)
									continue
								}
								break
							}
							for {
								sel, ok := e.(*ast.SelectorExpr)
								if !ok {
									break
								}
								if id, ok := ast.Unparen(sel.X).(*ast.Ident); ok && info.ObjectOf(id) == obj {
									set[sel.Sel.Name] = true
								}
								e = ast.Unparen(sel.X)
							}
						}
						return true
					})
				}
				var missing, have []string
				for i := 0; i < t.st.NumFields(); i++ {
					name := t.st.Field(i).Name()
					if set[name] {
						have = append(have, name)
					}
					if w := t.readAt(i); w != "" && !set[name] {
						missing = append(missing, fmt.Sprintf("%s (read by Marshal at %s)", name, w))
					}
				}
				if len(missing) > 0 {
					s.status = Violation
					s.detail = fmt.Sprintf("literal of %s sets {%s} and is marshalled at %s, but does not set %s: the encoding (and its length) is computed from a zero value that sibling literals fill in",
						tname, strings.Join(have, ", "), c.Position(call.Pos()), strings.Join(missing, ", "))
				} else {
					s.detail = fmt.Sprintf("literal of %s sets {%s}, every field its Marshal reads; marshalled at %s", tname, strings.Join(have, ", "), c.Position(call.Pos()))
				}
				sites = append(sites, s)
			}
			var dl []*ast.CompositeLit
			for lit := range direct {
				dl = append(dl, lit)
			}
			sort.Slice(dl, func(i, j int) bool { return dl[i].Pos() < dl[j].Pos() })
			for _, lit := range dl {
				check(subjectOf(info.TypeOf(lit)), lit, direct[lit], nil)
			}
			for _, b := range bounds {
				// the first Marshal call on the local after the literal
				var first *ast.CallExpr
				for _, call := range calls {
					recv, t := marshalCall(call)
					if t != b.t || call.Pos() < b.lit.End() {
						continue
					}
					e := ast.Unparen(recv)
					if u, ok := e.(*ast.UnaryExpr); ok && u.Op == token.AND {
						e = ast.Unparen(u.X)
					}
					if st, ok := e.(*ast.StarExpr); ok {
						e = ast.Unparen(st.X)
					}
					if id, ok := e.(*ast.Ident); ok && info.ObjectOf(id) == b.obj {
						if first == nil || call.Pos() < first.Pos() {
							first = call
						}
					}
				}
				if first != nil {
					check(b.t, b.lit, first, b.obj)
				}
			}
		}
	}
	out := dObligations(c, sites)
	for _, t := range subjects {
		var rs []string
		for i := 0; i < t.st.NumFields(); i++ {
			if t.readAt(i) != "" {
				rs = append(rs, t.st.Field(i).Name())
			}
		}
		how := ""
		if t.all != "" {
			how = " (the receiver is handed on at " + t.all + ": every field)"
		}
		out = append(out, Obligation{Key: dMFRelPkg(t.named) + "." + t.named.Obj().Name(), Status: Info, Pos: c.Position(t.named.Obj().Pos()),
			Detail: fmt.Sprintf("%d marshalled literal(s); Marshal reads {%s}%s", counts[t], strings.Join(rs, ", "), how)})
	}
	return out
}

func dMFRelPkg(n *types.Named) string {
	return strings.TrimPrefix(strings.TrimPrefix(n.Obj().Pkg().Path(), ModulePath+"/"), ModulePath)
}
