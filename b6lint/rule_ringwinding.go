package main

import (
	"fmt"
	"go/ast"
	"go/types"
	"strings"
)

// RING-WINDING (C33, C19, C32): the writers of polygon rings (vector tiles, the protobuf codec,
// GeoJSON) emit a hole's vertices in the opposite order to a shell's. In an s2 polygon a loop is a
// hole when its nesting depth is odd — (*s2.Loop).IsHole — not when it has a parent and not when it
// is not the first loop: an island in a lake is a shell at depth 2. A test by parent or by position
// agrees with IsHole for a shell with holes and emits the island wound like a hole.
//
// Subjects, by type and shape (whole module): functions with an operand of type *s2.Polygon whose
// body iterates the polygon's loops (range over Loops(), or Loop(i) with a loop index) and, inside
// that iteration, has an if statement whose condition depends on the loop, its index or the
// polygon, and whose branches write or index vertices (the decision how to wind the ring).
// Obligation: that condition is `L.IsHole()` or `!L.IsHole()` for the iteration's loop L.
func init() {
	register(&Rule{
		Name:    "RING-WINDING",
		IR:      "ast",
		Props:   []string{"C33", "C19", "C32"},
		Floor:   3,
		FloorBy: map[string]int{"C33": 1, "C19": 1, "C32": 1},
		Doc:     "where a writer of polygon rings decides per loop how to wind it, the decision is (*s2.Loop).IsHole of that loop (nesting depth parity), not the presence of a parent or the loop's position: an island inside a hole is a shell",
		Run:     runRingWinding,
	})
}

func runRingWinding(c *Ctx) []Obligation {
	var out []Obligation
	isS2 := func(t types.Type, name string) bool {
		if t == nil {
			return false
		}
		if pt, ok := t.(*types.Pointer); ok {
			t = pt.Elem()
		}
		n, ok := t.(*types.Named)
		return ok && n.Obj().Name() == name && n.Obj().Pkg() != nil && strings.HasSuffix(n.Obj().Pkg().Path(), "github.com/golang/geo/s2")
	}
	for _, p := range c.SortedPkgs() {
		info := p.TypesInfo
		var props []string
		switch {
		case p == c.Pkg(""):
			props = []string{"C19"}
		case relPkg(p) == "renderer":
			props = []string{"C33"}
		case relPkg(p) == "geojson":
			props = []string{"C32"}
		}
		for _, fd := range c.FuncDecls(p) {
			obj, _ := info.Defs[fd.Name].(*types.Func)
			if obj == nil || fd.Body == nil {
				continue
			}
			sig := obj.Type().(*types.Signature)
			var polys []types.Object
			for i := 0; i < sig.Params().Len(); i++ {
				if isS2(sig.Params().At(i).Type(), "Polygon") {
					polys = append(polys, sig.Params().At(i))
				}
			}
			if len(polys) == 0 {
				continue
			}
			name := c.FuncName(p, fd)
			ord := 0
			mentions := func(e ast.Node, objs map[types.Object]bool) bool {
				found := false
				ast.Inspect(e, func(n ast.Node) bool {
					if id, ok := n.(*ast.Ident); ok && objs[info.Uses[id]] {
						found = true
					}
					return true
				})
				return found
			}
			ast.Inspect(fd.Body, func(n ast.Node) bool {
				var body *ast.BlockStmt
				deps := map[types.Object]bool{}
				var loopVar types.Object // the *s2.Loop of the iteration, if a variable holds it
				switch x := n.(type) {
				case *ast.RangeStmt:
					// range P.Loops()
					call, ok := ast.Unparen(x.X).(*ast.CallExpr)
					if !ok {
						return true
					}
					f := calleeFunc(info, call)
					if f == nil || f.Name() != "Loops" || !isS2(info.TypeOf(call), "Loop") && !strings.Contains(types.TypeString(info.TypeOf(call), nil), "s2.Loop") {
						return true
					}
					body = x.Body
					for _, e := range []ast.Expr{x.Key, x.Value} {
						if id, ok := e.(*ast.Ident); ok && info.Defs[id] != nil {
							deps[info.Defs[id]] = true
							if isS2(info.Defs[id].Type(), "Loop") {
								loopVar = info.Defs[id]
							}
						}
					}
				case *ast.ForStmt:
					// for i := 0; i < P.NumLoops(); i++
					if x.Cond == nil || x.Init == nil {
						return true
					}
					isLoops := false
					ast.Inspect(x.Cond, func(m ast.Node) bool {
						if call, ok := m.(*ast.CallExpr); ok {
							if f := calleeFunc(info, call); f != nil && f.Name() == "NumLoops" {
								isLoops = true
							}
						}
						return true
					})
					if !isLoops {
						return true
					}
					body = x.Body
					if as, ok := x.Init.(*ast.AssignStmt); ok {
						for _, l := range as.Lhs {
							if id, ok := l.(*ast.Ident); ok && info.Defs[id] != nil {
								deps[info.Defs[id]] = true
							}
						}
					}
				default:
					return true
				}
				for _, po := range polys {
					deps[po] = true
				}
				// locals of type *s2.Loop defined in the body from the polygon
				for _, st := range body.List {
					if as, ok := st.(*ast.AssignStmt); ok && len(as.Lhs) == 1 {
						if id, ok := as.Lhs[0].(*ast.Ident); ok && info.Defs[id] != nil && isS2(info.Defs[id].Type(), "Loop") {
							deps[info.Defs[id]] = true
							loopVar = info.Defs[id]
						}
					}
				}
				ast.Inspect(body, func(m ast.Node) bool {
					ifs, ok := m.(*ast.IfStmt)
					if !ok {
						return true
					}
					condDeps := deps
					if ifs.Init != nil && mentions(ifs.Init, deps) {
						// variables the init statement derives from the loop, its index or the polygon
						condDeps = map[types.Object]bool{}
						for o := range deps {
							condDeps[o] = true
						}
						if as, ok := ifs.Init.(*ast.AssignStmt); ok {
							for _, l := range as.Lhs {
								if id, ok := l.(*ast.Ident); ok && info.Defs[id] != nil {
									condDeps[info.Defs[id]] = true
								}
							}
						}
					}
					if !mentions(ifs.Cond, condDeps) {
						return true
					}
					// the branches index or write vertices: an index expression or a loop in them
					touches := false
					ast.Inspect(ifs, func(k ast.Node) bool {
						switch k.(type) {
						case *ast.IndexExpr, *ast.ForStmt, *ast.RangeStmt:
							touches = true
						}
						return true
					})
					if !touches || (ifs.Else == nil && false) {
						return true
					}
					// a length guard (len(points) > 1) is not a winding decision
					if ifs.Init == nil && !mentions(ifs.Cond, map[types.Object]bool{loopVar: loopVar != nil}) && !mentions(ifs.Cond, polysSet(polys)) {
						onlyIndex := true
						ast.Inspect(ifs.Cond, func(k ast.Node) bool {
							if call, ok := k.(*ast.CallExpr); ok && !isBuiltin(info, call, "len") {
								onlyIndex = false
							}
							return true
						})
						if onlyIndex && ifs.Else == nil {
							return true
						}
					}
					ord++
					ob := Obligation{Key: fmt.Sprintf("%s#%d", name, ord), Props: props, Pos: c.Position(ifs.Pos()), Status: OK}
					cond := ast.Unparen(ifs.Cond)
					if u, ok := cond.(*ast.UnaryExpr); ok && u.Op.String() == "!" {
						cond = ast.Unparen(u.X)
					}
					good := false
					if call, ok := cond.(*ast.CallExpr); ok && len(call.Args) == 0 {
						if f := calleeFunc(info, call); f != nil && f.Name() == "IsHole" && f.Pkg() != nil && strings.HasSuffix(f.Pkg().Path(), "github.com/golang/geo/s2") {
							good = true
						}
					}
					if good {
						ob.Detail = fmt.Sprintf("the ring's winding is decided by %s", srcText(c.Fset, ifs.Cond))
					} else {
						ob.Status = Violation
						what := srcText(c.Fset, ifs.Cond)
						if ifs.Init != nil {
							what = srcText(c.Fset, ifs.Init) + "; " + what
						}
						ob.Detail = fmt.Sprintf("the ring's winding is decided by %s, not by IsHole() of the loop: a loop is a hole when its nesting depth is odd; a test by parent or position winds an island inside a hole (a shell at depth 2) like a hole", what)
					}
					if props == nil {
						if ob.Status == Violation {
							ob.Detail = "verdict violation (outside the anchored packages): " + ob.Detail
						}
						ob.Status = Info
						ob.Props = []string{"C33"}
					}
					out = append(out, ob)
					return false
				})
				return false
			})
		}
	}
	return out
}

func polysSet(ps []types.Object) map[types.Object]bool {
	m := map[types.Object]bool{}
	for _, p := range ps {
		m[p] = true
	}
	return m
}
