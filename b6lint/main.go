package main

import (
	"encoding/json"
	"flag"
	"fmt"
	"os"
	"path/filepath"
	"runtime/debug"
	"sort"
	"strconv"
	"strings"
	"syscall"
	"time"
)

// Results of one full analysis of one tree.
type Results struct {
	TreeKey     string       `json:"tree_key"`
	Files       int          `json:"files_hashed"`
	Root        string       `json:"root"`
	Packages    []string     `json:"packages"`
	Skipped     []string     `json:"skipped_packages"`
	Functions   int          `json:"functions_analysed"`
	Rules       []RuleInfo   `json:"rules"`
	Obligations []Obligation `json:"obligations"`
	Errors      []string     `json:"errors"` // load failures, rule panics: each fails every property it touches
	WallS       float64      `json:"wall_s"`
}

type RuleInfo struct {
	Name      string         `json:"name"`
	Doc       string         `json:"doc"`
	IR        string         `json:"ir"`
	Props     []string       `json:"props"`
	Floor     int            `json:"floor"`
	FloorBy   map[string]int `json:"floor_by,omitempty"`
	Instances int            `json:"instances"`
	Panic     string         `json:"panic,omitempty"`
	WallS     float64        `json:"wall_s"`
}

func runAll(root string, only map[string]bool) *Results {
	start := time.Now()
	res := &Results{Root: root}
	key, n, err := TreeKey(root)
	if err != nil {
		res.Errors = append(res.Errors, "tree key: "+err.Error())
	}
	res.TreeKey, res.Files = key, n
	c, err := Load(root)
	if err != nil {
		res.Errors = append(res.Errors, err.Error())
		res.WallS = time.Since(start).Seconds()
		return res
	}
	for _, p := range c.SortedPkgs() {
		res.Packages = append(res.Packages, p.PkgPath)
	}
	res.Skipped = c.Skipped
	res.Functions = c.NFuncs
	for _, r := range rules {
		if only != nil && !only[r.Name] {
			continue
		}
		ri := RuleInfo{Name: r.Name, Doc: r.Doc, IR: r.IR, Props: r.Props, Floor: r.Floor, FloorBy: r.FloorBy}
		t0 := time.Now()
		var obs []Obligation
		func() {
			defer func() {
				if e := recover(); e != nil {
					ri.Panic = fmt.Sprintf("%v\n%s", e, debug.Stack())
				}
			}()
			obs = r.Run(c)
		}()
		for i := range obs {
			obs[i].Rule = r.Name
			if len(obs[i].Props) == 0 {
				obs[i].Props = r.Props
			}
			if r.Narrow != nil {
				r.Narrow(&obs[i])
			}
			if !strings.HasPrefix(obs[i].Key, r.Name+"/") {
				obs[i].Key = r.Name + "/" + obs[i].Key
			}
			if obs[i].Status != Info {
				ri.Instances++
			}
		}
		ri.WallS = time.Since(t0).Seconds()
		res.Obligations = append(res.Obligations, obs...)
		res.Rules = append(res.Rules, ri)
	}
	sort.SliceStable(res.Obligations, func(i, j int) bool { return res.Obligations[i].Key < res.Obligations[j].Key })
	res.WallS = time.Since(start).Seconds()
	return res
}

// cachedResults returns the analysis of the tree at root as it is now, reusing a stored result
// only when its key equals the key of the current working tree.
func cachedResults(verif, root string, fresh bool) (*Results, bool, error) {
	cache := filepath.Join(verif, ".cache")
	if err := os.MkdirAll(cache, 0o755); err != nil {
		return nil, false, err
	}
	lock, err := os.OpenFile(filepath.Join(cache, "lock"), os.O_CREATE|os.O_RDWR, 0o644)
	if err != nil {
		return nil, false, err
	}
	defer lock.Close()
	if err := syscall.Flock(int(lock.Fd()), syscall.LOCK_EX); err != nil {
		return nil, false, err
	}
	defer syscall.Flock(int(lock.Fd()), syscall.LOCK_UN)
	key, _, err := TreeKey(root)
	if err != nil {
		return nil, false, err
	}
	self := selfKey()
	file := filepath.Join(cache, "results-"+key[:24]+"-"+self+".json")
	if !fresh {
		if b, err := os.ReadFile(file); err == nil {
			var r Results
			if json.Unmarshal(b, &r) == nil && r.TreeKey == key && r.Root == root {
				return &r, true, nil
			}
		}
	}
	r := runAll(root, nil)
	// Keep the cache small: drop older results.
	if ents, err := os.ReadDir(cache); err == nil {
		for _, e := range ents {
			if strings.HasPrefix(e.Name(), "results-") {
				os.Remove(filepath.Join(cache, e.Name()))
			}
		}
	}
	b, _ := json.MarshalIndent(r, "", " ")
	if err := os.WriteFile(file, b, 0o644); err != nil {
		return r, false, err
	}
	return r, false, nil
}

// selfKey distinguishes results computed by different builds of the checker.
func selfKey() string {
	exe, err := os.Executable()
	if err != nil {
		return "x"
	}
	st, err := os.Stat(exe)
	if err != nil {
		return "x"
	}
	return strconv.FormatInt(st.Size(), 36) + strconv.FormatInt(st.ModTime().UnixNano(), 36)
}

func main() {
	if len(os.Args) < 2 {
		fmt.Fprintln(os.Stderr, "usage: b6lint run|check|rules|mutants ...")
		os.Exit(2)
	}
	switch os.Args[1] {
	case "run":
		fs := flag.NewFlagSet("run", flag.ExitOnError)
		root := fs.String("root", "/repo/src/diagonal.works/b6", "module directory")
		only := fs.String("rules", "", "comma separated rule names (default all)")
		brief := fs.Bool("brief", false, "print only failing obligations")
		jsonOut := fs.String("json", "", "write results to this file")
		fs.Parse(os.Args[2:])
		var sel map[string]bool
		if *only != "" {
			sel = map[string]bool{}
			for _, n := range strings.Split(*only, ",") {
				sel[n] = true
			}
		}
		r := runAll(*root, sel)
		for _, e := range r.Errors {
			fmt.Println("ERROR:", e)
		}
		for _, ri := range r.Rules {
			fmt.Printf("RULE %-18s instances=%d floor=%d %.2fs\n", ri.Name, ri.Instances, ri.Floor, ri.WallS)
			if ri.Panic != "" {
				fmt.Println("PANIC:", ri.Panic)
			}
		}
		for _, o := range r.Obligations {
			if *brief && (o.Status == OK || o.Status == Info) {
				continue
			}
			fmt.Printf("%-9s %s %s [%s] %s\n", o.Status, o.Key, o.Pos, strings.Join(o.Props, ","), o.Detail)
			for _, p := range o.Path {
				fmt.Println("            ", p)
			}
		}
		fmt.Printf("packages=%d functions=%d obligations=%d wall=%.1fs\n", len(r.Packages), r.Functions, len(r.Obligations), r.WallS)
		if *jsonOut != "" {
			b, _ := json.MarshalIndent(r, "", " ")
			os.WriteFile(*jsonOut, b, 0o644)
		}
	case "check":
		os.Exit(cmdCheck(os.Args[2:]))
	case "mutants":
		os.Exit(cmdMutants(os.Args[2:]))
	case "rules":
		for _, r := range rules {
			fmt.Printf("%-18s %-9s %v floor=%d\n", r.Name, r.IR, r.Props, r.Floor)
			if len(os.Args) > 2 && os.Args[2] == "-doc" {
				fmt.Printf("    %s\n", r.Doc)
			}
		}
	default:
		fmt.Fprintln(os.Stderr, "unknown command", os.Args[1])
		os.Exit(2)
	}
}
