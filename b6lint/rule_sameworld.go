package main

import (
	"fmt"
	"go/ast"
	"go/token"
	"go/types"

	"golang.org/x/tools/go/packages"
)

// SAME-WORLD (C40): a change computed by evaluating an expression against a world is applied to
// that very world.
//
// Instances (by type, typed AST + go/cfg): every declared function that (a) puts a local variable
// w into the World field of an api.Context — `api.Context{World: w, …}` or `ctx.World = w` — and
// (b) calls ingest.Change.Apply (interface method or an implementation) in its body or in a
// function literal of its body (`apply := func(c Change) … { … c.Apply(w) … }`). Today:
// grpc.(*service).Evaluate, api.(*Evaluator).EvaluateExpression, api/functions.withChange.
//
// Obligation, one per Apply call (key pkg.Func#N, N-th Apply of the declaration in source order):
// the world argument of the Apply is an identifier that denotes the same variable (the same
// types.Object, also when captured by a literal) as the one stored in Context.World, and that
// variable is not assigned again after the context was built (no assignment to it in a CFG node
// reachable from the node that builds the context, none inside a function literal). A second
// lookup (`s.worlds.FindOrCreateWorld(root)` evaluated again after the lock swap), another
// variable or a re-assigned variable is a violation: a DeleteWorld in the RUnlock→Lock window
// makes the second lookup return a fresh, empty world.
//
// Accepted idioms: the variable may be assigned on several branches before the context is built
// (`var world …; if root.IsValid() { world = … } else { world = … }`). Undecided: Context.World
// set from something that is not a plain local variable while the function applies a change;
// several contexts built from different variables; an Apply whose world argument is a parameter
// of a function literal.
func init() {
	register(&Rule{
		Name:  "SAME-WORLD",
		IR:    "cfg",
		Props: []string{"C40"},
		Floor: 3, // grpc.(*service).Evaluate#1, api.(*Evaluator).EvaluateExpression#1, api/functions.withChange#1
		Doc: "in every function that stores a local variable w in the World field of an api.Context and calls ingest.Change.Apply (also inside a local function literal), " +
			"the world argument of each Apply is that same variable w (same object), and w is not assigned again after the context was built; a second FindOrCreateWorld lookup is a violation",
		Run: runSameWorld,
	})
}

func runSameWorld(c *Ctx) []Obligation {
	t, err := iLoadTypes(c)
	if err != nil {
		return iAnchorFailure(err)
	}
	var out []Obligation
	for _, p := range c.SortedPkgs() {
		for _, fd := range c.FuncDecls(p) {
			out = append(out, iSameWorldFunc(c, t, p, fd)...)
		}
	}
	return out
}

type iCtxWorld struct {
	node ast.Node // the composite literal or the assignment
	val  ast.Expr
}

func iSameWorldFunc(c *Ctx, t *iTypes, p *packages.Package, fd *ast.FuncDecl) []Obligation {
	info := p.TypesInfo
	isContext := func(tv types.Type) bool { return tv != nil && isNamed(tv, ModulePath+"/api", "Context") }
	var ctxs []iCtxWorld
	var applies []*ast.CallExpr
	ast.Inspect(fd.Body, func(n ast.Node) bool {
		switch x := n.(type) {
		case *ast.CompositeLit:
			if isContext(info.TypeOf(x)) {
				for _, el := range x.Elts {
					if kv, ok := el.(*ast.KeyValueExpr); ok {
						if id, ok := kv.Key.(*ast.Ident); ok && id.Name == "World" {
							ctxs = append(ctxs, iCtxWorld{x, kv.Value})
						}
					}
				}
			}
		case *ast.AssignStmt:
			if len(x.Lhs) == len(x.Rhs) {
				for i, l := range x.Lhs {
					if sel, ok := ast.Unparen(l).(*ast.SelectorExpr); ok && sel.Sel.Name == "World" && isContext(info.TypeOf(sel.X)) {
						ctxs = append(ctxs, iCtxWorld{x, x.Rhs[i]})
					}
				}
			}
		case *ast.CallExpr:
			if f := calleeFunc(info, x); f != nil && t.iIsApply(f.Origin()) && len(x.Args) == 1 {
				applies = append(applies, x)
			}
		}
		return true
	})
	if len(ctxs) == 0 || len(applies) == 0 {
		return nil
	}
	name := c.FuncName(p, fd)
	// the context's world variable
	var world types.Object
	problem := ""
	for _, cw := range ctxs {
		id, ok := ast.Unparen(cw.val).(*ast.Ident)
		var o types.Object
		if ok {
			o = info.ObjectOf(id)
		}
		if v, isVar := o.(*types.Var); !ok || !isVar || v.IsField() || v.Parent() == nil || v.Parent() == p.Types.Scope() {
			problem = fmt.Sprintf("api.Context.World is set from %s at %s, which is not a local variable", types.ExprString(cw.val), c.Position(cw.val.Pos()))
			break
		}
		if world != nil && world != o {
			problem = fmt.Sprintf("contexts are built over different variables (%s and %s)", world.Name(), o.Name())
			break
		}
		world = o
	}
	// assignments to the world variable after the context was built
	reassigned := ""
	if problem == "" {
		assigns := func(n ast.Node) (token.Pos, bool) {
			var at token.Pos
			ast.Inspect(n, func(x ast.Node) bool {
				switch s := x.(type) {
				case *ast.AssignStmt:
					for _, l := range s.Lhs {
						if id, ok := ast.Unparen(l).(*ast.Ident); ok && info.ObjectOf(id) == world {
							at = s.Pos()
						}
					}
				case *ast.IncDecStmt:
					if id, ok := ast.Unparen(s.X).(*ast.Ident); ok && info.ObjectOf(id) == world {
						at = s.Pos()
					}
				case *ast.UnaryExpr:
					if id, ok := ast.Unparen(s.X).(*ast.Ident); ok && s.Op == token.AND && info.ObjectOf(id) == world {
						at = s.Pos()
					}
				case *ast.RangeStmt:
					for _, e := range []ast.Expr{s.Key, s.Value} {
						if id, ok := e.(*ast.Ident); ok && s.Tok == token.ASSIGN && info.ObjectOf(id) == world {
							at = s.Pos()
						}
					}
				}
				return true
			})
			return at, at.IsValid()
		}
		// inside function literals: any time
		ast.Inspect(fd.Body, func(n ast.Node) bool {
			if fl, ok := n.(*ast.FuncLit); ok {
				if at, yes := assigns(fl.Body); yes && reassigned == "" {
					reassigned = fmt.Sprintf("%s is assigned inside a function literal at %s", world.Name(), c.Position(at))
				}
				return false
			}
			return true
		})
		g := newCFG(info, fd.Body)
		for _, cw := range ctxs {
			loc, ok := findNode(g, cw.node)
			if !ok {
				continue
			}
			ps := &pathSearch{c: c, info: info, bad: func(n ast.Node) bool {
				var at token.Pos
				inspectShallow(n, func(x ast.Node) bool {
					switch s := x.(type) {
					case *ast.AssignStmt:
						for _, l := range s.Lhs {
							if id, ok := ast.Unparen(l).(*ast.Ident); ok && info.ObjectOf(id) == world {
								at = s.Pos()
							}
						}
					case *ast.IncDecStmt:
						if id, ok := ast.Unparen(s.X).(*ast.Ident); ok && info.ObjectOf(id) == world {
							at = s.Pos()
						}
					}
					return true
				})
				found := at.IsValid()
				return found
			}}
			if w := ps.run(loc); w != nil && reassigned == "" {
				reassigned = fmt.Sprintf("%s is assigned again after the context was built at %s: %s", world.Name(), c.Position(cw.node.Pos()), w[len(w)-1])
			}
		}
	}
	var out []Obligation
	for n, call := range applies {
		ob := Obligation{Key: fmt.Sprintf("%s#%d", name, n+1), Pos: c.Position(call.Pos())}
		what := nodeText(c.Fset, call)
		arg := ast.Unparen(call.Args[0])
		switch {
		case problem != "":
			ob.Status, ob.Detail = Undecided, what+": "+problem+"; the rule cannot tell which world the expression was evaluated against"
		default:
			id, isIdent := arg.(*ast.Ident)
			var o types.Object
			if isIdent {
				o = info.ObjectOf(id)
			}
			ctxAt := c.Position(ctxs[0].node.Pos())
			switch {
			case isIdent && o == world && reassigned == "":
				ob.Status = OK
				ob.Detail = fmt.Sprintf("%s is applied to %s, the variable stored in api.Context.World at %s and not assigned afterwards", what, world.Name(), ctxAt)
			case isIdent && o == world:
				ob.Status = Violation
				ob.Detail = fmt.Sprintf("%s is applied to %s, but %s: the world applied to need not be the one the expression was evaluated against", what, world.Name(), reassigned)
			case isIdent && iIsLiteralParam(info, fd, o):
				ob.Status = Undecided
				ob.Detail = fmt.Sprintf("%s: the world argument %s is a parameter of a function literal; the rule does not follow its call sites", what, id.Name)
			default:
				ob.Status = Violation
				ob.Detail = fmt.Sprintf("%s is applied to %s, not to %s, the variable the expression was evaluated against (api.Context.World at %s): a second lookup can return a different world "+
					"(DeleteWorld between RUnlock and Lock makes FindOrCreateWorld create a fresh empty one)", what, types.ExprString(arg), world.Name(), ctxAt)
			}
		}
		out = append(out, ob)
	}
	return out
}

// iIsLiteralParam: o is a parameter of a function literal inside fd.
func iIsLiteralParam(info *types.Info, fd *ast.FuncDecl, o types.Object) bool {
	found := false
	ast.Inspect(fd.Body, func(n ast.Node) bool {
		if fl, ok := n.(*ast.FuncLit); ok && fl.Type.Params != nil {
			for _, f := range fl.Type.Params.List {
				for _, id := range f.Names {
					if info.ObjectOf(id) == o {
						found = true
					}
				}
			}
		}
		return true
	})
	return found
}
