package main

import (
	"fmt"
	"go/ast"
	"go/constant"
	"go/token"
	"go/types"
	"sort"
	"strings"
)

// LESS-LEX (C31): the order of feature IDs is a lexicographic order over all fields of the ID,
// most significant field first, in the same significance order the compact index packs them.
//
// Slots (by type): every named struct type S of the root package that has a field of type
// b6.Namespace and a method `Less(S) bool` (today FeatureID, AreaID, RelationID, CollectionID).
// The packer is the function of ingest/compact whose parameters include a b6.FeatureType and a
// compact Namespace and whose single result expression is an `|` of shifted conversions of its
// parameters (today CombineTypeAndNamespace: t<<13 | ns).
//
// Obligations:
//
//	#1 per Less method: the body is a lexicographic comparison that covers every field of S
//	   exactly once. Accepted shapes, with a = receiver, b = parameter, F a field:
//	     if a.F == b.F { REST } else { return a.F < b.F }
//	     if a.F == b.F { REST }; return a.F < b.F           (REST always returns)
//	     if a.F != b.F { return a.F < b.F }; REST
//	     return a.F < b.F        |  return a.F.Less(b.F)     (last field)
//	   Anything else is `undecided`.
//	#2 for the struct that has a field for each packed parameter (FeatureID): the packed fields
//	   appear in Less in decreasing shift order (type before namespace), before every field that is
//	   not packed (value).
func init() {
	register(&Rule{
		Name:  "LESS-LEX",
		IR:    "ast",
		Props: []string{"C31"},
		Floor: 5, // FeatureID #1 #2, AreaID #1, RelationID #1, CollectionID #1
		Doc: "Less on feature-ID structs compares every field exactly once, lexicographically; for FeatureID the field order is the significance order " +
			"of the compact packer (type in the high bits, then namespace), then the value",
		Run: runLessLex,
	})
}

// jLexOrder parses a lexicographic-comparison body; it returns the fields in significance order.
func jLexOrder(info *types.Info, list []ast.Stmt, recv, param types.Object) ([]string, string) {
	// field of `x.F` where x is obj
	fieldOf := func(e ast.Expr, obj types.Object) (string, bool) {
		sel, ok := ast.Unparen(e).(*ast.SelectorExpr)
		if !ok {
			return "", false
		}
		id, ok := ast.Unparen(sel.X).(*ast.Ident)
		if !ok || info.ObjectOf(id) != obj {
			return "", false
		}
		if s, ok := info.Selections[sel]; !ok || s.Kind() != types.FieldVal {
			return "", false
		}
		return sel.Sel.Name, true
	}
	// cmp matches `recv.F op param.F`
	cmp := func(e ast.Expr, op token.Token) (string, bool) {
		b, ok := ast.Unparen(e).(*ast.BinaryExpr)
		if !ok || b.Op != op {
			return "", false
		}
		f1, ok1 := fieldOf(b.X, recv)
		f2, ok2 := fieldOf(b.Y, param)
		if ok1 && ok2 && f1 == f2 {
			return f1, true
		}
		return "", false
	}
	// less matches `return recv.F < param.F` or `return recv.F.Less(param.F)`
	less := func(s ast.Stmt) (string, bool) {
		r, ok := s.(*ast.ReturnStmt)
		if !ok || len(r.Results) != 1 {
			return "", false
		}
		if f, ok := cmp(r.Results[0], token.LSS); ok {
			return f, true
		}
		if call, ok := ast.Unparen(r.Results[0]).(*ast.CallExpr); ok && len(call.Args) == 1 {
			if sel, ok := ast.Unparen(call.Fun).(*ast.SelectorExpr); ok && sel.Sel.Name == "Less" {
				f1, ok1 := fieldOf(sel.X, recv)
				f2, ok2 := fieldOf(call.Args[0], param)
				if ok1 && ok2 && f1 == f2 {
					return f1, true
				}
			}
		}
		return "", false
	}
	block := func(s ast.Stmt) []ast.Stmt {
		if b, ok := s.(*ast.BlockStmt); ok {
			return b.List
		}
		if s == nil {
			return nil
		}
		return []ast.Stmt{s}
	}
	if len(list) == 0 {
		return nil, "empty statement list"
	}
	if len(list) == 1 {
		if f, ok := less(list[0]); ok {
			return []string{f}, ""
		}
	}
	ifs, ok := list[0].(*ast.IfStmt)
	if !ok || ifs.Init != nil {
		return nil, "statement is neither `if a.F ==/!= b.F` nor `return a.F < b.F`"
	}
	if f, ok := cmp(ifs.Cond, token.EQL); ok {
		var tail []ast.Stmt
		switch {
		case ifs.Else != nil && len(list) == 1:
			tail = block(ifs.Else)
		case ifs.Else == nil && len(list) == 2:
			tail = list[1:]
		default:
			return nil, "unexpected statements around `if a." + f + " == b." + f + "`"
		}
		if len(tail) != 1 {
			return nil, "the unequal branch of field " + f + " is not a single return"
		}
		if g, ok := less(tail[0]); !ok || g != f {
			return nil, "the unequal branch of field " + f + " does not return a." + f + " < b." + f
		}
		rest, why := jLexOrder(info, ifs.Body.List, recv, param)
		if why != "" {
			return nil, why
		}
		return append([]string{f}, rest...), ""
	}
	if f, ok := cmp(ifs.Cond, token.NEQ); ok && ifs.Else == nil {
		if len(ifs.Body.List) != 1 {
			return nil, "the unequal branch of field " + f + " is not a single return"
		}
		if g, ok := less(ifs.Body.List[0]); !ok || g != f {
			return nil, "the unequal branch of field " + f + " does not return a." + f + " < b." + f
		}
		rest, why := jLexOrder(info, list[1:], recv, param)
		if why != "" {
			return nil, why
		}
		return append([]string{f}, rest...), ""
	}
	return nil, "condition " + types.ExprString(ifs.Cond) + " does not compare one field of both operands"
}

type jPacked struct {
	typ   types.Type
	shift int64
}

// jPacker finds the compact packer and returns its parameters with their shift amounts.
func jPacker(c *Ctx) (string, []jPacked, string) {
	p := c.Pkg("ingest/compact")
	if p == nil {
		return "", nil, "package ingest/compact not loaded"
	}
	info := p.TypesInfo
	var name string
	var packed []jPacked
	n := 0
	for _, fd := range c.FuncDecls(p) {
		if fd.Recv != nil || len(fd.Body.List) != 1 {
			continue
		}
		sig := info.Defs[fd.Name].Type().(*types.Signature)
		hasFT, hasNS := false, false
		for i := 0; i < sig.Params().Len(); i++ {
			t := sig.Params().At(i).Type()
			if isNamed(t, ModulePath, "FeatureType") {
				hasFT = true
			}
			if isNamed(t, p.PkgPath, "Namespace") {
				hasNS = true
			}
		}
		r, ok := fd.Body.List[0].(*ast.ReturnStmt)
		if !hasFT || !hasNS || !ok || len(r.Results) != 1 || sig.Results().Len() != 1 {
			continue
		}
		// flatten `|`
		var terms []ast.Expr
		var flat func(e ast.Expr)
		flat = func(e ast.Expr) {
			e = ast.Unparen(e)
			if b, ok := e.(*ast.BinaryExpr); ok && b.Op == token.OR {
				flat(b.X)
				flat(b.Y)
				return
			}
			terms = append(terms, e)
		}
		flat(r.Results[0])
		if len(terms) < 2 {
			continue
		}
		var ps []jPacked
		okAll := true
		for _, t := range terms {
			// strip conversions
			for {
				call, ok := t.(*ast.CallExpr)
				if !ok || len(call.Args) != 1 || !info.Types[call.Fun].IsType() {
					break
				}
				t = ast.Unparen(call.Args[0])
			}
			shift := int64(0)
			if b, ok := t.(*ast.BinaryExpr); ok && b.Op == token.SHL {
				k := jConst(info, b.Y)
				if k == nil {
					okAll = false
					break
				}
				shift, _ = constant.Int64Val(constant.ToInt(k))
				t = ast.Unparen(b.X)
				for {
					call, ok := t.(*ast.CallExpr)
					if !ok || len(call.Args) != 1 || !info.Types[call.Fun].IsType() {
						break
					}
					t = ast.Unparen(call.Args[0])
				}
			}
			id, ok := t.(*ast.Ident)
			if !ok {
				okAll = false
				break
			}
			v, ok := info.ObjectOf(id).(*types.Var)
			if !ok {
				okAll = false
				break
			}
			ps = append(ps, jPacked{v.Type(), shift})
		}
		if !okAll {
			continue
		}
		n++
		name, packed = c.FuncName(p, fd), ps
	}
	if n != 1 {
		return "", nil, fmt.Sprintf("found %d packer functions in ingest/compact (need exactly one)", n)
	}
	sort.SliceStable(packed, func(i, j int) bool { return packed[i].shift > packed[j].shift })
	return name, packed, ""
}

func runLessLex(c *Ctx) []Obligation {
	p := c.Pkg("")
	if p == nil {
		return nil
	}
	info := p.TypesInfo
	var out []Obligation
	packerName, packed, packerWhy := jPacker(c)
	for _, fd := range c.FuncDecls(p) {
		if fd.Recv == nil || fd.Name.Name != "Less" || len(fd.Recv.List) != 1 {
			continue
		}
		fn := info.Defs[fd.Name].(*types.Func)
		sig := fn.Type().(*types.Signature)
		recvT := sig.Recv().Type()
		named := namedOf(recvT)
		if named == nil || sig.Params().Len() != 1 || !types.Identical(namedOf(sig.Params().At(0).Type()), named) || sig.Results().Len() != 1 {
			continue
		}
		st, ok := named.Underlying().(*types.Struct)
		if !ok {
			continue
		}
		hasNS := false
		for i := 0; i < st.NumFields(); i++ {
			if isNamed(st.Field(i).Type(), ModulePath, "Namespace") && !jIsPointer(st.Field(i).Type()) {
				hasNS = true
			}
		}
		if !hasNS {
			continue
		}
		key := c.FuncName(p, fd)
		ob := Obligation{Key: key + "#1", Pos: c.Position(fd.Pos())}
		var recv, param types.Object
		if len(fd.Recv.List[0].Names) == 1 {
			recv = info.Defs[fd.Recv.List[0].Names[0]]
		}
		if len(fd.Type.Params.List) == 1 && len(fd.Type.Params.List[0].Names) == 1 {
			param = info.Defs[fd.Type.Params.List[0].Names[0]]
		}
		var order []string
		why := "receiver or parameter is unnamed"
		if recv != nil && param != nil {
			order, why = jLexOrder(info, fd.Body.List, recv, param)
		}
		if why != "" {
			ob.Status, ob.Detail = Undecided, fmt.Sprintf("%s.Less is not in a known lexicographic shape: %s", named.Obj().Name(), why)
			out = append(out, ob)
			continue
		}
		var missing, dup []string
		count := map[string]int{}
		for _, f := range order {
			count[f]++
		}
		for i := 0; i < st.NumFields(); i++ {
			switch count[st.Field(i).Name()] {
			case 0:
				missing = append(missing, st.Field(i).Name())
			case 1:
			default:
				dup = append(dup, st.Field(i).Name())
			}
		}
		if len(missing)+len(dup) > 0 {
			ob.Status = Violation
			ob.Detail = fmt.Sprintf("%s.Less compares %s: field(s) never compared: [%s], compared more than once: [%s]; two different IDs can be unordered both ways, so the order is not total",
				named.Obj().Name(), strings.Join(order, ", "), strings.Join(missing, ", "), strings.Join(dup, ", "))
		} else {
			ob.Status = OK
			ob.Detail = fmt.Sprintf("%s.Less compares every field once, in the order %s", named.Obj().Name(), strings.Join(order, ", "))
		}
		out = append(out, ob)

		// #2: agreement with the packer, for the struct that has one field per packed parameter
		if packerWhy != "" {
			continue
		}
		cp := c.Pkg("ingest/compact")
		var fields []string
		for _, pk := range packed {
			f := ""
			for i := 0; i < st.NumFields(); i++ {
				ft := st.Field(i).Type()
				// the compact namespace code stands for the b6.Namespace field
				if types.Identical(ft, pk.typ) || (isNamed(pk.typ, cp.PkgPath, "Namespace") && isNamed(ft, ModulePath, "Namespace")) {
					f = st.Field(i).Name()
				}
			}
			if f == "" {
				fields = nil
				break
			}
			fields = append(fields, f)
		}
		if fields == nil {
			continue
		}
		ob2 := Obligation{Key: key + "#2", Pos: c.Position(fd.Pos())}
		pos := map[string]int{}
		for i, f := range order {
			if _, ok := pos[f]; !ok {
				pos[f] = i
			}
		}
		var bad []string
		for i, f := range fields {
			at, ok := pos[f]
			if !ok {
				bad = append(bad, fmt.Sprintf("packed field %s is not compared", f))
				continue
			}
			if at != i {
				bad = append(bad, fmt.Sprintf("field %s has significance rank %d in %s (shift %d) but is compared at position %d", f, i+1, packerName, packed[i].shift, at+1))
			}
		}
		if len(bad) > 0 {
			ob2.Status = Violation
			ob2.Detail = fmt.Sprintf("%s.Less orders by %s but %s packs %s most significant first: %s; b6 order and compact index order disagree",
				named.Obj().Name(), strings.Join(order, ", "), packerName, strings.Join(fields, ", "), strings.Join(bad, "; "))
		} else {
			ob2.Status = OK
			ob2.Detail = fmt.Sprintf("%s.Less orders by %s; %s packs %s most significant first: same order", named.Obj().Name(), strings.Join(order, ", "), packerName, strings.Join(fields, ", "))
		}
		out = append(out, ob2)
	}
	if packerWhy != "" {
		out = append(out, Obligation{Key: "ingest/compact.packer#1", Pos: "-", Status: Undecided, Detail: packerWhy})
	}
	return out
}
