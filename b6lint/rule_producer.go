package main

import (
	"fmt"
	"go/ast"
	"go/token"
	"go/types"
	"sort"
	"strings"

	"golang.org/x/tools/go/cfg"
	"golang.org/x/tools/go/packages"
)

// PRODUCER (C28, C25): channel producer / worker pools.
//
// Slots (discovered by shape and type in every module package): a function declaration P that
// starts goroutines (`go`, errgroup.Group.Go) and, inside P, its literals, or functions it hands
// the channel to (followed through static calls, local closures and func values of identical
// type, depth 3), sends on a data channel family. A family is one variable or field after
// resolving x[i], x.f, local aliases (`in := m.in[i]`) and parameter/argument pairs. Channels
// of struct{} are cancellation tokens, not data. A family that is a parameter of P belongs to
// P's caller and is analysed there.
//
// Receivers are the bodies in the same slot that receive from the family (`range c`, `<-c`,
// select receive). A receiver *exit* is a return, or a break/continue/goto that leaves the
// receive loop. Exits on the close edge (`v, ok := <-c` under !ok; range exhaustion) and exits
// taken on a condition over the received value (in-band sentinel such as a "done" blob, which
// only the sender can cause) are not early. Every other exit is early and must name the
// cancellation source(s) that tell the sender about it:
//   - the exit sits in a select case that receives from the source (`case <-ctx.Done(): return`);
//   - the receiver is an errgroup.Go function and returns a certainly non-nil error (the
//     group's context is the source);
//   - a signal (call of the cancel function of context.WithCancel/WithTimeout/WithDeadline, or
//     a send on a struct{} token channel) is an earlier sibling statement of the exit, is
//     deferred, or - for exits that only leave the loop - follows the loop.
//
// An early exit with no source is a violation at every send of the family.
//
// Obligation per send site, if some receiver can exit early or the receivers are outside the
// slot (consumer of an iterator): the send is a case of a select that also receives from a
// cancellation source S (`<-X.Done()` of a context, or a struct{} channel) such that every early
// exit is signalled on S or on a context S is derived from, and after that case is taken no send
// on the family is reachable again in the sender's body. Accepted ways to leave: return;
// labelled break / goto; `v = ctx.Err()` (or another certainly non-nil error) with a loop
// condition that tests `v == nil`. An unlabelled break inside the select leaves only the select.
// A select with a default case never blocks and has no obligation.
//
// Obligations (C28) are raised for pools owned by functions of encoding, ingest, ingest/compact
// and osm, and (C25) for api/functions.(*mapParallelCollection).run. Pools whose receivers leave
// only on close, and pools owned by other packages (gtfs, materialise, graph, cmd/...), are
// analysed the same way and reported as info. The key of a send site is the declaration that
// contains the send (osm.readBlobs#1, ingest.feedFeatures#1), also when the pool owner is its caller.
func init() {
	register(&Rule{
		Name:  "PRODUCER",
		IR:    "cfg",
		Props: []string{"C28", "C25"}, // every obligation names its own property
		Floor: 10,
		// encoding.(*Uint64Map).EachItem#1, ingest.MemoryFeatureSource.Read#1, ingest.feedFeatures#1,
		// ingest.ModifiedTags.EachModifiedTag#1, osm.ReadPBFWithOptions#1, osm.readBlobs#1,
		// ingest.ParalleliseEmit#1, ingest.MergedFeatureSource.Read#1 (C28);
		// api/functions.(*mapParallelCollection).run#1,#2 (C25)
		FloorBy: map[string]int{"C28": 8, "C25": 2},
		Doc: "in a goroutine worker pool whose receivers can stop before the channel is closed (or whose receivers are outside the function), " +
			"every send on the data channel is a select case next to a receive from a cancellation source that is signalled on each early receiver exit, " +
			"and once that case is taken the sender cannot reach a send on the channel again (an unlabelled break inside the select does not leave the loop)",
		Run: runProducer,
	})
}

type aSend struct {
	unit *aUnit
	stmt *ast.SendStmt
	root types.Object
}

type aRecv struct {
	unit *aUnit
	node ast.Node // *ast.RangeStmt or *ast.UnaryExpr
	root types.Object
}

type aExit struct {
	pos     token.Pos
	what    string
	sources []types.Object // class representatives of cancellation sources; empty = not signalled
	benign  string         // "close" | "sentinel" | ""
	unknown bool
}

type aPool struct {
	c        *Ctx
	p        *packages.Package
	fd       *ast.FuncDecl
	units    []*aUnit
	own      []*aUnit                      // the units of the declaration itself (units also holds followed callees)
	parent   map[types.Object]types.Object // union-find
	litOfVar map[types.Object]*aUnit
	groupCtx map[types.Object]types.Object
	cancelOf map[types.Object]types.Object
	ctxUp    map[types.Object]types.Object
	goUnits  map[*aUnit]types.Object // unit started as goroutine → errgroup variable (nil for `go`)
	isGo     map[*aUnit]bool
	followed map[*types.Func]bool
}

func (a *aPool) find(o types.Object) types.Object {
	if o == nil {
		return nil
	}
	for {
		p, ok := a.parent[o]
		if !ok || p == o {
			return o
		}
		o = p
	}
}

func (a *aPool) union(x, y types.Object) {
	if x == nil || y == nil {
		return
	}
	rx, ry := a.find(x), a.find(y)
	if rx == ry {
		return
	}
	// deterministic representative: prefer fields, then the earliest declaration
	if less := func(p, q types.Object) bool {
		pf, qf := false, false
		if v, ok := p.(*types.Var); ok {
			pf = v.IsField()
		}
		if v, ok := q.(*types.Var); ok {
			qf = v.IsField()
		}
		if pf != qf {
			return pf
		}
		return p.Pos() < q.Pos()
	}; less(ry, rx) {
		rx, ry = ry, rx
	}
	a.parent[ry] = rx
}

// ctxRoot resolves a context expression to its variable/field.
func aCtxRoot(info *types.Info, e ast.Expr) types.Object {
	if !aIsContext(info.TypeOf(e)) {
		return nil
	}
	return aRootObj(info, e)
}

// targets resolves the function units a call may enter.
func (a *aPool) targets(u *aUnit, call *ast.CallExpr, depth int) []*aUnit {
	info := u.info()
	fun := ast.Unparen(call.Fun)
	if fl, ok := fun.(*ast.FuncLit); ok {
		if t := aUnitOfLit(a.units, fl); t != nil {
			return []*aUnit{t}
		}
		return nil
	}
	if id, ok := fun.(*ast.Ident); ok {
		if t := a.litOfVar[info.ObjectOf(id)]; t != nil {
			return []*aUnit{t}
		}
	}
	if f := calleeFunc(info, call); f != nil {
		fd, fp := a.c.Decl(f)
		if fd == nil || fd.Body == nil || fp == nil || depth <= 0 {
			return nil
		}
		// follow only callees that are given a channel
		given := false
		for _, arg := range call.Args {
			if aChanFamily(info.TypeOf(arg)) != nil {
				given = true
			}
		}
		if !given {
			return nil
		}
		for _, x := range a.units {
			if x.decl == fd && x.lit == nil {
				return []*aUnit{x}
			}
		}
		if a.followed[f.Origin()] {
			return nil
		}
		a.followed[f.Origin()] = true
		nu := aUnitsOfDecl(fp, fd)
		a.units = append(a.units, nu...)
		a.scan(nu, depth-1)
		return nu[:1]
	}
	// dynamic call of a func value: every literal of the slot with an identical type
	if sig, ok := info.TypeOf(call.Fun).(*types.Signature); ok {
		var out []*aUnit
		for _, x := range a.units {
			if x.lit != nil && types.Identical(x.info().TypeOf(x.lit), sig) {
				out = append(out, x)
			}
		}
		return out
	}
	return nil
}

// scan records definitions (pass 1) and call bindings (pass 2) of the given units.
func (a *aPool) scan(units []*aUnit, depth int) {
	for _, u := range units {
		info := u.info()
		define := func(lhs []ast.Expr, rhs []ast.Expr) {
			if len(rhs) == 1 && len(lhs) == 2 {
				if call, ok := ast.Unparen(rhs[0]).(*ast.CallExpr); ok {
					f := calleeFunc(info, call)
					l0, l1 := aObjOf(info, lhs[0]), aObjOf(info, lhs[1])
					switch {
					case aIsPkgFunc(f, aErrgroupPath, "WithContext") && len(call.Args) == 1:
						if l0 != nil && l1 != nil {
							a.groupCtx[l0] = l1
							if up := aCtxRoot(info, call.Args[0]); up != nil && up != l1 {
								a.ctxUp[l1] = up
							}
						}
					case aIsPkgFunc(f, "context", "WithCancel", "WithTimeout", "WithDeadline", "WithCancelCause") && len(call.Args) >= 1:
						if l0 != nil && l1 != nil {
							a.cancelOf[l1] = l0
							if up := aCtxRoot(info, call.Args[0]); up != nil && up != l0 {
								a.ctxUp[l0] = up
							}
						}
					}
				}
			}
			if len(lhs) != len(rhs) {
				return
			}
			for i, r := range rhs {
				l := aObjOf(info, lhs[i])
				r = ast.Unparen(r)
				if fl, ok := r.(*ast.FuncLit); ok && l != nil {
					if t := aUnitOfLit(a.units, fl); t != nil {
						a.litOfVar[l] = t
					}
					continue
				}
				if _, isCall := r.(*ast.CallExpr); isCall {
					continue
				}
				if u, ok := r.(*ast.UnaryExpr); ok && u.Op == token.ARROW {
					continue
				}
				if aChanFamily(info.TypeOf(r)) != nil {
					lo := l
					if lo == nil {
						lo = aRootObj(info, lhs[i])
					}
					a.union(lo, aRootObj(info, r))
				}
			}
		}
		aShallow(u.body, func(n ast.Node) bool {
			switch s := n.(type) {
			case *ast.AssignStmt:
				define(s.Lhs, s.Rhs)
			case *ast.ValueSpec:
				var lhs []ast.Expr
				for _, nm := range s.Names {
					lhs = append(lhs, nm)
				}
				define(lhs, s.Values)
			}
			return true
		})
	}
	for _, u := range units {
		info := u.info()
		var calls []*ast.CallExpr
		goCalls := map[*ast.CallExpr]bool{}
		aShallow(u.body, func(n ast.Node) bool {
			switch s := n.(type) {
			case *ast.GoStmt:
				goCalls[s.Call] = true
			case *ast.CallExpr:
				calls = append(calls, s)
			}
			return true
		})
		for _, call := range calls {
			if f := calleeFunc(info, call); aIsGroupMethod(f, "Go") || aIsGroupMethod(f, "TryGo") {
				var g types.Object
				if sel, ok := ast.Unparen(call.Fun).(*ast.SelectorExpr); ok {
					g = aRootObj(info, sel.X)
				}
				if len(call.Args) == 1 {
					var t *aUnit
					switch x := ast.Unparen(call.Args[0]).(type) {
					case *ast.FuncLit:
						t = aUnitOfLit(a.units, x)
					case *ast.Ident:
						t = a.litOfVar[info.ObjectOf(x)]
					}
					if t != nil {
						a.isGo[t] = true
						a.goUnits[t] = g
					}
				}
				continue
			}
			ts := a.targets(u, call, depth)
			for _, t := range ts {
				if goCalls[call] {
					a.isGo[t] = true
				}
				ps := t.params()
				for i, arg := range call.Args {
					if i >= len(ps) || ps[i] == nil {
						continue
					}
					pt := ps[i].Type()
					switch {
					case aChanFamily(pt) != nil:
						if x := aCtxMethodCall(info, arg, "Done"); x != nil {
							a.union(ps[i], aCtxRoot(info, x))
						} else {
							a.union(ps[i], aRootObj(info, arg))
						}
					case aIsContext(pt):
						a.union(ps[i], aCtxRoot(info, arg))
					}
				}
			}
		}
	}
}

func aStartsGoroutines(info *types.Info, fd *ast.FuncDecl) bool {
	found := false
	ast.Inspect(fd.Body, func(n ast.Node) bool {
		switch s := n.(type) {
		case *ast.GoStmt:
			found = true
		case *ast.CallExpr:
			if f := calleeFunc(info, s); aIsGroupMethod(f, "Go") || aIsGroupMethod(f, "TryGo") {
				found = true
			}
		}
		return !found
	})
	return found
}

// ups returns the source and every context it is derived from (as class representatives).
func (a *aPool) ups(o types.Object) map[types.Object]bool {
	up := map[types.Object]types.Object{}
	for k, v := range a.ctxUp {
		up[a.find(k)] = a.find(v)
	}
	out := map[types.Object]bool{}
	for o = a.find(o); o != nil && !out[o]; o = up[o] {
		out[o] = true
	}
	return out
}

// sourceOfRecv resolves the operand of a cancellation receive to its class representative.
func (a *aPool) sourceOfRecv(info *types.Info, op ast.Expr) (types.Object, bool) {
	if x := aCtxMethodCall(info, op, "Done"); x != nil {
		return a.find(aCtxRoot(info, x)), true
	}
	if ch := aChanType(info.TypeOf(op)); ch != nil && aIsEmptyStruct(ch.Elem()) {
		return a.find(aRootObj(info, op)), true
	}
	return nil, false
}

// signalOf: the statement signals a cancellation source (cancel() / token send).
func (a *aPool) signalOf(info *types.Info, s ast.Stmt) types.Object {
	switch x := s.(type) {
	case *ast.ExprStmt:
		if call, ok := x.X.(*ast.CallExpr); ok {
			if ctx := a.cancelOf[aObjOf(info, call.Fun)]; ctx != nil {
				return a.find(ctx)
			}
		}
	case *ast.DeferStmt:
		if ctx := a.cancelOf[aObjOf(info, x.Call.Fun)]; ctx != nil {
			return a.find(ctx)
		}
	case *ast.SendStmt:
		if ch := aChanType(info.TypeOf(x.Chan)); ch != nil && aIsEmptyStruct(ch.Elem()) {
			return a.find(aRootObj(info, x.Chan))
		}
	}
	return nil
}

func aStmtList(n ast.Node) []ast.Stmt {
	switch x := n.(type) {
	case *ast.BlockStmt:
		return x.List
	case *ast.CaseClause:
		return x.Body
	case *ast.CommClause:
		return x.Body
	}
	return nil
}

// exits classifies the ways the receiver leaves its receive loop.
func (a *aPool) exits(r aRecv, class types.Object) []aExit {
	u := r.unit
	info := u.info()
	chain := aChain(u.body, r.node)
	var loop ast.Stmt
	var valVar, okVar types.Object
	if rs, ok := r.node.(*ast.RangeStmt); ok {
		loop = rs
		if rs.Key != nil {
			valVar = aObjOf(info, rs.Key)
		}
	} else {
		for i := len(chain) - 2; i >= 0 && loop == nil; i-- {
			switch s := chain[i].(type) {
			case *ast.ForStmt:
				loop = s
			case *ast.RangeStmt:
				loop = s
			case *ast.AssignStmt:
				if len(s.Rhs) == 1 && ast.Unparen(s.Rhs[0]) == r.node.(ast.Expr) {
					valVar = aObjOf(info, s.Lhs[0])
					if len(s.Lhs) == 2 {
						okVar = aObjOf(info, s.Lhs[1])
					}
				}
			}
		}
	}
	if loop == nil {
		return []aExit{{pos: r.node.Pos(), what: "a single receive outside any loop"}}
	}
	var out []aExit
	if fs, ok := loop.(*ast.ForStmt); ok && fs.Cond != nil {
		out = append(out, aExit{pos: fs.Cond.Pos(), what: "the loop condition " + types.ExprString(fs.Cond)})
	}
	// signals in the receiver body
	type sig struct {
		stmt ast.Stmt
		src  types.Object
	}
	var sigs []sig
	aShallow(u.body, func(n ast.Node) bool {
		if s, ok := n.(ast.Stmt); ok {
			if src := a.signalOf(info, s); src != nil {
				sigs = append(sigs, sig{s, src})
			}
		}
		return true
	})
	var body *ast.BlockStmt
	switch l := loop.(type) {
	case *ast.ForStmt:
		body = l.Body
	case *ast.RangeStmt:
		body = l.Body
	}
	aShallow(body, func(n ast.Node) bool {
		var ex *aExit
		leavesFunc := false
		switch s := n.(type) {
		case *ast.ReturnStmt:
			ex = &aExit{pos: s.Pos(), what: nodeText(a.c.Fset, s)}
			leavesFunc = true
		case *ast.BranchStmt:
			switch s.Tok {
			case token.GOTO:
				ex = &aExit{pos: s.Pos(), what: "goto " + s.Label.Name, unknown: true}
			case token.BREAK, token.CONTINUE:
				t := aBranchTarget(u.body, aChain(loop, s), s)
				if s.Label == nil && t == nil {
					t = loop // innermost breakable above the chain root is the loop itself
				}
				leaves := false
				if t == loop {
					leaves = s.Tok == token.BREAK
				} else if t != nil && aContains(t, loop) {
					leaves = true
				}
				if leaves {
					ex = &aExit{pos: s.Pos(), what: strings.TrimSpace(s.Tok.String() + " " + aLabelName(s))}
				}
			}
		}
		if ex == nil {
			return true
		}
		ec := aChain(loop, n)
		srcs := map[types.Object]bool{}
		// (1) inside a select case that receives from a cancellation source
		for _, x := range ec {
			if cc, ok := x.(*ast.CommClause); ok {
				if ue, _ := aRecvOperand(cc.Comm); ue != nil {
					if src, ok := a.sourceOfRecv(info, ue.X); ok {
						if src == nil {
							ex.unknown = true
						} else {
							srcs[src] = true
						}
					}
				}
			}
		}
		// (2) errgroup function returning a certainly non-nil error
		if ret, ok := n.(*ast.ReturnStmt); ok && a.isGo[u] && len(ret.Results) == 1 {
			if g, isGroup := a.goUnits[u]; isGroup && g != nil {
				if aNonNilExpr(info, ret.Results[0], aImplied(info, ec)) {
					if gc := a.groupCtx[g]; gc != nil {
						srcs[a.find(gc)] = true
					}
				}
			}
		}
		// (3) signals: earlier sibling of the exit, deferred, or after the loop for loop-only exits
		for _, sg := range sigs {
			if _, isDefer := sg.stmt.(*ast.DeferStmt); isDefer {
				srcs[sg.src] = true
				continue
			}
			if !leavesFunc && sg.stmt.Pos() > loop.End() {
				srcs[sg.src] = true
				continue
			}
			for i := 0; i+1 < len(ec); i++ {
				list := aStmtList(ec[i])
				for _, st := range list {
					if st == ec[i+1] {
						break
					}
					if st == sg.stmt {
						srcs[sg.src] = true
					}
				}
			}
		}
		for s := range srcs {
			ex.sources = append(ex.sources, s)
		}
		sort.Slice(ex.sources, func(i, j int) bool { return ex.sources[i].Pos() < ex.sources[j].Pos() })
		if len(ex.sources) == 0 {
			facts := map[types.Object]bool{}
			if okVar != nil {
				facts[okVar] = true
			}
			mentions := func(e ast.Expr, o types.Object) bool {
				found := false
				ast.Inspect(e, func(x ast.Node) bool {
					if id, ok := x.(*ast.Ident); ok && info.ObjectOf(id) == o {
						found = true
					}
					return !found
				})
				return found
			}
			for i := 0; i+1 < len(ec) && ex.benign == ""; i++ {
				switch s := ec[i].(type) {
				case *ast.IfStmt:
					// close edge: under !ok, or in the else of ok
					if okVar != nil {
						c := ast.Unparen(s.Cond)
						if ue, isNot := c.(*ast.UnaryExpr); isNot && ue.Op == token.NOT && aObjOf(info, ue.X) == okVar && ec[i+1] == ast.Node(s.Body) {
							ex.benign = "close"
						}
						if aObjOf(info, c) == okVar && s.Else != nil && ec[i+1] == ast.Node(s.Else) {
							ex.benign = "close"
						}
					}
					if ex.benign == "" && valVar != nil && mentions(s.Cond, valVar) {
						ex.benign = "sentinel"
					}
				case *ast.SwitchStmt:
					if valVar != nil && s.Tag != nil && mentions(s.Tag, valVar) {
						ex.benign = "sentinel"
					}
				case *ast.CaseClause:
					for _, e := range s.List {
						// switch { case !ok: return } - the close edge in switch form
						if ue, isNot := ast.Unparen(e).(*ast.UnaryExpr); isNot && okVar != nil && len(s.List) == 1 && ue.Op == token.NOT && aObjOf(info, ue.X) == okVar {
							ex.benign = "close"
						}
						if ex.benign == "" && valVar != nil && mentions(e, valVar) {
							ex.benign = "sentinel"
						}
					}
				}
			}
		}
		out = append(out, *ex)
		return true
	})
	return out
}

func aLabelName(s *ast.BranchStmt) string {
	if s.Label != nil {
		return s.Label.Name
	}
	return ""
}

type aProdOb struct {
	declName string
	pos      token.Pos
	ob       Obligation
	rank     int
}

func aStatusRank(s string) int {
	switch s {
	case Violation:
		return 3
	case Undecided:
		return 2
	case OK:
		return 1
	}
	return 0
}

func runProducer(c *Ctx) []Obligation {
	found := aScopeOf(c).pools
	// ordinals: n-th send site of a pool in its declaration, in source order; a callee that
	// serves several pools is reported once with its worst verdict.
	byDecl := map[string][]aProdOb{}
	for _, f := range found {
		byDecl[f.declName] = append(byDecl[f.declName], f)
	}
	var out []Obligation
	for _, name := range sortedKeys(byDecl) {
		list := byDecl[name]
		sort.SliceStable(list, func(i, j int) bool { return list[i].pos < list[j].pos })
		ord := 0
		for i := 0; i < len(list); {
			j := i
			best := list[i]
			for ; j < len(list) && list[j].pos == list[i].pos; j++ {
				if list[j].rank > best.rank {
					best = list[j]
				}
			}
			ord++
			best.ob.Key = fmt.Sprintf("%s#%d", name, ord)
			out = append(out, best.ob)
			i = j
		}
	}
	return out
}

// aPoolOps builds the slot of one declaration: units, bindings, and the data-channel operations.
func aPoolOps(c *Ctx, p *packages.Package, fd *ast.FuncDecl) (*aPool, []aSend, []aRecv) {
	a := &aPool{c: c, p: p, fd: fd,
		parent: map[types.Object]types.Object{}, litOfVar: map[types.Object]*aUnit{},
		groupCtx: map[types.Object]types.Object{}, cancelOf: map[types.Object]types.Object{},
		ctxUp: map[types.Object]types.Object{}, goUnits: map[*aUnit]types.Object{}, isGo: map[*aUnit]bool{},
		followed: map[*types.Func]bool{}}
	a.units = aUnitsOfDecl(p, fd)
	a.own = append([]*aUnit(nil), a.units...)
	a.scan(a.own, 3)

	var sends []aSend
	var recvs []aRecv
	for _, u := range a.units {
		info := u.info()
		aShallow(u.body, func(n ast.Node) bool {
			switch s := n.(type) {
			case *ast.SendStmt:
				if ch := aChanType(info.TypeOf(s.Chan)); ch != nil && !aIsEmptyStruct(ch.Elem()) {
					sends = append(sends, aSend{u, s, a.find(aRootObj(info, s.Chan))})
				}
			case *ast.UnaryExpr:
				if s.Op == token.ARROW {
					if ch := aChanType(info.TypeOf(s.X)); ch != nil && !aIsEmptyStruct(ch.Elem()) {
						if root := aRootObj(info, s.X); root != nil {
							recvs = append(recvs, aRecv{u, s, a.find(root)})
						}
					}
				}
			case *ast.RangeStmt:
				if ch := aChanType(info.TypeOf(s.X)); ch != nil && !aIsEmptyStruct(ch.Elem()) {
					if root := aRootObj(info, s.X); root != nil {
						recvs = append(recvs, aRecv{u, s, a.find(root)})
					}
				}
			}
			return true
		})
	}
	sort.SliceStable(sends, func(i, j int) bool { return sends[i].stmt.Pos() < sends[j].stmt.Pos() })
	return a, sends, recvs
}

// aIsMapParallelRun: the method the property C25 anchors, api/functions.(*mapParallelCollection).run.
func aIsMapParallelRun(p *packages.Package, fd *ast.FuncDecl) bool {
	return relPkg(p) == "api/functions" && fd.Recv != nil && fd.Name.Name == "run" && len(fd.Recv.List) == 1 &&
		isNamed(p.TypesInfo.TypeOf(fd.Recv.List[0].Type), p.PkgPath, "mapParallelCollection")
}

// aProducerPool analyses the pools owned by one declaration.
func aProducerPool(c *Ctx, p *packages.Package, fd *ast.FuncDecl) []aProdOb {
	a, sends, recvs := aPoolOps(c, p, fd)
	own := a.own
	if len(sends) == 0 {
		return nil
	}
	// families that are parameters of P belong to the caller
	foreign := map[types.Object]bool{}
	for _, v := range own[0].params() {
		if v != nil && aChanFamily(v.Type()) != nil {
			foreign[a.find(v)] = true
		}
	}

	rel := relPkg(p)
	var props []string
	anchored := false
	switch {
	case aC28Packages[rel]:
		anchored, props = true, []string{"C28"}
	case aIsMapParallelRun(p, fd):
		anchored, props = true, []string{"C25"}
	}

	var out []aProdOb
	for _, s := range sends {
		info := s.unit.info()
		ob := Obligation{Pos: c.Position(s.stmt.Pos()), Props: props}
		chText := types.ExprString(s.stmt.Chan)
		owner := c.FuncName(p, fd)
		emit := func(status, detail string, path []string) {
			ob.Status, ob.Detail, ob.Path = status, detail, path
			if !anchored && status != Info {
				ob.Status = Info
				ob.Detail = "pool outside the anchors of C25/C28, not an obligation; the analysis says " + status + ": " + detail
				ob.Props = []string{"C28"}
			}
			if ob.Status == Info && len(ob.Props) == 0 {
				ob.Props = []string{"C28"}
			}
			out = append(out, aProdOb{declName: c.FuncName(s.unit.pkg, s.unit.decl), pos: s.stmt.Pos(), ob: ob, rank: aStatusRank(ob.Status)})
		}
		if s.root == nil {
			emit(Undecided, fmt.Sprintf("send on %s in pool %s: the channel expression does not resolve to a variable or field", chText, owner), nil)
			continue
		}
		if foreign[s.root] {
			continue
		}
		// receivers of this family
		var rs []aRecv
		for _, r := range recvs {
			if r.root == s.root {
				rs = append(rs, r)
			}
		}
		var early []aExit
		var notes []string
		unknownExit := false
		for _, r := range rs {
			for _, e := range a.exits(r, s.root) {
				switch {
				case e.unknown:
					unknownExit = true
					early = append(early, e)
				case len(e.sources) > 0:
					early = append(early, e)
				case e.benign != "":
					notes = append(notes, fmt.Sprintf("%s exit at %s", e.benign, c.Position(e.pos)))
				default:
					early = append(early, e)
				}
			}
		}
		external := len(rs) == 0
		if !external && len(early) == 0 {
			emit(Info, fmt.Sprintf("send on %s in pool %s: receivers leave only when the channel is closed%s; no obligation", chText, owner, aNotes(notes)), nil)
			continue
		}
		if unknownExit {
			emit(Undecided, fmt.Sprintf("send on %s in pool %s: a receiver leaves its loop in a way the rule does not know (%s)", chText, owner, aExitList(c, early)), nil)
			continue
		}
		var unsignalled []aExit
		for _, e := range early {
			if len(e.sources) == 0 {
				unsignalled = append(unsignalled, e)
			}
		}
		if len(unsignalled) > 0 {
			emit(Violation, fmt.Sprintf("send on %s in pool %s: a receiver can stop without signalling any cancellation source (%s), so no send can be safe",
				chText, owner, aExitList(c, unsignalled)), nil)
			continue
		}
		why := "a receiver stops early (" + aExitList(c, early) + ")"
		if external {
			why = "the receivers are outside the function and may stop at any time"
		}
		// shape of the send
		chain := aChain(s.unit.body, s.stmt)
		var sel *ast.SelectStmt
		var mine *ast.CommClause
		if len(chain) >= 4 {
			if cc, ok := chain[len(chain)-2].(*ast.CommClause); ok && cc.Comm == ast.Stmt(s.stmt) {
				mine = cc
				sel, _ = chain[len(chain)-4].(*ast.SelectStmt)
			}
		}
		if sel == nil {
			emit(Violation, fmt.Sprintf("bare send on %s in pool %s can block for ever: %s", chText, owner, why), nil)
			continue
		}
		hasDefault := false
		type cancelCase struct {
			cc  *ast.CommClause
			src types.Object
		}
		var cancels []cancelCase
		unresolved := false
		for _, x := range sel.Body.List {
			cc := x.(*ast.CommClause)
			if cc == mine {
				continue
			}
			if cc.Comm == nil {
				hasDefault = true
				continue
			}
			if ue, _ := aRecvOperand(cc.Comm); ue != nil {
				if src, ok := a.sourceOfRecv(info, ue.X); ok {
					if src == nil {
						unresolved = true
					}
					cancels = append(cancels, cancelCase{cc, src})
				}
			}
		}
		if hasDefault {
			emit(OK, fmt.Sprintf("send on %s in pool %s is a select case with a default case and never blocks", chText, owner), nil)
			continue
		}
		if len(cancels) == 0 {
			emit(Violation, fmt.Sprintf("send on %s in pool %s is a select case without a receive from a cancellation source, although %s", chText, owner, why), nil)
			continue
		}
		if unresolved {
			emit(Undecided, fmt.Sprintf("send on %s in pool %s: the cancellation receive next to it does not resolve to a variable", chText, owner), nil)
			continue
		}
		reach := map[types.Object]bool{}
		var names []string
		for _, cc := range cancels {
			for o := range a.ups(cc.src) {
				reach[o] = true
			}
			names = append(names, cc.src.Name())
		}
		var uncovered []aExit
		for _, e := range early {
			ok := false
			for _, src := range e.sources {
				if reach[src] {
					ok = true
				}
			}
			if !ok {
				uncovered = append(uncovered, e)
			}
		}
		if len(uncovered) > 0 {
			emit(Violation, fmt.Sprintf("send on %s in pool %s selects on %s, which is not signalled when a receiver stops at %s",
				chText, owner, strings.Join(names, ", "), aExitList(c, uncovered)), nil)
			continue
		}
		// the cancellation case must leave: no send on the family reachable afterwards
		g := s.unit.cfg()
		var witness []string
		var witnessCase *ast.CommClause
		for _, cc := range cancels {
			b := aBlockOf(g, cfg.KindSelectCaseBody, cc.cc)
			if b == nil {
				emit(Undecided, fmt.Sprintf("send on %s in pool %s: cancellation case not found in the control-flow graph", chText, owner), nil)
				witnessCase = cc.cc
				witness = nil
				break
			}
			fl := &aFlow{c: c, info: info, ctxErrNonNil: true, tagless: aTagless(s.unit.body),
				bad: func(n ast.Node) string {
					if ss, ok := n.(*ast.SendStmt); ok {
						if a.find(aRootObj(info, ss.Chan)) == s.root {
							return "sends again"
						}
					}
					return ""
				}}
			if w := fl.run(b, 0, nil); w != nil {
				witness, witnessCase = w, cc.cc
				break
			}
		}
		if witnessCase != nil && witness == nil {
			continue // undecided already emitted
		}
		if witness != nil {
			emit(Violation, fmt.Sprintf("send on %s in pool %s: the cancellation case at %s does not leave the sending loop - after it the send is reachable again (an unlabelled break inside a select leaves only the select); %s",
				chText, owner, c.Position(witnessCase.Pos()), why), witness)
			continue
		}
		emit(OK, fmt.Sprintf("send on %s in pool %s is a select case next to a receive from %s, which is signalled whenever %s, and that case leaves the sending loop%s",
			chText, owner, strings.Join(names, ", "), why, aNotes(notes)), nil)
	}
	return out
}

func aNotes(n []string) string {
	if len(n) == 0 {
		return ""
	}
	return " (" + strings.Join(n, "; ") + ")"
}

func aExitList(c *Ctx, es []aExit) string {
	var parts []string
	for _, e := range es {
		parts = append(parts, fmt.Sprintf("%s at %s", e.what, c.Position(e.pos)))
	}
	return strings.Join(parts, "; ")
}
