package main

import (
	"fmt"
	"go/ast"
	"go/types"
	"sort"
)

// PKG-STATE (C33, C32): tiles are encoded, and GeoJSON is marshalled, once per request, on as many
// goroutines as there are requests. A package-level slice or map that a function of these packages
// writes (a scratch buffer "reused between calls to save allocations") is shared by all of them:
// one request's projected ring is overwritten by another's while it is still being encoded, and
// the tile decodes to another tile's polygon.
//
// Subjects, by type (packages renderer and geojson): every package-level variable of slice, map
// or pointer type. Obligation: no function other than init assigns it, assigns one of its
// elements, or re-slices it into a variable it then writes through. Read-only tables satisfy it.
func init() {
	register(&Rule{
		Name:    "PKG-STATE",
		IR:      "ast",
		Props:   []string{"C33", "C32"},
		Floor:   1,
		FloorBy: map[string]int{"C33": 1, "C32": 0},
		Doc:     "the packages that serve concurrent requests (tile renderer, GeoJSON) keep no mutable package-level slices or maps: every package-level variable of such a type is written by init only",
		Run:     runPkgState,
	})
}

func runPkgState(c *Ctx) []Obligation {
	var out []Obligation
	for _, rel := range []string{"renderer", "geojson"} {
		p := c.Pkg(rel)
		if p == nil {
			continue
		}
		info := p.TypesInfo
		prop := "C33"
		if rel == "geojson" {
			prop = "C32"
		}
		vars := map[types.Object]string{}
		for _, name := range p.Types.Scope().Names() {
			v, ok := p.Types.Scope().Lookup(name).(*types.Var)
			if !ok {
				continue
			}
			switch v.Type().Underlying().(type) {
			case *types.Slice, *types.Map, *types.Pointer:
				vars[v] = ""
			}
		}
		for _, fd := range c.FuncDecls(p) {
			if fd.Body == nil || (fd.Recv == nil && fd.Name.Name == "init") {
				continue
			}
			// locals that alias a package variable (x := pkgVar[a:b], x := pkgVar)
			alias := map[types.Object]types.Object{}
			root := func(e ast.Expr) types.Object {
				for {
					switch x := ast.Unparen(e).(type) {
					case *ast.IndexExpr:
						e = x.X
					case *ast.SliceExpr:
						e = x.X
					case *ast.StarExpr:
						e = x.X
					case *ast.Ident:
						o := info.Uses[x]
						if o == nil {
							o = info.Defs[x]
						}
						if a, ok := alias[o]; ok {
							return a
						}
						return o
					default:
						return nil
					}
				}
			}
			ast.Inspect(fd.Body, func(n ast.Node) bool {
				as, ok := n.(*ast.AssignStmt)
				if !ok {
					return true
				}
				for i, l := range as.Lhs {
					if i < len(as.Rhs) {
						if id, ok := l.(*ast.Ident); ok {
							if r := root(as.Rhs[i]); r != nil {
								if _, isPkg := vars[r]; isPkg {
									if o := info.Defs[id]; o != nil {
										alias[o] = r
									} else if o := info.Uses[id]; o != nil {
										if _, self := vars[o]; !self {
											alias[o] = r
										}
									}
								}
							}
						}
					}
					if r := root(l); r != nil {
						if _, isPkg := vars[r]; isPkg && vars[r] == "" {
							// a plain rebinding of a local alias is not a write to the variable
							if id, ok := l.(*ast.Ident); ok && info.Uses[id] != r && info.Defs[id] != r {
								continue
							}
							vars[r] = fmt.Sprintf("%s writes it at %s (%s)", c.FuncName(p, fd), c.Position(as.Pos()), srcText(c.Fset, as))
						}
					}
				}
				return true
			})
		}
		var vs []types.Object
		for v := range vars {
			vs = append(vs, v)
		}
		sort.Slice(vs, func(i, j int) bool { return vs[i].Name() < vs[j].Name() })
		for _, v := range vs {
			ob := Obligation{Key: rel + "." + v.Name(), Props: []string{prop}, Pos: c.Position(v.Pos()), Status: OK,
				Detail: fmt.Sprintf("package-level %s %s is written by init only", types.TypeString(v.Type(), types.RelativeTo(p.Types)), v.Name())}
			if vars[v] != "" {
				ob.Status = Violation
				ob.Detail = fmt.Sprintf("package-level %s %s is mutable state shared by every request: %s; two requests on different goroutines overwrite each other's data", types.TypeString(v.Type(), types.RelativeTo(p.Types)), v.Name(), vars[v])
			}
			out = append(out, ob)
		}
	}
	return out
}
