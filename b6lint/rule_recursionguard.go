package main

import (
	"fmt"
	"go/token"
	"go/types"
	"sort"

	"golang.org/x/tools/go/ssa"
)

// RECURSION-GUARD (C15): a directly recursive function that carries an accumulating map (a
// parameter of map or pointer-to-map type which the function stores into and passes unchanged to
// the recursive call) and recurses on a node taken from another map (an argument of the recursive
// call computed from a lookup in / range over a map that is not the accumulator) walks a graph
// that may contain cycles. Every recursive call must then be control dependent on a lookup of
// the accumulator for the node about to be visited, otherwise a cycle recurses for ever.
//
// Decided on SSA, for every function of every module package that has this shape (nothing is
// matched by name); one obligation per recursive call site. Accepted guard: a branch whose
// condition is computed from a lookup L of the accumulator (plain or comma-ok), such that
//   - the recursive call is reachable from exactly one outcome of the branch (control dependence),
//   - L's key is (a) a value the node argument of the call is computed from
//     (`if !acc[n] { acc[n] = true; rec(n.Next(), acc) }`), (b) computed from the node argument, or
//     (c) the function's own node parameter (entry guard `if acc[id] { return }; acc[id] = true`),
//   - and a store acc[key] = ... with the same key is executed before the call on every path
//     (it dominates the call): a test without recording the node does not bound the recursion.
//
// Two SSA values are the same key when they are the same value or the same pure accessor chain
// (field reads, conversions, parameterless method calls on the same receiver).
func init() {
	register(&Rule{
		Name:  "RECURSION-GUARD",
		IR:    "ssa",
		Props: []string{"C15"},
		Floor: 1, // ingest.(*FeatureReferencesByID).findReferences
		Doc: "every directly recursive function that passes an accumulating map along and recurses on nodes read from another map " +
			"makes the recursive call control dependent on a lookup of the accumulator for the node about to be visited",
		Run: runRecursionGuard,
	})
}

func runRecursionGuard(c *Ctx) []Obligation {
	c.BuildSSA()
	var out []Obligation
	for _, p := range c.SortedPkgs() {
		for _, fd := range c.FuncDecls(p) {
			obj, _ := p.TypesInfo.Defs[fd.Name].(*types.Func)
			if obj == nil {
				continue
			}
			fn := c.SSAFunc(obj)
			if fn == nil || len(fn.Blocks) == 0 {
				continue
			}
			out = append(out, eRecursionGuard(c, fn, c.FuncName(p, fd))...)
		}
	}
	return out
}

// eDerefOf: value v is the parameter prm or a load through it.
func eDerefOf(v ssa.Value, prm *ssa.Parameter) bool {
	for i := 0; i < 4; i++ {
		if v == ssa.Value(prm) {
			return true
		}
		u, ok := v.(*ssa.UnOp)
		if !ok || u.Op != token.MUL {
			return false
		}
		v = u.X
	}
	return false
}

func eIsMapish(t types.Type) bool {
	if p, ok := t.Underlying().(*types.Pointer); ok {
		t = p.Elem()
	}
	_, ok := t.Underlying().(*types.Map)
	return ok
}

func eSlice(v ssa.Value) map[ssa.Value]bool {
	seen := map[ssa.Value]bool{}
	var rec func(v ssa.Value, d int)
	rec = func(v ssa.Value, d int) {
		if v == nil || seen[v] || d > 32 {
			return
		}
		seen[v] = true
		if in, ok := v.(ssa.Instruction); ok {
			for _, op := range in.Operands(nil) {
				if *op != nil {
					rec(*op, d+1)
				}
			}
		}
	}
	rec(v, 0)
	return seen
}

func eRecursionGuard(c *Ctx, fn *ssa.Function, name string) []Obligation {
	// direct recursive calls
	var calls []*ssa.Call
	for _, b := range fn.Blocks {
		for _, in := range b.Instrs {
			if call, ok := in.(*ssa.Call); ok && call.Common().StaticCallee() == fn {
				calls = append(calls, call)
			}
		}
	}
	if len(calls) == 0 {
		return nil
	}
	sort.Slice(calls, func(i, j int) bool { return calls[i].Pos() < calls[j].Pos() })
	var out []Obligation
	ord := 0
	for _, call := range calls {
		args := call.Common().Args
		if len(args) != len(fn.Params) {
			continue
		}
		// accumulator: a map-ish parameter passed along unchanged and stored into
		acc := -1
		for i, prm := range fn.Params {
			if !eIsMapish(prm.Type()) || args[i] != ssa.Value(prm) {
				continue
			}
			stored := false
			for _, b := range fn.Blocks {
				for _, in := range b.Instrs {
					if mu, ok := in.(*ssa.MapUpdate); ok && eDerefOf(mu.Map, prm) {
						stored = true
					}
				}
			}
			if stored {
				acc = i
				break
			}
		}
		if acc < 0 {
			continue
		}
		accP := fn.Params[acc]
		// node arguments: computed from a read of another map
		otherMapRead := func(v ssa.Value) bool {
			switch x := v.(type) {
			case *ssa.Lookup:
				_, isMap := x.X.Type().Underlying().(*types.Map)
				return isMap && !eDerefOf(x.X, accP)
			case *ssa.Range:
				_, isMap := x.X.Type().Underlying().(*types.Map)
				return isMap && !eDerefOf(x.X, accP)
			}
			return false
		}
		var nodes []int
		for i, a := range args {
			if i == acc || a == ssa.Value(fn.Params[i]) {
				continue
			}
			if eDependsOn(a, otherMapRead) {
				nodes = append(nodes, i)
			}
		}
		if len(nodes) == 0 {
			continue
		}
		ord++
		ob := Obligation{Key: fmt.Sprintf("%s#%d", name, ord), Pos: c.Position(call.Pos())}
		// guards
		guarded, why := "", ""
		for _, d := range fn.Blocks {
			if len(d.Instrs) == 0 {
				continue
			}
			ifi, ok := d.Instrs[len(d.Instrs)-1].(*ssa.If)
			if !ok {
				continue
			}
			var look *ssa.Lookup
			eDependsOn(ifi.Cond, func(v ssa.Value) bool {
				if l, ok := v.(*ssa.Lookup); ok && eDerefOf(l.X, accP) {
					look = l
					return true
				}
				return false
			})
			if look == nil {
				continue
			}
			// control dependence: the call is reachable from exactly one outcome without passing d again
			r0 := eReachAvoiding(d.Succs[0], d)[call.Block()]
			r1 := eReachAvoiding(d.Succs[1], d)[call.Block()]
			if r0 == r1 {
				continue
			}
			key := look.Index
			keySlice := eSlice(key)
			related := false
			for _, ni := range nodes {
				for v := range eSlice(args[ni]) {
					if eSameSSA(v, key, 0) { // (a) the node argument is computed from the key
						related = true
					}
				}
				for v := range keySlice {
					if eSameSSA(v, args[ni], 0) { // (b) the key is computed from the node argument
						related = true
					}
				}
				if eDirectlyFrom(key, fn.Params[ni], 0) { // (c) the key is the function's own node parameter
					related = true
				}
			}
			if !related {
				if why == "" {
					why = fmt.Sprintf("the test at %s looks up %s for a key unrelated to the node about to be visited", c.Position(look.Pos()), accP.Name())
				}
				continue
			}
			marked := false
			for _, b := range fn.Blocks {
				for _, in := range b.Instrs {
					if mu, ok := in.(*ssa.MapUpdate); ok && eDerefOf(mu.Map, accP) && eSameSSA(mu.Key, key, 0) && eInstrDominates(mu, call) {
						marked = true
					}
				}
			}
			if !marked {
				if why == "" {
					why = fmt.Sprintf("the test at %s looks up %s but the key is not recorded in %s before the recursive call", c.Position(look.Pos()), accP.Name(), accP.Name())
				}
				continue
			}
			guarded = fmt.Sprintf("guarded by a test of the accumulator lookup at %s for a key that is recorded before the call", c.Position(look.Pos()))
			break
		}
		pn := func(i int) string { return fn.Params[i].Name() }
		if guarded != "" {
			ob.Status = OK
			ob.Detail = fmt.Sprintf("recursive call on node %s with accumulator %s is %s", pn(nodes[0]), pn(acc), guarded)
		} else {
			ob.Status = Violation
			if why == "" {
				why = fmt.Sprintf("the call does not depend on any lookup of %s", pn(acc))
			}
			ob.Detail = fmt.Sprintf("%s calls itself on a node (%s) read from a map while passing the accumulating map %s along, but %s: a cycle among the nodes recurses without end",
				fn.Name(), pn(nodes[0]), pn(acc), why)
		}
		out = append(out, ob)
	}
	return out
}

// eReachAvoiding returns the blocks reachable from start without entering avoid.
func eReachAvoiding(start, avoid *ssa.BasicBlock) map[*ssa.BasicBlock]bool {
	seen := map[*ssa.BasicBlock]bool{}
	var walk func(*ssa.BasicBlock)
	walk = func(b *ssa.BasicBlock) {
		if b == avoid || seen[b] {
			return
		}
		seen[b] = true
		for _, s := range b.Succs {
			walk(s)
		}
	}
	walk(start)
	return seen
}

// eSameSSA: the two values are the same value or the same pure computation (conversions, field
// reads, extractions, and calls of the same parameterless method on the same receiver).
func eSameSSA(a, b ssa.Value, d int) bool {
	if a == b {
		return true
	}
	if a == nil || b == nil || d > 6 {
		return false
	}
	switch x := a.(type) {
	case *ssa.UnOp:
		y, ok := b.(*ssa.UnOp)
		return ok && x.Op == y.Op && eSameSSA(x.X, y.X, d+1)
	case *ssa.FieldAddr:
		y, ok := b.(*ssa.FieldAddr)
		return ok && x.Field == y.Field && eSameSSA(x.X, y.X, d+1)
	case *ssa.Field:
		y, ok := b.(*ssa.Field)
		return ok && x.Field == y.Field && eSameSSA(x.X, y.X, d+1)
	case *ssa.Extract:
		y, ok := b.(*ssa.Extract)
		return ok && x.Index == y.Index && eSameSSA(x.Tuple, y.Tuple, d+1)
	case *ssa.ChangeType:
		y, ok := b.(*ssa.ChangeType)
		return ok && eSameSSA(x.X, y.X, d+1)
	case *ssa.MakeInterface:
		y, ok := b.(*ssa.MakeInterface)
		return ok && eSameSSA(x.X, y.X, d+1)
	case *ssa.ChangeInterface:
		y, ok := b.(*ssa.ChangeInterface)
		return ok && eSameSSA(x.X, y.X, d+1)
	case *ssa.Convert:
		y, ok := b.(*ssa.Convert)
		return ok && types.Identical(x.Type(), y.Type()) && eSameSSA(x.X, y.X, d+1)
	case *ssa.Call:
		y, ok := b.(*ssa.Call)
		if !ok {
			return false
		}
		cx, cy := x.Common(), y.Common()
		if cx.IsInvoke() != cy.IsInvoke() || len(cx.Args) != len(cy.Args) {
			return false
		}
		if cx.IsInvoke() {
			return len(cx.Args) == 0 && cx.Method == cy.Method && eSameSSA(cx.Value, cy.Value, d+1)
		}
		fx, fy := cx.StaticCallee(), cy.StaticCallee()
		return fx != nil && fx == fy && fx.Signature.Recv() != nil && len(cx.Args) == 1 && eSameSSA(cx.Args[0], cy.Args[0], d+1)
	}
	return false
}

// eDirectlyFrom: v is the parameter, a conversion of it, or a parameterless method call on it.
func eDirectlyFrom(v ssa.Value, prm *ssa.Parameter, d int) bool {
	if v == ssa.Value(prm) {
		return true
	}
	if d > 6 {
		return false
	}
	switch x := v.(type) {
	case *ssa.ChangeType:
		return eDirectlyFrom(x.X, prm, d+1)
	case *ssa.Convert:
		return eDirectlyFrom(x.X, prm, d+1)
	case *ssa.MakeInterface:
		return eDirectlyFrom(x.X, prm, d+1)
	case *ssa.ChangeInterface:
		return eDirectlyFrom(x.X, prm, d+1)
	case *ssa.Call:
		cc := x.Common()
		if cc.IsInvoke() {
			return len(cc.Args) == 0 && eDirectlyFrom(cc.Value, prm, d+1)
		}
		return cc.StaticCallee() != nil && cc.StaticCallee().Signature.Recv() != nil && len(cc.Args) == 1 && eDirectlyFrom(cc.Args[0], prm, d+1)
	}
	return false
}
