package main

import (
	"fmt"
	"go/ast"
	"go/token"
	"go/types"
	"sort"
	"strings"

	"golang.org/x/tools/go/cfg"
	"golang.org/x/tools/go/packages"
	"golang.org/x/tools/go/types/typeutil"
)

// callee resolves the static callee of a call through type information (nil for dynamic calls).
func callee(info *types.Info, call *ast.CallExpr) types.Object {
	return typeutil.Callee(info, call)
}

// calleeFunc returns the *types.Func called, or nil.
func calleeFunc(info *types.Info, call *ast.CallExpr) *types.Func {
	f, _ := typeutil.Callee(info, call).(*types.Func)
	return f
}

// isBuiltin reports a call of the named builtin.
func isBuiltin(info *types.Info, call *ast.CallExpr, name string) bool {
	id, ok := ast.Unparen(call.Fun).(*ast.Ident)
	if !ok {
		return false
	}
	b, ok := info.Uses[id].(*types.Builtin)
	return ok && b.Name() == name
}

// noReturn reports calls that never return: panic, os.Exit, log.Fatal*, log.Panic*.
func noReturn(info *types.Info, call *ast.CallExpr) bool {
	if isBuiltin(info, call, "panic") {
		return true
	}
	f := calleeFunc(info, call)
	if f == nil || f.Pkg() == nil {
		return false
	}
	switch f.Pkg().Path() {
	case "os":
		return f.Name() == "Exit"
	case "log":
		return strings.HasPrefix(f.Name(), "Fatal") || strings.HasPrefix(f.Name(), "Panic")
	}
	return false
}

// newCFG builds the control-flow graph of a function body.
func newCFG(info *types.Info, body *ast.BlockStmt) *cfg.CFG {
	return cfg.New(body, func(call *ast.CallExpr) bool { return !noReturn(info, call) })
}

// endsInNoReturn reports a block whose last node is a call that never returns.
func endsInNoReturn(info *types.Info, b *cfg.Block) bool {
	if len(b.Nodes) == 0 {
		return false
	}
	if es, ok := b.Nodes[len(b.Nodes)-1].(*ast.ExprStmt); ok {
		if call, ok := es.X.(*ast.CallExpr); ok {
			return noReturn(info, call)
		}
	}
	return false
}

// isExitBlock: a live block without successors that leaves the function normally
// (return statement or falling off the end), not through a call that never returns.
func isExitBlock(info *types.Info, b *cfg.Block) bool {
	// The block after the last case of a select without default has no successors either,
	// but control never gets there.
	return b.Live && len(b.Succs) == 0 && b.Kind != cfg.KindSelectAfterCase && !endsInNoReturn(info, b)
}

// nodeLoc identifies a node inside a CFG.
type nodeLoc struct {
	b *cfg.Block
	i int
}

// findNode locates the CFG node that contains the given syntax node (by position range).
func findNode(g *cfg.CFG, n ast.Node) (nodeLoc, bool) {
	for _, b := range g.Blocks {
		for i, x := range b.Nodes {
			if x.Pos() <= n.Pos() && n.End() <= x.End() {
				return nodeLoc{b, i}, true
			}
		}
	}
	return nodeLoc{}, false
}

// pathSearch explores the CFG forward from just after `from`. stop(node) ends a path
// successfully (the path is discharged); bad(node) makes the path a witness. When a path
// reaches a function exit, exitIsBad decides. It returns a witness (list of node positions)
// or nil when every path is discharged.
type pathSearch struct {
	c         *Ctx
	info      *types.Info
	stop      func(n ast.Node) bool
	bad       func(n ast.Node) bool
	exitIsBad bool
}

func (ps *pathSearch) run(from nodeLoc) []string {
	type item struct {
		b     *cfg.Block
		start int
		trail []string
	}
	seen := map[*cfg.Block]bool{}
	work := []item{{from.b, from.i + 1, nil}}
	for len(work) > 0 {
		it := work[0]
		work = work[1:]
		stopped := false
		trail := it.trail
		for i := it.start; i < len(it.b.Nodes); i++ {
			n := it.b.Nodes[i]
			if ps.bad != nil && ps.bad(n) {
				return append(append([]string(nil), trail...), "reaches "+ps.c.Position(n.Pos())+" "+nodeText(ps.c.Fset, n))
			}
			if ps.stop != nil && ps.stop(n) {
				stopped = true
				break
			}
		}
		if stopped {
			continue
		}
		if len(it.b.Succs) == 0 {
			if ps.exitIsBad && isExitBlock(ps.info, it.b) {
				where := "end of function"
				if len(it.b.Nodes) > 0 {
					last := it.b.Nodes[len(it.b.Nodes)-1]
					where = ps.c.Position(last.Pos()) + " " + nodeText(ps.c.Fset, last)
				}
				return append(append([]string(nil), trail...), "leaves the function at "+where)
			}
			continue
		}
		for _, s := range it.b.Succs {
			if seen[s] {
				continue
			}
			seen[s] = true
			t := trail
			if len(s.Nodes) > 0 {
				t = append(append([]string(nil), trail...), fmt.Sprintf("%s (%s)", ps.c.Position(s.Nodes[0].Pos()), s.Kind))
			}
			work = append(work, item{s, 0, t})
		}
	}
	return nil
}

func nodeText(fset *token.FileSet, n ast.Node) string {
	s := ""
	switch x := n.(type) {
	case ast.Expr:
		s = types.ExprString(x)
	case *ast.ReturnStmt:
		s = "return"
		for i, r := range x.Results {
			if i > 0 {
				s += ","
			}
			s += " " + types.ExprString(r)
		}
	case *ast.ExprStmt:
		s = types.ExprString(x.X)
	case *ast.SendStmt:
		s = types.ExprString(x.Chan) + " <- " + types.ExprString(x.Value)
	case *ast.AssignStmt:
		var l, r []string
		for _, e := range x.Lhs {
			l = append(l, types.ExprString(e))
		}
		for _, e := range x.Rhs {
			r = append(r, types.ExprString(e))
		}
		s = strings.Join(l, ", ") + " " + x.Tok.String() + " " + strings.Join(r, ", ")
	default:
		s = fmt.Sprintf("%T", n)
	}
	if len(s) > 90 {
		s = s[:87] + "..."
	}
	return s
}

// sameExpr compares two expressions structurally after resolving identifiers to objects.
func sameExpr(info *types.Info, a, b ast.Expr) bool {
	a, b = ast.Unparen(a), ast.Unparen(b)
	switch x := a.(type) {
	case *ast.Ident:
		y, ok := b.(*ast.Ident)
		if !ok {
			return false
		}
		ox, oy := info.ObjectOf(x), info.ObjectOf(y)
		if ox != nil || oy != nil {
			return ox == oy
		}
		return x.Name == y.Name
	case *ast.SelectorExpr:
		y, ok := b.(*ast.SelectorExpr)
		return ok && x.Sel.Name == y.Sel.Name && sameExpr(info, x.X, y.X)
	case *ast.StarExpr:
		y, ok := b.(*ast.StarExpr)
		return ok && sameExpr(info, x.X, y.X)
	case *ast.UnaryExpr:
		y, ok := b.(*ast.UnaryExpr)
		return ok && x.Op == y.Op && sameExpr(info, x.X, y.X)
	case *ast.BinaryExpr:
		y, ok := b.(*ast.BinaryExpr)
		return ok && x.Op == y.Op && sameExpr(info, x.X, y.X) && sameExpr(info, x.Y, y.Y)
	case *ast.IndexExpr:
		y, ok := b.(*ast.IndexExpr)
		return ok && sameExpr(info, x.X, y.X) && sameExpr(info, x.Index, y.Index)
	case *ast.CallExpr:
		y, ok := b.(*ast.CallExpr)
		if !ok || len(x.Args) != len(y.Args) || !sameExpr(info, x.Fun, y.Fun) {
			return false
		}
		for i := range x.Args {
			if !sameExpr(info, x.Args[i], y.Args[i]) {
				return false
			}
		}
		return true
	case *ast.BasicLit:
		y, ok := b.(*ast.BasicLit)
		return ok && x.Kind == y.Kind && x.Value == y.Value
	case *ast.TypeAssertExpr:
		y, ok := b.(*ast.TypeAssertExpr)
		return ok && sameExpr(info, x.X, y.X) && types.ExprString(x.Type) == types.ExprString(y.Type)
	case *ast.SliceExpr:
		y, ok := b.(*ast.SliceExpr)
		if !ok || !sameExpr(info, x.X, y.X) {
			return false
		}
		eq := func(p, q ast.Expr) bool {
			if p == nil || q == nil {
				return p == nil && q == nil
			}
			return sameExpr(info, p, q)
		}
		return eq(x.Low, y.Low) && eq(x.High, y.High) && eq(x.Max, y.Max)
	}
	return types.ExprString(a) == types.ExprString(b)
}

// funcUnit is a function declaration or literal with a body.
type funcUnit struct {
	pkg  *packages.Package
	decl *ast.FuncDecl // enclosing declaration
	lit  *ast.FuncLit  // nil for the declaration itself
	body *ast.BlockStmt
	name string
}

// units enumerates declarations (and optionally the literals inside them) of a package.
func (c *Ctx) units(p *packages.Package, withLits bool) []funcUnit {
	var out []funcUnit
	for _, fd := range c.FuncDecls(p) {
		name := c.FuncName(p, fd)
		out = append(out, funcUnit{p, fd, nil, fd.Body, name})
		if withLits {
			n := 0
			ast.Inspect(fd.Body, func(x ast.Node) bool {
				if fl, ok := x.(*ast.FuncLit); ok {
					n++
					out = append(out, funcUnit{p, fd, fl, fl.Body, fmt.Sprintf("%s$%d", name, n)})
				}
				return true
			})
		}
	}
	return out
}

// inspectShallow walks a body without descending into nested function literals.
func inspectShallow(body ast.Node, f func(ast.Node) bool) {
	ast.Inspect(body, func(n ast.Node) bool {
		if n == nil {
			return true
		}
		if _, ok := n.(*ast.FuncLit); ok && n != body {
			return false
		}
		return f(n)
	})
}

// relPkg is the package path relative to the module ("b6" for the root).
func relPkg(p *packages.Package) string {
	rel := strings.TrimPrefix(strings.TrimPrefix(p.PkgPath, ModulePath), "/")
	if rel == "" {
		return "b6"
	}
	return rel
}

// namedOf strips pointers and returns the named type, or nil.
func namedOf(t types.Type) *types.Named {
	for {
		switch x := t.(type) {
		case *types.Pointer:
			t = x.Elem()
		case *types.Alias:
			t = types.Unalias(x)
		case *types.Named:
			return x
		default:
			return nil
		}
	}
}

// isNamed reports whether t (through pointers) is the named type pkgpath.name.
func isNamed(t types.Type, pkgpath, name string) bool {
	n := namedOf(t)
	if n == nil || n.Obj().Pkg() == nil {
		return false
	}
	return n.Obj().Name() == name && n.Obj().Pkg().Path() == pkgpath
}

func sortedKeys[V any](m map[string]V) []string {
	var ks []string
	for k := range m {
		ks = append(ks, k)
	}
	sort.Strings(ks)
	return ks
}

// enclosing returns the chain of nodes from the body root down to the target.
func enclosing(root ast.Node, target ast.Node) []ast.Node {
	var path []ast.Node
	var found []ast.Node
	ast.Inspect(root, func(n ast.Node) bool {
		if found != nil {
			return false
		}
		if n == nil {
			path = path[:len(path)-1]
			return true
		}
		path = append(path, n)
		if n == target {
			found = append([]ast.Node(nil), path...)
			return false
		}
		return true
	})
	return found
}
