package main

import (
	"fmt"
	"go/token"
	"go/types"
	"sort"
	"strings"

	"golang.org/x/tools/go/ssa"
)

// LOCK-CONSISTENCY (C35; C09 and C35 for package encoding): a struct that owns a sync.Mutex /
// sync.RWMutex and writes some of its fields under that lock has made those fields lock-protected.
// Every other access to them from code that runs concurrently has to hold the lock as well: an
// unlocked read in front of the lock (a "fast path", a value computed before Lock() and used
// after it) sees half-built or stale state. GUARDED-BY checks writes only; this rule checks reads
// too.
//
// Slots, derived per owner type T (struct types of ingest/compact, ingest and encoding with a
// mutex field of value type):
//   - locations: for every other field F two locations, the field itself (slice header, map or
//     pointer value, scalar, nested struct) and the elements reached through it (F[i], F[k] of a
//     map, *F of an array). A store to F also renews the elements;
//   - guarded locations: those written - field store, element store, map update - with T's lock
//     held exclusively in at least one function of the package (the object being written is not
//     one the function has just allocated);
//   - concurrent code: the functions of the package that lock T's mutex somewhere, plus the
//     functions they call statically with a *T among the arguments (transitively). Functions that
//     never lock and are not called from locking ones are other phases (constructors,
//     FinishReservation/WriteHeader/Lookup-style single-threaded steps, readers of a world that
//     has no writers any more): outside the slot, reported as info.
//
// Obligation, one per (function, T, field), key `func#Type.field`: every access to a guarded
// location in concurrent code holds the lock of the very object accessed: exclusively for writes,
// at least shared (RLock) for reads. Accesses are recognised on SSA: load / store of the field
// address, index / lookup / range / slice / map update through the loaded value, and the address
// or the loaded slice or map escaping (returned, passed to a call, stored) counts as a read of
// field and elements at that point. len(F), cap(F) and F == nil read the field only.
//
// Accepted idioms: must-lockset with Lock/RLock/Unlock/RUnlock on access paths, a deferred unlock
// holds to the end; a function that is unexported, never used as a value, not an interface
// method name and only called with the lock of the object it receives held starts with that lock
// (fillGeometry, featureWithLock, validateArea, validateQueue); accesses through sync/atomic
// (atomic.AddUint64(&b.pointers[i], ...)) need no lock; copy(F[a:], data) under RLock is an
// element access that needs the lock only shared (Buffer.WriteAt: writers of disjoint ranges
// share the lock, growth takes it exclusively); objects allocated in the function itself;
// accesses on a crash path - a block from which no return is reachable, i.e. every way on ends
// in panic (the message of `b.lock.Unlock(); panic(fmt.Sprintf(..., b.pointers[i], ...))`): the
// process is going down, nothing the program does afterwards can depend on the value.
// Double-checked locking is not accepted: the first, unlocked read is a violation.
//
// Not covered: mutexes kept in slices (ingest.IDSet.locks) or local variables (PARALLEL-EFFECTS
// covers captured ones); accesses from other packages to exported fields; what callers do with a
// pointer returned under the lock (&m.polyline).
func init() {
	register(&Rule{
		Name:  "LOCK-CONSISTENCY",
		IR:    "ssa",
		Props: []string{"C35", "C09", "C36"}, // C36: the builders of package encoding are written by the parallel build stages
		// non-info obligations on today's tree: encoding 5 (Buffer.WriteAt, ByteArraysBuilder.WriteItem,
		// StringTableBuilder.Add, Write x2), ingest 5 (watcher x2, MutableWorlds x3), ingest/compact 15
		Floor:   25,
		FloorBy: map[string]int{"C09": 5, "C35": 25, "C36": 5},
		Doc: "for every mutex-owning struct of ingest/compact, ingest and encoding: the fields (and their elements) written under the owner's lock are lock-protected, and every other access to them " +
			"- reads included - in functions that take that lock, or are called from such with the object, holds the lock of the object accessed (shared suffices for reads); sync/atomic accesses are exempt",
		Run: runLockConsistency,
	})
}

type hLCAccess struct {
	fn    *ssa.Function
	at    ssa.Instruction
	owner ssa.Value
	typ   *types.Named
	field string
	elem  bool // element level (else the field itself)
	write bool
	note  string
}

type hLCKey struct {
	typ   *types.TypeName
	field string
	elem  bool
}

func hLCIsAtomicOrSync(com *ssa.CallCommon) (atomic bool, builtin string) {
	if b, ok := com.Value.(*ssa.Builtin); ok {
		return false, b.Name()
	}
	if f := com.StaticCallee(); f != nil && f.Pkg != nil && f.Pkg.Pkg.Path() == "sync/atomic" {
		return true, ""
	}
	if f := com.StaticCallee(); f != nil && f.Signature.Recv() != nil {
		if n := namedOf(f.Signature.Recv().Type()); n != nil && n.Obj().Pkg() != nil && n.Obj().Pkg().Path() == "sync/atomic" {
			return true, ""
		}
	}
	return false, ""
}

// hLCCollect lists the accesses of fn to fields of owner types.
func hLCCollect(fn *ssa.Function, owners map[*types.TypeName]bool) []hLCAccess {
	var out []hLCAccess
	for _, b := range fn.Blocks {
		for _, ins := range b.Instrs {
			fa, ok := ins.(*ssa.FieldAddr)
			if !ok {
				continue
			}
			n := namedOf(fa.X.Type())
			if n == nil || !owners[n.Obj()] {
				continue
			}
			st, ok := n.Underlying().(*types.Struct)
			if !ok || fa.Field >= st.NumFields() || hIsMutexType(st.Field(fa.Field).Type()) {
				continue
			}
			if _, fresh := fa.X.(*ssa.Alloc); fresh {
				continue // object under construction
			}
			base := hLCAccess{fn: fn, owner: fa.X, typ: n, field: st.Field(fa.Field).Name()}
			add := func(at ssa.Instruction, elem, write bool, note string) {
				a := base
				a.at, a.elem, a.write, a.note = at, elem, write, note
				out = append(out, a)
			}
			seen := map[ssa.Value]bool{}
			var visitAddr func(addr ssa.Value, elem bool)
			var visitVal func(v ssa.Value)
			escape := func(at ssa.Instruction, what string) {
				add(at, false, false, what)
				add(at, true, false, what)
			}
			visitAddr = func(addr ssa.Value, elem bool) {
				if seen[addr] {
					return
				}
				seen[addr] = true
				refs := addr.Referrers()
				if refs == nil {
					return
				}
				for _, r := range *refs {
					switch x := r.(type) {
					case *ssa.UnOp:
						if x.Op == token.MUL {
							add(x, elem, false, "read")
							if !elem {
								visitVal(x)
							}
						}
					case *ssa.Store:
						if x.Addr == addr {
							add(x, elem, true, "write")
						} else {
							escape(x, "address escapes (stored / returned)")
						}
					case *ssa.FieldAddr:
						visitAddr(x, elem) // field of a nested struct: same location
					case *ssa.IndexAddr:
						if x.X == addr {
							visitAddr(x, true) // element of an array field
						}
					case ssa.CallInstruction:
						if at, _ := hLCIsAtomicOrSync(x.Common()); at {
							continue
						}
						if op, _ := hMutexOp(x.Common()); op != "" {
							continue
						}
						escape(x, "address passed to "+hLCCallName(x.Common()))
					case *ssa.DebugRef:
					default:
						escape(r, "address escapes")
					}
				}
			}
			visitVal = func(v ssa.Value) {
				if seen[v] {
					return
				}
				seen[v] = true
				switch v.Type().Underlying().(type) {
				case *types.Slice, *types.Map, *types.Array:
				default:
					return // scalars, pointers, interfaces: the value itself is all there is
				}
				refs := v.Referrers()
				if refs == nil {
					return
				}
				for _, r := range *refs {
					switch x := r.(type) {
					case *ssa.IndexAddr:
						if x.X == v {
							visitAddr(x, true)
						}
					case *ssa.Index:
						add(x, true, false, "read")
					case *ssa.Lookup:
						if x.X == v {
							add(x, true, false, "map read")
						}
					case *ssa.MapUpdate:
						if x.Map == v {
							add(x, true, true, "map update")
						}
					case *ssa.Range:
						add(x, true, false, "range")
					case *ssa.Slice:
						add(x, true, false, "slice of it")
					case *ssa.BinOp:
					case ssa.CallInstruction:
						_, bi := hLCIsAtomicOrSync(x.Common())
						switch bi {
						case "len", "cap":
						case "delete":
							add(x, true, true, "delete")
						default:
							add(x, true, false, "passed to "+hLCCallName(x.Common()))
						}
					case *ssa.DebugRef:
					default:
						if ri, ok := r.(ssa.Instruction); ok {
							add(ri, true, false, "value escapes")
						}
					}
				}
			}
			visitAddr(fa, false)
		}
	}
	return out
}

func hLCCallName(com *ssa.CallCommon) string {
	if b, ok := com.Value.(*ssa.Builtin); ok {
		return b.Name()
	}
	if f := com.StaticCallee(); f != nil {
		return f.Name()
	}
	if com.IsInvoke() {
		return com.Method.Name()
	}
	return "a function value"
}

func runLockConsistency(c *Ctx) []Obligation {
	c.BuildSSA()
	locker := hNewLocker(c)
	var out []Obligation
	for _, rel := range []string{"encoding", "ingest", "ingest/compact"} {
		p := c.Pkg(rel)
		if p == nil {
			out = append(out, Obligation{Key: rel + "#anchor", Status: Undecided, Detail: "package not loaded"})
			continue
		}
		props := []string{"C35"}
		if rel == "encoding" {
			props = []string{"C09", "C35", "C36"}
		}
		owners := map[*types.TypeName]bool{}
		sc := p.Types.Scope()
		for _, n := range sc.Names() {
			if tn, ok := sc.Lookup(n).(*types.TypeName); ok {
				if _, isStruct := tn.Type().Underlying().(*types.Struct); isStruct && len(hMutexFields(tn.Type())) > 0 {
					owners[tn] = true
				}
			}
		}
		var funcs []*ssa.Function
		for _, fn := range hModuleFuncs(c) {
			if pk := hFuncPkg(fn); pk != nil && pk.Pkg == p.Types {
				funcs = append(funcs, fn)
			}
		}
		// accesses, guarded locations, locking functions
		var accesses []hLCAccess
		guarded := map[hLCKey]string{}
		locking := map[*types.TypeName]map[*ssa.Function]bool{}
		holds := func(a hLCAccess, need int) bool {
			ls := locker.locks(a.fn)[a.at]
			for _, mf := range hMutexFields(a.typ) {
				if ls[hPath(a.owner)+"."+mf] >= need {
					return true
				}
			}
			return false
		}
		for _, fn := range funcs {
			for _, b := range fn.Blocks {
				for _, ins := range b.Instrs {
					ci, ok := ins.(ssa.CallInstruction)
					if !ok {
						continue
					}
					if op, addr := hMutexOp(ci.Common()); op == "Lock" || op == "RLock" {
						if fa, ok := addr.(*ssa.FieldAddr); ok {
							if n := namedOf(fa.X.Type()); n != nil && owners[n.Obj()] {
								if locking[n.Obj()] == nil {
									locking[n.Obj()] = map[*ssa.Function]bool{}
								}
								locking[n.Obj()][fn] = true
							}
						}
					}
				}
			}
			as := hLCCollect(fn, owners)
			accesses = append(accesses, as...)
			for _, a := range as {
				if a.write && holds(a, 2) {
					where := fmt.Sprintf("%s at %s", hSSAName(fn), c.Position(a.at.Pos()))
					if a.elem {
						if _, ok := guarded[hLCKey{a.typ.Obj(), a.field, true}]; !ok {
							guarded[hLCKey{a.typ.Obj(), a.field, true}] = where
						}
					} else {
						for _, e := range []bool{false, true} {
							if _, ok := guarded[hLCKey{a.typ.Obj(), a.field, e}]; !ok {
								guarded[hLCKey{a.typ.Obj(), a.field, e}] = where
							}
						}
					}
				}
			}
		}
		// concurrent code per type: locking functions and what they call with a *T
		slot := map[*types.TypeName]map[*ssa.Function]bool{}
		for tn, fs := range locking {
			slot[tn] = map[*ssa.Function]bool{}
			var work []*ssa.Function
			for f := range fs {
				slot[tn][f] = true
				work = append(work, f)
			}
			for len(work) > 0 {
				f := work[len(work)-1]
				work = work[:len(work)-1]
				for _, b := range f.Blocks {
					for _, ins := range b.Instrs {
						ci, ok := ins.(ssa.CallInstruction)
						if !ok {
							continue
						}
						g := ci.Common().StaticCallee()
						if g == nil || g.Blocks == nil || slot[tn][g] {
							continue
						}
						if pk := hFuncPkg(g); pk == nil || pk.Pkg != p.Types {
							continue
						}
						passes := false
						for _, a := range ci.Common().Args {
							if n := namedOf(a.Type()); n != nil && n.Obj() == tn {
								if _, isPtr := a.Type().Underlying().(*types.Pointer); isPtr {
									passes = true
								}
							}
						}
						if passes {
							slot[tn][g] = true
							work = append(work, g)
						}
					}
				}
			}
		}
		// obligations per (function, type, field)
		type group struct {
			fn    *ssa.Function
			tn    *types.TypeName
			field string
		}
		groups := map[group][]hLCAccess{}
		var order []group
		for _, a := range accesses {
			if _, ok := guarded[hLCKey{a.typ.Obj(), a.field, a.elem}]; !ok {
				continue
			}
			g := group{a.fn, a.typ.Obj(), a.field}
			if _, seen := groups[g]; !seen {
				order = append(order, g)
			}
			groups[g] = append(groups[g], a)
		}
		sort.SliceStable(order, func(i, j int) bool {
			if order[i].fn != order[j].fn {
				if order[i].fn.Pos() != order[j].fn.Pos() {
					return order[i].fn.Pos() < order[j].fn.Pos()
				}
				return order[i].fn.String() < order[j].fn.String()
			}
			if order[i].tn != order[j].tn {
				return order[i].tn.Name() < order[j].tn.Name()
			}
			return order[i].field < order[j].field
		})
		for _, g := range order {
			as := groups[g]
			sort.SliceStable(as, func(i, j int) bool { return as[i].at.Pos() < as[j].at.Pos() })
			ob := Obligation{Key: fmt.Sprintf("%s#%s.%s", hSSAName(g.fn), g.tn.Name(), g.field), Pos: c.Position(as[0].at.Pos()), Props: props}
			why := guarded[hLCKey{g.tn, g.field, true}]
			if !slot[g.tn][g.fn] {
				ob.Status = Info
				ob.Detail = fmt.Sprintf("%s accesses %s.%s (written under the lock by %s) but never takes that lock and no locking function calls it with the object: another phase, outside the slot", hSSAName(g.fn), g.tn.Name(), g.field, why)
				out = append(out, ob)
				continue
			}
			var bad []string
			seen := map[string]bool{}
			crash := 0
			for _, a := range as {
				if !hLCCanReturn(a.at.Block()) {
					crash++
					continue
				}
				need := 1
				if a.write {
					need = 2
				}
				if holds(a, need) {
					continue
				}
				what := "field"
				if a.elem {
					what = "elements"
				}
				mode := "held"
				if a.write {
					mode = "held exclusively"
				}
				s := fmt.Sprintf("%s of %s of %s.%s at %s without %s.%s %s (held here: %s)", a.note, what, g.tn.Name(), g.field, c.Position(a.at.Pos()), hPath(a.owner), strings.Join(hMutexFields(a.typ), "/"), mode, locker.locks(a.fn)[a.at])
				if !seen[s] {
					seen[s] = true
					bad = append(bad, s)
				}
			}
			if len(bad) > 0 {
				ob.Status = Violation
				ob.Detail = fmt.Sprintf("%s: %s; the location is written under the lock by %s, so a concurrent caller can observe it half-updated or stale", hSSAName(g.fn), bad[0], why)
				if w := locker.why[g.fn]; w != "" {
					ob.Detail += "; the lock is not inherited because " + w
				}
				ob.Path = bad
			} else {
				ob.Status = OK
				ob.Detail = fmt.Sprintf("%s: %d access(es) to %s.%s, all with the owner's lock held (protected since %s)", hSSAName(g.fn), len(as), g.tn.Name(), g.field, why)
				if len(locker.entry[g.fn]) > 0 {
					ob.Detail += " (lock inherited: every call site holds it)"
				}
				if crash > 0 {
					ob.Detail += fmt.Sprintf("; %d access(es) on a path that can only end in panic not examined", crash)
				}
			}
			out = append(out, ob)
		}
	}
	return out
}

// hLCCanReturn: a return instruction is reachable from the block.
func hLCCanReturn(b *ssa.BasicBlock) bool {
	seen := map[*ssa.BasicBlock]bool{b: true}
	work := []*ssa.BasicBlock{b}
	for len(work) > 0 {
		x := work[len(work)-1]
		work = work[:len(work)-1]
		if len(x.Instrs) > 0 {
			if _, ok := x.Instrs[len(x.Instrs)-1].(*ssa.Return); ok {
				return true
			}
		}
		for _, s := range x.Succs {
			if !seen[s] {
				seen[s] = true
				work = append(work, s)
			}
		}
	}
	return false
}
