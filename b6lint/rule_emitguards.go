package main

import (
	"fmt"
	"go/ast"
	"go/token"
	"go/types"
	"strings"
)

// EMIT-GUARDS (C21): the compiler brackets the code of a lambda body with a prologue (one OpStore
// per bound argument) and an epilogue (OpDiscard, which drops the frame of the calling expression
// from under the result). Both are emitted under a test of the same thing — "this target is a
// lambda" — once before and once after the body is compiled. The VM's stack is balanced only if
// the two tests agree: an epilogue that is emitted under a narrower test than the prologue (say,
// only when at least one argument is bound) leaves a frame on the stack for exactly the targets the
// narrower test excludes.
//
// Slots (by shape, package api): in a loop body (or function body) that contains a call compiling
// a sub-expression between them, the if statements without else whose bodies emit instructions
// (a call of a method named Append, directly or inside a loop) and whose conditions mention one
// common selector path, and the loops that emit at the level of the block itself (under no
// condition). Obligation per group: all conditions are the same expression (operands compared
// structurally with identifiers resolved); a loop under no condition agrees with no if.
func init() {
	register(&Rule{
		Name:  "EMIT-GUARDS",
		IR:    "ast",
		Props: []string{"C21"},
		Floor: 1,
		Doc:   "the prologue and the epilogue that the compiler emits around a lambda body are guarded by the same condition: what is pushed for a target before its body is compiled is dropped after it for exactly the same targets",
		Run:   runEmitGuards,
	})
}

func runEmitGuards(c *Ctx) []Obligation {
	var out []Obligation
	p := c.Pkg("api")
	if p == nil {
		return out
	}
	info := p.TypesInfo
	emits := func(n ast.Node) bool {
		found := false
		ast.Inspect(n, func(m ast.Node) bool {
			if call, ok := m.(*ast.CallExpr); ok {
				if sel, ok := ast.Unparen(call.Fun).(*ast.SelectorExpr); ok && sel.Sel.Name == "Append" && len(call.Args) == 1 {
					if nt := namedOf(info.TypeOf(call.Args[0])); nt != nil && nt.Obj().Name() == "Instruction" {
						found = true
					}
				}
			}
			return true
		})
		return found
	}
	selectors := func(e ast.Expr) map[string]bool {
		set := map[string]bool{}
		ast.Inspect(e, func(m ast.Node) bool {
			if sel, ok := m.(*ast.SelectorExpr); ok {
				if s := info.Selections[sel]; s != nil && s.Kind() == types.FieldVal {
					set[nodeText(c.Fset, sel)] = true
				}
			}
			return true
		})
		return set
	}
	for _, fd := range c.FuncDecls(p) {
		name := c.FuncName(p, fd)
		ord := 0
		ast.Inspect(fd.Body, func(n ast.Node) bool {
			blk, ok := n.(*ast.BlockStmt)
			if !ok {
				return true
			}
			// members: the conditional emitters of the block — if statements without else whose body
			// emits, and loops that emit at the level of the block itself (guard: none)
			type member struct {
				cond ast.Expr // nil for a loop that is not under an if
				pos  token.Pos
			}
			var ms []member
			nIfs := 0
			for _, st := range blk.List {
				switch x := st.(type) {
				case *ast.IfStmt:
					if x.Else == nil && x.Init == nil && emits(x.Body) {
						ms = append(ms, member{x.Cond, x.Pos()})
						nIfs++
					}
				case *ast.ForStmt:
					if emits(x.Body) {
						ms = append(ms, member{nil, x.Pos()})
					}
				case *ast.RangeStmt:
					if emits(x.Body) {
						ms = append(ms, member{nil, x.Pos()})
					}
				}
			}
			if len(ms) < 2 || nIfs == 0 {
				return true
			}
			if nIfs == len(ms) {
				// a common field selector
				common := selectors(ms[0].cond)
				for _, m := range ms[1:] {
					s := selectors(m.cond)
					for k := range common {
						if !s[k] {
							delete(common, k)
						}
					}
				}
				if len(common) == 0 {
					return true
				}
			}
			ord++
			ob := Obligation{Key: fmt.Sprintf("%s#%d", name, ord), Pos: c.Position(ms[0].pos), Status: OK}
			text := func(m member) string {
				if m.cond == nil {
					return "a loop under no condition"
				}
				return "`" + nodeText(c.Fset, m.cond) + "`"
			}
			var diffs []string
			for _, m := range ms[1:] {
				same := (ms[0].cond == nil) == (m.cond == nil)
				if same && m.cond != nil {
					same = sameExpr(info, ast.Unparen(ms[0].cond), ast.Unparen(m.cond))
				}
				if !same {
					diffs = append(diffs, fmt.Sprintf("%s at %s vs %s at %s", text(ms[0]), c.Position(ms[0].pos), text(m), c.Position(m.pos)))
				}
			}
			if len(diffs) > 0 {
				ob.Status = Violation
				ob.Detail = fmt.Sprintf("%s emits bracketing instructions under different conditions: %s — for the targets only one of the two tests admits, the VM's stack is left unbalanced", name, strings.Join(diffs, "; "))
			} else {
				ob.Detail = fmt.Sprintf("%d conditional emitters in one block, all guarded by %s", len(ms), text(ms[0]))
			}
			out = append(out, ob)
			return true
		})
	}
	return out
}

// SLOT-GUARD (C23, C21): the VM keeps arguments in a fixed array (`Args [MaxArgs]StackFrame`); the
// compiler hands out its slots one by one with a counter (`f.Bind(s, c.NumArgs); c.NumArgs++`) after
// a capacity test. A counter that still equals the capacity must be rejected: the test `n > K` admits
// n == K, the slot one past the end, and the first use of that slot indexes the array out of range —
// in a request handler, a panic.
//
// Slots (by shape, package api): an if statement whose body returns an error and whose condition
// compares a variable or field X with a constant K that is the length of an array type of the
// package, followed in the same block by an increment of X (X++ / X += 1) — X counts slots handed
// out. Obligation: the condition rejects X == K (`X >= K`, `K <= X`, or `X + 1 > K`).
func init() {
	register(&Rule{
		Name:  "SLOT-GUARD",
		IR:    "ast",
		Props: []string{"C23", "C21"},
		Floor: 1,
		Doc:   "where the compiler hands out the slots of a fixed-size array with a counter, the capacity test before a slot is handed out rejects a counter equal to the array's length (>=, not >): the slot one past the end is never bound",
		Run:   runSlotGuard,
	})
}

func runSlotGuard(c *Ctx) []Obligation {
	var out []Obligation
	p := c.Pkg("api")
	if p == nil {
		return out
	}
	info := p.TypesInfo
	// constants that are array lengths in the package
	arrayLens := map[types.Object]string{}
	for _, f := range p.Syntax {
		ast.Inspect(f, func(n ast.Node) bool {
			at, ok := n.(*ast.ArrayType)
			if !ok || at.Len == nil {
				return true
			}
			if id, ok := ast.Unparen(at.Len).(*ast.Ident); ok {
				if k, ok := info.Uses[id].(*types.Const); ok {
					arrayLens[k] = c.Position(at.Pos())
				}
			}
			return true
		})
	}
	for _, fd := range c.FuncDecls(p) {
		name := c.FuncName(p, fd)
		ord := 0
		ast.Inspect(fd.Body, func(n ast.Node) bool {
			blk, ok := n.(*ast.BlockStmt)
			if !ok {
				return true
			}
			for i, st := range blk.List {
				is, ok := st.(*ast.IfStmt)
				if !ok || is.Else != nil {
					continue
				}
				be, ok := ast.Unparen(is.Cond).(*ast.BinaryExpr)
				if !ok {
					continue
				}
				// K on one side
				var x ast.Expr
				var k types.Object
				op := be.Op
				if id, ok := ast.Unparen(be.Y).(*ast.Ident); ok {
					if o := info.Uses[id]; o != nil && arrayLens[o] != "" {
						x, k = be.X, o
					}
				}
				if k == nil {
					if id, ok := ast.Unparen(be.X).(*ast.Ident); ok {
						if o := info.Uses[id]; o != nil && arrayLens[o] != "" {
							x, k = be.Y, o
							switch op {
							case token.LSS:
								op = token.GTR
							case token.LEQ:
								op = token.GEQ
							case token.GTR:
								op = token.LSS
							case token.GEQ:
								op = token.LEQ
							}
						}
					}
				}
				if k == nil {
					continue
				}
				returnsErr := false
				for _, bs := range is.Body.List {
					if r, ok := bs.(*ast.ReturnStmt); ok && len(r.Results) > 0 {
						if id, ok := ast.Unparen(r.Results[len(r.Results)-1]).(*ast.Ident); !ok || id.Name != "nil" {
							returnsErr = true
						}
					}
				}
				if !returnsErr {
					continue
				}
				// X incremented later in the block
				plusOne := false
				if add, ok := ast.Unparen(x).(*ast.BinaryExpr); ok && add.Op == token.ADD {
					if tv := info.Types[add.Y]; tv.Value != nil && tv.Value.ExactString() == "1" {
						x, plusOne = add.X, true
					}
				}
				incremented := false
				for _, later := range blk.List[i+1:] {
					if inc, ok := later.(*ast.IncDecStmt); ok && inc.Tok == token.INC && sameExpr(info, inc.X, x) {
						incremented = true
					}
					if as, ok := later.(*ast.AssignStmt); ok && as.Tok == token.ADD_ASSIGN && len(as.Lhs) == 1 && sameExpr(info, as.Lhs[0], x) {
						incremented = true
					}
				}
				if !incremented {
					continue
				}
				ord++
				ob := Obligation{Key: fmt.Sprintf("%s#%d", name, ord), Pos: c.Position(is.Pos()), Status: OK}
				rejectsEqual := op == token.GEQ || (op == token.GTR && plusOne) || op == token.EQL
				if rejectsEqual {
					ob.Detail = fmt.Sprintf("`%s` rejects a slot counter equal to %s, the length of the array declared at %s", nodeText(c.Fset, is.Cond), k.Name(), arrayLens[k])
				} else {
					ob.Status = Violation
					ob.Detail = fmt.Sprintf("`%s` admits %s == %s: the counter is then used as the next slot and incremented, but the array declared at %s has only the slots 0..%s-1 — the first store to that slot indexes out of range",
						nodeText(c.Fset, is.Cond), nodeText(c.Fset, x), k.Name(), arrayLens[k], k.Name())
				}
				out = append(out, ob)
			}
			return true
		})
	}
	return out
}

// ABSENT-IS-ERROR (C26): "the response reports an error if and only if applying the change failed".
// The by-ID tag mutators of a mutable world (AddTag, RemoveTag) fail when the feature does not
// exist; the sibling implementations agree that this is an error ("No feature with ID …"). A sibling
// that guards its work with the existence test but then falls through to `return nil` reports
// success — and the change's Apply lists the ID as modified — for a feature that is not there.
//
// Slots (by shape, package ingest): methods named AddTag or RemoveTag with a first parameter of type
// b6.FeatureID and a single error result. Obligation per method, decided on the control-flow graph: no
// `return nil` is reachable from the entry along a path on which every existence test of that ID (a
// value looked up with the ID compared with nil, a comma-ok of such a lookup, a Has…(id) call) takes
// its "absent" edge.
func init() {
	register(&Rule{
		Name:  "ABSENT-IS-ERROR",
		IR:    "ast",
		Props: []string{"C26"},
		Floor: 4,
		Doc:   "a by-ID tag mutator of a mutable world returns success only inside the success branch of its existence test for that ID: for a feature that does not exist it returns an error, as its sibling implementations do",
		Run:   runAbsentIsError,
	})
}

func runAbsentIsError(c *Ctx) []Obligation {
	var out []Obligation
	p := c.Pkg("ingest")
	if p == nil {
		return out
	}
	info := p.TypesInfo
	for _, fd := range c.FuncDecls(p) {
		if fd.Recv == nil || (fd.Name.Name != "AddTag" && fd.Name.Name != "RemoveTag") {
			continue
		}
		obj, _ := info.Defs[fd.Name].(*types.Func)
		if obj == nil {
			continue
		}
		sig := obj.Type().(*types.Signature)
		if sig.Params().Len() < 1 || sig.Results().Len() != 1 || !isNamed(sig.Params().At(0).Type(), ModulePath, "FeatureID") || sig.Results().At(0).Type().String() != "error" {
			continue
		}
		if n := namedOf(sig.Recv().Type()); n != nil && n.Obj().Name() == "ModifiedTags" {
			continue
		}
		idParam := sig.Params().At(0)
		mentionsID := func(n ast.Node) bool {
			hit := false
			ast.Inspect(n, func(m ast.Node) bool {
				if id, ok := m.(*ast.Ident); ok && info.Uses[id] == types.Object(idParam) {
					hit = true
				}
				return true
			})
			return hit
		}
		// variables assigned from a call that mentions the id
		looked := map[types.Object]bool{}
		ast.Inspect(fd.Body, func(n ast.Node) bool {
			as, ok := n.(*ast.AssignStmt)
			if !ok {
				return true
			}
			for _, r := range as.Rhs {
				if _, isCall := ast.Unparen(r).(*ast.CallExpr); isCall && mentionsID(r) {
					for _, l := range as.Lhs {
						if id, ok := l.(*ast.Ident); ok {
							if o := info.Defs[id]; o != nil {
								looked[o] = true
							} else if o := info.Uses[id]; o != nil {
								looked[o] = true
							}
						}
					}
				}
				if ix, isIdx := ast.Unparen(r).(*ast.IndexExpr); isIdx && mentionsID(ix.Index) {
					for _, l := range as.Lhs {
						if id, ok := l.(*ast.Ident); ok {
							if o := info.Defs[id]; o != nil {
								looked[o] = true
							}
						}
					}
				}
			}
			return true
		})
		isExistence := func(cond ast.Expr) bool {
			found := false
			ast.Inspect(cond, func(n ast.Node) bool {
				switch x := n.(type) {
				case *ast.BinaryExpr:
					if x.Op == token.NEQ {
						for _, pr := range [][2]ast.Expr{{x.X, x.Y}, {x.Y, x.X}} {
							if nid, ok := ast.Unparen(pr[1]).(*ast.Ident); ok && nid.Name == "nil" {
								if id, ok := ast.Unparen(pr[0]).(*ast.Ident); ok && looked[info.Uses[id]] {
									found = true
								}
							}
						}
					}
				case *ast.Ident:
					if o := info.Uses[x]; o != nil && looked[o] {
						if b, ok := o.Type().Underlying().(*types.Basic); ok && b.Kind() == types.Bool {
							found = true
						}
					}
				case *ast.CallExpr:
					if sel, ok := ast.Unparen(x.Fun).(*ast.SelectorExpr); ok && strings.HasPrefix(sel.Sel.Name, "Has") && mentionsID(x) {
						found = true
					}
				}
				return true
			})
			return found
		}
		ob := Obligation{Key: c.FuncName(p, fd), Pos: c.Position(fd.Pos()), Status: OK}
		var bad []string
		successes := 0
		isNilReturn := func(n ast.Node) bool {
			r, ok := n.(*ast.ReturnStmt)
			if !ok || len(r.Results) != 1 {
				return false
			}
			id, ok := ast.Unparen(r.Results[0]).(*ast.Ident)
			return ok && id.Name == "nil"
		}
		inspectShallow(fd.Body, func(n ast.Node) bool {
			if isNilReturn(n) {
				successes++
			}
			return true
		})
		// polarity of an existence condition: +1 the true edge means "exists", -1 the false edge does, 0 not an existence test
		polarity := func(cond ast.Expr) int {
			cond = ast.Unparen(cond)
			if u, ok := cond.(*ast.UnaryExpr); ok && u.Op == token.NOT {
				if isExistence(u.X) {
					return -1
				}
				return 0
			}
			if be, ok := cond.(*ast.BinaryExpr); ok && be.Op == token.EQL {
				for _, pr := range [][2]ast.Expr{{be.X, be.Y}, {be.Y, be.X}} {
					if nid, ok := ast.Unparen(pr[1]).(*ast.Ident); ok && nid.Name == "nil" {
						if id, ok := ast.Unparen(pr[0]).(*ast.Ident); ok && looked[info.Uses[id]] {
							return -1
						}
					}
				}
				return 0
			}
			if isExistence(cond) {
				return 1
			}
			return 0
		}
		g := newCFG(info, fd.Body)
		seen := map[int32]bool{}
		var walk func(bi int32)
		walk = func(bi int32) {
			if seen[bi] {
				return
			}
			seen[bi] = true
			b := g.Blocks[bi]
			for _, n := range b.Nodes {
				if isNilReturn(n) {
					bad = append(bad, c.Position(n.Pos()))
					return
				}
				if _, ok := n.(*ast.ReturnStmt); ok {
					return
				}
			}
			if len(b.Succs) == 2 && len(b.Nodes) > 0 {
				if cond, ok := b.Nodes[len(b.Nodes)-1].(ast.Expr); ok {
					switch polarity(cond) {
					case 1:
						walk(b.Succs[1].Index) // only the "absent" edge
						return
					case -1:
						walk(b.Succs[0].Index)
						return
					}
				}
			}
			for _, s := range b.Succs {
				walk(s.Index)
			}
		}
		if len(g.Blocks) > 0 {
			walk(0)
		}
		switch {
		case len(bad) > 0:
			ob.Status = Violation
			ob.Detail = fmt.Sprintf("%s returns nil at %s outside the success branch of its existence test for %s: for a feature that does not exist it reports success, and the change's Apply lists the ID as modified (its siblings return \"No feature with ID\")",
				c.FuncName(p, fd), strings.Join(bad, ", "), idParam.Name())
		case successes == 0:
			ob.Detail = "never reports success (read-only world)"
		default:
			ob.Detail = fmt.Sprintf("every one of its %d success return(s) is inside the success branch of an existence test of %s", successes, idParam.Name())
		}
		out = append(out, ob)
	}
	return out
}
