package main

import (
	"fmt"
	"go/ast"
	"go/types"
	"strings"
)

// EMIT-GUARDS (C21): the compiler brackets the code of a lambda body with a prologue (one OpStore
// per bound argument) and an epilogue (OpDiscard, which drops the frame of the calling expression
// from under the result). Both are emitted under a test of the same thing — "this target is a
// lambda" — once before and once after the body is compiled. The VM's stack is balanced only if
// the two tests agree: an epilogue that is emitted under a narrower test than the prologue (say,
// only when at least one argument is bound) leaves a frame on the stack for exactly the targets the
// narrower test excludes.
//
// Slots (by shape, package api): in a loop body (or function body) that contains a call compiling
// a sub-expression between them, the if statements without else whose bodies emit instructions
// (a call of a method named Append, directly or inside a loop) and whose conditions mention one
// common selector path. Obligation per group: all conditions are the same expression (operands
// compared structurally with identifiers resolved).
func init() {
	register(&Rule{
		Name:  "EMIT-GUARDS",
		IR:    "ast",
		Props: []string{"C21"},
		Floor: 1,
		Doc:   "the prologue and the epilogue that the compiler emits around a lambda body are guarded by the same condition: what is pushed for a target before its body is compiled is dropped after it for exactly the same targets",
		Run:   runEmitGuards,
	})
}

func runEmitGuards(c *Ctx) []Obligation {
	var out []Obligation
	p := c.Pkg("api")
	if p == nil {
		return out
	}
	info := p.TypesInfo
	emits := func(n ast.Node) bool {
		found := false
		ast.Inspect(n, func(m ast.Node) bool {
			if call, ok := m.(*ast.CallExpr); ok {
				if sel, ok := ast.Unparen(call.Fun).(*ast.SelectorExpr); ok && sel.Sel.Name == "Append" && len(call.Args) == 1 {
					if nt := namedOf(info.TypeOf(call.Args[0])); nt != nil && nt.Obj().Name() == "Instruction" {
						found = true
					}
				}
			}
			return true
		})
		return found
	}
	selectors := func(e ast.Expr) map[string]bool {
		set := map[string]bool{}
		ast.Inspect(e, func(m ast.Node) bool {
			if sel, ok := m.(*ast.SelectorExpr); ok {
				if s := info.Selections[sel]; s != nil && s.Kind() == types.FieldVal {
					set[nodeText(c.Fset, sel)] = true
				}
			}
			return true
		})
		return set
	}
	for _, fd := range c.FuncDecls(p) {
		name := c.FuncName(p, fd)
		ord := 0
		ast.Inspect(fd.Body, func(n ast.Node) bool {
			blk, ok := n.(*ast.BlockStmt)
			if !ok {
				return true
			}
			var ifs []*ast.IfStmt
			for _, st := range blk.List {
				if is, ok := st.(*ast.IfStmt); ok && is.Else == nil && is.Init == nil && emits(is.Body) {
					ifs = append(ifs, is)
				}
			}
			if len(ifs) < 2 {
				return true
			}
			// a common field selector
			common := selectors(ifs[0].Cond)
			for _, is := range ifs[1:] {
				s := selectors(is.Cond)
				for k := range common {
					if !s[k] {
						delete(common, k)
					}
				}
			}
			if len(common) == 0 {
				return true
			}
			ord++
			ob := Obligation{Key: fmt.Sprintf("%s#%d", name, ord), Pos: c.Position(ifs[0].Pos()), Status: OK}
			var diffs []string
			for _, is := range ifs[1:] {
				if !sameExpr(info, ast.Unparen(ifs[0].Cond), ast.Unparen(is.Cond)) {
					diffs = append(diffs, fmt.Sprintf("`%s` at %s vs `%s` at %s", nodeText(c.Fset, ifs[0].Cond), c.Position(ifs[0].Pos()), nodeText(c.Fset, is.Cond), c.Position(is.Pos())))
				}
			}
			if len(diffs) > 0 {
				ob.Status = Violation
				ob.Detail = fmt.Sprintf("%s emits bracketing instructions under different conditions: %s — for the targets only one of the two tests admits, the VM's stack is left unbalanced", name, strings.Join(diffs, "; "))
			} else {
				ob.Detail = fmt.Sprintf("%d emitting if statements in one block, all guarded by `%s`", len(ifs), nodeText(c.Fset, ifs[0].Cond))
			}
			out = append(out, ob)
			return true
		})
	}
	return out
}
