package main

import (
	"fmt"
	"go/types"
	"strings"
)

// EQUAL-TYPE (C19): a value decoded from the wire can be compared with the value it was encoded
// from. For every leaf case of a FromProto oneof switch (same slots as VARIANT, see
// rule_variant.go / helpers_J.go) and every dynamic type T that case can return (value type and
// pointer type are different types), the method T.Equal must be able to recognise T: T is among
// the types Equal asserts on its interface parameter — `other.(U)`, `x, ok := other.(U)` or the
// case types of `switch x := other.(type)`.
//
// Cases without a dynamic type to check (rejecting cases, converters that never return, returns
// that leave the interface field nil) are VARIANT's business and are listed here as info.
// Accepted idioms: the three assertion forms above, anywhere in the body of Equal. An Equal that
// asserts nothing on its parameter is `undecided`.
func init() {
	register(&Rule{
		Name:  "EQUAL-TYPE",
		IR:    "ast",
		Props: []string{"C19"},
		Floor: 26, // 28 leaf cases minus NilValue (no dynamic type) and GeoJSONValue (never returns)
		Doc: "the dynamic type (value vs pointer) each FromProto case returns is among the types the Equal method of that type asserts on its argument, " +
			"so a decoded expression or query can be Equal to the one that was encoded",
		Run: runEqualType,
	})
}

func runEqualType(c *Ctx) []Obligation {
	var out []Obligation
	for _, k := range jFromProtoCases(c).cases {
		ob := Obligation{Key: fmt.Sprintf("%s#%d", k.fname, k.ord), Pos: c.Position(k.clause.Pos())}
		r := k.res
		name := k.chainString()
		if len(r.unknown) > 0 {
			ob.Status = Undecided
			ob.Detail = fmt.Sprintf("case %s: cannot determine what the case returns: %s", name, strings.Join(r.unknown, "; "))
			out = append(out, ob)
			continue
		}
		if len(r.dyn) == 0 {
			ob.Status = Info
			ob.Detail = fmt.Sprintf("case %s returns no dynamic type to compare (rejecting case, converter that never returns, or nil interface field): see VARIANT", name)
			out = append(out, ob)
			continue
		}
		var bad, good []string
		for _, t := range r.dyn {
			_, fd, mp := jMethodDecl(c, t, "Equal")
			if fd == nil || fd.Body == nil {
				ob.Status = Undecided
				bad = append(bad, fmt.Sprintf("%s has no Equal method declared in the module", jTypeString(t)))
				continue
			}
			asserted, ok := jAssertedTypes(mp.TypesInfo, fd)
			if !ok || len(asserted) == 0 {
				ob.Status = Undecided
				bad = append(bad, fmt.Sprintf("%s.Equal (%s) asserts no type on its parameter", jTypeString(t), c.Position(fd.Pos())))
				continue
			}
			found := false
			for _, a := range asserted {
				if types.Identical(a, t) {
					found = true
				}
			}
			if found {
				good = append(good, fmt.Sprintf("%s.Equal asserts %s", jTypeString(t), jTypeStrings(asserted)))
			} else {
				bad = append(bad, fmt.Sprintf("the case returns a %s but %s.Equal (%s) only accepts %s: the decoded value is not Equal to its own source, nor to itself",
					jTypeString(t), jTypeString(t), c.Position(fd.Pos()), jTypeStrings(asserted)))
			}
		}
		if len(bad) > 0 {
			if ob.Status == "" {
				ob.Status = Violation
			}
			ob.Detail = fmt.Sprintf("case %s: %s", name, strings.Join(bad, "; "))
		} else {
			ob.Status = OK
			ob.Detail = fmt.Sprintf("case %s: %s", name, strings.Join(good, "; "))
		}
		out = append(out, ob)
	}
	return out
}
