package main

import (
	"fmt"
	"go/ast"
	"go/constant"
	"go/token"
	"go/types"
	"sort"
	"strings"

	"golang.org/x/tools/go/cfg"
)

// FILTER-TOTAL (C05, C04): a filtering iterator (the types FILTER-AGREE discovers: I in
// `return &I{...}` of a query type's Compile, with Next and Advance) walks an inner iterator
// over candidates of the cell covering and may only stop on a candidate its geometric
// predicate accepts. Calling the right predicate (FILTER-AGREE) is not enough: the value the
// method reports must depend on the predicate's verdict about the candidate the inner
// iterator stands on *now*. `return i.iterator.Next()` after a failed test hands back the next
// candidate of the covering untested.
//
// Instances: Next and Advance of every filtering iterator (5 types x 2).
// Decision: path-sensitive walk over go/cfg with a small abstract state —
//
//	validated  the predicate is known true for the inner iterator's current position
//	           (set when a predicate call evaluates to true, cleared by every inner move)
//	bool locals each T, F or unknown; a local holding a predicate result validates when it is
//	           refined to true
//
// Conditions are split by short-circuit evaluation (&&, ||, !): the false edge of
// `ok && !pred(cur)` forks into {ok = F} and {ok = T, pred true, validated}. Events:
//
//	inner move   a call of Next/Advance (resolved to the methods of search.Iterator) on a field of
//	             the receiver: clears validated; assigned to a local it makes the local unknown
//	predicate    a call of a bool function that takes a b6.Feature (the predicate of FILTER-AGREE,
//	             whichever it is): true outcome sets validated
//	own sibling  a call of the type's own Next/Advance: a move whose true outcome is validated
//	             (the sibling carries the same obligation)
//
// Obligation: at every `return E`, every feasible state in which E can be true has
// validated set. Accepted idioms (today's tree):
//
//	for { ok := inner.Next(); if !ok { return false }; if pred(cur) { return true } }
//	ok := inner.Advance(k); for ok && !pred(cur) { ok = inner.Next() }; return ok
//
// and anything equivalent under the state above (if/else forms, `return ok && pred(cur)`,
// `return i.Next()` as fallback). Not covered: that the predicate's argument is the inner
// iterator's current value (i.index.Feature(i.Value())); predicate results passed through
// anything but a bool local; switch statements, goto and function literals inside these methods
// are reported undecided.
func init() {
	register(&Rule{
		Name:  "FILTER-TOTAL",
		IR:    "cfg",
		Props: []string{"C05", "C04"},
		Floor: 10, // 5 filtering iterators x {Next, Advance}
		Doc: "in Next and Advance of every filtering iterator, every return that can be true is reached only with the feature predicate " +
			"evaluated true after the last move of the inner iterator on that path",
		Run: runFilterTotal,
	})
}

type gFTVal uint8

const (
	gFTUnknown gFTVal = iota
	gFTTrue
	gFTFalse
)

type gFTState struct {
	validated bool
	vals      map[types.Object]gFTVal
	predVar   map[types.Object]bool // local currently holding a predicate (or sibling) outcome
}

func (s gFTState) clone() gFTState {
	n := gFTState{validated: s.validated, vals: map[types.Object]gFTVal{}, predVar: map[types.Object]bool{}}
	for k, v := range s.vals {
		n.vals[k] = v
	}
	for k, v := range s.predVar {
		n.predVar[k] = v
	}
	return n
}

func (s gFTState) key() string {
	var parts []string
	for k, v := range s.vals {
		parts = append(parts, fmt.Sprintf("%s@%d=%d/%v", k.Name(), k.Pos(), v, s.predVar[k]))
	}
	sort.Strings(parts)
	return fmt.Sprintf("%v|%s", s.validated, strings.Join(parts, ","))
}

func (s gFTState) moved() gFTState {
	n := s.clone()
	n.validated = false
	n.predVar = map[types.Object]bool{}
	return n
}

type gFT struct {
	c        *Ctx
	info     *types.Info
	recv     types.Object
	iterType *types.Named
	feature  types.Type
	iterI    *types.Interface
	unknown  string
}

func (t *gFT) recvField(e ast.Expr) bool {
	se, ok := ast.Unparen(e).(*ast.SelectorExpr)
	if !ok {
		return false
	}
	id, ok := ast.Unparen(se.X).(*ast.Ident)
	if !ok || t.info.ObjectOf(id) != t.recv {
		return false
	}
	sel := t.info.Selections[se]
	return sel != nil && sel.Kind() == types.FieldVal
}

// classify a call: "move", "pred", "sibling" or "".
func (t *gFT) classify(call *ast.CallExpr) string {
	se, _ := ast.Unparen(call.Fun).(*ast.SelectorExpr)
	f := calleeFunc(t.info, call)
	if se != nil && f != nil && (f.Name() == "Next" || f.Name() == "Advance") {
		if id, ok := ast.Unparen(se.X).(*ast.Ident); ok && t.info.ObjectOf(id) == t.recv {
			if n := namedOf(f.Type().(*types.Signature).Recv().Type()); n == t.iterType {
				return "sibling"
			}
		}
		if t.recvField(se.X) && t.iterI != nil {
			if ft := t.info.TypeOf(se.X); ft != nil && (types.Implements(ft, t.iterI) || types.Implements(types.NewPointer(ft), t.iterI)) {
				return "move"
			}
		}
	}
	if f != nil && gIsBoolFunc(f) && t.feature != nil {
		sig := f.Type().(*types.Signature)
		for i := 0; i < sig.Params().Len(); i++ {
			if types.Identical(sig.Params().At(i).Type(), t.feature) {
				return "pred"
			}
		}
	}
	return ""
}

// hasEvent reports a move/sibling call nested inside e (outside the top-level forms eval handles).
func (t *gFT) containsMove(n ast.Node) bool {
	found := false
	ast.Inspect(n, func(x ast.Node) bool {
		if call, ok := x.(*ast.CallExpr); ok {
			if k := t.classify(call); k == "move" || k == "sibling" {
				found = true
			}
		}
		return true
	})
	return found
}

// eval returns the states in which e evaluates to want.
func (t *gFT) eval(e ast.Expr, s gFTState, want bool) []gFTState {
	e = ast.Unparen(e)
	if tv, ok := t.info.Types[e]; ok && tv.Value != nil && tv.Value.Kind() == constant.Bool {
		if constant.BoolVal(tv.Value) == want {
			return []gFTState{s}
		}
		return nil
	}
	switch x := e.(type) {
	case *ast.UnaryExpr:
		if x.Op == token.NOT {
			return t.eval(x.X, s, !want)
		}
	case *ast.BinaryExpr:
		switch x.Op {
		case token.LAND, token.LOR:
			// A && B true: A true then B true. false: A false, or A true then B false. (|| dual)
			isAnd := x.Op == token.LAND
			var out []gFTState
			if want == isAnd {
				for _, s1 := range t.eval(x.X, s, isAnd) {
					out = append(out, t.eval(x.Y, s1, isAnd)...)
				}
				return out
			}
			out = append(out, t.eval(x.X, s, !isAnd)...)
			for _, s1 := range t.eval(x.X, s, isAnd) {
				out = append(out, t.eval(x.Y, s1, !isAnd)...)
			}
			return out
		}
	case *ast.Ident:
		obj := t.info.ObjectOf(x)
		if v, tracked := s.vals[obj]; tracked {
			switch v {
			case gFTTrue:
				if want {
					return []gFTState{s}
				}
				return nil
			case gFTFalse:
				if !want {
					return []gFTState{s}
				}
				return nil
			}
			n := s.clone()
			if want {
				n.vals[obj] = gFTTrue
				if n.predVar[obj] {
					n.validated = true
				}
			} else {
				n.vals[obj] = gFTFalse
			}
			return []gFTState{n}
		}
	case *ast.CallExpr:
		switch t.classify(x) {
		case "move":
			return []gFTState{s.moved()}
		case "sibling":
			n := s.moved()
			n.validated = want
			return []gFTState{n}
		case "pred":
			n := s
			if t.containsMove(x) { // a move hidden in the predicate's arguments
				n = s.moved()
			} else {
				n = s.clone()
			}
			if want {
				n.validated = true
			}
			return []gFTState{n}
		}
	}
	// unknown expression: both outcomes feasible; moves inside it still count
	if t.containsMove(e) {
		return []gFTState{s.moved()}
	}
	return []gFTState{s}
}

// assign models `lhs = rhs` for a bool local.
func (t *gFT) assign(s gFTState, lhs, rhs ast.Expr) gFTState {
	id, ok := ast.Unparen(lhs).(*ast.Ident)
	var obj types.Object
	if ok && id.Name != "_" {
		obj = t.info.ObjectOf(id)
		if v, isVar := obj.(*types.Var); !isVar || v.IsField() {
			obj = nil
		} else if b, isB := v.Type().Underlying().(*types.Basic); !isB || b.Kind() != types.Bool {
			obj = nil
		}
	}
	n := s
	rhs = ast.Unparen(rhs)
	kind := ""
	if call, ok := rhs.(*ast.CallExpr); ok {
		kind = t.classify(call)
	}
	switch {
	case kind == "move":
		n = s.moved()
	case kind == "sibling":
		n = s.moved()
	case kind == "pred":
		if t.containsMove(rhs) {
			n = s.moved()
		} else {
			n = s.clone()
		}
	case t.containsMove(rhs):
		n = s.moved()
	default:
		n = s.clone()
	}
	if obj == nil {
		return n
	}
	delete(n.predVar, obj)
	n.vals[obj] = gFTUnknown
	switch {
	case kind == "pred" || kind == "sibling":
		n.predVar[obj] = true
	case kind == "":
		if tv, ok := t.info.Types[rhs]; ok && tv.Value != nil && tv.Value.Kind() == constant.Bool {
			if constant.BoolVal(tv.Value) {
				n.vals[obj] = gFTTrue
			} else {
				n.vals[obj] = gFTFalse
			}
		} else if rid, ok := rhs.(*ast.Ident); ok {
			if v, tracked := s.vals[t.info.ObjectOf(rid)]; tracked {
				n.vals[obj] = v
				if s.predVar[t.info.ObjectOf(rid)] {
					n.predVar[obj] = true
				}
			}
		}
	}
	return n
}

// exec runs a non-branching node.
func (t *gFT) exec(n ast.Node, s gFTState) gFTState {
	switch x := n.(type) {
	case *ast.AssignStmt:
		if len(x.Lhs) == len(x.Rhs) && (x.Tok == token.ASSIGN || x.Tok == token.DEFINE) {
			for i := range x.Lhs {
				s = t.assign(s, x.Lhs[i], x.Rhs[i])
			}
			return s
		}
	case *ast.ValueSpec:
		for i, name := range x.Names {
			if i < len(x.Values) {
				s = t.assign(s, name, x.Values[i])
			} else if obj := t.info.ObjectOf(name); obj != nil {
				if b, ok := obj.Type().Underlying().(*types.Basic); ok && b.Kind() == types.Bool {
					s = s.clone()
					s.vals[obj] = gFTFalse
				}
			}
		}
		return s
	}
	if t.containsMove(n) {
		return s.moved()
	}
	return s
}

func runFilterTotal(c *Ctx) []Obligation {
	root := c.Pkg("")
	sp := c.Pkg("search")
	if root == nil || sp == nil {
		return nil
	}
	var feature types.Type
	if tn, ok := root.Types.Scope().Lookup("Feature").(*types.TypeName); ok {
		feature = tn.Type()
	}
	var iterI *types.Interface
	if tn, ok := sp.Types.Scope().Lookup("Iterator").(*types.TypeName); ok {
		iterI, _ = tn.Type().Underlying().(*types.Interface)
	}
	var out []Obligation
	for _, fp := range c.gFilterPairs() {
		for _, mth := range []*types.Func{fp.next, fp.advance} {
			fd, p := c.Decl(mth)
			if fd == nil || fd.Body == nil {
				continue
			}
			name := c.FuncName(p, fd)
			ob := Obligation{Key: gNthKey(name, 1), Pos: c.Position(fd.Pos())}
			info := p.TypesInfo
			t := &gFT{c: c, info: info, recv: gRecvObj(info, fd), iterType: fp.iter, feature: feature, iterI: iterI}
			// unsupported constructs
			ast.Inspect(fd.Body, func(n ast.Node) bool {
				switch x := n.(type) {
				case *ast.SwitchStmt, *ast.TypeSwitchStmt, *ast.SelectStmt, *ast.FuncLit, *ast.RangeStmt:
					if t.unknown == "" {
						t.unknown = fmt.Sprintf("%T at %s", n, c.Position(n.Pos()))
					}
				case *ast.BranchStmt:
					if x.Tok == token.GOTO && t.unknown == "" {
						t.unknown = "goto at " + c.Position(n.Pos())
					}
				}
				return true
			})
			if t.recv == nil && t.unknown == "" {
				t.unknown = "unnamed receiver"
			}
			if t.unknown != "" {
				ob.Status, ob.Detail = Undecided, fmt.Sprintf("%s uses a construct the path evaluation does not model: %s", name, t.unknown)
				out = append(out, ob)
				continue
			}
			g := newCFG(info, fd.Body)
			type item struct {
				b     *cfg.Block
				s     gFTState
				trail []string
			}
			start := gFTState{vals: map[types.Object]gFTVal{}, predVar: map[types.Object]bool{}}
			seen := map[string]bool{}
			work := []item{{g.Blocks[0], start, nil}}
			var witness []string
			nmoves, npreds := 0, 0
			ast.Inspect(fd.Body, func(n ast.Node) bool {
				if call, ok := n.(*ast.CallExpr); ok {
					switch t.classify(call) {
					case "move", "sibling":
						nmoves++
					case "pred":
						npreds++
					}
				}
				return true
			})
			steps := 0
			for len(work) > 0 && witness == nil && steps < 20000 {
				steps++
				it := work[0]
				work = work[1:]
				k := fmt.Sprintf("%d|%s", it.b.Index, it.s.key())
				if seen[k] {
					continue
				}
				seen[k] = true
				s := it.s
				trail := it.trail
				nodes := it.b.Nodes
				var cond ast.Expr
				if len(it.b.Succs) == 2 && len(nodes) > 0 {
					if e, ok := nodes[len(nodes)-1].(ast.Expr); ok {
						cond = e
						nodes = nodes[:len(nodes)-1]
					}
				}
				returned := false
				for _, n := range nodes {
					if rs, ok := n.(*ast.ReturnStmt); ok {
						returned = true
						if len(rs.Results) != 1 {
							break
						}
						for _, ts := range t.eval(rs.Results[0], s, true) {
							if !ts.validated {
								witness = append(append([]string(nil), trail...),
									fmt.Sprintf("%s: %s can report true although the predicate was not evaluated true since the last move of the inner iterator", c.Position(rs.Pos()), nodeText(c.Fset, rs)))
								break
							}
						}
						break
					}
					before := s.validated
					s = t.exec(n, s)
					if before && !s.validated {
						trail = gAppendTrail(trail, fmt.Sprintf("%s: inner iterator moved: %s", c.Position(n.Pos()), nodeText(c.Fset, n)))
					} else if t.containsMove(n) {
						trail = gAppendTrail(trail, fmt.Sprintf("%s: inner iterator moved: %s", c.Position(n.Pos()), nodeText(c.Fset, n)))
					}
				}
				if returned || witness != nil {
					continue
				}
				if cond != nil {
					for side, want := range []bool{true, false} {
						for _, ns := range t.eval(cond, s, want) {
							tr := trail
							if t.containsMove(cond) {
								tr = gAppendTrail(tr, fmt.Sprintf("%s: inner iterator moved in condition %s", c.Position(cond.Pos()), types.ExprString(cond)))
							}
							tr = gAppendTrail(tr, fmt.Sprintf("%s: %s is %v", c.Position(cond.Pos()), types.ExprString(cond), want))
							work = append(work, item{it.b.Succs[side], ns, tr})
						}
					}
					continue
				}
				for _, succ := range it.b.Succs {
					work = append(work, item{succ, s, trail})
				}
			}
			switch {
			case witness != nil:
				ob.Status = Violation
				ob.Detail = fmt.Sprintf("%s can return a candidate of the cell covering that its predicate did not accept: a possibly-true result is returned without a true predicate call after the last inner move", name)
				ob.Path = witness
			case steps >= 20000:
				ob.Status, ob.Detail = Undecided, "path evaluation did not converge"
			case nmoves == 0:
				ob.Status, ob.Detail = Undecided, fmt.Sprintf("%s never moves an inner iterator (no call of search.Iterator.Next/Advance on a receiver field)", name)
			default:
				ob.Status = OK
				ob.Detail = fmt.Sprintf("every possibly-true return follows a true predicate call after the last inner move (%d move sites, %d predicate sites)", nmoves, npreds)
			}
			out = append(out, ob)
		}
	}
	return out
}
