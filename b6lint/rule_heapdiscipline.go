package main

import (
	"fmt"
	"go/ast"
	"go/constant"
	"go/token"
	"go/types"
	"sort"
	"strings"

	"golang.org/x/tools/go/packages"
)

// HEAP-DISCIPLINE (C03, C17): a value used with container/heap is only a heap while its
// invariant holds. Whoever edits the underlying slice directly, or changes the key of an
// element in place, must restore the invariant (heap.Fix of that index, heap.Init, or heap.Pop
// when the edited element is the top) before anything relies on h[0] being the minimum. The
// k-way merge behind FindFeatures steps the iterator stored in h[0] and then calls heap.Fix or
// heap.Pop; an "allocation free" removal that moves the last element into slot 0 and truncates
// the slice without sifting down returns IDs out of order as soon as three sources are merged.
//
// Heap types: every named type of the module whose method set (on T or *T) has Len, Less,
// Swap, Push and Pop with the signatures of container/heap.Interface and a value of which is
// handed to heap.Init/Push/Pop/Fix/Remove somewhere in the module. Its storage is the type
// itself when it is a slice type, or the slice fields its Swap method indexes when it is a
// struct (unionHeap.iterators, ShortestPathSearch.queue).
//
// Edits, looked for in every function of the heap type's package except the heap type's own
// methods, on any expression S that denotes the storage of a value of the heap type (by type,
// plus — inside one function — an expression the storage field was initialised from in a
// composite literal, e.g. u.iterators for `h := unionHeap{iterators: u.iterators}`):
//
//	store     S[i] = ...                                  edit of index i
//	field     S[i].f = ...                                edit of index i
//	step      S[i].M(...) with M returning nothing or one bool and not called by the type's Less
//	          (Next, Advance: the element's key changes in place)          edit of index i
//	reshape   S = S[a:b], S = append(S, ...), S = <anything> after its definition   edit of the whole slice
//
// One instance per edit, numbered per function in source order. Obligation (go/cfg, forward from
// the edit): every path meets a repair before a use and before the function returns.
//
//	repair  heap.Init(h); heap.Fix(h, i) / heap.Remove(h, i) with i structurally the edited index;
//	        heap.Pop(h) when the edited index is the constant 0 (Pop moves the top out and sifts).
//	        A reshape is repaired only by heap.Init.
//	use     a read of S[0] (constant index 0; a plain store to S[0] is not a read), or any other
//	        call of heap.Push/Pop/Fix/Remove on h.
//
// Further edits on the way are neither (each has its own instance). MERGE-DEDUP complements this
// rule on the mergers: it requires that the head is compared again after the heap changed;
// this rule requires that the change was made through (or followed by) the heap operations.
//
// Scope: instances in package b6 (merged.go) and package search carry C03 and C17 and are
// decided. Heap users elsewhere (graph's ShortestPathSearch, osm's polygon simplification,
// api/functions' top-n heaps) are listed as info with the verdict the rule would give; they use
// idioms that are outside this rule's model (keys changed through pointers held elsewhere, a
// key lowered at the root, initial queues whose keys are all equal).
// Not covered: edits through aliases of the slice other than the literal-initialisation one;
// key changes through pointers (r.distance = d with r stored in the heap); that Less is a
// strict weak order.
func init() {
	register(&Rule{
		Name:  "HEAP-DISCIPLINE",
		IR:    "cfg",
		Props: []string{"C03", "C17"},
		Floor: 7, // merged.go (*mergedFeatures).Next 4; search (*union).Next 1, Advance 1, start 1
		Doc: "every direct edit of a container/heap value's storage outside the heap type's own methods (element store, in-place step of an " +
			"element, re-slice, append) is followed on every path by heap.Fix of that index, heap.Init, or heap.Pop for the top, before h[0] " +
			"is read again, another heap operation runs, or the function returns",
		Run: runHeapDiscipline,
	})
}

type gHeapType struct {
	named   *types.Named
	pkg     *packages.Package
	slice   bool                // the type itself is the storage
	fields  map[*types.Var]bool // storage fields of a struct heap type
	lessFns map[string]bool     // methods the Less method calls on elements
	own     map[*types.Func]bool
}

func gIsHeapInterface(named *types.Named) bool {
	ms := types.NewMethodSet(types.NewPointer(named))
	want := map[string]string{"Len": "func() int", "Less": "func(i int, j int) bool", "Swap": "func(i int, j int)", "Push": "", "Pop": ""}
	for name := range want {
		sel := ms.Lookup(named.Obj().Pkg(), name)
		if sel == nil {
			return false
		}
		sig, ok := sel.Type().(*types.Signature)
		if !ok {
			return false
		}
		switch name {
		case "Len":
			if sig.Params().Len() != 0 || sig.Results().Len() != 1 {
				return false
			}
		case "Less":
			if sig.Params().Len() != 2 || sig.Results().Len() != 1 {
				return false
			}
		case "Swap":
			if sig.Params().Len() != 2 || sig.Results().Len() != 0 {
				return false
			}
		case "Push":
			if sig.Params().Len() != 1 || sig.Results().Len() != 0 {
				return false
			}
		case "Pop":
			if sig.Params().Len() != 0 || sig.Results().Len() != 1 {
				return false
			}
		}
	}
	return true
}

func runHeapDiscipline(c *Ctx) []Obligation {
	// ---- heap types handed to container/heap
	isHeapCall := func(info *types.Info, call *ast.CallExpr) string {
		f := calleeFunc(info, call)
		if f == nil || f.Pkg() == nil || f.Pkg().Path() != "container/heap" {
			return ""
		}
		return f.Name()
	}
	stripAddr := func(e ast.Expr) ast.Expr {
		e = ast.Unparen(e)
		if ue, ok := e.(*ast.UnaryExpr); ok && ue.Op == token.AND {
			return ast.Unparen(ue.X)
		}
		return e
	}
	heapTypes := map[*types.Named]*gHeapType{}
	var interfaceUsers []Obligation
	for _, p := range c.SortedPkgs() {
		for _, fd := range c.FuncDecls(p) {
			viaInterface := false
			ast.Inspect(fd.Body, func(n ast.Node) bool {
				call, ok := n.(*ast.CallExpr)
				if !ok || isHeapCall(p.TypesInfo, call) == "" || len(call.Args) == 0 {
					return true
				}
				named := namedOf(p.TypesInfo.TypeOf(call.Args[0]))
				if named == nil || named.Obj().Pkg() == nil || !strings.HasPrefix(named.Obj().Pkg().Path(), ModulePath) {
					viaInterface = true
					return true
				}
				if _, seen := heapTypes[named]; !seen && gIsHeapInterface(named) {
					heapTypes[named] = &gHeapType{named: named, fields: map[*types.Var]bool{}, lessFns: map[string]bool{}, own: map[*types.Func]bool{}}
				}
				return true
			})
			if viaInterface {
				interfaceUsers = append(interfaceUsers, Obligation{Key: c.FuncName(p, fd) + "#via-interface", Pos: c.Position(fd.Pos()), Status: Info,
					Detail: fmt.Sprintf("%s drives a heap only through a value of type container/heap.Interface; its storage cannot be edited from here", c.FuncName(p, fd))})
			}
		}
	}
	for named, ht := range heapTypes {
		ht.pkg = c.Pkgs[named.Obj().Pkg().Path()]
		_, ht.slice = named.Underlying().(*types.Slice)
		for i := 0; i < named.NumMethods(); i++ {
			ht.own[named.Method(i)] = true
		}
		if ht.pkg == nil {
			continue
		}
		info := ht.pkg.TypesInfo
		// storage fields: slice fields indexed in Swap
		if st, ok := named.Underlying().(*types.Struct); ok {
			if fd, _ := c.Decl(gMethod(named, "Swap")); fd != nil && fd.Body != nil {
				ast.Inspect(fd.Body, func(n ast.Node) bool {
					if ix, ok := n.(*ast.IndexExpr); ok {
						if se, ok := ast.Unparen(ix.X).(*ast.SelectorExpr); ok {
							if sel := info.Selections[se]; sel != nil && sel.Kind() == types.FieldVal {
								if v, ok := sel.Obj().(*types.Var); ok {
									for i := 0; i < st.NumFields(); i++ {
										if st.Field(i) == v {
											if _, isSlice := v.Type().Underlying().(*types.Slice); isSlice {
												ht.fields[v] = true
											}
										}
									}
								}
							}
						}
					}
					return true
				})
			}
		}
		if fd, _ := c.Decl(gMethod(named, "Less")); fd != nil && fd.Body != nil {
			ast.Inspect(fd.Body, func(n ast.Node) bool {
				if call, ok := n.(*ast.CallExpr); ok {
					if se, ok := ast.Unparen(call.Fun).(*ast.SelectorExpr); ok {
						ht.lessFns[se.Sel.Name] = true
					}
				}
				return true
			})
		}
	}
	var hts []*gHeapType
	for _, ht := range heapTypes {
		if ht.pkg != nil {
			hts = append(hts, ht)
		}
	}
	sort.Slice(hts, func(i, j int) bool {
		return hts[i].named.Obj().Pkg().Path()+"."+hts[i].named.Obj().Name() < hts[j].named.Obj().Pkg().Path()+"."+hts[j].named.Obj().Name()
	})

	decided := func(p *packages.Package) bool {
		rel := relPkg(p)
		return rel == "b6" || rel == "search"
	}
	var out []Obligation
	for _, ht := range hts {
		p := ht.pkg
		info := p.TypesInfo
		tname := relPkg(p) + "." + ht.named.Obj().Name()
		// storageOf: if e denotes the storage of a heap value of this type, return the heap value expr.
		storageOf := func(e ast.Expr) (heapExpr ast.Expr, ok bool) {
			e = ast.Unparen(e)
			if ht.slice {
				if st, isStar := e.(*ast.StarExpr); isStar {
					if n := namedOf(info.TypeOf(st.X)); n == ht.named {
						return st.X, true
					}
				}
				t := info.TypeOf(e)
				if t == nil {
					return nil, false
				}
				if n, isNamed := types.Unalias(t).(*types.Named); isNamed && n == ht.named {
					return e, true
				}
				return nil, false
			}
			se, isSel := e.(*ast.SelectorExpr)
			if !isSel {
				return nil, false
			}
			sel := info.Selections[se]
			if sel == nil || sel.Kind() != types.FieldVal {
				return nil, false
			}
			if v, _ := sel.Obj().(*types.Var); v != nil && ht.fields[v] {
				if n := namedOf(info.TypeOf(se.X)); n == ht.named {
					return se.X, true
				}
			}
			return nil, false
		}
		nEdits := 0
		for _, fd := range c.FuncDecls(p) {
			fn, _ := info.Defs[fd.Name].(*types.Func)
			if fn == nil || ht.own[fn] {
				continue
			}
			name := c.FuncName(p, fd)
			// aliases: storage field initialised from A in a composite literal of the heap type
			type alias struct{ from, heap ast.Expr }
			var aliases []alias
			definitions := map[ast.Node]bool{}
			if !ht.slice {
				ast.Inspect(fd.Body, func(n ast.Node) bool {
					as, ok := n.(*ast.AssignStmt)
					if !ok || len(as.Lhs) != len(as.Rhs) {
						return true
					}
					for i, r := range as.Rhs {
						r = stripAddr(r)
						cl, ok := r.(*ast.CompositeLit)
						if !ok || namedOf(info.TypeOf(cl)) != ht.named {
							continue
						}
						for _, el := range cl.Elts {
							if kv, ok := el.(*ast.KeyValueExpr); ok {
								if id, ok := kv.Key.(*ast.Ident); ok {
									if v, _ := info.Uses[id].(*types.Var); v != nil && ht.fields[v] {
										switch ast.Unparen(kv.Value).(type) {
										case *ast.Ident, *ast.SelectorExpr:
											aliases = append(aliases, alias{kv.Value, as.Lhs[i]})
										}
									}
								}
							}
						}
					}
					return true
				})
			}
			// resolve an expression to (heap value, storage?) including aliases
			storage := func(e ast.Expr) (ast.Expr, bool) {
				if h, ok := storageOf(e); ok {
					return h, true
				}
				for _, a := range aliases {
					if sameExpr(info, e, a.from) {
						return a.heap, true
					}
				}
				return nil, false
			}
			type edit struct {
				node  ast.Node // the statement / expression that performs it
				pos   token.Pos
				kind  string
				heap  ast.Expr
				index ast.Expr // nil: whole slice
				text  string
			}
			var edits []edit
			elem := func(e ast.Expr) (h ast.Expr, idx ast.Expr, ok bool) {
				ix, isIx := ast.Unparen(e).(*ast.IndexExpr)
				if !isIx {
					return nil, nil, false
				}
				h, ok = storage(ix.X)
				return h, ix.Index, ok
			}
			pureStore := map[ast.Expr]bool{}
			ast.Inspect(fd.Body, func(n ast.Node) bool {
				switch s := n.(type) {
				case *ast.AssignStmt:
					for i, l := range s.Lhs {
						l = ast.Unparen(l)
						if h, idx, ok := elem(l); ok {
							pureStore[l] = true
							edits = append(edits, edit{s, l.Pos(), "store", h, idx, types.ExprString(l) + " = ..."})
							continue
						}
						if se, ok := l.(*ast.SelectorExpr); ok {
							if h, idx, ok := elem(se.X); ok {
								pureStore[ast.Unparen(se.X)] = true
								edits = append(edits, edit{s, l.Pos(), "field", h, idx, types.ExprString(l) + " = ..."})
								continue
							}
						}
						if h, ok := storageOf(l); ok && s.Tok != token.DEFINE {
							_ = i
							edits = append(edits, edit{s, l.Pos(), "reshape", h, nil, nodeText(c.Fset, s)})
						}
					}
				case *ast.CallExpr:
					se, ok := ast.Unparen(s.Fun).(*ast.SelectorExpr)
					if !ok {
						return true
					}
					h, idx, ok := elem(se.X)
					if !ok || ht.lessFns[se.Sel.Name] {
						return true
					}
					f := calleeFunc(info, s)
					if f == nil {
						return true
					}
					res := f.Type().(*types.Signature).Results()
					stepping := res.Len() == 0
					if res.Len() == 1 {
						if b, ok := res.At(0).Type().Underlying().(*types.Basic); ok && b.Kind() == types.Bool {
							stepping = true
						}
					}
					if stepping {
						edits = append(edits, edit{s, s.Pos(), "step", h, idx, types.ExprString(s)})
					}
				}
				return true
			})
			_ = definitions
			if len(edits) == 0 {
				continue
			}
			sort.SliceStable(edits, func(i, j int) bool { return edits[i].pos < edits[j].pos })
			g := newCFG(info, fd.Body)
			isZero := func(e ast.Expr) bool {
				tv, ok := info.Types[ast.Unparen(e)]
				return ok && tv.Value != nil && tv.Value.Kind() == constant.Int && constant.Sign(tv.Value) == 0
			}
			for i, ed := range edits {
				nEdits++
				ob := Obligation{Key: gNthKey(name, i+1), Pos: c.Position(ed.pos)}
				sameHeap := func(e ast.Expr) bool { return sameExpr(info, stripAddr(e), stripAddr(ed.heap)) }
				// classify a node: repair / use / neither
				classify := func(n ast.Node) (repair bool, use string) {
					ast.Inspect(n, func(x ast.Node) bool {
						switch y := x.(type) {
						case *ast.FuncLit:
							return false
						case *ast.CallExpr:
							op := isHeapCall(info, y)
							if op == "" || len(y.Args) == 0 || !sameHeap(y.Args[0]) {
								return true
							}
							switch {
							case op == "Init":
								repair = true
							case (op == "Fix" || op == "Remove") && ed.index != nil && len(y.Args) == 2 && sameExpr(info, y.Args[1], ed.index):
								repair = true
							case op == "Pop" && ed.index != nil && isZero(ed.index):
								repair = true
							default:
								if use == "" {
									use = fmt.Sprintf("heap.%s relies on the heap order", op)
								}
							}
						case *ast.IndexExpr:
							if pureStore[ast.Expr(y)] || !isZero(y.Index) {
								return true
							}
							if h, ok := storage(y.X); ok && sameHeap(h) && use == "" {
								use = fmt.Sprintf("%s is read as the minimum", types.ExprString(y))
							}
						}
						return true
					})
					return
				}
				loc, ok := findNode(g, ed.node)
				var w []string
				if !ok {
					w = []string{"edit not found in the control-flow graph"}
				} else {
					s := &gSearch{c: c, info: info, exitBad: true,
						stopNode: func(n ast.Node) bool { r, _ := classify(n); return r },
						killNode: func(n ast.Node) string {
							r, u := classify(n)
							if r {
								return ""
							}
							return u
						}}
					// the rest of the node that holds the edit is not examined (the edit itself reads S[i])
					w = s.forward(loc.b, loc.i+1)
				}
				want := "heap.Init"
				if ed.index != nil {
					want = fmt.Sprintf("heap.Fix(%s, %s) or heap.Init", types.ExprString(stripAddr(ed.heap)), types.ExprString(ed.index))
					if isZero(ed.index) {
						want += " or heap.Pop"
					}
				}
				verdict, detail := OK, fmt.Sprintf("%s of heap %s (%s): every path restores the order with %s before the top is read, another heap operation runs or the function returns", ed.kind, tname, ed.text, want)
				if w != nil {
					verdict = Violation
					detail = fmt.Sprintf("%s: %s of heap %s at %s (%s) is not followed by %s on every path; the heap order no longer holds when the minimum is next taken", name, ed.kind, tname, c.Position(ed.pos), ed.text, want)
					ob.Path = append([]string{"edit at " + c.Position(ed.pos) + ": " + ed.text}, w...)
				}
				if decided(p) {
					ob.Status, ob.Detail = verdict, detail
				} else {
					ob.Status = Info
					ob.Detail = fmt.Sprintf("informational (heap user outside the merge/search code, not decided): would be %s — %s", verdict, detail)
				}
				out = append(out, ob)
			}
		}
		if nEdits == 0 {
			out = append(out, Obligation{Key: tname + "#no-direct-edits", Pos: c.Position(ht.named.Obj().Pos()), Status: Info,
				Detail: fmt.Sprintf("heap type %s is only changed through container/heap and its own methods", tname)})
		}
	}
	out = append(out, interfaceUsers...)
	return out
}
