package main

import (
	"fmt"
	"go/ast"
	"go/types"
	"strings"
)

// FORK-PER-RUN (C25): map-parallel gives each worker goroutine its own forked evaluation context
// (its own VM stack and argument slots). The forks belong to one run of the workers. A collection
// can be iterated more than once, and two iterations can be in flight together; forks made once
// and kept in the collection (a field filled by the constructor) are then shared by worker i of
// every live iteration: one stack, one program counter, one set of lambda arguments.
//
// Subjects, by type (packages api and api/functions): calls of a method named Fork of
// api.Context / api.VM that returns a slice. Obligation: the result is bound to a local variable
// of the function that starts the workers; it is not stored in a struct field, not placed in a
// composite literal and not returned.
func init() {
	register(&Rule{
		Name:  "FORK-PER-RUN",
		IR:    "ast",
		Props: []string{"C25"},
		Floor: 2,
		Doc:   "forked evaluation contexts are made by the function that starts the workers and kept in a local variable: they are not stored in the collection (a field, a composite literal), where the iterations of one collection would share them",
		Run:   runForkPerRun,
	})
}

func runForkPerRun(c *Ctx) []Obligation {
	var out []Obligation
	for _, rel := range []string{"api", "api/functions"} {
		p := c.Pkg(rel)
		if p == nil {
			continue
		}
		info := p.TypesInfo
		for _, fd := range c.FuncDecls(p) {
			if fd.Body == nil {
				continue
			}
			name := c.FuncName(p, fd)
			ord := 0
			var stack []ast.Node
			ast.Inspect(fd.Body, func(n ast.Node) bool {
				if n == nil {
					stack = stack[:len(stack)-1]
					return true
				}
				stack = append(stack, n)
				call, ok := n.(*ast.CallExpr)
				if !ok {
					return true
				}
				f := calleeFunc(info, call)
				if f == nil || f.Name() != "Fork" || f.Pkg() == nil || !strings.HasSuffix(f.Pkg().Path(), "/api") {
					return true
				}
				if _, isSlice := info.TypeOf(call).Underlying().(*types.Slice); !isSlice {
					return true
				}
				ord++
				ob := Obligation{Key: fmt.Sprintf("%s#%d", name, ord), Pos: c.Position(call.Pos()), Status: OK,
					Detail: fmt.Sprintf("the result of %s is kept in a local variable of the function that starts the workers", srcText(c.Fset, call))}
				if len(stack) >= 2 {
					switch par := stack[len(stack)-2].(type) {
					case *ast.AssignStmt:
						for i, r := range par.Rhs {
							if r == ast.Expr(call) && i < len(par.Lhs) {
								if _, isIdent := par.Lhs[i].(*ast.Ident); !isIdent {
									ob.Status = Violation
									ob.Detail = fmt.Sprintf("the forks made by %s are stored in %s: state that outlives this run and is shared by every iteration of the collection", srcText(c.Fset, call), srcText(c.Fset, par.Lhs[i]))
								}
							}
						}
					case *ast.KeyValueExpr, *ast.CompositeLit:
						ob.Status = Violation
						ob.Detail = fmt.Sprintf("the forks made by %s are placed in a composite value when the collection is built: they are shared by every iteration of that collection, so worker i of two iterations in flight runs on one VM stack and one set of argument slots", srcText(c.Fset, call))
					case *ast.ReturnStmt:
						if fd.Name.Name != "Fork" {
							ob.Status = Violation
							ob.Detail = fmt.Sprintf("the forks made by %s are returned to the caller", srcText(c.Fset, call))
						}
					}
				}
				out = append(out, ob)
				return true
			})
		}
	}
	return out
}
