// Engine of b6lint: loads the b6 module (type-checked syntax for module packages,
// export data for dependencies), builds SSA lazily, and runs repository-specific rules.
// Nothing here executes b6 code.
package main

import (
	"crypto/sha256"
	"encoding/hex"
	"fmt"
	"go/ast"
	"go/token"
	"go/types"
	"io"
	"os"
	"path/filepath"
	"sort"
	"strings"
	"sync"

	"golang.org/x/tools/go/callgraph"
	"golang.org/x/tools/go/callgraph/cha"
	"golang.org/x/tools/go/callgraph/vta"
	"golang.org/x/tools/go/packages"
	"golang.org/x/tools/go/ssa"
	"golang.org/x/tools/go/ssa/ssautil"
)

const ModulePath = "diagonal.works/b6"

// The cgo GDAL binding is absent from the sandbox: a module package may fail to load only if
// it (transitively) imports it. Those packages hold no anchor of any property.
const cgoGdal = "github.com/lukeroth/gdal"

func importsGdal(p *packages.Package, seen map[string]bool) bool {
	if p.PkgPath == cgoGdal {
		return true
	}
	if seen[p.PkgPath] {
		return false
	}
	seen[p.PkgPath] = true
	for _, ip := range p.Imports {
		if importsGdal(ip, seen) {
			return true
		}
	}
	return false
}

// Status of one obligation.
const (
	OK        = "ok"
	Violation = "violation"
	Undecided = "undecided" // the rule met an idiom it does not know; counts as a failure
	Info      = "info"      // reported, never fails
)

// Obligation is one instance of a rule on one construct.
type Obligation struct {
	Rule   string   `json:"rule"`
	Key    string   `json:"key"` // rule/pkg.Func[#ordinal]; no line numbers
	Props  []string `json:"props"`
	Pos    string   `json:"pos"` // file:line relative to the module root
	Status string   `json:"status"`
	Detail string   `json:"detail,omitempty"`
	Path   []string `json:"path,omitempty"`
}

// Rule is one repository-specific checker.
type Rule struct {
	Name  string
	Doc   string   // the rule text printed in evidence
	Props []string // properties it serves (an obligation may narrow this)
	// Floor: least number of instances (obligations of any status except info) confirmed by
	// hand on today's tree; fewer means the rule has gone vacuous and the check fails.
	Floor int
	// FloorBy lets a rule state floors per property (overrides Floor for that property).
	FloorBy map[string]int
	Run     func(c *Ctx) []Obligation
	IR      string // "ast", "cfg", "ssa", "callgraph"
	// Narrow, if set, is applied to every obligation after Run: it may restrict Props for
	// obligations that serve only some of the rule's properties.
	Narrow func(o *Obligation)
}

var rules []*Rule

func register(r *Rule) { rules = append(rules, r) }

// Ctx is the loaded program.
type Ctx struct {
	Root    string // module directory
	Fset    *token.FileSet
	Pkgs    map[string]*packages.Package // by import path, module packages only
	Skipped []string
	NFuncs  int

	ssaOnce sync.Once
	Prog    *ssa.Program
	SSAPkgs map[string]*ssa.Package
	cgOnce  sync.Once
	cg      *callgraph.Graph

	declOnce sync.Once
	decls    map[*types.Func]*ast.FuncDecl
	declPkg  map[*types.Func]*packages.Package
}

// Load type-checks the module rooted at dir.
func Load(dir string) (*Ctx, error) {
	cfg := &packages.Config{
		Mode: packages.NeedName | packages.NeedFiles | packages.NeedCompiledGoFiles | packages.NeedSyntax |
			packages.NeedTypes | packages.NeedTypesInfo | packages.NeedTypesSizes | packages.NeedImports | packages.NeedModule,
		Dir:   dir,
		Tests: false,
		// -trimpath keeps the directory out of the build cache keys, so scratch copies of the
		// module (mutants) reuse the export data of every package they did not change.
		BuildFlags: []string{"-trimpath"},
		Env: append(os.Environ(), "GOFLAGS=-mod=mod", "GOPROXY=off", "GOSUMDB=off", "GOTOOLCHAIN=local",
			"GOWORK=off"),
	}
	pkgs, err := packages.Load(cfg, "./...")
	if err != nil {
		return nil, fmt.Errorf("load: %v", err)
	}
	c := &Ctx{Root: dir, Pkgs: map[string]*packages.Package{}}
	for _, p := range pkgs {
		if !strings.HasPrefix(p.PkgPath, ModulePath) {
			continue
		}
		if len(p.Errors) > 0 || p.IllTyped {
			if importsGdal(p, map[string]bool{}) {
				c.Skipped = append(c.Skipped, p.PkgPath)
				continue
			}
			msgs := []string{}
			for _, e := range p.Errors {
				msgs = append(msgs, e.Error())
			}
			return nil, fmt.Errorf("package %s does not type-check: %s", p.PkgPath, strings.Join(msgs, "; "))
		}
		c.Pkgs[p.PkgPath] = p
		if c.Fset == nil {
			c.Fset = p.Fset
		}
	}
	if len(c.Pkgs) == 0 {
		return nil, fmt.Errorf("no packages of %s loaded from %s", ModulePath, dir)
	}
	sort.Strings(c.Skipped)
	for _, p := range c.Pkgs {
		for _, f := range p.Syntax {
			for _, d := range f.Decls {
				if fd, ok := d.(*ast.FuncDecl); ok && fd.Body != nil {
					c.NFuncs++
				}
			}
		}
	}
	return c, nil
}

// Pkg returns the module package with the given path relative to the module ("" = root).
func (c *Ctx) Pkg(rel string) *packages.Package {
	p := ModulePath
	if rel != "" {
		p += "/" + rel
	}
	return c.Pkgs[p]
}

// SortedPkgs returns module packages in path order.
func (c *Ctx) SortedPkgs() []*packages.Package {
	var ps []*packages.Package
	for _, p := range c.Pkgs {
		ps = append(ps, p)
	}
	sort.Slice(ps, func(i, j int) bool { return ps[i].PkgPath < ps[j].PkgPath })
	return ps
}

// IsGenerated reports whether the file is generated code (never a rule subject).
func (c *Ctx) IsGenerated(f *ast.File) bool {
	// PositionFor(.., false): ignore //line directives (y.go reports itself as shell.y)
	name := c.Fset.PositionFor(f.Pos(), false).Filename
	base := filepath.Base(name)
	return strings.HasSuffix(base, ".pb.go") || base == "y.go"
}

// Position renders a position relative to the module root.
func (c *Ctx) Position(p token.Pos) string {
	if !p.IsValid() {
		return "-"
	}
	pos := c.Fset.Position(p)
	rel, err := filepath.Rel(c.Root, pos.Filename)
	if err != nil {
		rel = pos.Filename
	}
	return fmt.Sprintf("%s:%d", rel, pos.Line)
}

// BuildSSA builds SSA for all loaded packages (dependencies have no bodies).
func (c *Ctx) BuildSSA() {
	c.ssaOnce.Do(func() {
		var initial []*packages.Package
		for _, p := range c.SortedPkgs() {
			initial = append(initial, p)
		}
		prog, spkgs := ssautil.Packages(initial, ssa.InstantiateGenerics)
		c.Prog = prog
		c.SSAPkgs = map[string]*ssa.Package{}
		for i, sp := range spkgs {
			if sp != nil {
				c.SSAPkgs[initial[i].PkgPath] = sp
			}
		}
		prog.Build()
	})
}

// CallGraph returns the VTA call graph seeded by CHA.
func (c *Ctx) CallGraph() *callgraph.Graph {
	c.BuildSSA()
	c.cgOnce.Do(func() {
		c.cg = vta.CallGraph(ssautil.AllFunctions(c.Prog), cha.CallGraph(c.Prog))
	})
	return c.cg
}

// SSAFunc returns the SSA function for a types.Func declared in the module.
func (c *Ctx) SSAFunc(f *types.Func) *ssa.Function {
	c.BuildSSA()
	return c.Prog.FuncValue(f)
}

func (c *Ctx) indexDecls() {
	c.declOnce.Do(func() {
		c.decls = map[*types.Func]*ast.FuncDecl{}
		c.declPkg = map[*types.Func]*packages.Package{}
		for _, p := range c.Pkgs {
			for _, f := range p.Syntax {
				for _, d := range f.Decls {
					if fd, ok := d.(*ast.FuncDecl); ok {
						if obj, ok := p.TypesInfo.Defs[fd.Name].(*types.Func); ok {
							c.decls[obj] = fd
							c.declPkg[obj] = p
						}
					}
				}
			}
		}
	})
}

// Decl returns the declaration of a module function, or nil.
func (c *Ctx) Decl(f *types.Func) (*ast.FuncDecl, *packages.Package) {
	c.indexDecls()
	if f == nil {
		return nil, nil
	}
	f = f.Origin()
	return c.decls[f], c.declPkg[f]
}

// FuncDecls enumerates all non-generated function declarations with bodies of a package,
// in source order.
func (c *Ctx) FuncDecls(p *packages.Package) []*ast.FuncDecl {
	var out []*ast.FuncDecl
	files := append([]*ast.File(nil), p.Syntax...)
	sort.Slice(files, func(i, j int) bool {
		return c.Fset.Position(files[i].Pos()).Filename < c.Fset.Position(files[j].Pos()).Filename
	})
	for _, f := range files {
		if c.IsGenerated(f) {
			continue
		}
		for _, d := range f.Decls {
			if fd, ok := d.(*ast.FuncDecl); ok && fd.Body != nil {
				out = append(out, fd)
			}
		}
	}
	return out
}

// FuncName renders pkg.(*Recv).Name / pkg.Name with the package path relative to the module.
func (c *Ctx) FuncName(p *packages.Package, fd *ast.FuncDecl) string {
	rel := strings.TrimPrefix(strings.TrimPrefix(p.PkgPath, ModulePath), "/")
	if rel == "" {
		rel = "b6"
	}
	if fd.Recv != nil && len(fd.Recv.List) > 0 {
		return fmt.Sprintf("%s.(%s).%s", rel, types.ExprString(fd.Recv.List[0].Type), fd.Name.Name)
	}
	return rel + "." + fd.Name.Name
}

// LookupFunc finds a package-level function by name.
func (c *Ctx) LookupFunc(rel, name string) (*ast.FuncDecl, *packages.Package) {
	p := c.Pkg(rel)
	if p == nil {
		return nil, nil
	}
	obj, _ := p.Types.Scope().Lookup(name).(*types.Func)
	if obj == nil {
		return nil, p
	}
	fd, _ := c.Decl(obj)
	return fd, p
}

// LookupMethod finds a method (pointer or value receiver) of a named type.
func (c *Ctx) LookupMethod(rel, typ, name string) (*ast.FuncDecl, *packages.Package) {
	p := c.Pkg(rel)
	if p == nil {
		return nil, nil
	}
	tn, _ := p.Types.Scope().Lookup(typ).(*types.TypeName)
	if tn == nil {
		return nil, p
	}
	named, _ := tn.Type().(*types.Named)
	if named == nil {
		return nil, p
	}
	for i := 0; i < named.NumMethods(); i++ {
		if m := named.Method(i); m.Name() == name {
			fd, _ := c.Decl(m)
			return fd, p
		}
	}
	return nil, p
}

// TreeKey hashes every .go file, go.mod and go.sum under the module root.
func TreeKey(root string) (string, int, error) {
	type ent struct {
		path string
		sum  string
		size int64
	}
	var ents []ent
	err := filepath.Walk(root, func(path string, info os.FileInfo, err error) error {
		if err != nil {
			return err
		}
		if info.IsDir() {
			n := info.Name()
			if path != root && (strings.HasPrefix(n, ".") || n == "node_modules") {
				return filepath.SkipDir
			}
			return nil
		}
		n := info.Name()
		if !(strings.HasSuffix(n, ".go") || strings.HasSuffix(n, ".y") || n == "go.mod" || n == "go.sum") {
			return nil
		}
		f, err := os.Open(path)
		if err != nil {
			return err
		}
		h := sha256.New()
		_, err = io.Copy(h, f)
		f.Close()
		if err != nil {
			return err
		}
		rel, _ := filepath.Rel(root, path)
		ents = append(ents, ent{rel, hex.EncodeToString(h.Sum(nil)), info.Size()})
		return nil
	})
	if err != nil {
		return "", 0, err
	}
	sort.Slice(ents, func(i, j int) bool { return ents[i].path < ents[j].path })
	h := sha256.New()
	for _, e := range ents {
		fmt.Fprintf(h, "%s %d %s\n", e.path, e.size, e.sum)
	}
	return hex.EncodeToString(h.Sum(nil)), len(ents), nil
}
