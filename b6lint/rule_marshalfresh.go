package main

import (
	"fmt"
	"go/ast"
	"go/types"
)

// MARSHAL-FRESH (C32): encoding/json calls MarshalJSON on every value of a tree, possibly from
// several goroutines at once (a server marshals responses concurrently), and keeps the returned
// bytes until it has copied them. A MarshalJSON that formats into a buffer shared by all calls — a
// package-level slice reused "to save allocations" — returns bytes that the next call, on any
// goroutine, overwrites: the output is another geometry's coordinates or not JSON at all.
//
// Subjects, by type (whole module): methods with the signature of json.Marshaler.MarshalJSON
// (`() ([]byte, error)`). Obligation: the body neither reads nor writes a package-level variable
// of slice, array, map or pointer type (mutable state shared between calls); constants and
// package-level functions are fine. Package geojson carries C32; elsewhere the verdict is
// informational.
func init() {
	register(&Rule{
		Name:  "MARSHAL-FRESH",
		IR:    "ast",
		Props: []string{"C32"},
		Floor: 2,
		Doc:   "a MarshalJSON method does not format into mutable package-level state (a shared scratch buffer): the bytes it returns must not be overwritten by the next call on any goroutine",
		Run:   runMarshalFresh,
	})
}

func runMarshalFresh(c *Ctx) []Obligation {
	var out []Obligation
	for _, p := range c.SortedPkgs() {
		info := p.TypesInfo
		for _, fd := range c.FuncDecls(p) {
			obj, _ := info.Defs[fd.Name].(*types.Func)
			if obj == nil || fd.Recv == nil || fd.Body == nil {
				continue
			}
			sig := obj.Type().(*types.Signature)
			if sig.Params().Len() != 0 || sig.Results().Len() != 2 || !jIsError(sig.Results().At(1).Type()) {
				continue
			}
			sl, ok := sig.Results().At(0).Type().Underlying().(*types.Slice)
			if !ok || !types.Identical(sl.Elem(), types.Typ[types.Byte]) {
				continue
			}
			ob := Obligation{Key: c.FuncName(p, fd), Pos: c.Position(fd.Pos()), Status: OK, Detail: "uses no mutable package-level state"}
			ast.Inspect(fd.Body, func(n ast.Node) bool {
				id, ok := n.(*ast.Ident)
				if !ok || ob.Status != OK {
					return true
				}
				v, ok := info.Uses[id].(*types.Var)
				if !ok || v.Pkg() == nil || v.Parent() != v.Pkg().Scope() {
					return true
				}
				switch v.Type().Underlying().(type) {
				case *types.Slice, *types.Array, *types.Map, *types.Pointer:
					ob.Status = Violation
					ob.Pos = c.Position(id.Pos())
					ob.Detail = fmt.Sprintf("%s uses the package-level variable %s (%s): state shared by every call, on every goroutine — bytes returned from one call are overwritten by the next while encoding/json still holds them", obj.Name(), v.Name(), types.TypeString(v.Type(), types.RelativeTo(p.Types)))
				}
				return true
			})
			if relPkg(p) != "geojson" {
				if ob.Status == Violation {
					ob.Detail = "verdict violation (outside package geojson): " + ob.Detail
				}
				ob.Status = Info
			}
			out = append(out, ob)
		}
	}
	return out
}
