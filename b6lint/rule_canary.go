package main

import (
	"fmt"
	"go/ast"
	"go/token"
	"go/types"

	"golang.org/x/tools/go/cfg"
	"golang.org/x/tools/go/packages"
)

// CANARY (C13): a composite change must not touch the real world before every part has been
// accepted by a throw-away overlay.
//
// Instances (by type and shape, go/cfg): in every implementation of ingest.Change.Apply, each
// call of Change.Apply whose argument is the method's own world parameter ("real apply";
// today two-loop MergedChange.Apply has one).
//
// Obligation for a real apply `c.Apply(w)`: there is a range loop L ("canary loop") such that
//   - L ranges over the same expression as the loop whose value variable the real apply is
//     called on, and that expression is never assigned in the function (same parts, every part);
//   - L's body calls Apply on L's own value variable with a canary: a local variable whose only
//     definition is a call, with the world parameter as argument, of a function that returns a
//     freshly allocated ingest.MutableWorld (ingest.NewMutableOverlayWorld);
//   - every iteration applies: the canary apply lies on every path from the loop body back to
//     the loop head (no `continue` before it);
//   - the loop returns on error: the error result of the canary apply is tested against nil and
//     the error branch leaves the function without reaching the loop head or the loop exit;
//   - the loop has no other exit: the block after L is entered only from L's head (no `break`);
//   - the block after L (its normal exit) dominates the real apply.
//
// The obligation holds for EVERY Apply on the world parameter, wherever it stands: one outside
// the real loop (a shortcut such as `if len(m) == 1 { return m[0].Apply(w) }` placed before the
// canary loop) is a violation unless the exit of a canary loop dominates it; when it does, the
// receiver must visibly be an element `parts[i]` of the canaried expression (otherwise undecided).
//
// Accepted idioms: `if _, err := c.Apply(canary); err != nil { return … }` and the split form
// `_, err := c.Apply(canary); if err != nil { return … }`.
func init() {
	register(&Rule{
		Name:  "CANARY",
		IR:    "cfg",
		Props: []string{"C13"},
		Floor: 1, // ingest.(MergedChange).Apply: the one Apply on the real world
		Doc: "in every implementation of ingest.Change.Apply, each Apply on the method's own world parameter is dominated by the normal exit of a range loop " +
			"over the same parts that applied every part to a freshly built overlay of that world and returns on the first error",
		Run: runCanary,
	})
}

func runCanary(c *Ctx) []Obligation {
	t, err := iLoadTypes(c)
	if err != nil {
		return iAnchorFailure(err)
	}
	k := iNewClassifier(c, t)
	var out []Obligation
	for _, p := range c.SortedPkgs() {
		for _, fd := range c.FuncDecls(p) {
			obj, _ := p.TypesInfo.Defs[fd.Name].(*types.Func)
			if obj == nil || !t.iIsApplyImpl(obj) {
				continue
			}
			out = append(out, iCanaryFunc(c, t, k, p, fd, obj)...)
		}
	}
	return out
}

// iDominators computes the dominator sets of the live blocks of a go/cfg graph.
func iDominators(g *cfg.CFG) (dom map[*cfg.Block]map[*cfg.Block]bool, preds map[*cfg.Block][]*cfg.Block) {
	preds = map[*cfg.Block][]*cfg.Block{}
	var live []*cfg.Block
	for _, b := range g.Blocks {
		if b.Live {
			live = append(live, b)
			for _, s := range b.Succs {
				preds[s] = append(preds[s], b)
			}
		}
	}
	dom = map[*cfg.Block]map[*cfg.Block]bool{}
	if len(live) == 0 {
		return
	}
	entry := g.Blocks[0]
	for _, b := range live {
		dom[b] = map[*cfg.Block]bool{}
		if b == entry {
			dom[b][b] = true
			continue
		}
		for _, x := range live {
			dom[b][x] = true
		}
	}
	for changed := true; changed; {
		changed = false
		for _, b := range live {
			if b == entry {
				continue
			}
			nd := map[*cfg.Block]bool{}
			first := true
			for _, pr := range preds[b] {
				if first {
					for x := range dom[pr] {
						nd[x] = true
					}
					first = false
				} else {
					for x := range nd {
						if !dom[pr][x] {
							delete(nd, x)
						}
					}
				}
			}
			nd[b] = true
			if len(nd) != len(dom[b]) {
				dom[b] = nd
				changed = true
			}
		}
	}
	return
}

type iCanaryCall struct {
	call *ast.CallExpr
	loop *ast.RangeStmt // innermost enclosing range loop, or nil
}

func iCanaryFunc(c *Ctx, t *iTypes, k *iClassifier, p *packages.Package, fd *ast.FuncDecl, obj *types.Func) []Obligation {
	info := p.TypesInfo
	name := c.FuncName(p, fd)
	// the world parameter: the parameter whose type is ingest.MutableWorld
	var world types.Object
	sig := obj.Type().(*types.Signature)
	for i := 0; i < sig.Params().Len(); i++ {
		if types.Identical(sig.Params().At(i).Type().Underlying(), t.mworld) {
			world = sig.Params().At(i)
		}
	}
	if world == nil {
		return nil
	}
	isWorld := func(e ast.Expr) bool {
		id, ok := ast.Unparen(e).(*ast.Ident)
		return ok && info.ObjectOf(id) == world
	}
	// all inner Apply calls with one argument
	var real, other []iCanaryCall
	inLiteral := map[*ast.CallExpr]bool{}
	var visit func(n ast.Node, loop *ast.RangeStmt)
	visit = func(n ast.Node, loop *ast.RangeStmt) {
		ast.Inspect(n, func(x ast.Node) bool {
			if x == nil || x == n {
				return true
			}
			switch y := x.(type) {
			case *ast.RangeStmt:
				visit(y.X, loop)
				visit(y.Body, y)
				return false
			case *ast.FuncLit:
				ast.Inspect(y.Body, func(z ast.Node) bool {
					if call, ok := z.(*ast.CallExpr); ok {
						if f := calleeFunc(info, call); f != nil && t.iIsApply(f) && len(call.Args) == 1 && isWorld(call.Args[0]) {
							real = append(real, iCanaryCall{call, nil})
							inLiteral[call] = true
						}
					}
					return true
				})
				return false
			case *ast.CallExpr:
				if f := calleeFunc(info, y); f != nil && t.iIsApply(f) && len(y.Args) == 1 {
					if isWorld(y.Args[0]) {
						real = append(real, iCanaryCall{y, loop})
					} else {
						other = append(other, iCanaryCall{y, loop})
					}
				}
			}
			return true
		})
	}
	visit(fd.Body, nil)
	if len(real) == 0 {
		return nil
	}
	g := newCFG(info, fd.Body)
	dom, preds := iDominators(g)

	// assignments to identifiers in the function (to reject a reassigned range expression or canary)
	assigned := map[types.Object]int{}
	defs := map[types.Object]ast.Expr{}
	ast.Inspect(fd.Body, func(x ast.Node) bool {
		switch s := x.(type) {
		case *ast.AssignStmt:
			for i, l := range s.Lhs {
				if id, ok := ast.Unparen(l).(*ast.Ident); ok {
					if o := info.ObjectOf(id); o != nil {
						assigned[o]++
						if len(s.Lhs) == len(s.Rhs) {
							defs[o] = s.Rhs[i]
						}
					}
				}
			}
		case *ast.ValueSpec:
			for i, id := range s.Names {
				if o := info.ObjectOf(id); o != nil && i < len(s.Values) {
					assigned[o]++
					defs[o] = s.Values[i]
				}
			}
		case *ast.IncDecStmt:
			if id, ok := ast.Unparen(s.X).(*ast.Ident); ok {
				assigned[info.ObjectOf(id)]++
			}
		case *ast.UnaryExpr:
			if s.Op == token.AND {
				if id, ok := ast.Unparen(s.X).(*ast.Ident); ok {
					assigned[info.ObjectOf(id)] += 2 // address taken: may be written anywhere
				}
			}
		}
		return true
	})
	// isCanary: a local defined exactly once by a call f(…world…) of a function returning a fresh MutableWorld
	ssaFn := c.SSAFunc(obj)
	calls := iCallIndex(ssaFn)
	isCanary := func(e ast.Expr) (bool, string) {
		id, ok := ast.Unparen(e).(*ast.Ident)
		if !ok {
			return false, "the argument is not a local variable"
		}
		o := info.ObjectOf(id)
		if o == nil || assigned[o] != 1 || defs[o] == nil {
			return false, id.Name + " is not defined exactly once"
		}
		call, ok := ast.Unparen(defs[o]).(*ast.CallExpr)
		if !ok {
			return false, id.Name + " is not defined by a constructor call"
		}
		overWorld := false
		for _, a := range call.Args {
			if isWorld(a) {
				overWorld = true
			}
		}
		if !overWorld {
			return false, id.Name + " is not built over the world parameter"
		}
		ci, ok := calls[call.Lparen]
		if !ok {
			return false, "constructor call not found in SSA"
		}
		fn := ci.instr.Common().StaticCallee()
		if fn == nil || len(fn.Blocks) == 0 || !k.returnsFresh(fn, 0) {
			return false, id.Name + " is not the result of a function that returns a freshly allocated world"
		}
		if !iImplements(info.TypeOf(call), t.mworld) {
			return false, id.Name + " is not an ingest.MutableWorld"
		}
		return true, ""
	}
	rangeValueObj := func(l *ast.RangeStmt) types.Object {
		if l == nil || l.Value == nil {
			return nil
		}
		if id, ok := l.Value.(*ast.Ident); ok {
			return info.ObjectOf(id)
		}
		return nil
	}
	recvIsLoopValue := func(call *ast.CallExpr, l *ast.RangeStmt) bool {
		sel, ok := ast.Unparen(call.Fun).(*ast.SelectorExpr)
		if !ok {
			return false
		}
		id, ok := ast.Unparen(sel.X).(*ast.Ident)
		vo := rangeValueObj(l)
		return ok && vo != nil && info.ObjectOf(id) == vo && assigned[vo] == 0
	}
	blockOf := func(kind cfg.BlockKind, s ast.Stmt) *cfg.Block {
		for _, b := range g.Blocks {
			if b.Kind == kind && b.Stmt == s {
				return b
			}
		}
		return nil
	}
	reach := func(from *cfg.Block, stopAt map[*cfg.Block]bool) (hit *cfg.Block, exits bool) {
		seen := map[*cfg.Block]bool{from: true}
		work := []*cfg.Block{from}
		for len(work) > 0 {
			b := work[0]
			work = work[1:]
			if stopAt[b] {
				return b, exits
			}
			if isExitBlock(info, b) {
				exits = true
			}
			for _, s := range b.Succs {
				if !seen[s] {
					seen[s] = true
					work = append(work, s)
				}
			}
		}
		return nil, exits
	}

	// checkLoop decides whether cc (an Apply on a canary inside loop L) makes L a canary loop
	// for parts expression X; returns "" or the reason it does not.
	checkLoop := func(cc iCanaryCall, X ast.Expr) string {
		L := cc.loop
		where := c.Position(L.Pos())
		if !sameExpr(info, L.X, X) {
			return "the loop at " + where + " ranges over " + types.ExprString(L.X) + ", not over " + types.ExprString(X)
		}
		if !recvIsLoopValue(cc.call, L) {
			return "the Apply at " + c.Position(cc.call.Pos()) + " is not called on the value variable of the loop at " + where
		}
		if ok, why := isCanary(cc.call.Args[0]); !ok {
			return "the Apply at " + c.Position(cc.call.Pos()) + " is not on a canary: " + why
		}
		head, body, done := blockOf(cfg.KindRangeLoop, L), blockOf(cfg.KindRangeBody, L), blockOf(cfg.KindRangeDone, L)
		loc, found := findNode(g, cc.call)
		if head == nil || body == nil || done == nil || !found {
			return "the loop at " + where + " was not found in the control-flow graph"
		}
		// every iteration applies
		for _, pr := range preds[head] {
			if dom[pr][head] && !dom[pr][loc.b] { // a back edge not dominated by the canary apply
				return "an iteration of the loop at " + where + " can return to the loop head without applying the part to the canary (continue)"
			}
		}
		// no other exit
		for _, pr := range preds[done] {
			if pr != head {
				return "the loop at " + where + " can be left early (break) before every part was applied to the canary"
			}
		}
		// returns on error: find the nil test of the error result
		var test *ast.IfStmt
		var errObj types.Object
		chain := enclosing(fd.Body, cc.call)
		for i := len(chain) - 1; i >= 0 && errObj == nil; i-- {
			if as, ok := chain[i].(*ast.AssignStmt); ok && len(as.Rhs) == 1 && ast.Unparen(as.Rhs[0]) == ast.Expr(cc.call) && len(as.Lhs) == 2 {
				if id, ok := as.Lhs[1].(*ast.Ident); ok && id.Name != "_" {
					errObj = info.ObjectOf(id)
				}
				// the if statement is either the parent (Init) or the next statement
				if i > 0 {
					if ifs, ok := chain[i-1].(*ast.IfStmt); ok && ifs.Init == ast.Stmt(as) {
						test = ifs
					} else if blk, ok := chain[i-1].(*ast.BlockStmt); ok {
						for j, s := range blk.List {
							if s == ast.Stmt(as) && j+1 < len(blk.List) {
								test, _ = blk.List[j+1].(*ast.IfStmt)
							}
						}
					}
				}
			}
		}
		if errObj == nil || test == nil {
			return "the error of the canary Apply at " + c.Position(cc.call.Pos()) + " is not tested by the statement that follows it"
		}
		be, ok := ast.Unparen(test.Cond).(*ast.BinaryExpr)
		if !ok || be.Op != token.NEQ {
			return "the test after the canary Apply at " + c.Position(test.Pos()) + " is not `err != nil`"
		}
		lhs, lok := ast.Unparen(be.X).(*ast.Ident)
		rhs, rok := ast.Unparen(be.Y).(*ast.Ident)
		if !lok || !rok || info.ObjectOf(lhs) != errObj || info.ObjectOf(rhs) != types.Universe.Lookup("nil") {
			return "the test after the canary Apply at " + c.Position(test.Pos()) + " is not `err != nil` on its error result"
		}
		then := blockOf(cfg.KindIfThen, test)
		if then == nil {
			return "the error branch at " + c.Position(test.Pos()) + " was not found in the control-flow graph"
		}
		if hit, exits := reach(then, map[*cfg.Block]bool{head: true, done: true}); hit != nil || !exits {
			return "the error branch at " + c.Position(test.Pos()) + " does not return: the loop goes on after a part was rejected by the canary"
		}
		return ""
	}

	var out []Obligation
	for n, r := range real {
		ob := Obligation{Key: fmt.Sprintf("%s#%d", name, n+1), Pos: c.Position(r.call.Pos())}
		what := fmt.Sprintf("%s on the real world (parameter %s)", nodeText(c.Fset, r.call), world.Name())
		// the parts expression of the real apply
		var X ast.Expr
		if r.loop != nil && recvIsLoopValue(r.call, r.loop) {
			X = r.loop.X
		}
		loc, found := findNode(g, r.call)
		switch {
		case inLiteral[r.call]:
			ob.Status, ob.Detail = Undecided, what+" is inside a function literal: idiom not known"
		case !found:
			ob.Status, ob.Detail = Undecided, what+" was not found in the control-flow graph"
		default:
			// Every Apply on the real world, wherever it stands, must be dominated by the normal exit
			// of a canary loop; an Apply outside the real loop (a shortcut such as
			// `if len(m) == 1 { return m[0].Apply(w) }`) is judged in the same way.
			var reasons []string
			okLoop, okParts := "", ast.Expr(nil)
			for _, cc := range other {
				if cc.loop == nil || cc.loop == r.loop {
					continue
				}
				P := cc.loop.X
				if X != nil && !sameExpr(info, P, X) {
					reasons = append(reasons, "the loop at "+c.Position(cc.loop.Pos())+" ranges over "+types.ExprString(P)+", not over "+types.ExprString(X))
					continue
				}
				if why := checkLoop(cc, P); why != "" {
					reasons = append(reasons, why)
					continue
				}
				if id, ok := ast.Unparen(P).(*ast.Ident); ok && assigned[info.ObjectOf(id)] > 0 {
					reasons = append(reasons, "the parts "+id.Name+" are reassigned in the function, so the canary loop at "+c.Position(cc.loop.Pos())+" and the real apply need not see the same parts")
					continue
				}
				done := blockOf(cfg.KindRangeDone, cc.loop)
				if !dom[loc.b][done] {
					reasons = append(reasons, "the exit of the canary loop at "+c.Position(cc.loop.Pos())+" does not dominate it (the real world can be changed before or without the canary pass)")
					continue
				}
				okLoop, okParts = c.Position(cc.loop.Pos()), P
			}
			switch {
			case okLoop == "":
				ob.Status = Violation
				if len(reasons) == 0 {
					reasons = []string{"no loop applies the parts to a canary overlay first"}
				}
				ob.Detail = what + " is not protected by a canary pass: " + reasons[0]
				ob.Path = reasons
			case X != nil:
				ob.Status = OK
				ob.Detail = what + " is dominated by the normal exit of the canary loop at " + okLoop + ", which applies every part of " + types.ExprString(X) + " to a fresh overlay and returns on error"
			default:
				// outside a loop over the parts: the receiver must visibly be one of the canaried parts
				sel, _ := ast.Unparen(r.call.Fun).(*ast.SelectorExpr)
				var ix *ast.IndexExpr
				if sel != nil {
					ix, _ = ast.Unparen(sel.X).(*ast.IndexExpr)
				}
				if ix != nil && sameExpr(info, ix.X, okParts) {
					ob.Status = OK
					ob.Detail = what + " applies an element of " + types.ExprString(okParts) + " and is dominated by the normal exit of the canary loop at " + okLoop
				} else {
					ob.Status = Undecided
					ob.Detail = what + " is dominated by the canary loop at " + okLoop + ", but the rule cannot tell that its receiver is one of the parts " + types.ExprString(okParts) + " the canary accepted"
				}
			}
		}
		out = append(out, ob)
	}
	return out
}
