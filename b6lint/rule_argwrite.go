package main

import (
	"fmt"
	"go/ast"
	"go/token"
	"go/types"
	"sort"
)

// ARG-WRITE (C39): the tag-list operations of the root package take their operands by slice
// (RemoveTags(keys []string), …). The caller's operand is not the callee's to edit: an element
// store into a slice parameter (p[i] = …, p[i], p[j] = p[j], p[i], p[i] op= …), an in-place
// sort of it, a copy() into it, or append(p[:k], …) writes through to the caller's backing
// array, so a second use of the same operand (removing the same keys from the next feature)
// silently works on different data.
//
// Slots (by type): every method of the root package's tag-list type (the named slice type whose
// element is the Tag struct: b6.Tags) and of the types that embed or wrap it in the root package,
// that has a parameter of slice type. One obligation per such parameter. The receiver is not a
// parameter: methods are expected to edit the list they are called on.
// Accepted: reads, re-slicing into a local (which is then only read), ranging, writes after the
// parameter has been re-assigned a fresh copy of itself (append to nil, make, slices.Clone), passing to
// functions that take it as a variadic/slice argument but are not known writers.
// Not followed: writes through an alias (q := p; q[0] = …) are caught only when the alias is a
// plain local initialised from the parameter or a re-slice of it (one level).
func init() {
	register(&Rule{
		Name:  "ARG-WRITE",
		IR:    "ast",
		Props: []string{"C39"},
		Floor: 1, // b6.(*Tags).RemoveTags#keys
		Doc: "no method of the tag-list type b6.Tags writes through a slice parameter (element store, swap, in-place sort, copy into it, append onto a re-slice of it), " +
			"directly or through a local alias of it: the operand belongs to the caller (instances: every slice-typed parameter of a b6.Tags method)",
		Run: runArgWrite,
	})
}

func runArgWrite(c *Ctx) []Obligation {
	var out []Obligation
	p := c.Pkg("")
	if p == nil {
		return out
	}
	info := p.TypesInfo
	for _, fd := range c.FuncDecls(p) {
		if fd.Recv == nil || fd.Body == nil {
			continue
		}
		obj, _ := info.Defs[fd.Name].(*types.Func)
		if obj == nil {
			continue
		}
		sig := obj.Type().(*types.Signature)
		rn := namedOf(sig.Recv().Type())
		if rn == nil || !isTagListType(rn) {
			continue
		}
		name := c.FuncName(p, fd)
		for i := 0; i < sig.Params().Len(); i++ {
			pv := sig.Params().At(i)
			if _, ok := pv.Type().Underlying().(*types.Slice); !ok {
				continue
			}
			ob := Obligation{Key: fmt.Sprintf("%s#%s", name, pv.Name()), Pos: c.Position(fd.Pos()), Status: OK,
				Detail: fmt.Sprintf("parameter %s %s is only read", pv.Name(), pv.Type())}
			// aliases: the parameter and locals initialised from it or from a re-slice of it
			alias := map[types.Object]bool{pv: true}
			rootOf := func(e ast.Expr) types.Object {
				for {
					switch x := ast.Unparen(e).(type) {
					case *ast.SliceExpr:
						e = x.X
					case *ast.Ident:
						if o := info.Uses[x]; o != nil && alias[o] {
							return o
						}
						return nil
					default:
						return nil
					}
				}
			}
			for changed := true; changed; {
				changed = false
				ast.Inspect(fd.Body, func(n ast.Node) bool {
					as, ok := n.(*ast.AssignStmt)
					if !ok || len(as.Lhs) != len(as.Rhs) {
						return true
					}
					for j, l := range as.Lhs {
						id, ok := l.(*ast.Ident)
						if !ok || rootOf(as.Rhs[j]) == nil {
							continue
						}
						var o types.Object
						if as.Tok == token.DEFINE {
							o = info.Defs[id]
						}
						if o == nil {
							o = info.Uses[id]
						}
						if o != nil && !alias[o] {
							alias[o], changed = true, true
						}
					}
					return true
				})
			}
			// a parameter (or alias) that is re-assigned a fresh copy (append to nil/literal, make, slices.Clone)
			// is the callee's own from then on: writes positioned after that assignment are not counted
			freshFrom := map[types.Object]token.Pos{}
			ast.Inspect(fd.Body, func(n ast.Node) bool {
				as, ok := n.(*ast.AssignStmt)
				if !ok || len(as.Lhs) != len(as.Rhs) {
					return true
				}
				for j, l := range as.Lhs {
					id, ok := l.(*ast.Ident)
					if !ok {
						continue
					}
					o := info.Uses[id]
					if o == nil {
						o = info.Defs[id]
					}
					if o == nil || !alias[o] {
						continue
					}
					if fresh, _ := freshSliceExpr(info, as.Rhs[j]); fresh {
						if old, seen := freshFrom[o]; !seen || as.Pos() < old {
							freshFrom[o] = as.Pos()
						}
					}
				}
				return true
			})
			var writes []string
			note := func(pos token.Pos, what string) {
				for _, from := range freshFrom {
					if pos > from {
						return
					}
				}
				writes = append(writes, fmt.Sprintf("%s: %s", c.Position(pos), what))
			}
			ast.Inspect(fd.Body, func(n ast.Node) bool {
				switch s := n.(type) {
				case *ast.AssignStmt:
					for _, l := range s.Lhs {
						if ix, ok := ast.Unparen(l).(*ast.IndexExpr); ok && rootOf(ix.X) != nil {
							note(s.Pos(), "element store "+nodeText(c.Fset, s))
						}
					}
				case *ast.IncDecStmt:
					if ix, ok := ast.Unparen(s.X).(*ast.IndexExpr); ok && rootOf(ix.X) != nil {
						note(s.Pos(), "element store "+nodeText(c.Fset, s))
					}
				case *ast.CallExpr:
					if isBuiltin(info, s, "copy") && len(s.Args) == 2 && rootOf(s.Args[0]) != nil {
						note(s.Pos(), "copy into the parameter: "+nodeText(c.Fset, s))
					}
					if isBuiltin(info, s, "append") && len(s.Args) > 1 {
						if _, ok := ast.Unparen(s.Args[0]).(*ast.SliceExpr); ok && rootOf(s.Args[0]) != nil {
							note(s.Pos(), "append onto a re-slice of the parameter overwrites its tail: "+nodeText(c.Fset, s))
						}
					}
					if fn := calleeFunc(info, s); fn != nil && fn.Pkg() != nil && len(s.Args) > 0 && rootOf(s.Args[0]) != nil {
						switch fn.Pkg().Path() {
						case "sort":
							switch fn.Name() {
							case "Strings", "Ints", "Float64s", "Slice", "SliceStable", "Sort", "Stable":
								note(s.Pos(), "in-place sort "+nodeText(c.Fset, s))
							}
						case "slices":
							switch fn.Name() {
							case "Sort", "SortFunc", "SortStableFunc", "Reverse":
								note(s.Pos(), "in-place "+nodeText(c.Fset, s))
							}
						}
					}
				}
				return true
			})
			if len(writes) > 0 {
				sort.Strings(writes)
				ob.Status = Violation
				ob.Detail = fmt.Sprintf("%s writes through its parameter %s %s, which is the caller's operand: %s", obj.Name(), pv.Name(), pv.Type(), writes[0])
				ob.Path = writes
			}
			out = append(out, ob)
		}
	}
	return out
}

// isTagListType: a named slice type of the module whose element is a struct with Key and Value fields.
func isTagListType(n *types.Named) bool {
	sl, ok := n.Underlying().(*types.Slice)
	if !ok {
		return false
	}
	st, ok := sl.Elem().Underlying().(*types.Struct)
	if !ok {
		return false
	}
	k, v := false, false
	for i := 0; i < st.NumFields(); i++ {
		switch st.Field(i).Name() {
		case "Key":
			k = true
		case "Value":
			v = true
		}
	}
	return k && v
}
