package main

// MutantReport is the checker-adequacy table of the thorough tier.
type MutantReport struct {
	Table    []map[string]interface{}
	Total    int
	Caught   int
	Stale    int
	Failures []string
}

func runMutants(verif, root, prop string) *MutantReport { return &MutantReport{} }

func cmdMutants(args []string) int { return 0 }
