package main

import (
	"encoding/json"
	"flag"
	"fmt"
	"io"
	"os"
	"os/exec"
	"path/filepath"
	"sort"
	"strings"
	"sync"
)

// Checker adequacy by seeded variants (thorough tier). A mutant is a small source edit that
// still type-checks and breaks one rule instance. It is applied to a scratch copy of the
// module's Go sources under <verif>/.cache (never to /repo), the copy is analysed (never
// executed) by a child process, and the rule must report the expected obligation key.
type Mutant struct {
	ID       string `json:"id"`
	Rule     string `json:"rule"`
	Property string `json:"property"`
	File     string `json:"file"` // relative to the module root
	Old      string `json:"old"`  // must occur exactly once in File, otherwise the mutant is stale
	New      string `json:"new"`
	// ExpectKey: obligation key that must be violation/undecided in the mutated tree and must
	// not be so in the unmutated tree. Empty: any new failing obligation of Rule will do.
	// The special value "FLOOR" expects the rule's instance count to fall below its floor.
	ExpectKey string `json:"expect_key"`
	Why       string `json:"why"`
	// Patch: instead of File/Old/New, a unified diff (path relative to the verification
	// directory, file paths inside it relative to the repository root) applied with git apply.
	// Used for the independently written seeded changes kept under /verif/seeded.
	Patch string `json:"patch,omitempty"`
}

// seededMeta is /verif/seeded/<id>/meta.json; only entries with a "detect" block take part.
type seededMeta struct {
	Property string `json:"property"`
	Summary  string `json:"summary"`
	Detect   []struct {
		Rule      string `json:"rule"`
		ExpectKey string `json:"expect_key"`
	} `json:"detect"`
}

type MutantReport struct {
	Table    []map[string]interface{}
	Total    int
	Caught   int
	Stale    int
	Failures []string
}

func loadMutants(verif string) ([]Mutant, error) {
	files, _ := filepath.Glob(filepath.Join(verif, "mutants", "*.json"))
	sort.Strings(files)
	var all []Mutant
	seen := map[string]bool{}
	for _, f := range files {
		b, err := os.ReadFile(f)
		if err != nil {
			return nil, err
		}
		var ms []Mutant
		if err := json.Unmarshal(b, &ms); err != nil {
			return nil, fmt.Errorf("%s: %v", f, err)
		}
		for _, m := range ms {
			if seen[m.ID] {
				return nil, fmt.Errorf("%s: duplicate mutant id %s", f, m.ID)
			}
			seen[m.ID] = true
			all = append(all, m)
		}
	}
	metas, _ := filepath.Glob(filepath.Join(verif, "seeded", "*", "meta.json"))
	sort.Strings(metas)
	for _, f := range metas {
		b, err := os.ReadFile(f)
		if err != nil {
			return nil, err
		}
		var sm seededMeta
		if err := json.Unmarshal(b, &sm); err != nil {
			return nil, fmt.Errorf("%s: %v", f, err)
		}
		name := filepath.Base(filepath.Dir(f))
		for i, d := range sm.Detect {
			all = append(all, Mutant{ID: fmt.Sprintf("seeded-%s-%d", name, i+1), Rule: d.Rule, Property: sm.Property,
				Patch: filepath.Join("seeded", name, "patch.diff"), ExpectKey: d.ExpectKey, Why: "independently written seeded change: " + sm.Summary})
		}
	}
	return all, nil
}

func copyGoTree(src, dst string) error {
	return filepath.Walk(src, func(path string, info os.FileInfo, err error) error {
		if err != nil {
			return err
		}
		rel, _ := filepath.Rel(src, path)
		if info.IsDir() {
			if path != src && strings.HasPrefix(info.Name(), ".") {
				return filepath.SkipDir
			}
			return nil
		}
		n := info.Name()
		if !(strings.HasSuffix(n, ".go") || strings.HasSuffix(n, ".y") || n == "go.mod" || n == "go.sum") || strings.HasSuffix(n, "_test.go") {
			return nil
		}
		if err := os.MkdirAll(filepath.Dir(filepath.Join(dst, rel)), 0o755); err != nil {
			return err
		}
		in, err := os.Open(path)
		if err != nil {
			return err
		}
		defer in.Close()
		out, err := os.Create(filepath.Join(dst, rel))
		if err != nil {
			return err
		}
		_, err = io.Copy(out, in)
		out.Close()
		return err
	})
}

func failing(r *Results, rule string) map[string]bool {
	m := map[string]bool{}
	for _, o := range r.Obligations {
		if o.Rule == rule && (o.Status == Violation || o.Status == Undecided) {
			m[o.Key] = true
		}
	}
	return m
}

func analyseChild(root, rule, out string) (*Results, error) {
	exe, err := os.Executable()
	if err != nil {
		return nil, err
	}
	cmd := exec.Command(exe, "run", "-root", root, "-rules", rule, "-brief", "-json", out)
	cmd.Stdout, cmd.Stderr = io.Discard, io.Discard
	if err := cmd.Run(); err != nil {
		return nil, err
	}
	b, err := os.ReadFile(out)
	if err != nil {
		return nil, err
	}
	var r Results
	if err := json.Unmarshal(b, &r); err != nil {
		return nil, err
	}
	return &r, nil
}

// runMutantSet evaluates the given mutants against the tree at root.
func runMutantSet(verif, root string, ms []Mutant, par int) *MutantReport {
	rep := &MutantReport{}
	if len(ms) == 0 {
		return rep
	}
	scratch := filepath.Join(verif, ".cache", fmt.Sprintf("mut-%d", os.Getpid()))
	os.RemoveAll(scratch)
	defer os.RemoveAll(scratch)
	// baseline per rule on the unmutated tree
	base := map[string]*Results{}
	for _, m := range ms {
		if _, ok := base[m.Rule]; !ok {
			os.MkdirAll(scratch, 0o755)
			r, err := analyseChild(root, m.Rule, filepath.Join(scratch, "base-"+m.Rule+".json"))
			if err != nil {
				rep.Failures = append(rep.Failures, fmt.Sprintf("baseline analysis for rule %s failed: %v", m.Rule, err))
				return rep
			}
			base[m.Rule] = r
		}
	}
	type row struct {
		m       Mutant
		status  string
		detail  string
		failure string
	}
	rows := make([]row, len(ms))
	sem := make(chan struct{}, par)
	var wg sync.WaitGroup
	for i, m := range ms {
		wg.Add(1)
		go func(i int, m Mutant) {
			defer wg.Done()
			sem <- struct{}{}
			defer func() { <-sem }()
			rw := row{m: m}
			defer func() { rows[i] = rw }()
			dir := filepath.Join(scratch, m.ID)
			defer os.RemoveAll(dir)
			if m.Patch != "" {
				// mirror the repository layout so that the patch's paths apply
				top := filepath.Join(scratch, m.ID+"-repo")
				defer os.RemoveAll(top)
				dir = filepath.Join(top, "src", "diagonal.works", "b6")
				if err := copyGoTree(root, dir); err != nil {
					rw.status, rw.failure = "error", "copy: "+err.Error()
					return
				}
				// patch(1), not git apply: the scratch copy lives inside /verif's own git work tree, where
				// git apply silently skips every path outside the current directory's prefix
				cmd := exec.Command("patch", "-p1", "-s", "-f", "--no-backup-if-mismatch", "-i", filepath.Join(verif, m.Patch))
				cmd.Dir = top
				if out, err := cmd.CombinedOutput(); err != nil {
					rw.status, rw.detail = "stale", "the patch no longer applies: "+firstLine(string(out))
					return
				}
			} else {
				src, err := os.ReadFile(filepath.Join(root, m.File))
				if err != nil || strings.Count(string(src), m.Old) != 1 {
					rw.status, rw.detail = "stale", "the text to replace no longer occurs exactly once in "+m.File
					return
				}
				if err := copyGoTree(root, dir); err != nil {
					rw.status, rw.failure = "error", "copy: "+err.Error()
					return
				}
				if err := os.WriteFile(filepath.Join(dir, m.File), []byte(strings.Replace(string(src), m.Old, m.New, 1)), 0o644); err != nil {
					rw.status, rw.failure = "error", err.Error()
					return
				}
			}
			r, err := analyseChild(dir, m.Rule, filepath.Join(dir, "out.json"))
			if err != nil {
				rw.status, rw.failure = "error", "analysis: "+err.Error()
				return
			}
			if len(r.Errors) > 0 {
				rw.status, rw.failure = "invalid", "mutant does not load/type-check: "+firstLine(r.Errors[0])
				return
			}
			before, after := failing(base[m.Rule], m.Rule), failing(r, m.Rule)
			switch {
			case m.ExpectKey == "FLOOR":
				for _, ri := range r.Rules {
					if ri.Name == m.Rule {
						floor := ri.Floor
						if f, ok := ri.FloorBy[m.Property]; ok {
							floor = f
						}
						n := 0
						for _, o := range r.Obligations {
							if o.Rule == m.Rule && o.Status != Info && has(o.Props, m.Property) {
								n++
							}
						}
						if n < floor {
							rw.status, rw.detail = "caught", fmt.Sprintf("instances %d < floor %d", n, floor)
						}
					}
				}
			case m.ExpectKey != "":
				if after[m.ExpectKey] && !before[m.ExpectKey] {
					rw.status, rw.detail = "caught", m.ExpectKey
				}
			default:
				for k := range after {
					if !before[k] {
						rw.status, rw.detail = "caught", k
					}
				}
			}
			if rw.status == "" {
				var now []string
				for k := range after {
					if !before[k] {
						now = append(now, k)
					}
				}
				sort.Strings(now)
				rw.status = "missed"
				rw.failure = fmt.Sprintf("rule %s did not report %q on mutant %s (new failing keys: %v)", m.Rule, m.ExpectKey, m.ID, now)
			}
		}(i, m)
	}
	wg.Wait()
	for _, rw := range rows {
		rep.Total++
		switch rw.status {
		case "caught":
			rep.Caught++
		case "stale":
			rep.Stale++
		}
		if rw.failure != "" {
			rep.Failures = append(rep.Failures, fmt.Sprintf("mutant %s (%s): %s", rw.m.ID, rw.status, rw.failure))
		}
		rep.Table = append(rep.Table, map[string]interface{}{"id": rw.m.ID, "rule": rw.m.Rule, "file": rw.m.File, "status": rw.status, "detail": rw.detail + rw.failure, "why": rw.m.Why})
	}
	return rep
}

func runMutants(verif, root, prop string) *MutantReport {
	all, err := loadMutants(verif)
	if err != nil {
		return &MutantReport{Failures: []string{"mutant catalogue: " + err.Error()}}
	}
	var ms []Mutant
	for _, m := range all {
		if m.Property == prop {
			ms = append(ms, m)
		}
	}
	return runMutantSet(verif, root, ms, 8)
}

func cmdMutants(args []string) int {
	fs := flag.NewFlagSet("mutants", flag.ExitOnError)
	root := fs.String("root", "/repo/src/diagonal.works/b6", "module directory")
	verif := fs.String("verif", "/verif", "verification directory")
	rule := fs.String("rule", "", "only mutants of this rule")
	id := fs.String("id", "", "only this mutant")
	file := fs.String("file", "", "read mutants from this JSON file instead of <verif>/mutants/*.json")
	par := fs.Int("j", 8, "parallel analyses")
	fs.Parse(args)
	var all []Mutant
	var err error
	if *file != "" {
		var b []byte
		if b, err = os.ReadFile(*file); err == nil {
			err = json.Unmarshal(b, &all)
		}
	} else {
		all, err = loadMutants(*verif)
	}
	if err != nil {
		fmt.Println("error:", err)
		return 2
	}
	var ms []Mutant
	for _, m := range all {
		if (*rule == "" || m.Rule == *rule) && (*id == "" || m.ID == *id) {
			ms = append(ms, m)
		}
	}
	rep := runMutantSet(*verif, *root, ms, *par)
	for _, r := range rep.Table {
		fmt.Printf("%-8s %-28s %-16s %s\n", r["status"], r["id"], r["rule"], r["detail"])
	}
	fmt.Printf("mutants=%d caught=%d stale=%d failures=%d\n", rep.Total, rep.Caught, rep.Stale, len(rep.Failures))
	if len(rep.Failures) > 0 {
		return 1
	}
	return 0
}
