package main

import (
	"fmt"
	"go/ast"
	"go/constant"
	"go/token"
	"go/types"
	"strings"

	"golang.org/x/tools/go/packages"
)

// PRINT-LEX (C20): the text the shell prints for a number is lexed back as the same kind of
// number.
//
// Lexer side, extracted structurally from package api (nothing by name): the numeric lexer is
// the function that has an `if`/`else` on a local bool D (`if D`, `if !D`) one branch of which
// builds a float literal (an expression of type b6.FloatExpression, or a call of a root-package
// function func(float64) b6.Expression) and the other an int literal (b6.IntExpression /
// func(int) b6.Expression). The *discriminator* is the constant C of the comparison `r == C` that
// guards the only assignment `D = true`. Today: lexer.lexNumericLiteral, D = decimal, C = '.'.
// A token is FLOAT iff its text contains C. If this shape is not found the rule reports
// `undecided` on b6 api.numericLexer#1.
//
// Printer side: the functions of package api reachable by static calls from UnparseExpression
// (the entry C20 anchors). One instance per numeric argument that is turned into text there:
// an argument of float or integer kind of fmt.Sprintf (paired with its verb through the constant
// format), fmt.Sprint*, strconv.FormatFloat/FormatInt/FormatUint/Itoa.
//
// Obligation, float kind — the text always contains C:
//   - Sprintf verb %f / %F with no precision (6 digits) or precision >= 1, or with the '#' flag;
//   - strconv.FormatFloat(x, 'f', p, _) with constant p >= 1;
//   - any other float format whose result is assigned to a local s, when the same function has
//     `if !strings.Contains(s, K)` (or ContainsRune / IndexByte / IndexRune / Index `< 0`, `== -1`)
//     whose body appends a constant string containing C to s (`s += ".0"`, `s = s + ".0"`).
//     Violations: %.0f, %g %G %e %E %v %s, Sprint*, FormatFloat with 'e' 'E' 'g' 'G' 'b' 'x' or
//     precision -1 / 0: all can print a whole number without C, which then lexes as an INT.
//     Non-constant format, verb or precision: `undecided`.
//
// A value converted from a b6.FloatExpression / b6.IntExpression must be formatted as its own kind
// (float64(l) of an IntExpression printed with %.1f is a violation), and C must be the '.' that Go's
// formatting emits.
//
// Obligation, integer kind — the text never contains C: %d, %v, Itoa, FormatInt/FormatUint with
// base 10, Sprint*; %c %q %U %x %X %o %b (not decimal digits) are `undecided`.
func init() {
	register(&Rule{
		Name:  "PRINT-LEX",
		IR:    "ast",
		Props: []string{"C20"},
		Floor: 5, // numericLexer#1 + unparseLiteral: %d, %.2f, %f, %f
		Doc: "the numeric lexer decides FLOAT vs INT by the presence of one character (extracted from the lexer: '.'); every float the printing functions reachable from UnparseExpression " +
			"turn into text is formatted so that the character is always present, and every integer so that it never is",
		Run: runPrintLex,
	})
}

// jpLiteralKind: does the subtree build a float / an int literal expression?
func jpLiteralKind(info *types.Info, n ast.Node) (isFloat, isInt bool) {
	ast.Inspect(n, func(x ast.Node) bool {
		e, ok := x.(ast.Expr)
		if !ok {
			return true
		}
		if t := info.TypeOf(e); t != nil {
			if isNamed(t, ModulePath, "FloatExpression") {
				isFloat = true
			}
			if isNamed(t, ModulePath, "IntExpression") {
				isInt = true
			}
		}
		if call, ok := e.(*ast.CallExpr); ok {
			if f := calleeFunc(info, call); f != nil && f.Pkg() != nil && f.Pkg().Path() == ModulePath {
				sig := f.Type().(*types.Signature)
				if sig.Recv() == nil && sig.Params().Len() == 1 && sig.Results().Len() == 1 && isNamed(sig.Results().At(0).Type(), ModulePath, "Expression") {
					if b, ok := sig.Params().At(0).Type().(*types.Basic); ok {
						if b.Info()&types.IsFloat != 0 {
							isFloat = true
						} else if b.Info()&types.IsInteger != 0 {
							isInt = true
						}
					}
				}
			}
		}
		return true
	})
	return
}

// jpDiscriminator finds the numeric lexer and the character that makes a token a float.
func jpDiscriminator(c *Ctx, p *packages.Package) (fd *ast.FuncDecl, disc constant.Value, text string, why string) {
	info := p.TypesInfo
	n := 0
	for _, d := range c.FuncDecls(p) {
		if jGenerated(c, d.Pos()) {
			continue
		}
		ast.Inspect(d.Body, func(x ast.Node) bool {
			ifs, ok := x.(*ast.IfStmt)
			if !ok || ifs.Else == nil {
				return true
			}
			cond := ast.Unparen(ifs.Cond)
			neg := false
			if u, ok := cond.(*ast.UnaryExpr); ok && u.Op == token.NOT {
				neg = true
				cond = ast.Unparen(u.X)
			}
			id, ok := cond.(*ast.Ident)
			if !ok {
				return true
			}
			v, ok := info.ObjectOf(id).(*types.Var)
			if !ok || v.IsField() {
				return true
			}
			if b, ok := v.Type().Underlying().(*types.Basic); !ok || b.Kind() != types.Bool {
				return true
			}
			tf, ti := jpLiteralKind(info, ifs.Body)
			ef, ei := jpLiteralKind(info, ifs.Else)
			// the branch taken when D is true must build the float, the other the int
			var ok2 bool
			if !neg {
				ok2 = tf && !ti && ei && !ef
			} else {
				ok2 = ti && !tf && ef && !ei
			}
			if !ok2 {
				return true
			}
			// assignments D = true and their guards
			var consts []constant.Value
			var texts []string
			bad := ""
			ast.Inspect(d.Body, func(y ast.Node) bool {
				as, ok := y.(*ast.AssignStmt)
				if !ok || as.Tok != token.ASSIGN || len(as.Lhs) != 1 || len(as.Rhs) != 1 {
					return true
				}
				lid, ok := as.Lhs[0].(*ast.Ident)
				if !ok || info.ObjectOf(lid) != v {
					return true
				}
				if k := jConst(info, as.Rhs[0]); k == nil || k.Kind() != constant.Bool || !constant.BoolVal(k) {
					bad = "the flag " + v.Name() + " is assigned something other than the constant true at " + c.Position(as.Pos())
					return true
				}
				chain := enclosing(d.Body, as)
				found := false
				for i := len(chain) - 2; i >= 0 && !found; i-- {
					g, ok := chain[i].(*ast.IfStmt)
					if !ok || i+1 >= len(chain) || chain[i+1] != ast.Node(g.Body) {
						continue
					}
					if b, ok := ast.Unparen(g.Cond).(*ast.BinaryExpr); ok && b.Op == token.EQL {
						for _, side := range []ast.Expr{b.X, b.Y} {
							if k := jConst(info, side); k != nil && k.Kind() == constant.Int {
								consts = append(consts, k)
								texts = append(texts, types.ExprString(side))
								found = true
							}
						}
					}
					break
				}
				if !found {
					bad = "the assignment " + v.Name() + " = true at " + c.Position(as.Pos()) + " is not guarded by a comparison of the current rune with a constant"
				}
				return true
			})
			n++
			switch {
			case bad != "":
				why = bad
			case len(consts) != 1:
				why = fmt.Sprintf("%d guarded assignments of %s = true (need exactly one)", len(consts), v.Name())
			default:
				fd, disc, text = d, consts[0], texts[0]
			}
			return true
		})
	}
	if n != 1 && why == "" {
		why = fmt.Sprintf("found %d functions that choose between a float and an int literal on a bool flag (need exactly one)", n)
		fd = nil
	}
	return
}

type jpVerb struct {
	verb    rune
	flags   string
	prec    int // -1: none
	precArg bool
	text    string
}

// jpVerbs parses a format string into the verbs that consume an argument, in order.
func jpVerbs(format string) ([]jpVerb, bool) {
	var out []jpVerb
	rs := []rune(format)
	for i := 0; i < len(rs); i++ {
		if rs[i] != '%' {
			continue
		}
		start := i
		i++
		if i >= len(rs) {
			return nil, false
		}
		if rs[i] == '%' {
			continue
		}
		v := jpVerb{prec: -1}
		for i < len(rs) && strings.ContainsRune("+-# 0", rs[i]) {
			v.flags += string(rs[i])
			i++
		}
		if i < len(rs) && rs[i] == '[' {
			return nil, false // explicit argument indexes: not handled
		}
		for i < len(rs) && (rs[i] >= '0' && rs[i] <= '9') {
			i++
		}
		if i < len(rs) && rs[i] == '*' {
			return nil, false
		}
		if i < len(rs) && rs[i] == '.' {
			i++
			v.prec = 0
			if i < len(rs) && rs[i] == '*' {
				v.precArg = true
				i++
			}
			for i < len(rs) && (rs[i] >= '0' && rs[i] <= '9') {
				v.prec = v.prec*10 + int(rs[i]-'0')
				i++
			}
		}
		if i >= len(rs) {
			return nil, false
		}
		v.verb = rs[i]
		v.text = string(rs[start : i+1])
		out = append(out, v)
	}
	return out, true
}

// jpLiteralOf: the b6 numeric literal type (FloatExpression / IntExpression) whose value the
// argument converts, if any: float64(l) with l a b6.IntExpression is an int literal.
func jpLiteralOf(info *types.Info, e ast.Expr) *types.Named {
	for {
		e = ast.Unparen(e)
		if n, ok := types.Unalias(info.TypeOf(e)).(*types.Named); ok && n.Obj().Pkg() != nil && n.Obj().Pkg().Path() == ModulePath {
			if fl, in := jpNumKind(n); fl || in {
				return n
			}
		}
		call, ok := e.(*ast.CallExpr)
		if !ok || len(call.Args) != 1 {
			return nil
		}
		if tv, ok := info.Types[call.Fun]; !ok || !tv.IsType() {
			return nil
		}
		e = call.Args[0]
	}
}

func jpNumKind(t types.Type) (isFloat, isInt bool) {
	if t == nil {
		return
	}
	b, ok := t.Underlying().(*types.Basic)
	if !ok {
		return
	}
	return b.Info()&types.IsFloat != 0, b.Info()&types.IsInteger != 0
}

// jpPatched: the result of the call is assigned to a local s and the function appends a constant
// containing the discriminator to s under a "s does not contain it" test.
func jpPatched(info *types.Info, body ast.Node, call *ast.CallExpr, disc string) bool {
	chain := enclosing(body, call)
	if len(chain) < 2 {
		return false
	}
	var obj types.Object
	switch x := chain[len(chain)-2].(type) {
	case *ast.AssignStmt:
		if len(x.Lhs) == 1 && len(x.Rhs) == 1 {
			if id, ok := x.Lhs[0].(*ast.Ident); ok {
				obj = info.ObjectOf(id)
			}
		}
	case *ast.ValueSpec:
		if len(x.Names) == 1 && len(x.Values) == 1 {
			obj = info.ObjectOf(x.Names[0])
		}
	}
	if obj == nil {
		return false
	}
	isS := func(e ast.Expr) bool {
		id, ok := ast.Unparen(e).(*ast.Ident)
		return ok && info.ObjectOf(id) == obj
	}
	hasDisc := func(e ast.Expr) bool {
		k := jConst(info, e)
		if k == nil {
			return false
		}
		switch k.Kind() {
		case constant.String:
			return strings.Contains(constant.StringVal(k), disc)
		case constant.Int:
			if v, ok := constant.Int64Val(k); ok {
				return string(rune(v)) == disc
			}
		}
		return false
	}
	ok := false
	ast.Inspect(body, func(n ast.Node) bool {
		ifs, isIf := n.(*ast.IfStmt)
		if !isIf || ifs.Pos() < call.End() {
			return true
		}
		// the test
		test := false
		cond := ast.Unparen(ifs.Cond)
		if u, isNot := cond.(*ast.UnaryExpr); isNot && u.Op == token.NOT {
			if tc, isCall := ast.Unparen(u.X).(*ast.CallExpr); isCall && len(tc.Args) == 2 {
				if f := calleeFunc(info, tc); f != nil && f.Pkg() != nil && f.Pkg().Path() == "strings" && strings.HasPrefix(f.Name(), "Contains") && isS(tc.Args[0]) && hasDisc(tc.Args[1]) {
					test = true
				}
			}
		}
		if b, isBin := cond.(*ast.BinaryExpr); isBin {
			if tc, isCall := ast.Unparen(b.X).(*ast.CallExpr); isCall && len(tc.Args) == 2 {
				if f := calleeFunc(info, tc); f != nil && f.Pkg() != nil && f.Pkg().Path() == "strings" && strings.HasPrefix(f.Name(), "Index") && isS(tc.Args[0]) && hasDisc(tc.Args[1]) {
					if k := jConst(info, b.Y); k != nil {
						if v, exact := constant.Int64Val(k); exact && ((b.Op == token.LSS && v == 0) || (b.Op == token.EQL && v == -1)) {
							test = true
						}
					}
				}
			}
		}
		if !test {
			return true
		}
		for _, s := range ifs.Body.List {
			as, isAs := s.(*ast.AssignStmt)
			if !isAs || len(as.Lhs) != 1 || len(as.Rhs) != 1 || !isS(as.Lhs[0]) {
				continue
			}
			if as.Tok == token.ADD_ASSIGN && hasDisc(as.Rhs[0]) {
				ok = true
			}
			if b, isBin := ast.Unparen(as.Rhs[0]).(*ast.BinaryExpr); isBin && as.Tok == token.ASSIGN && b.Op == token.ADD && isS(b.X) && hasDisc(b.Y) {
				ok = true
			}
		}
		return true
	})
	return ok
}

func runPrintLex(c *Ctx) []Obligation {
	p := c.Pkg("api")
	if p == nil {
		return nil
	}
	info := p.TypesInfo
	var out []Obligation

	lexer, disc, discText, why := jpDiscriminator(c, p)
	if lexer == nil || disc == nil {
		if why == "" {
			why = "numeric lexer not found"
		}
		return []Obligation{{Key: "api.numericLexer#1", Pos: "-", Status: Undecided, Detail: why}}
	}
	dv, _ := constant.Int64Val(disc)
	D := string(rune(dv))
	out = append(out, Obligation{Key: c.FuncName(p, lexer) + "#1", Pos: c.Position(lexer.Pos()), Status: OK,
		Detail: fmt.Sprintf("numeric lexer: a token is a float literal iff it contains %s (the rune whose test guards the flag that selects the float branch)", discText)})

	// printing functions
	inScope := map[*types.Func]bool{}
	if entry, _ := p.Types.Scope().Lookup("UnparseExpression").(*types.Func); entry != nil {
		work := []*types.Func{entry}
		inScope[entry] = true
		for len(work) > 0 {
			f := work[0]
			work = work[1:]
			fd, fp := c.Decl(f)
			if fd == nil || fd.Body == nil || fp != p {
				continue
			}
			ast.Inspect(fd.Body, func(n ast.Node) bool {
				if call, ok := n.(*ast.CallExpr); ok {
					if g := calleeFunc(info, call); g != nil && g.Pkg() == p.Types && !inScope[g.Origin()] {
						inScope[g.Origin()] = true
						work = append(work, g.Origin())
					}
				}
				return true
			})
		}
	}

	for _, fd := range c.FuncDecls(p) {
		fn, _ := info.Defs[fd.Name].(*types.Func)
		if fn == nil || !inScope[fn] || jGenerated(c, fd.Pos()) {
			continue
		}
		name := c.FuncName(p, fd)
		ord := 0
		emit := func(pos token.Pos, status, detail string) {
			ord++
			out = append(out, Obligation{Key: fmt.Sprintf("%s#%d", name, ord), Pos: c.Position(pos), Status: status, Detail: detail})
		}
		// kindOK: the argument is formatted as the kind of literal it comes from, and the character
		// Go's formatting puts into a float is the lexer's discriminator
		kindOK := func(arg ast.Expr, asFloat bool) bool {
			if lit := jpLiteralOf(info, arg); lit != nil {
				litFloat, _ := jpNumKind(lit)
				if litFloat != asFloat {
					kinds := map[bool]string{true: "a float", false: "an integer"}
					emit(arg.Pos(), Violation, fmt.Sprintf("%s is the value of %s literal (%s) but is printed as %s: the printed text lexes back as the other kind of number",
						types.ExprString(arg), kinds[litFloat], jTypeString(lit), kinds[asFloat]))
					return false
				}
			}
			if asFloat && D != "." {
				emit(arg.Pos(), Violation, fmt.Sprintf("float %s is printed with Go's decimal point '.', but the numeric lexer recognises a float by %q", types.ExprString(arg), D))
				return false
			}
			return true
		}
		floatBad := func(call *ast.CallExpr, arg ast.Expr, how string) {
			if jpPatched(info, fd.Body, call, D) {
				emit(arg.Pos(), OK, fmt.Sprintf("float %s is printed with %s and the result gets %q appended when it lacks it", types.ExprString(arg), how, D))
				return
			}
			emit(arg.Pos(), Violation, fmt.Sprintf("float %s is printed with %s, which prints a value without fractional part (2.0) with no %q: the text lexes as an INT and parses back as an IntExpression",
				types.ExprString(arg), how, D))
		}
		ast.Inspect(fd.Body, func(n ast.Node) bool {
			call, ok := n.(*ast.CallExpr)
			if !ok {
				return true
			}
			f := calleeFunc(info, call)
			if f == nil || f.Pkg() == nil {
				return true
			}
			full := f.Pkg().Path() + "." + f.Name()
			switch {
			case full == "fmt.Sprintf" || full == "fmt.Fprintf" || full == "fmt.Errorf":
				fi := 0
				if full == "fmt.Fprintf" {
					fi = 1
				}
				if full == "fmt.Errorf" || len(call.Args) <= fi {
					return true
				}
				args := call.Args[fi+1:]
				anyNum := false
				for _, a := range args {
					if fl, in := jpNumKind(info.TypeOf(a)); fl || in {
						anyNum = true
					}
				}
				if !anyNum {
					return true
				}
				format, isConst := jConstString(info, call.Args[fi])
				verbs, parsed := jpVerbs(format)
				if !isConst || !parsed || len(verbs) != len(args) {
					for _, a := range args {
						if fl, in := jpNumKind(info.TypeOf(a)); fl || in {
							emit(a.Pos(), Undecided, fmt.Sprintf("number %s is formatted with a format the rule cannot pair with its arguments (%s)", types.ExprString(a), types.ExprString(call.Args[fi])))
						}
					}
					return true
				}
				for i, a := range args {
					fl, in := jpNumKind(info.TypeOf(a))
					v := verbs[i]
					if (fl || in) && !kindOK(a, fl) {
						continue
					}
					switch {
					case fl:
						switch {
						case v.precArg:
							emit(a.Pos(), Undecided, fmt.Sprintf("float %s is printed with %s: precision is not constant", types.ExprString(a), v.text))
						case (v.verb == 'f' || v.verb == 'F') && (v.prec == -1 || v.prec >= 1 || strings.Contains(v.flags, "#")):
							emit(a.Pos(), OK, fmt.Sprintf("float %s is printed with %s: always contains %q", types.ExprString(a), v.text, D))
						default:
							floatBad(call, a, "the verb "+v.text)
						}
					case in:
						switch v.verb {
						case 'd', 'v':
							emit(a.Pos(), OK, fmt.Sprintf("integer %s is printed with %s: never contains %q", types.ExprString(a), v.text, D))
						default:
							emit(a.Pos(), Undecided, fmt.Sprintf("integer %s is printed with %s, not as decimal digits", types.ExprString(a), v.text))
						}
					}
				}
			case full == "fmt.Sprint" || full == "fmt.Sprintln":
				for _, a := range call.Args {
					fl, in := jpNumKind(info.TypeOf(a))
					if (fl || in) && !kindOK(a, fl) {
						continue
					}
					if fl {
						floatBad(call, a, f.Name()+" (%v)")
					} else if in {
						emit(a.Pos(), OK, fmt.Sprintf("integer %s is printed with %s: never contains %q", types.ExprString(a), f.Name(), D))
					}
				}
			case full == "strconv.FormatFloat" && len(call.Args) == 4:
				a := call.Args[0]
				if !kindOK(a, true) {
					return true
				}
				fk, pk := jConst(info, call.Args[1]), jConst(info, call.Args[2])
				if fk == nil || pk == nil {
					emit(a.Pos(), Undecided, fmt.Sprintf("float %s is printed with FormatFloat whose format or precision is not constant", types.ExprString(a)))
					return true
				}
				fv, _ := constant.Int64Val(constant.ToInt(fk))
				pv, _ := constant.Int64Val(constant.ToInt(pk))
				if rune(fv) == 'f' && pv >= 1 {
					emit(a.Pos(), OK, fmt.Sprintf("float %s is printed with FormatFloat('f', %d): always contains %q", types.ExprString(a), pv, D))
				} else {
					floatBad(call, a, fmt.Sprintf("strconv.FormatFloat(%q, %d)", rune(fv), pv))
				}
			case (full == "strconv.FormatInt" || full == "strconv.FormatUint") && len(call.Args) == 2:
				a := call.Args[0]
				if !kindOK(a, false) {
					return true
				}
				if bk := jConst(info, call.Args[1]); bk != nil && constant.Compare(bk, token.EQL, constant.MakeInt64(10)) {
					emit(a.Pos(), OK, fmt.Sprintf("integer %s is printed with %s base 10: never contains %q", types.ExprString(a), f.Name(), D))
				} else {
					emit(a.Pos(), Undecided, fmt.Sprintf("integer %s is printed with %s in a base that is not the constant 10", types.ExprString(a), f.Name()))
				}
			case full == "strconv.Itoa" && len(call.Args) == 1:
				if !kindOK(call.Args[0], false) {
					return true
				}
				emit(call.Args[0].Pos(), OK, fmt.Sprintf("integer %s is printed with Itoa: never contains %q", types.ExprString(call.Args[0]), D))
			}
			return true
		})
	}
	return out
}
