package main

import (
	"fmt"
	"go/ast"
	"go/constant"
	"go/token"
	"go/types"
	"math"
	"strconv"
	"strings"

	"golang.org/x/tools/go/packages"
)

// PRINT-LEX (C20): the text the shell prints for a number is lexed back as the same kind of
// number.
//
// Lexer side, extracted structurally from package api (nothing by name): the numeric lexer is
// the function that has an `if`/`else` on a local bool D (`if D`, `if !D`) one branch of which
// builds a float literal (an expression of type b6.FloatExpression, or a call of a root-package
// function func(float64) b6.Expression) and the other an int literal (b6.IntExpression /
// func(int) b6.Expression). The *discriminator* is the constant C of the comparison `r == C` that
// guards the only assignment `D = true`. Today: lexer.lexNumericLiteral, D = decimal, C = '.'.
// A token is FLOAT iff its text contains C. If this shape is not found the rule reports
// `undecided` on b6 api.numericLexer#1.
//
// Printer side: the functions of package api reachable by static calls from UnparseExpression
// (the entry C20 anchors). One instance per number that is turned into text there, in source
// order within the function (key `Func#n`): an argument of float or integer kind of fmt.Sprintf /
// Fprintf (paired with its verb through the constant format), fmt.Sprint*,
// strconv.FormatFloat/FormatInt/FormatUint/Itoa, or of a *helper* — a function of the package
// func(float) string, followed one level: the argument is formatted the way the helper formats
// its parameter (today unparseFloat). The helper's own formatting call is an instance too.
//
// Obligation `Func#n`, float kind — the text lexes back as one FLOAT token: it always contains C
// and is not in exponent notation:
//   - Sprintf verb %f / %F (6 digits, or precision >= 1, or the '#' flag);
//   - strconv.FormatFloat(x, 'f', p, _) with constant p >= 1;
//   - a format 'f' that can print a whole number without C (precision -1 or 0, %.0f) when its
//     result is assigned to a local s and, before s is returned, the function tests
//     `if !strings.Contains(s, K)` (or ContainsRune / IndexByte / IndexRune / Index `< 0`, `== -1`)
//     and appends a constant containing C in that branch (`s += ".0"`, `s = s + ".0"`);
//   - violations: the same formats without that test (2.0 prints as 2 and lexes as an INT), and
//     every format that can use exponent notation (%e %g %v, Sprint*, FormatFloat 'e' 'g'):
//     1e-07 is not one numeric token. Non-constant format, verb, precision: `undecided`.
//
// Obligation `Func#precision<n>` (floats only) — the text is round-trip exact: strconv.FormatFloat
// with precision -1 (and bit size 64 for a float64), fmt %v / %g without precision, Sprint*. A
// fixed precision (%.Nf, %f = 6 decimals, %e, FormatFloat with precision >= 0) is a violation
// that names a witness: values with more than N decimals print rounded (0.125 with %.2f).
//
// A value converted from a b6.FloatExpression / b6.IntExpression must be formatted as its own kind
// (float64(l) of an IntExpression printed with %.1f is a violation), and C must be the '.' that Go's
// formatting emits.
//
// Obligation, integer kind — the text never contains C: %d, %v, Itoa, FormatInt/FormatUint with
// base 10, Sprint*; other verbs or bases are `undecided`.
func init() {
	register(&Rule{
		Name:  "PRINT-LEX",
		IR:    "ast",
		Props: []string{"C20"},
		Floor: 10, // lexer #1; unparseLiteral #1 (int) #2 #3 #4 (floats, through unparseFloat) + #precision2..4; unparseFloat #1 + #precision1
		Doc: "the numeric lexer decides FLOAT vs INT by the presence of one character (extracted from the lexer: '.'); every float the printing functions reachable from UnparseExpression " +
			"turn into text is formatted so that the character is always present (and no exponent is used) and with the shortest round-trip-exact digits, and every integer so that the character never appears",
		Run: runPrintLex,
	})
}

// jpLiteralKind: does the subtree build a float / an int literal expression?
func jpLiteralKind(info *types.Info, n ast.Node) (isFloat, isInt bool) {
	ast.Inspect(n, func(x ast.Node) bool {
		e, ok := x.(ast.Expr)
		if !ok {
			return true
		}
		if t := info.TypeOf(e); t != nil {
			if isNamed(t, ModulePath, "FloatExpression") {
				isFloat = true
			}
			if isNamed(t, ModulePath, "IntExpression") {
				isInt = true
			}
		}
		if call, ok := e.(*ast.CallExpr); ok {
			if f := calleeFunc(info, call); f != nil && f.Pkg() != nil && f.Pkg().Path() == ModulePath {
				sig := f.Type().(*types.Signature)
				if sig.Recv() == nil && sig.Params().Len() == 1 && sig.Results().Len() == 1 && isNamed(sig.Results().At(0).Type(), ModulePath, "Expression") {
					if b, ok := sig.Params().At(0).Type().(*types.Basic); ok {
						if b.Info()&types.IsFloat != 0 {
							isFloat = true
						} else if b.Info()&types.IsInteger != 0 {
							isInt = true
						}
					}
				}
			}
		}
		return true
	})
	return
}

// jpDiscriminator finds the numeric lexer and the character that makes a token a float.
func jpDiscriminator(c *Ctx, p *packages.Package) (fd *ast.FuncDecl, disc constant.Value, text string, why string) {
	info := p.TypesInfo
	n := 0
	for _, d := range c.FuncDecls(p) {
		if jGenerated(c, d.Pos()) {
			continue
		}
		ast.Inspect(d.Body, func(x ast.Node) bool {
			ifs, ok := x.(*ast.IfStmt)
			if !ok || ifs.Else == nil {
				return true
			}
			cond := ast.Unparen(ifs.Cond)
			neg := false
			if u, ok := cond.(*ast.UnaryExpr); ok && u.Op == token.NOT {
				neg = true
				cond = ast.Unparen(u.X)
			}
			id, ok := cond.(*ast.Ident)
			if !ok {
				return true
			}
			v, ok := info.ObjectOf(id).(*types.Var)
			if !ok || v.IsField() {
				return true
			}
			if b, ok := v.Type().Underlying().(*types.Basic); !ok || b.Kind() != types.Bool {
				return true
			}
			tf, ti := jpLiteralKind(info, ifs.Body)
			ef, ei := jpLiteralKind(info, ifs.Else)
			// the branch taken when D is true must build the float, the other the int
			var ok2 bool
			if !neg {
				ok2 = tf && !ti && ei && !ef
			} else {
				ok2 = ti && !tf && ef && !ei
			}
			if !ok2 {
				return true
			}
			// assignments D = true and their guards
			var consts []constant.Value
			var texts []string
			bad := ""
			ast.Inspect(d.Body, func(y ast.Node) bool {
				as, ok := y.(*ast.AssignStmt)
				if !ok || as.Tok != token.ASSIGN || len(as.Lhs) != 1 || len(as.Rhs) != 1 {
					return true
				}
				lid, ok := as.Lhs[0].(*ast.Ident)
				if !ok || info.ObjectOf(lid) != v {
					return true
				}
				if k := jConst(info, as.Rhs[0]); k == nil || k.Kind() != constant.Bool || !constant.BoolVal(k) {
					bad = "the flag " + v.Name() + " is assigned something other than the constant true at " + c.Position(as.Pos())
					return true
				}
				chain := enclosing(d.Body, as)
				found := false
				for i := len(chain) - 2; i >= 0 && !found; i-- {
					g, ok := chain[i].(*ast.IfStmt)
					if !ok || i+1 >= len(chain) || chain[i+1] != ast.Node(g.Body) {
						continue
					}
					if b, ok := ast.Unparen(g.Cond).(*ast.BinaryExpr); ok && b.Op == token.EQL {
						for _, side := range []ast.Expr{b.X, b.Y} {
							if k := jConst(info, side); k != nil && k.Kind() == constant.Int {
								consts = append(consts, k)
								texts = append(texts, types.ExprString(side))
								found = true
							}
						}
					}
					break
				}
				if !found {
					bad = "the assignment " + v.Name() + " = true at " + c.Position(as.Pos()) + " is not guarded by a comparison of the current rune with a constant"
				}
				return true
			})
			n++
			switch {
			case bad != "":
				why = bad
			case len(consts) != 1:
				why = fmt.Sprintf("%d guarded assignments of %s = true (need exactly one)", len(consts), v.Name())
			default:
				fd, disc, text = d, consts[0], texts[0]
			}
			return true
		})
	}
	if n != 1 && why == "" {
		why = fmt.Sprintf("found %d functions that choose between a float and an int literal on a bool flag (need exactly one)", n)
		fd = nil
	}
	return
}

type jpVerb struct {
	verb    rune
	flags   string
	prec    int // -1: none
	precArg bool
	text    string
}

// jpVerbs parses a format string into the verbs that consume an argument, in order.
func jpVerbs(format string) ([]jpVerb, bool) {
	var out []jpVerb
	rs := []rune(format)
	for i := 0; i < len(rs); i++ {
		if rs[i] != '%' {
			continue
		}
		start := i
		i++
		if i >= len(rs) {
			return nil, false
		}
		if rs[i] == '%' {
			continue
		}
		v := jpVerb{prec: -1}
		for i < len(rs) && strings.ContainsRune("+-# 0", rs[i]) {
			v.flags += string(rs[i])
			i++
		}
		if i < len(rs) && rs[i] == '[' {
			return nil, false // explicit argument indexes: not handled
		}
		for i < len(rs) && (rs[i] >= '0' && rs[i] <= '9') {
			i++
		}
		if i < len(rs) && rs[i] == '*' {
			return nil, false
		}
		if i < len(rs) && rs[i] == '.' {
			i++
			v.prec = 0
			if i < len(rs) && rs[i] == '*' {
				v.precArg = true
				i++
			}
			for i < len(rs) && (rs[i] >= '0' && rs[i] <= '9') {
				v.prec = v.prec*10 + int(rs[i]-'0')
				i++
			}
		}
		if i >= len(rs) {
			return nil, false
		}
		v.verb = rs[i]
		v.text = string(rs[start : i+1])
		out = append(out, v)
	}
	return out, true
}

// jpLiteralOf: the b6 numeric literal type (FloatExpression / IntExpression) whose value the
// argument converts, if any: float64(l) with l a b6.IntExpression is an int literal.
func jpLiteralOf(info *types.Info, e ast.Expr) *types.Named {
	for {
		e = ast.Unparen(e)
		if n, ok := types.Unalias(info.TypeOf(e)).(*types.Named); ok && n.Obj().Pkg() != nil && n.Obj().Pkg().Path() == ModulePath {
			if fl, in := jpNumKind(n); fl || in {
				return n
			}
		}
		call, ok := e.(*ast.CallExpr)
		if !ok || len(call.Args) != 1 {
			return nil
		}
		if tv, ok := info.Types[call.Fun]; !ok || !tv.IsType() {
			return nil
		}
		e = call.Args[0]
	}
}

func jpNumKind(t types.Type) (isFloat, isInt bool) {
	if t == nil {
		return
	}
	b, ok := t.Underlying().(*types.Basic)
	if !ok {
		return
	}
	return b.Info()&types.IsFloat != 0, b.Info()&types.IsInteger != 0
}

// jpPatched: the result of the call is assigned to a local s and the function appends a constant
// containing the discriminator to s under a "s does not contain it" test.
func jpPatched(info *types.Info, body ast.Node, call *ast.CallExpr, disc string) bool {
	chain := enclosing(body, call)
	if len(chain) < 2 {
		return false
	}
	var obj types.Object
	switch x := chain[len(chain)-2].(type) {
	case *ast.AssignStmt:
		if len(x.Lhs) == 1 && len(x.Rhs) == 1 {
			if id, ok := x.Lhs[0].(*ast.Ident); ok {
				obj = info.ObjectOf(id)
			}
		}
	case *ast.ValueSpec:
		if len(x.Names) == 1 && len(x.Values) == 1 {
			obj = info.ObjectOf(x.Names[0])
		}
	}
	if obj == nil {
		return false
	}
	isS := func(e ast.Expr) bool {
		id, ok := ast.Unparen(e).(*ast.Ident)
		return ok && info.ObjectOf(id) == obj
	}
	hasDisc := func(e ast.Expr) bool {
		k := jConst(info, e)
		if k == nil {
			return false
		}
		switch k.Kind() {
		case constant.String:
			return strings.Contains(constant.StringVal(k), disc)
		case constant.Int:
			if v, ok := constant.Int64Val(k); ok {
				return string(rune(v)) == disc
			}
		}
		return false
	}
	ok := false
	var fixAt token.Pos
	ast.Inspect(body, func(n ast.Node) bool {
		ifs, isIf := n.(*ast.IfStmt)
		if !isIf || ifs.Pos() < call.End() {
			return true
		}
		// the test
		test := false
		cond := ast.Unparen(ifs.Cond)
		if u, isNot := cond.(*ast.UnaryExpr); isNot && u.Op == token.NOT {
			if tc, isCall := ast.Unparen(u.X).(*ast.CallExpr); isCall && len(tc.Args) == 2 {
				if f := calleeFunc(info, tc); f != nil && f.Pkg() != nil && f.Pkg().Path() == "strings" && strings.HasPrefix(f.Name(), "Contains") && isS(tc.Args[0]) && hasDisc(tc.Args[1]) {
					test = true
				}
			}
		}
		if b, isBin := cond.(*ast.BinaryExpr); isBin {
			if tc, isCall := ast.Unparen(b.X).(*ast.CallExpr); isCall && len(tc.Args) == 2 {
				if f := calleeFunc(info, tc); f != nil && f.Pkg() != nil && f.Pkg().Path() == "strings" && strings.HasPrefix(f.Name(), "Index") && isS(tc.Args[0]) && hasDisc(tc.Args[1]) {
					if k := jConst(info, b.Y); k != nil {
						if v, exact := constant.Int64Val(k); exact && ((b.Op == token.LSS && v == 0) || (b.Op == token.EQL && v == -1)) {
							test = true
						}
					}
				}
			}
		}
		if !test {
			return true
		}
		for _, s := range ifs.Body.List {
			as, isAs := s.(*ast.AssignStmt)
			if !isAs || len(as.Lhs) != 1 || len(as.Rhs) != 1 || !isS(as.Lhs[0]) {
				continue
			}
			if as.Tok == token.ADD_ASSIGN && hasDisc(as.Rhs[0]) {
				ok = true
			}
			if b, isBin := ast.Unparen(as.Rhs[0]).(*ast.BinaryExpr); isBin && as.Tok == token.ASSIGN && b.Op == token.ADD && isS(b.X) && hasDisc(b.Y) {
				ok = true
			}
		}
		if ok && !fixAt.IsValid() {
			fixAt = ifs.Pos()
		}
		return true
	})
	if !ok {
		return false
	}
	// the result must not leave the function before the test
	early := false
	ast.Inspect(body, func(n ast.Node) bool {
		r, isRet := n.(*ast.ReturnStmt)
		if !isRet || r.Pos() < call.End() || r.Pos() > fixAt {
			return true
		}
		for _, res := range r.Results {
			ast.Inspect(res, func(m ast.Node) bool {
				if id, isID := m.(*ast.Ident); isID && info.ObjectOf(id) == obj {
					early = true
				}
				return true
			})
		}
		return true
	})
	return !early
}

func runPrintLex(c *Ctx) []Obligation {
	p := c.Pkg("api")
	if p == nil {
		return nil
	}
	info := p.TypesInfo
	var out []Obligation

	lexer, disc, discText, why := jpDiscriminator(c, p)
	if lexer == nil || disc == nil {
		if why == "" {
			why = "numeric lexer not found"
		}
		return []Obligation{{Key: "api.numericLexer#1", Pos: "-", Status: Undecided, Detail: why}}
	}
	dv, _ := constant.Int64Val(disc)
	D := string(rune(dv))
	out = append(out, Obligation{Key: c.FuncName(p, lexer) + "#1", Pos: c.Position(lexer.Pos()), Status: OK,
		Detail: fmt.Sprintf("numeric lexer: a token is a float literal iff it contains %s (the rune whose test guards the flag that selects the float branch)", discText)})

	// printing functions
	inScope := map[*types.Func]bool{}
	if entry, _ := p.Types.Scope().Lookup("UnparseExpression").(*types.Func); entry != nil {
		work := []*types.Func{entry}
		inScope[entry] = true
		for len(work) > 0 {
			f := work[0]
			work = work[1:]
			fd, fp := c.Decl(f)
			if fd == nil || fd.Body == nil || fp != p {
				continue
			}
			ast.Inspect(fd.Body, func(n ast.Node) bool {
				if call, ok := n.(*ast.CallExpr); ok {
					if g := calleeFunc(info, call); g != nil && g.Pkg() == p.Types && !inScope[g.Origin()] {
						inScope[g.Origin()] = true
						work = append(work, g.Origin())
					}
				}
				return true
			})
		}
	}

	for _, fd := range c.FuncDecls(p) {
		fn, _ := info.Defs[fd.Name].(*types.Func)
		if fn == nil || !inScope[fn] || jGenerated(c, fd.Pos()) {
			continue
		}
		name := c.FuncName(p, fd)
		ord := 0
		for _, st := range jpSites(c, p, fd, D, true) {
			ord++
			key := fmt.Sprintf("%s#%d", name, ord)
			pos := c.Position(st.arg.Pos())
			arg := types.ExprString(st.arg)
			// the argument must be formatted as the kind of literal it comes from, and the character
			// Go's formatting puts into a float must be the lexer's discriminator
			if lit := jpLiteralOf(info, st.arg); lit != nil {
				if litFloat, _ := jpNumKind(lit); litFloat != st.float {
					kinds := map[bool]string{true: "a float", false: "an integer"}
					out = append(out, Obligation{Key: key, Pos: pos, Status: Violation, Detail: fmt.Sprintf("%s is the value of %s literal (%s) but is printed as %s (%s): the printed text lexes back as the other kind of number",
						arg, kinds[litFloat], jTypeString(lit), kinds[st.float], st.how)})
					continue
				}
			}
			if st.float && D != "." {
				out = append(out, Obligation{Key: key, Pos: pos, Status: Violation, Detail: fmt.Sprintf("float %s is printed with Go's decimal point '.', but the numeric lexer recognises a float by %q", arg, D)})
				continue
			}
			kind := "integer"
			if st.float {
				kind = "float"
			}
			out = append(out, Obligation{Key: key, Pos: pos, Status: st.dot, Detail: fmt.Sprintf("%s %s is printed with %s: %s", kind, arg, st.how, st.dotWhy)})
			if st.float {
				out = append(out, Obligation{Key: fmt.Sprintf("%s#precision%d", name, ord), Pos: pos, Status: st.prec, Detail: fmt.Sprintf("float %s is printed with %s: %s", arg, st.how, st.precWhy)})
			}
		}
	}
	return out
}

// jpSite is one number turned into text.
type jpSite struct {
	arg           ast.Expr
	float         bool
	how           string // the formatting, as written
	dot, dotWhy   string // presence/absence of the lexer's float character
	prec, precWhy string // floats: is the text round-trip exact
}

// jpFloatFormat classifies one float format. verb: f e g (lower-cased) or v; prec: digits after
// the point / significant digits, -1 = shortest representation that parses back exactly;
// alwaysDot: the '#' flag.
func jpFloatFormat(verb rune, prec int, alwaysDot bool, patched bool, D string) (dot, dotWhy, precSt, precWhy string) {
	switch {
	case verb != 'f':
		dot, dotWhy = Violation, "values of large or small magnitude print in exponent notation (1e+21, 1e-07), which the numeric lexer does not read as one number"
	case prec >= 1 || alwaysDot:
		dot, dotWhy = OK, fmt.Sprintf("the text always contains %q", D)
	case patched:
		dot, dotWhy = OK, fmt.Sprintf("a whole number prints without %q, but the result is tested for %q and gets it appended before it is returned", D, D)
	default:
		dot, dotWhy = Violation, fmt.Sprintf("a value without fractional part (2.0) prints with no %q: the text lexes as an INT and parses back as an IntExpression", D)
	}
	if prec < 0 {
		precSt, precWhy = OK, "the shortest text that parses back to the same float64 (round-trip exact)"
		return
	}
	precSt = Violation
	if verb == 'f' {
		w := strconv.FormatFloat(math.Pow(2, -float64(prec+1)), 'f', -1, 64)
		precWhy = fmt.Sprintf("a fixed %d decimals: values with more than %d decimals print rounded (%s prints as %s) and parse back to a different value", prec, prec, w, strconv.FormatFloat(math.Pow(2, -float64(prec+1)), 'f', prec, 64))
	} else {
		precWhy = fmt.Sprintf("a fixed precision of %d digits: values that need more digits print rounded and parse back to a different value", prec)
	}
	return
}

// jpSites lists the numbers a function body turns into text, in source order. followHelpers: a
// call g(x) of a module function func(float) string counts as formatting x the way g formats its
// parameter (one level).
func jpSites(c *Ctx, p *packages.Package, fd *ast.FuncDecl, D string, followHelpers bool) []jpSite {
	info := p.TypesInfo
	var out []jpSite
	add := func(s jpSite) { out = append(out, s) }
	intSite := func(a ast.Expr, how string, ok bool, why string) {
		st := jpSite{arg: a, how: how, dot: OK, dotWhy: fmt.Sprintf("decimal digits, never contains %q", D)}
		if !ok {
			st.dot, st.dotWhy = Undecided, why
		}
		add(st)
	}
	floatSite := func(call *ast.CallExpr, a ast.Expr, how string, verb rune, prec int, sharp bool) {
		st := jpSite{arg: a, float: true, how: how}
		st.dot, st.dotWhy, st.prec, st.precWhy = jpFloatFormat(verb, prec, sharp, jpPatched(info, fd.Body, call, D), D)
		add(st)
	}
	floatUnknown := func(a ast.Expr, how, why string) {
		add(jpSite{arg: a, float: true, how: how, dot: Undecided, dotWhy: why, prec: Undecided, precWhy: why})
	}
	ast.Inspect(fd.Body, func(n ast.Node) bool {
		call, ok := n.(*ast.CallExpr)
		if !ok {
			return true
		}
		f := calleeFunc(info, call)
		if f == nil || f.Pkg() == nil {
			return true
		}
		full := f.Pkg().Path() + "." + f.Name()
		switch {
		case full == "fmt.Sprintf" || full == "fmt.Fprintf":
			fi := 0
			if full == "fmt.Fprintf" {
				fi = 1
			}
			if len(call.Args) <= fi {
				return true
			}
			args := call.Args[fi+1:]
			anyNum := false
			for _, a := range args {
				if fl, in := jpNumKind(info.TypeOf(a)); fl || in {
					anyNum = true
				}
			}
			if !anyNum {
				return true
			}
			format, isConst := jConstString(info, call.Args[fi])
			verbs, parsed := jpVerbs(format)
			if !isConst || !parsed || len(verbs) != len(args) {
				for _, a := range args {
					why := "the format " + types.ExprString(call.Args[fi]) + " cannot be paired with its arguments"
					if fl, in := jpNumKind(info.TypeOf(a)); fl {
						floatUnknown(a, f.Name(), why)
					} else if in {
						intSite(a, f.Name(), false, why)
					}
				}
				return true
			}
			for i, a := range args {
				fl, in := jpNumKind(info.TypeOf(a))
				v := verbs[i]
				how := "the verb " + v.text
				switch {
				case fl && v.precArg:
					floatUnknown(a, how, "the precision is not constant")
				case fl:
					lower := v.verb | 0x20
					switch lower {
					case 'f':
						prec := v.prec
						if prec < 0 {
							prec = 6
						}
						floatSite(call, a, how, 'f', prec, strings.Contains(v.flags, "#"))
					case 'e':
						prec := v.prec
						if prec < 0 {
							prec = 6
						}
						floatSite(call, a, how, 'e', prec, false)
					case 'g', 'v':
						floatSite(call, a, how, 'g', v.prec, false) // no precision: shortest
					default:
						floatUnknown(a, how, "not a verb that prints a decimal number")
					}
				case in:
					intSite(a, how, v.verb == 'd' || v.verb == 'v', "not printed as decimal digits")
				}
			}
		case full == "fmt.Sprint" || full == "fmt.Sprintln":
			for _, a := range call.Args {
				if fl, in := jpNumKind(info.TypeOf(a)); fl {
					floatSite(call, a, f.Name()+" (%v)", 'g', -1, false)
				} else if in {
					intSite(a, f.Name(), true, "")
				}
			}
		case full == "strconv.FormatFloat" && len(call.Args) == 4:
			a := call.Args[0]
			fk, pk, bk := jConst(info, call.Args[1]), jConst(info, call.Args[2]), jConst(info, call.Args[3])
			if fk == nil || pk == nil || bk == nil {
				floatUnknown(a, "strconv.FormatFloat", "format, precision or bit size is not constant")
				return true
			}
			fv, _ := constant.Int64Val(constant.ToInt(fk))
			pv, _ := constant.Int64Val(constant.ToInt(pk))
			bv, _ := constant.Int64Val(constant.ToInt(bk))
			how := fmt.Sprintf("strconv.FormatFloat(%q, %d, %d)", rune(fv), pv, bv)
			lower := rune(fv) | 0x20
			if lower != 'f' && lower != 'e' && lower != 'g' {
				floatUnknown(a, how, "not a decimal format")
				return true
			}
			before := len(out)
			floatSite(call, a, how, lower, int(pv), false)
			if b, ok := info.TypeOf(a).Underlying().(*types.Basic); ok && b.Kind() == types.Float64 && bv != 64 && len(out) > before {
				out[len(out)-1].prec = Violation
				out[len(out)-1].precWhy = fmt.Sprintf("the float64 is rounded to %d bits before printing", bv)
			}
		case (full == "strconv.FormatInt" || full == "strconv.FormatUint") && len(call.Args) == 2:
			bk := jConst(info, call.Args[1])
			intSite(call.Args[0], f.Name()+" base "+types.ExprString(call.Args[1]), bk != nil && constant.Compare(bk, token.EQL, constant.MakeInt64(10)), "the base is not the constant 10")
		case full == "strconv.Itoa" && len(call.Args) == 1:
			intSite(call.Args[0], "strconv.Itoa", true, "")
		case followHelpers && f.Pkg() == p.Types && len(call.Args) == 1:
			// a helper func(float) string of the package
			sig := f.Type().(*types.Signature)
			if sig.Recv() != nil || sig.Params().Len() != 1 || sig.Results().Len() != 1 {
				return true
			}
			if fl, _ := jpNumKind(sig.Params().At(0).Type()); !fl {
				return true
			}
			if b, ok := sig.Results().At(0).Type().(*types.Basic); !ok || b.Kind() != types.String {
				return true
			}
			gfd, gp := c.Decl(f)
			if gfd == nil || gfd.Body == nil || gp != p || len(gfd.Type.Params.List) != 1 || len(gfd.Type.Params.List[0].Names) != 1 {
				return true
			}
			param := info.Defs[gfd.Type.Params.List[0].Names[0]]
			var hits []jpSite
			for _, hs := range jpSites(c, p, gfd, D, false) {
				inner := hs.arg
				for {
					inner = ast.Unparen(inner)
					conv, ok := inner.(*ast.CallExpr)
					if !ok || len(conv.Args) != 1 {
						break
					}
					if tv, ok := info.Types[conv.Fun]; !ok || !tv.IsType() {
						break
					}
					inner = conv.Args[0]
				}
				if id, ok := inner.(*ast.Ident); ok && info.ObjectOf(id) == param && hs.float {
					hits = append(hits, hs)
				}
			}
			how := "the helper " + f.Name()
			if len(hits) != 1 {
				floatUnknown(call.Args[0], how, fmt.Sprintf("%s formats its parameter %d times (need exactly one float format the rule can read)", f.Name(), len(hits)))
				return true
			}
			h := hits[0]
			add(jpSite{arg: call.Args[0], float: true, how: how + " (" + h.how + ")", dot: h.dot, dotWhy: h.dotWhy, prec: h.prec, precWhy: h.precWhy})
		}
		return true
	})
	return out
}
