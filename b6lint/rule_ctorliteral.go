package main

import (
	"fmt"
	"go/ast"
	"go/types"
	"sort"
	"strings"
)

// CTOR-LITERAL (C05, C19): a query type whose constructor computes fields from its argument (the
// cap query's exterior and interior cell coverings, which its polygon test consults before the
// exact geometry) is complete only when it is built by that constructor. A literal elsewhere that
// sets the argument field alone (`&IntersectsCap{cap: cap}` in the protobuf decoder) compiles, is
// equal to the real thing as far as Equal can tell, and answers the polygon test from empty
// coverings: areas with more than a handful of vertices never match.
//
// Subjects, by shape (root package): struct types T with unexported fields and a function NewT…
// returning T or *T whose body builds T with a keyed literal that sets at least two fields, or
// assigns at least two fields of a fresh T. Obligation per non-empty keyed literal of T elsewhere
// in the module: it sets every field the constructor sets. Empty literals (decoding targets that
// are filled afterwards) are not instances.
func init() {
	register(&Rule{
		Name:  "CTOR-LITERAL",
		IR:    "ast",
		Props: []string{"C05", "C19"},
		Floor: 1,
		Doc:   "a struct whose constructor computes fields from its argument (the cap query's coverings) is not built elsewhere by a literal that sets fewer fields than the constructor does",
		Run:   runCtorLiteral,
	})
}

func runCtorLiteral(c *Ctx) []Obligation {
	var out []Obligation
	root := c.Pkg("")
	if root == nil {
		return out
	}
	info := root.TypesInfo
	// constructors: type -> fields set
	ctorFields := map[*types.Named]map[string]bool{}
	ctorOf := map[*types.Named]*ast.FuncDecl{}
	for _, fd := range c.FuncDecls(root) {
		obj, _ := info.Defs[fd.Name].(*types.Func)
		if obj == nil || fd.Recv != nil || fd.Body == nil || !strings.HasPrefix(obj.Name(), "New") {
			continue
		}
		sig := obj.Type().(*types.Signature)
		if sig.Results().Len() != 1 {
			continue
		}
		t := namedOf(sig.Results().At(0).Type())
		if t == nil || t.Obj().Pkg() != root.Types {
			continue
		}
		st, ok := t.Underlying().(*types.Struct)
		if !ok {
			continue
		}
		unexported := false
		for i := 0; i < st.NumFields(); i++ {
			if !st.Field(i).Exported() {
				unexported = true
			}
		}
		if !unexported {
			continue
		}
		set := map[string]bool{}
		ast.Inspect(fd.Body, func(n ast.Node) bool {
			switch x := n.(type) {
			case *ast.CompositeLit:
				if namedOf(info.TypeOf(x)) == t {
					for _, e := range x.Elts {
						if kv, ok := e.(*ast.KeyValueExpr); ok {
							if k, ok := kv.Key.(*ast.Ident); ok {
								set[k.Name] = true
							}
						}
					}
				}
			case *ast.AssignStmt:
				for _, l := range x.Lhs {
					if sel, ok := ast.Unparen(l).(*ast.SelectorExpr); ok && namedOf(info.TypeOf(sel.X)) == t {
						set[sel.Sel.Name] = true
					}
				}
			}
			return true
		})
		if len(set) >= 2 && (ctorFields[t] == nil || len(set) > len(ctorFields[t])) {
			ctorFields[t] = set
			ctorOf[t] = fd
		}
	}
	for _, p := range c.SortedPkgs() {
		pinfo := p.TypesInfo
		for _, fd := range c.FuncDecls(p) {
			if fd.Body == nil {
				continue
			}
			name := c.FuncName(p, fd)
			ord := 0
			ast.Inspect(fd.Body, func(n ast.Node) bool {
				cl, ok := n.(*ast.CompositeLit)
				if !ok || len(cl.Elts) == 0 {
					return true
				}
				t := namedOf(pinfo.TypeOf(cl))
				want := ctorFields[t]
				if want == nil || ctorOf[t] == fd {
					return true
				}
				have := map[string]bool{}
				for _, e := range cl.Elts {
					if kv, ok := e.(*ast.KeyValueExpr); ok {
						if k, ok := kv.Key.(*ast.Ident); ok {
							have[k.Name] = true
						}
					}
				}
				var missing []string
				for f := range want {
					if !have[f] {
						missing = append(missing, f)
					}
				}
				sort.Strings(missing)
				ord++
				ob := Obligation{Key: fmt.Sprintf("%s#%d", name, ord), Pos: c.Position(cl.Pos()), Status: OK,
					Detail: fmt.Sprintf("%s sets every field %s sets", srcText(c.Fset, cl), ctorOf[t].Name.Name)}
				if len(missing) > 0 {
					ob.Status = Violation
					ob.Detail = fmt.Sprintf("%s is built here without %s, which %s computes from its argument: the methods that consult those fields answer from their zero values", t.Obj().Name(), strings.Join(missing, ", "), ctorOf[t].Name.Name)
				}
				out = append(out, ob)
				return true
			})
		}
	}
	// one obligation per constructor, so that the rule has instances when no literal exists elsewhere
	var ts []*types.Named
	for t := range ctorFields {
		ts = append(ts, t)
	}
	sort.Slice(ts, func(i, j int) bool { return ts[i].Obj().Name() < ts[j].Obj().Name() })
	for _, t := range ts {
		var fs []string
		for f := range ctorFields[t] {
			fs = append(fs, f)
		}
		sort.Strings(fs)
		out = append(out, Obligation{Key: "b6." + ctorOf[t].Name.Name, Pos: c.Position(ctorOf[t].Pos()), Status: OK,
			Detail: fmt.Sprintf("%s is the only place that builds a non-empty %s, or every other literal sets %s too", ctorOf[t].Name.Name, t.Obj().Name(), strings.Join(fs, ", "))})
	}
	return out
}
