package main

import (
	"fmt"
	"go/ast"
	"go/constant"
	"go/token"
	"go/types"
	"strings"
)

// SKIP-READS (C29): the OSM and feature sources accept ReadOptions whose SkipTags flag makes
// the reader leave every element's tags empty. A callback that decides anything from tags (which
// relations are multipolygons, which ways are areas, …) must therefore not be driven by a read
// that sets SkipTags: the decision silently becomes "no" for every element of a source that
// honours the flag (the PBF reader does, the in-memory test source does not).
//
// Slots (by type): every call X.Read(opts, emit, …) whose first argument is a module struct type
// named ReadOptions with a bool field SkipTags (today osm.ReadOptions and ingest.ReadOptions).
// opts is resolved to a composite literal (the argument itself, or the latest assignment to the
// local variable before the call in an enclosing block, followed by any later
// `opts.SkipTags = …` store). A flag that is not a constant (forwarded from the caller's own
// options) is the caller's choice and is informational. When SkipTags is the constant true, the
// callback (function literal, the latest function literal assigned to the local variable, or a
// named function) and every module function it statically calls, transitively, must not read
// tags: no selection of a field named Tags of a module type named Tags, no call of a non-mutating
// method of osm.Tags / b6.Tags (directly or promoted through an embedded Tags field), no call of
// the b6.Taggable interface methods.
func init() {
	register(&Rule{
		Name:  "SKIP-READS",
		IR:    "ast",
		Props: []string{"C29"},
		Floor: 6,
		Doc: "a callback driven by X.Read(ReadOptions{SkipTags: true}, emit, …) does not read element/feature tags, directly or through the module functions it calls " +
			"(instances: every Read call taking a module ReadOptions with a SkipTags field; options and callback resolved through local variables)",
		Run: runSkipReads,
	})
}

func isTagsNamed(t types.Type) bool {
	n := namedOf(t)
	return n != nil && n.Obj().Pkg() != nil && strings.HasPrefix(n.Obj().Pkg().Path(), ModulePath) &&
		(n.Obj().Name() == "Tags" || n.Obj().Name() == "Taggable")
}

func tagMutatorName(s string) bool {
	for _, p := range []string{"Add", "Remove", "Modify", "Set", "Clear", "Clone"} { // Clone copies, it decides nothing
		if strings.HasPrefix(s, p) {
			return true
		}
	}
	return false
}

// directTagRead returns the first tag read in body (nested literals included), or nil.
func directTagRead(info *types.Info, body ast.Node) ast.Node {
	var hit ast.Node
	ast.Inspect(body, func(n ast.Node) bool {
		if hit != nil {
			return false
		}
		sel, ok := n.(*ast.SelectorExpr)
		if !ok {
			return true
		}
		s := info.Selections[sel]
		if s == nil {
			return true
		}
		switch obj := s.Obj().(type) {
		case *types.Var:
			if obj.Name() == "Tags" && isTagsNamed(obj.Type()) {
				hit = sel
			}
		case *types.Func:
			if tagMutatorName(obj.Name()) {
				return true
			}
			sig := obj.Type().(*types.Signature)
			if sig.Recv() != nil && isTagsNamed(sig.Recv().Type()) {
				hit = sel
			}
		}
		return true
	})
	return hit
}

func runSkipReads(c *Ctx) []Obligation {
	var out []Obligation
	// module functions that read tags, transitively over static calls
	type fnInfo struct {
		decl  *ast.FuncDecl
		info  *types.Info
		reads string // non-empty: why
	}
	fns := map[*types.Func]*fnInfo{}
	for _, p := range c.SortedPkgs() {
		for _, fd := range c.FuncDecls(p) {
			obj, _ := p.TypesInfo.Defs[fd.Name].(*types.Func)
			if obj == nil {
				continue
			}
			fi := &fnInfo{decl: fd, info: p.TypesInfo}
			if obj.Name() == "Clone" {
				// a copy moves tags along without deciding anything from them
			} else if n := directTagRead(p.TypesInfo, fd.Body); n != nil {
				fi.reads = fmt.Sprintf("%s reads %s at %s", obj.Name(), nodeText(c.Fset, n), c.Position(n.Pos()))
			}
			fns[obj] = fi
		}
	}
	for changed := true; changed; {
		changed = false
		for obj, fi := range fns {
			if fi.reads != "" {
				continue
			}
			ast.Inspect(fi.decl.Body, func(n ast.Node) bool {
				if fi.reads != "" {
					return false
				}
				call, ok := n.(*ast.CallExpr)
				if !ok {
					return true
				}
				if g := calleeFunc(fi.info, call); g != nil && obj.Name() != "Clone" {
					if gi := fns[g.Origin()]; gi != nil && gi.reads != "" && g.Origin() != obj {
						fi.reads = fmt.Sprintf("%s calls %s; %s", obj.Name(), g.Name(), gi.reads)
						changed = true
					}
				}
				return true
			})
		}
	}
	readsIn := func(info *types.Info, body ast.Node) string {
		if n := directTagRead(info, body); n != nil {
			return fmt.Sprintf("reads %s at %s", nodeText(c.Fset, n), c.Position(n.Pos()))
		}
		why := ""
		ast.Inspect(body, func(n ast.Node) bool {
			if why != "" {
				return false
			}
			if call, ok := n.(*ast.CallExpr); ok {
				if g := calleeFunc(info, call); g != nil {
					if gi := fns[g.Origin()]; gi != nil && gi.reads != "" {
						why = fmt.Sprintf("calls %s at %s; %s", g.Name(), c.Position(call.Pos()), gi.reads)
					}
				}
			}
			return true
		})
		return why
	}

	for _, p := range c.SortedPkgs() {
		info := p.TypesInfo
		for _, fd := range c.FuncDecls(p) {
			name := c.FuncName(p, fd)
			ord := 0
			ast.Inspect(fd.Body, func(n ast.Node) bool {
				call, ok := n.(*ast.CallExpr)
				if !ok || len(call.Args) < 2 {
					return true
				}
				sel, ok := ast.Unparen(call.Fun).(*ast.SelectorExpr)
				if !ok || sel.Sel.Name != "Read" {
					return true
				}
				ot := namedOf(info.TypeOf(call.Args[0]))
				if ot == nil || ot.Obj().Name() != "ReadOptions" || ot.Obj().Pkg() == nil || !strings.HasPrefix(ot.Obj().Pkg().Path(), ModulePath) {
					return true
				}
				st, ok := ot.Underlying().(*types.Struct)
				if !ok {
					return true
				}
				hasSkip := false
				for i := 0; i < st.NumFields(); i++ {
					if st.Field(i).Name() == "SkipTags" {
						hasSkip = true
					}
				}
				if !hasSkip {
					return true
				}
				ord++
				ob := Obligation{Key: fmt.Sprintf("%s#%d", name, ord), Pos: c.Position(call.Pos())}
				skip, how := resolveSkipTags(c, info, fd, call, call.Args[0])
				switch skip {
				case "false":
					ob.Status, ob.Detail = OK, "SkipTags is false ("+how+"): tags are delivered to the callback"
				case "unknown":
					ob.Status, ob.Detail = Info, "SkipTags is not a constant here ("+how+"): the caller's choice"
				case "true":
					body, binfo, bhow := resolveCallback(c, info, fd, call, call.Args[1])
					if body == nil {
						ob.Status, ob.Detail = Undecided, "SkipTags is true ("+how+") but the callback could not be resolved: "+bhow
						break
					}
					if why := readsIn(binfo, body); why != "" {
						ob.Status = Violation
						ob.Detail = fmt.Sprintf("the read sets SkipTags (%s), so every element reaches the callback without tags, but the callback (%s) %s", how, bhow, why)
					} else {
						ob.Status, ob.Detail = OK, fmt.Sprintf("SkipTags is true (%s) and the callback (%s) reads no tags, directly or through module callees", how, bhow)
					}
				}
				out = append(out, ob)
				return true
			})
		}
	}
	return out
}

// latestAssign finds the latest assignment (or definition) to v before pos inside fd whose
// enclosing block also encloses the use.
func latestAssign(info *types.Info, fd *ast.FuncDecl, v *types.Var, use ast.Node) (ast.Expr, token.Pos) {
	usePath := enclosing(fd.Body, use)
	encloses := func(stmt ast.Node) bool {
		path := enclosing(fd.Body, stmt)
		if len(path) < 2 {
			return false
		}
		parent := path[len(path)-2]
		for _, a := range usePath {
			if a == parent {
				return true
			}
		}
		return false
	}
	var best ast.Expr
	bestPos := token.NoPos
	ast.Inspect(fd.Body, func(n ast.Node) bool {
		switch s := n.(type) {
		case *ast.AssignStmt:
			if s.Pos() >= use.Pos() || len(s.Lhs) != len(s.Rhs) {
				return true
			}
			for i, l := range s.Lhs {
				id, ok := l.(*ast.Ident)
				if !ok {
					continue
				}
				if (info.Defs[id] == v || info.Uses[id] == v) && s.Pos() > bestPos && encloses(s) {
					best, bestPos = s.Rhs[i], s.Pos()
				}
			}
		case *ast.ValueSpec:
			for i, id := range s.Names {
				if info.Defs[id] == v && i < len(s.Values) && s.Pos() < use.Pos() && s.Pos() > bestPos {
					best, bestPos = s.Values[i], s.Pos()
				}
			}
		}
		return true
	})
	return best, bestPos
}

func resolveSkipTags(c *Ctx, info *types.Info, fd *ast.FuncDecl, call *ast.CallExpr, arg ast.Expr) (string, string) {
	arg = ast.Unparen(arg)
	if u, ok := arg.(*ast.UnaryExpr); ok && u.Op == token.AND {
		arg = ast.Unparen(u.X)
	}
	var lit *ast.CompositeLit
	var v *types.Var
	litPos := token.NoPos
	switch x := arg.(type) {
	case *ast.CompositeLit:
		lit = x
	case *ast.Ident:
		v, _ = info.Uses[x].(*types.Var)
		if v == nil {
			return "unknown", "options are " + nodeText(c.Fset, arg)
		}
		e, pos := latestAssign(info, fd, v, call)
		if e == nil {
			return "unknown", "options " + x.Name + " are not assigned a literal in this function"
		}
		l, ok := ast.Unparen(e).(*ast.CompositeLit)
		if !ok {
			return "unknown", "options " + x.Name + " = " + nodeText(c.Fset, e)
		}
		lit, litPos = l, pos
	default:
		return "unknown", "options are " + nodeText(c.Fset, arg)
	}
	val, how := "false", "literal at "+c.Position(lit.Pos())+" leaves SkipTags unset"
	for _, el := range lit.Elts {
		kv, ok := el.(*ast.KeyValueExpr)
		if !ok {
			return "unknown", "positional literal"
		}
		if k, ok := kv.Key.(*ast.Ident); ok && k.Name == "SkipTags" {
			tv := info.Types[kv.Value]
			if tv.Value == nil || tv.Value.Kind() != constant.Bool {
				val, how = "unknown", "SkipTags: "+nodeText(c.Fset, kv.Value)+" at "+c.Position(kv.Pos())
			} else if constant.BoolVal(tv.Value) {
				val, how = "true", "SkipTags: true at "+c.Position(kv.Pos())
			} else {
				val, how = "false", "SkipTags: false at "+c.Position(kv.Pos())
			}
		}
	}
	if v != nil {
		// later stores v.SkipTags = … before the call
		ast.Inspect(fd.Body, func(n ast.Node) bool {
			as, ok := n.(*ast.AssignStmt)
			if !ok || as.Pos() <= litPos || as.Pos() >= call.Pos() || len(as.Lhs) != len(as.Rhs) {
				return true
			}
			for i, l := range as.Lhs {
				sel, ok := l.(*ast.SelectorExpr)
				if !ok || sel.Sel.Name != "SkipTags" {
					continue
				}
				if id, ok := ast.Unparen(sel.X).(*ast.Ident); ok && info.Uses[id] == v {
					tv := info.Types[as.Rhs[i]]
					if tv.Value != nil && tv.Value.Kind() == constant.Bool {
						if constant.BoolVal(tv.Value) {
							val, how = "true", "SkipTags = true at "+c.Position(as.Pos())
						} else {
							val, how = "false", "SkipTags = false at "+c.Position(as.Pos())
						}
					} else {
						val, how = "unknown", "SkipTags = "+nodeText(c.Fset, as.Rhs[i])+" at "+c.Position(as.Pos())
					}
				}
			}
			return true
		})
	}
	return val, how
}

func resolveCallback(c *Ctx, info *types.Info, fd *ast.FuncDecl, call *ast.CallExpr, arg ast.Expr) (ast.Node, *types.Info, string) {
	arg = ast.Unparen(arg)
	for depth := 0; depth < 4; depth++ {
		switch x := arg.(type) {
		case *ast.FuncLit:
			return x.Body, info, "function literal at " + c.Position(x.Pos())
		case *ast.Ident, *ast.SelectorExpr:
			var obj types.Object
			if id, ok := x.(*ast.Ident); ok {
				obj = info.Uses[id]
			} else {
				obj = info.Uses[x.(*ast.SelectorExpr).Sel]
			}
			switch o := obj.(type) {
			case *types.Func:
				if d, p := c.Decl(o); d != nil && d.Body != nil {
					return d.Body, p.TypesInfo, "function " + o.Name()
				}
				return nil, nil, "function " + o.Name() + " has no body in the module"
			case *types.Var:
				e, _ := latestAssign(info, fd, o, call)
				if e == nil {
					return nil, nil, "callback " + o.Name() + " is not assigned in this function"
				}
				arg = ast.Unparen(e)
				continue
			}
			return nil, nil, "callback is " + nodeText(c.Fset, arg)
		default:
			return nil, nil, "callback is " + nodeText(c.Fset, arg)
		}
	}
	return nil, nil, "callback chain too long"
}
