package main

import (
	"fmt"
	"go/ast"
	"go/constant"
	"go/token"
	"go/types"
)

// SIGNED-DETOUR (C31, C10): a feature ID's value is a uint64 and every bit is used (s2 cell IDs
// of lat/lng points set bit 63 on half the globe). Its decimal text must therefore be produced
// and read by the unsigned 64-bit conversions. A detour through a signed or narrower integer
// loses values silently: strconv.Itoa(int(v)) prints values >= 2^63 negative,
// strconv.ParseInt/Atoi followed by uint64(…) rejects them (or, without a sign test, lets "-1"
// become 2^64-1 and smear over every packed field), ParseUint(s, 10, 32) rejects anything wider.
//
// Slots (by type): the Value field of b6.FeatureID.
//
//	#parse — every call of strconv.ParseInt/ParseUint/Atoi whose first result reaches a Value
//	         sink in the same function (the Value element of a FeatureID composite literal, or an
//	         assignment to x.Value), directly, through a local variable, through conversions or
//	         inside a bit-or/shift expression. Obligation: the call is ParseUint; when the
//	         parsed number is the whole value (not or-ed with other fields) its bitSize is 64.
//	#print — every call of strconv.Itoa/FormatInt/FormatUint whose argument contains a selection
//	         of FeatureID.Value. Obligation: the call is FormatUint (no conversion of the value
//	         to a signed or narrower type inside the argument).
//
// fmt verbs are not judged (an unsigned operand prints unsigned).
func init() {
	register(&Rule{
		Name:  "SIGNED-DETOUR",
		IR:    "ast",
		Props: []string{"C31", "C10"},
		Floor: 5,
		Doc: "the decimal text of a feature ID's uint64 value is parsed with strconv.ParseUint (bitSize 64 when it is the whole value) and printed with strconv.FormatUint: " +
			"no detour through a signed or narrower integer (instances: every strconv integer parse whose result reaches FeatureID.Value and every strconv integer print of FeatureID.Value)",
		Run: runSignedDetour,
	})
}

func runSignedDetour(c *Ctx) []Obligation {
	var out []Obligation
	isFeatureID := func(t types.Type) bool { return t != nil && isNamed(t, ModulePath, "FeatureID") }
	for _, p := range c.SortedPkgs() {
		info := p.TypesInfo
		strconvCall := func(e ast.Expr) (string, *ast.CallExpr) {
			call, ok := ast.Unparen(e).(*ast.CallExpr)
			if !ok {
				return "", nil
			}
			fn := calleeFunc(info, call)
			if fn == nil || fn.Pkg() == nil || fn.Pkg().Path() != "strconv" {
				return "", nil
			}
			return fn.Name(), call
		}
		for _, fd := range c.FuncDecls(p) {
			name := c.FuncName(p, fd)
			// local variables defined by a strconv parse
			type parse struct {
				fn   string
				call *ast.CallExpr
			}
			parsed := map[types.Object]parse{}
			ast.Inspect(fd.Body, func(n ast.Node) bool {
				as, ok := n.(*ast.AssignStmt)
				if !ok || len(as.Rhs) != 1 || len(as.Lhs) < 1 {
					return true
				}
				fn, call := strconvCall(as.Rhs[0])
				switch fn {
				case "ParseInt", "ParseUint", "Atoi":
					if id, ok := as.Lhs[0].(*ast.Ident); ok {
						obj := info.Defs[id]
						if obj == nil {
							obj = info.Uses[id]
						}
						if obj != nil {
							parsed[obj] = parse{fn, call}
						}
					}
				}
				return true
			})
			// sinks
			type sink struct {
				expr ast.Expr
				pos  token.Pos
			}
			var sinks []sink
			ast.Inspect(fd.Body, func(n ast.Node) bool {
				switch x := n.(type) {
				case *ast.CompositeLit:
					if !isFeatureID(info.TypeOf(x)) {
						return true
					}
					for i, el := range x.Elts {
						if kv, ok := el.(*ast.KeyValueExpr); ok {
							if k, ok := kv.Key.(*ast.Ident); ok && k.Name == "Value" {
								sinks = append(sinks, sink{kv.Value, kv.Pos()})
							}
						} else if i == 2 {
							sinks = append(sinks, sink{el, el.Pos()})
						}
					}
				case *ast.AssignStmt:
					if len(x.Lhs) != len(x.Rhs) {
						return true
					}
					for i, l := range x.Lhs {
						if sel, ok := ast.Unparen(l).(*ast.SelectorExpr); ok && sel.Sel.Name == "Value" {
							if s := info.Selections[sel]; s != nil && isFeatureID(s.Recv()) {
								sinks = append(sinks, sink{x.Rhs[i], x.Pos()})
							}
						}
					}
				}
				return true
			})
			ord := 0
			seen := map[*ast.CallExpr]bool{}
			for _, s := range sinks {
				whole := true
				var walk func(e ast.Expr, whole bool)
				walk = func(e ast.Expr, w bool) {
					e = ast.Unparen(e)
					switch x := e.(type) {
					case *ast.BinaryExpr:
						walk(x.X, false)
						walk(x.Y, false)
						return
					case *ast.CallExpr:
						if tv, ok := info.Types[x.Fun]; ok && tv.IsType() && len(x.Args) == 1 {
							walk(x.Args[0], w)
							return
						}
						if fn, call := strconvCall(x); fn == "ParseInt" || fn == "ParseUint" || fn == "Atoi" {
							_ = call
						}
						return
					case *ast.Ident:
						pr, ok := parsed[info.Uses[x]]
						if !ok || seen[pr.call] {
							return
						}
						seen[pr.call] = true
						ord++
						ob := Obligation{Key: fmt.Sprintf("%s#parse%d", name, ord), Pos: c.Position(pr.call.Pos()), Status: OK}
						bits := int64(-1)
						if pr.fn != "Atoi" && len(pr.call.Args) == 3 {
							if tv := info.Types[pr.call.Args[2]]; tv.Value != nil && tv.Value.Kind() == constant.Int {
								bits, _ = constant.Int64Val(tv.Value)
							}
						}
						switch {
						case pr.fn != "ParseUint":
							ob.Status = Violation
							ob.Detail = fmt.Sprintf("%s reaches FeatureID.Value at %s through strconv.%s: a signed parse rejects values >= 2^63 and accepts a sign (a negative number converted to uint64 sets every high bit)", nodeText(c.Fset, pr.call), c.Position(s.pos), pr.fn)
						case w && bits != 64 && bits != 0:
							ob.Status = Violation
							ob.Detail = fmt.Sprintf("%s is the whole FeatureID.Value at %s but is parsed with bitSize %d: values >= 2^%d are rejected", nodeText(c.Fset, pr.call), c.Position(s.pos), bits, bits)
						case w:
							ob.Detail = fmt.Sprintf("%s is the whole value at %s: unsigned, 64 bits", nodeText(c.Fset, pr.call), c.Position(s.pos))
						default:
							ob.Detail = fmt.Sprintf("%s is one packed field of the value at %s: unsigned (bitSize %d)", nodeText(c.Fset, pr.call), c.Position(s.pos), bits)
						}
						out = append(out, ob)
					}
				}
				walk(s.expr, whole)
			}
			// print side
			pord := 0
			ast.Inspect(fd.Body, func(n ast.Node) bool {
				fn, call := strconvCall2(info, n)
				if call == nil {
					return true
				}
				switch fn {
				case "Itoa", "FormatInt", "FormatUint":
				default:
					return true
				}
				var valueSel *ast.SelectorExpr
				ast.Inspect(call.Args[0], func(m ast.Node) bool {
					if sel, ok := m.(*ast.SelectorExpr); ok && sel.Sel.Name == "Value" {
						if s := info.Selections[sel]; s != nil && isFeatureID(s.Recv()) {
							valueSel = sel
						}
					}
					return true
				})
				if valueSel == nil {
					return true
				}
				pord++
				ob := Obligation{Key: fmt.Sprintf("%s#print%d", name, pord), Pos: c.Position(call.Pos()), Status: OK,
					Detail: nodeText(c.Fset, call) + ": unsigned print of the value"}
				if fn != "FormatUint" {
					ob.Status = Violation
					ob.Detail = fmt.Sprintf("%s prints FeatureID.Value through a signed integer: values >= 2^63 print negative and do not parse back", nodeText(c.Fset, call))
				} else if valueSel != ast.Unparen(call.Args[0]) {
					// conversions inside the argument: any to a narrower or signed type?
					ast.Inspect(call.Args[0], func(m ast.Node) bool {
						cv, ok := m.(*ast.CallExpr)
						if !ok || len(cv.Args) != 1 {
							return true
						}
						if tv, ok := info.Types[cv.Fun]; ok && tv.IsType() {
							if b, ok := tv.Type.Underlying().(*types.Basic); ok && b.Kind() != types.Uint64 && b.Kind() != types.Uint && b.Kind() != types.Uintptr {
								inner := false
								ast.Inspect(cv.Args[0], func(k ast.Node) bool {
									if k == ast.Node(valueSel) {
										inner = true
									}
									return true
								})
								if inner {
									ob.Status = Violation
									ob.Detail = fmt.Sprintf("%s converts FeatureID.Value to %s before printing: high bits are lost or reinterpreted", nodeText(c.Fset, call), tv.Type)
								}
							}
						}
						return true
					})
				}
				out = append(out, ob)
				return true
			})
		}
	}
	return out
}

func strconvCall2(info *types.Info, n ast.Node) (string, *ast.CallExpr) {
	call, ok := n.(*ast.CallExpr)
	if !ok || len(call.Args) == 0 {
		return "", nil
	}
	fn := calleeFunc(info, call)
	if fn == nil || fn.Pkg() == nil || fn.Pkg().Path() != "strconv" {
		return "", nil
	}
	return fn.Name(), call
}
