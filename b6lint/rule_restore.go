package main

import (
	"fmt"
	"go/ast"
	"go/token"
	"go/types"
)

// RESTORE (C13): a function that saves a map entry (`old := M[k]`), overwrites it temporarily
// (`M[k] = x`) and later puts the saved value back (`M[k] = old`) must put it back on every
// path from the temporary store to a normal function exit. Instances are discovered by that
// shape in every module package; nothing is matched by name. The save may be the comma-ok
// form (`old, present := M[k]`); then `delete(M, k)` also counts as putting the entry back (for
// an entry that was absent). Which of the two is right for a given path is not decided.
func init() {
	register(&Rule{
		Name:  "RESTORE",
		IR:    "cfg",
		Props: []string{"C13", "C37", "C16", "C12", "C03", "C15"}, // (C12: the rejected version is what lookups then show; C03/C15: it is in neither the search index nor the reference index, and hides the base version from both) a rejected replacement left in the map is also an invalid feature in the world (C37) and a phantom upper-layer version (C16)
		Floor: 2,                                                  // ingest.(*MutableOverlayWorld).AddFeature, ingest.(*BasicMutableWorld).AddFeature
		Doc: "where a function saves a map entry (old := M[k]), stores a temporary replacement (M[k] = x) and restores it (M[k] = old), " +
			"every control-flow path from the temporary store to a normal exit of the function passes a restoring store",
		Run: runRestore,
	})
}

func runRestore(c *Ctx) []Obligation {
	var out []Obligation
	for _, p := range c.SortedPkgs() {
		info := p.TypesInfo
		for _, u := range c.units(p, true) {
			type saved struct {
				obj     types.Object
				m, k    ast.Expr
				pos     token.Pos
				commaOK bool
			}
			var saves []saved
			inspectShallow(u.body, func(n ast.Node) bool {
				as, ok := n.(*ast.AssignStmt)
				// `old := M[k]` or the comma-ok form `old, present := M[k]`
				if !ok || len(as.Lhs) < 1 || len(as.Lhs) > 2 || len(as.Rhs) != 1 {
					return true
				}
				ix, ok := ast.Unparen(as.Rhs[0]).(*ast.IndexExpr)
				if !ok {
					return true
				}
				if _, isMap := info.TypeOf(ix.X).Underlying().(*types.Map); !isMap {
					return true
				}
				id, ok := as.Lhs[0].(*ast.Ident)
				if !ok || id.Name == "_" {
					return true
				}
				if obj := info.ObjectOf(id); obj != nil {
					saves = append(saves, saved{obj, ix.X, ix.Index, as.Pos(), len(as.Lhs) == 2})
				}
				return true
			})
			if len(saves) == 0 {
				continue
			}
			ord := 0
			for _, s := range saves {
				var temps, restores []*ast.AssignStmt
				var deletes []ast.Node // delete(M, k): puts an absent entry back (comma-ok save)
				inspectShallow(u.body, func(n ast.Node) bool {
					if es, ok := n.(*ast.ExprStmt); ok && s.commaOK && es.Pos() > s.pos {
						if call, ok := es.X.(*ast.CallExpr); ok && isBuiltin(info, call, "delete") && len(call.Args) == 2 &&
							sameExpr(info, call.Args[0], s.m) && sameExpr(info, call.Args[1], s.k) {
							deletes = append(deletes, es)
						}
						return true
					}
					as, ok := n.(*ast.AssignStmt)
					if !ok || as.Tok != token.ASSIGN || len(as.Lhs) != 1 || len(as.Rhs) != 1 || as.Pos() <= s.pos {
						return true
					}
					ix, ok := ast.Unparen(as.Lhs[0]).(*ast.IndexExpr)
					if !ok || !sameExpr(info, ix.X, s.m) || !sameExpr(info, ix.Index, s.k) {
						return true
					}
					if id, ok := ast.Unparen(as.Rhs[0]).(*ast.Ident); ok && info.ObjectOf(id) == s.obj {
						restores = append(restores, as)
					} else {
						temps = append(temps, as)
					}
					return true
				})
				if len(temps) == 0 || len(restores) == 0 {
					continue // not the save/replace/restore shape
				}
				g := newCFG(info, u.body)
				isRestore := func(n ast.Node) bool {
					for _, r := range restores {
						if n == ast.Node(r) {
							return true
						}
					}
					for _, d := range deletes {
						if n == d {
							return true
						}
					}
					return false
				}
				for _, t := range temps {
					ord++
					ob := Obligation{Key: fmt.Sprintf("%s#%d", u.name, ord), Pos: c.Position(t.Pos())}
					loc, ok := findNode(g, t)
					if !ok {
						ob.Status, ob.Detail = Undecided, "temporary store not found in the control-flow graph"
						out = append(out, ob)
						continue
					}
					ps := &pathSearch{c: c, info: info, stop: isRestore, exitIsBad: true}
					if w := ps.run(loc); w != nil {
						ob.Status = Violation
						ob.Detail = fmt.Sprintf("temporary store %s can reach a function exit without the restoring store %s", nodeText(c.Fset, t), nodeText(c.Fset, restores[0]))
						ob.Path = w
					} else {
						ob.Status = OK
						ob.Detail = fmt.Sprintf("every path from %s passes %s", nodeText(c.Fset, t), nodeText(c.Fset, restores[0]))
					}
					out = append(out, ob)
				}
			}
		}
	}
	return out
}
