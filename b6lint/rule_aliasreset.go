package main

import (
	"fmt"
	"go/ast"
	"go/types"
	"sort"
	"strings"
)

// FIELD-ALIAS (C33, C27): an encoder keeps one interning table per namespace of indices (tile keys
// → layer.Keys, string values → layer.Values, PBF strings → the block's string table). Two such
// tables must be two maps: if a constructor hands the same map to two fields, a string interned
// through one field is "found" through the other and the index of the wrong table is written.
//
// Slots (by shape, whole module): every composite literal of a module struct type, and every
// straight-line run of field assignments to one variable, in which two or more fields of map or
// slice type receive a value. Obligation per literal: no two such fields receive the same
// variable (resolved object) — fresh make(…)/literals/nil are never shared. Packages renderer
// (C33) and osm (C27) are anchored; elsewhere the verdict is informational.
//
// FILL-RESETS (C27): the PBF reader decodes every way and relation of a group into one reused
// struct, and the helpers that fill a field take the previous slice and re-use its storage
// (`tags = tags[0:0]` …). Such a helper must not return the caller's slice before it has been
// truncated: an early "nothing to do" return hands back the previous element's contents.
//
// Slots (by shape, package osm): functions with a slice parameter p that they truncate
// (p = p[0:0] / p[:0]) and return as a result. Obligation: every `return p, …` is preceded, on
// every path from the entry, by the truncation or by another assignment of a fresh value to p
// (must-pass-through on the function's control-flow graph).
func init() {
	register(&Rule{
		Name:    "FIELD-ALIAS",
		IR:      "ast",
		Props:   []string{"C33", "C27"},
		Floor:   2,
		FloorBy: map[string]int{"C33": 1, "C27": 1},
		Narrow: func(o *Obligation) {
			k := strings.TrimPrefix(o.Key, "FIELD-ALIAS/")
			switch {
			case strings.HasPrefix(k, "renderer."):
				o.Props = []string{"C33"}
			case strings.HasPrefix(k, "osm."):
				o.Props = []string{"C27"}
			default:
				o.Props = []string{}
				if o.Status == Violation {
					o.Detail = "verdict violation (outside the anchored packages): " + o.Detail
				}
				o.Status = Info
			}
		},
		Doc: "no constructor gives the same map or slice variable to two fields of one struct value (two interning tables are two maps); " +
			"instances: composite literals and assignment runs that initialise two or more map/slice fields",
		Run: runFieldAlias,
	})
	register(&Rule{
		Name:  "FILL-RESETS",
		IR:    "cfg",
		Props: []string{"C27"},
		Floor: 1,
		Doc: "in package osm a helper that re-uses the caller's slice (it truncates its slice parameter and returns it) never returns that parameter on a path on which it has not been truncated or replaced: " +
			"the reader decodes all elements of a group into one struct, so an early return hands back the previous element's contents",
		Run: runFillResets,
	})
}

func runFieldAlias(c *Ctx) []Obligation {
	var out []Obligation
	for _, p := range c.SortedPkgs() {
		info := p.TypesInfo
		refType := func(t types.Type) bool {
			switch t.Underlying().(type) {
			case *types.Map, *types.Slice:
				return true
			}
			return false
		}
		for _, fd := range c.FuncDecls(p) {
			name := c.FuncName(p, fd)
			ord := 0
			ast.Inspect(fd.Body, func(n ast.Node) bool {
				cl, ok := n.(*ast.CompositeLit)
				if !ok {
					return true
				}
				nt := namedOf(info.TypeOf(cl))
				if nt == nil || nt.Obj().Pkg() == nil || !strings.HasPrefix(nt.Obj().Pkg().Path(), ModulePath) {
					return true
				}
				if _, ok := nt.Underlying().(*types.Struct); !ok {
					return true
				}
				byObj := map[types.Object][]string{}
				fields := 0
				for _, el := range cl.Elts {
					kv, ok := el.(*ast.KeyValueExpr)
					if !ok {
						continue
					}
					k, ok := kv.Key.(*ast.Ident)
					if !ok || !refType(info.TypeOf(kv.Value)) {
						continue
					}
					fields++
					if id, ok := ast.Unparen(kv.Value).(*ast.Ident); ok {
						if o := info.Uses[id]; o != nil {
							if _, isVar := o.(*types.Var); isVar {
								byObj[o] = append(byObj[o], k.Name)
							}
						}
					}
				}
				if fields < 2 {
					return true
				}
				ord++
				ob := Obligation{Key: fmt.Sprintf("%s#%d", name, ord), Pos: c.Position(cl.Pos()), Status: OK,
					Detail: fmt.Sprintf("%s literal initialises %d map/slice fields, each with its own value", nt.Obj().Name(), fields)}
				var bad []string
				for o, fs := range byObj {
					if len(fs) > 1 {
						sort.Strings(fs)
						bad = append(bad, fmt.Sprintf("fields %s all receive the variable %s", strings.Join(fs, ", "), o.Name()))
					}
				}
				if len(bad) > 0 {
					sort.Strings(bad)
					ob.Status = Violation
					ob.Detail = fmt.Sprintf("%s literal: %s — they share one table, so an entry made through one field is found through the other", nt.Obj().Name(), strings.Join(bad, "; "))
				}
				out = append(out, ob)
				return true
			})
		}
	}
	return out
}

func runFillResets(c *Ctx) []Obligation {
	var out []Obligation
	p := c.Pkg("osm")
	if p == nil {
		return out
	}
	info := p.TypesInfo
	for _, fd := range c.FuncDecls(p) {
		obj, _ := info.Defs[fd.Name].(*types.Func)
		if obj == nil {
			continue
		}
		sig := obj.Type().(*types.Signature)
		for i := 0; i < sig.Params().Len(); i++ {
			pv := sig.Params().At(i)
			if _, ok := pv.Type().Underlying().(*types.Slice); !ok {
				continue
			}
			isP := func(e ast.Expr) bool {
				id, ok := ast.Unparen(e).(*ast.Ident)
				return ok && info.Uses[id] == types.Object(pv)
			}
			// truncations / replacements of p, and returns of p
			var resets []ast.Node
			var returns []*ast.ReturnStmt
			truncates := false
			inspectShallow(fd.Body, func(n ast.Node) bool {
				switch x := n.(type) {
				case *ast.AssignStmt:
					if len(x.Lhs) == len(x.Rhs) {
						for j, l := range x.Lhs {
							if !isP(l) {
								continue
							}
							if se, ok := ast.Unparen(x.Rhs[j]).(*ast.SliceExpr); ok && isP(se.X) && se.High != nil && isZeroLit(se.High) {
								truncates = true
								resets = append(resets, x)
							} else if call, ok := ast.Unparen(x.Rhs[j]).(*ast.CallExpr); ok && isBuiltin(info, call, "make") {
								resets = append(resets, x)
							}
						}
					}
				case *ast.ReturnStmt:
					if len(x.Results) > 0 && isP(x.Results[0]) {
						returns = append(returns, x)
					}
				}
				return true
			})
			if !truncates || len(returns) == 0 {
				continue
			}
			ob := Obligation{Key: fmt.Sprintf("%s#%s", c.FuncName(p, fd), pv.Name()), Pos: c.Position(fd.Pos()), Status: OK}
			g := newCFG(info, fd.Body)
			isReset := func(n ast.Node) bool {
				for _, r := range resets {
					if n == r {
						return true
					}
				}
				return false
			}
			// forward search from entry avoiding resets: reaching a return of p is a violation
			var bad []string
			seen := map[int32]bool{}
			var walk func(bi int32)
			walk = func(bi int32) {
				if seen[bi] {
					return
				}
				seen[bi] = true
				b := g.Blocks[bi]
				for _, n := range b.Nodes {
					if isReset(n) {
						return
					}
					if r, ok := n.(*ast.ReturnStmt); ok {
						for _, rr := range returns {
							if rr == r {
								bad = append(bad, c.Position(r.Pos()))
							}
						}
						return
					}
				}
				for _, s := range b.Succs {
					walk(s.Index)
				}
			}
			if len(g.Blocks) > 0 {
				walk(0)
			}
			if len(bad) > 0 {
				ob.Status = Violation
				ob.Detail = fmt.Sprintf("%s re-uses its parameter %s (it truncates it at %s) but the return at %s is reachable without the truncation: the caller gets back whatever the previous element left in the slice",
					obj.Name(), pv.Name(), c.Position(resets[0].Pos()), strings.Join(bad, ", "))
			} else {
				ob.Detail = fmt.Sprintf("%s truncates or replaces %s on every path before returning it (%d return(s))", obj.Name(), pv.Name(), len(returns))
			}
			out = append(out, ob)
		}
	}
	return out
}
