package main

import (
	"fmt"
	"go/ast"
	"go/types"
	"sort"
	"strings"
)

// FIELD-ALIAS (C33, C27): an encoder keeps one interning table per namespace of indices (tile keys
// → layer.Keys, string values → layer.Values, PBF strings → the block's string table). Two such
// tables must be two maps: if a constructor hands the same map to two fields, a string interned
// through one field is "found" through the other and the index of the wrong table is written.
//
// Slots (by shape, whole module): every composite literal of a module struct type, and every
// straight-line run of field assignments to one variable, in which two or more fields of map or
// slice type receive a value. Obligation per literal: no two such fields receive the same
// variable (resolved object) — fresh make(…)/literals/nil are never shared. Packages renderer
// (C33) and osm (C27) are anchored; elsewhere the verdict is informational.
//
// FILL-RESETS (C27): the PBF reader decodes every way and relation of a group into one reused
// struct, and the helpers that fill a field take the previous slice and re-use its storage
// (`tags = tags[0:0]` …). Such a helper must not return the caller's slice before it has been
// truncated: an early "nothing to do" return hands back the previous element's contents.
//
// Slots (by shape, package osm): functions with a slice parameter p that they truncate
// (p = p[0:0] / p[:0]) and return as a result. Obligation: every `return p, …` is preceded, on
// every path from the entry, by the truncation or by another assignment of a fresh value to p
// (must-pass-through on the function's control-flow graph).
func init() {
	register(&Rule{
		Name:    "FIELD-ALIAS",
		IR:      "ast",
		Props:   []string{"C33", "C27"},
		Floor:   2,
		FloorBy: map[string]int{"C33": 1, "C27": 1},
		Narrow: func(o *Obligation) {
			k := strings.TrimPrefix(o.Key, "FIELD-ALIAS/")
			switch {
			case strings.HasPrefix(k, "renderer."):
				o.Props = []string{"C33"}
			case strings.HasPrefix(k, "osm."):
				o.Props = []string{"C27"}
			default:
				o.Props = []string{}
				if o.Status == Violation {
					o.Detail = "verdict violation (outside the anchored packages): " + o.Detail
				}
				o.Status = Info
			}
		},
		Doc: "no constructor gives the same map or slice variable to two fields of one struct value (two interning tables are two maps); " +
			"instances: composite literals and assignment runs that initialise two or more map/slice fields",
		Run: runFieldAlias,
	})
	register(&Rule{
		Name:  "FILL-RESETS",
		IR:    "cfg",
		Props: []string{"C27"},
		Floor: 1,
		Doc: "in package osm a helper that re-uses the caller's slice (it truncates its slice parameter and returns it) never returns that parameter on a path on which it has not been truncated or replaced: " +
			"the reader decodes all elements of a group into one struct, so an early return hands back the previous element's contents",
		Run: runFillResets,
	})
}

func runFieldAlias(c *Ctx) []Obligation {
	var out []Obligation
	for _, p := range c.SortedPkgs() {
		info := p.TypesInfo
		refType := func(t types.Type) bool {
			switch t.Underlying().(type) {
			case *types.Map, *types.Slice:
				return true
			}
			return false
		}
		for _, fd := range c.FuncDecls(p) {
			name := c.FuncName(p, fd)
			ord := 0
			ast.Inspect(fd.Body, func(n ast.Node) bool {
				cl, ok := n.(*ast.CompositeLit)
				if !ok {
					return true
				}
				nt := namedOf(info.TypeOf(cl))
				if nt == nil || nt.Obj().Pkg() == nil || !strings.HasPrefix(nt.Obj().Pkg().Path(), ModulePath) {
					return true
				}
				if _, ok := nt.Underlying().(*types.Struct); !ok {
					return true
				}
				byObj := map[types.Object][]string{}
				fields := 0
				for _, el := range cl.Elts {
					kv, ok := el.(*ast.KeyValueExpr)
					if !ok {
						continue
					}
					k, ok := kv.Key.(*ast.Ident)
					if !ok || !refType(info.TypeOf(kv.Value)) {
						continue
					}
					fields++
					if id, ok := ast.Unparen(kv.Value).(*ast.Ident); ok {
						if o := info.Uses[id]; o != nil {
							if _, isVar := o.(*types.Var); isVar {
								byObj[o] = append(byObj[o], k.Name)
							}
						}
					}
				}
				if fields < 2 {
					return true
				}
				ord++
				ob := Obligation{Key: fmt.Sprintf("%s#%d", name, ord), Pos: c.Position(cl.Pos()), Status: OK,
					Detail: fmt.Sprintf("%s literal initialises %d map/slice fields, each with its own value", nt.Obj().Name(), fields)}
				var bad []string
				for o, fs := range byObj {
					if len(fs) > 1 {
						sort.Strings(fs)
						bad = append(bad, fmt.Sprintf("fields %s all receive the variable %s", strings.Join(fs, ", "), o.Name()))
					}
				}
				if len(bad) > 0 {
					sort.Strings(bad)
					ob.Status = Violation
					ob.Detail = fmt.Sprintf("%s literal: %s — they share one table, so an entry made through one field is found through the other", nt.Obj().Name(), strings.Join(bad, "; "))
				}
				out = append(out, ob)
				return true
			})
		}
	}
	return out
}

func runFillResets(c *Ctx) []Obligation {
	var out []Obligation
	p := c.Pkg("osm")
	if p == nil {
		return out
	}
	info := p.TypesInfo
	for _, fd := range c.FuncDecls(p) {
		obj, _ := info.Defs[fd.Name].(*types.Func)
		if obj == nil {
			continue
		}
		sig := obj.Type().(*types.Signature)
		for i := 0; i < sig.Params().Len(); i++ {
			pv := sig.Params().At(i)
			if _, ok := pv.Type().Underlying().(*types.Slice); !ok {
				continue
			}
			isP := func(e ast.Expr) bool {
				id, ok := ast.Unparen(e).(*ast.Ident)
				return ok && info.Uses[id] == types.Object(pv)
			}
			// truncations / replacements of p, and returns of p
			var resets []ast.Node
			var returns []*ast.ReturnStmt
			truncates := false
			inspectShallow(fd.Body, func(n ast.Node) bool {
				switch x := n.(type) {
				case *ast.AssignStmt:
					if len(x.Lhs) == len(x.Rhs) {
						for j, l := range x.Lhs {
							if !isP(l) {
								continue
							}
							if se, ok := ast.Unparen(x.Rhs[j]).(*ast.SliceExpr); ok && isP(se.X) && se.High != nil && isZeroLit(se.High) {
								truncates = true
								resets = append(resets, x)
							} else if call, ok := ast.Unparen(x.Rhs[j]).(*ast.CallExpr); ok && isBuiltin(info, call, "make") {
								resets = append(resets, x)
							}
						}
					}
				case *ast.ReturnStmt:
					if len(x.Results) > 0 && isP(x.Results[0]) {
						returns = append(returns, x)
					}
				}
				return true
			})
			if !truncates || len(returns) == 0 {
				continue
			}
			ob := Obligation{Key: fmt.Sprintf("%s#%s", c.FuncName(p, fd), pv.Name()), Pos: c.Position(fd.Pos()), Status: OK}
			g := newCFG(info, fd.Body)
			isReset := func(n ast.Node) bool {
				for _, r := range resets {
					if n == r {
						return true
					}
				}
				return false
			}
			// forward search from entry avoiding resets: reaching a return of p is a violation
			var bad []string
			seen := map[int32]bool{}
			var walk func(bi int32)
			walk = func(bi int32) {
				if seen[bi] {
					return
				}
				seen[bi] = true
				b := g.Blocks[bi]
				for _, n := range b.Nodes {
					if isReset(n) {
						return
					}
					if r, ok := n.(*ast.ReturnStmt); ok {
						for _, rr := range returns {
							if rr == r {
								bad = append(bad, c.Position(r.Pos()))
							}
						}
						return
					}
				}
				for _, s := range b.Succs {
					walk(s.Index)
				}
			}
			if len(g.Blocks) > 0 {
				walk(0)
			}
			if len(bad) > 0 {
				ob.Status = Violation
				ob.Detail = fmt.Sprintf("%s re-uses its parameter %s (it truncates it at %s) but the return at %s is reachable without the truncation: the caller gets back whatever the previous element left in the slice",
					obj.Name(), pv.Name(), c.Position(resets[0].Pos()), strings.Join(bad, ", "))
			} else {
				ob.Detail = fmt.Sprintf("%s truncates or replaces %s on every path before returning it (%d return(s))", obj.Name(), pv.Name(), len(returns))
			}
			out = append(out, ob)
		}
	}
	return out
}

// RESIZE-FIRST (C11): the compact decoders fill their receiver in place and re-use its storage: a
// list decoder first brings the receiver to the decoded length (`*rs = (*rs)[0:l]`, after growing
// it) or empties it (`*m = (*m)[0:0]`, `r.Members = r.Members[0:0]`) and then decodes the elements.
// The worlds decode many records into one value, so a path that returns before that statement —
// an "empty list, nothing to do" shortcut — leaves the previous record's elements in place although
// the byte count it returns is right.
//
// Slots (by shape, package ingest/compact): every method whose name starts with Unmarshal (or
// From…/Fill… decoders) that contains, at the top level of its body or of one if, an assignment
// that re-slices its receiver or a field of its receiver from index 0 (`X = X[0:n]`, `X = X[:n]`).
// Obligation per method: every return statement is preceded, on every path from the entry, by
// such a re-slice (must-pass-through on the control-flow graph). Returns in error branches that
// come before any decoding are not exempt: the caller's value must not keep stale elements either.
func init() {
	register(&Rule{
		Name:  "RESIZE-FIRST",
		IR:    "cfg",
		Props: []string{"C11"},
		Floor: 10,
		Doc:   "a compact decoder that brings its re-used receiver to the decoded length (X = X[0:n]) does so on every path before it returns: no early return leaves the previous record's elements in the receiver",
		Run:   runResizeFirst,
	})
}

func runResizeFirst(c *Ctx) []Obligation {
	var out []Obligation
	p := c.Pkg("ingest/compact")
	if p == nil {
		return out
	}
	info := p.TypesInfo
	for _, fd := range c.FuncDecls(p) {
		if fd.Recv == nil || len(fd.Recv.List) != 1 || len(fd.Recv.List[0].Names) != 1 || !strings.HasPrefix(fd.Name.Name, "Unmarshal") {
			continue
		}
		recv := info.Defs[fd.Recv.List[0].Names[0]]
		rootedAtRecv := func(e ast.Expr) bool {
			for {
				switch x := ast.Unparen(e).(type) {
				case *ast.StarExpr:
					e = x.X
				case *ast.SelectorExpr:
					e = x.X
				case *ast.Ident:
					return info.Uses[x] == recv
				default:
					return false
				}
			}
		}
		var resizes []ast.Node
		var returns []*ast.ReturnStmt
		inspectShallow(fd.Body, func(n ast.Node) bool {
			switch x := n.(type) {
			case *ast.AssignStmt:
				if len(x.Lhs) == 1 && len(x.Rhs) == 1 && rootedAtRecv(x.Lhs[0]) {
					if se, ok := ast.Unparen(x.Rhs[0]).(*ast.SliceExpr); ok && sameExpr(info, ast.Unparen(se.X), ast.Unparen(x.Lhs[0])) && (se.Low == nil || isZeroLit(se.Low)) && se.High != nil {
						resizes = append(resizes, x)
					}
				}
			case *ast.ReturnStmt:
				returns = append(returns, x)
			}
			return true
		})
		if len(resizes) == 0 || len(returns) == 0 {
			continue
		}
		ob := Obligation{Key: c.FuncName(p, fd), Pos: c.Position(fd.Pos()), Status: OK}
		g := newCFG(info, fd.Body)
		isResize := func(n ast.Node) bool {
			for _, r := range resizes {
				if n == r {
					return true
				}
			}
			return false
		}
		var bad []string
		seen := map[int32]bool{}
		var walk func(bi int32)
		walk = func(bi int32) {
			if seen[bi] {
				return
			}
			seen[bi] = true
			b := g.Blocks[bi]
			for _, n := range b.Nodes {
				if isResize(n) {
					return
				}
				if r, ok := n.(*ast.ReturnStmt); ok {
					bad = append(bad, c.Position(r.Pos()))
					return
				}
			}
			for _, s := range b.Succs {
				walk(s.Index)
			}
		}
		if len(g.Blocks) > 0 {
			walk(0)
		}
		if len(bad) > 0 {
			sort.Strings(bad)
			ob.Status = Violation
			ob.Detail = fmt.Sprintf("%s brings its receiver to the decoded length at %s, but the return at %s is reachable without it: decoding into a value that already holds elements keeps the previous record's elements",
				fd.Name.Name, c.Position(resizes[0].Pos()), strings.Join(bad, ", "))
		} else {
			ob.Detail = fmt.Sprintf("%s re-slices its receiver (%s) on every path before any of its %d return(s)", fd.Name.Name, strings.TrimSpace(nodeText(c.Fset, resizes[0])), len(returns))
		}
		out = append(out, ob)
	}
	return out
}

// ERR-STICKY (C28): worker goroutines report a failing callback through a variable they share
// with the function that started them (`readOSMDataErr = err` under a lock); the function returns
// that variable after the workers have finished. The error reaches the caller only if it stays
// recorded: a worker that finishes its own work successfully afterwards must not store its nil
// over it. So every store of an error *variable* into the shared variable has to be conditional on
// that variable being non-nil.
//
// Slots (by shape, whole module; packages osm, encoding, ingest, ingest/compact and api/functions
// carry C28, others are informational): inside a function literal started with `go` (directly, or
// through errgroup's Go), every assignment `E = x` where E is an error-typed variable declared
// (or bound to a local variable that a go statement calls)
// outside the literal and x is an error-typed variable (not the constant nil, not a fresh
// fmt.Errorf/errors.New value). Obligation: the assignment is nested in the true branch of an if
// whose condition tests `x != nil` (or the else branch of `x == nil`).
func init() {
	register(&Rule{
		Name:  "ERR-STICKY",
		IR:    "ast",
		Props: []string{"C28"},
		Floor: 1,
		Doc:   "inside worker goroutines, an error variable is stored into the error variable shared with the starter only under a test that it is not nil: a worker that succeeds later cannot erase the error another worker recorded",
		Run:   runErrSticky,
	})
}

func runErrSticky(c *Ctx) []Obligation {
	var out []Obligation
	isErr := func(t types.Type) bool { return t != nil && t.String() == "error" }
	for _, p := range c.SortedPkgs() {
		info := p.TypesInfo
		rel := relPkg(p)
		anchored := rel == "osm" || rel == "encoding" || rel == "ingest" || rel == "ingest/compact" || rel == "api/functions"
		for _, fd := range c.FuncDecls(p) {
			name := c.FuncName(p, fd)
			ord := 0
			var lits []*ast.FuncLit
			ast.Inspect(fd.Body, func(n ast.Node) bool {
				switch x := n.(type) {
				case *ast.GoStmt:
					if fl, ok := ast.Unparen(x.Call.Fun).(*ast.FuncLit); ok {
						lits = append(lits, fl)
					}
					// `feed := func(..){..}; go feed(i)`: a literal bound to a local variable
					if id, ok := ast.Unparen(x.Call.Fun).(*ast.Ident); ok {
						v := info.Uses[id]
						ast.Inspect(fd.Body, func(m ast.Node) bool {
							if as, ok := m.(*ast.AssignStmt); ok && len(as.Lhs) == len(as.Rhs) {
								for i, l := range as.Lhs {
									if lid, ok := l.(*ast.Ident); ok && v != nil && (info.Defs[lid] == v || info.Uses[lid] == v) {
										if fl, ok := ast.Unparen(as.Rhs[i]).(*ast.FuncLit); ok {
											dup := false
											for _, have := range lits {
												if have == fl {
													dup = true
												}
											}
											if !dup {
												lits = append(lits, fl)
											}
										}
									}
								}
							}
							return true
						})
					}
				case *ast.CallExpr:
					if sel, ok := ast.Unparen(x.Fun).(*ast.SelectorExpr); ok && sel.Sel.Name == "Go" && len(x.Args) == 1 {
						if fl, ok := ast.Unparen(x.Args[0]).(*ast.FuncLit); ok {
							lits = append(lits, fl)
						}
					}
				}
				return true
			})
			for _, fl := range lits {
				ast.Inspect(fl.Body, func(n ast.Node) bool {
					as, ok := n.(*ast.AssignStmt)
					if !ok || as.Tok.String() != "=" || len(as.Lhs) != len(as.Rhs) {
						return true
					}
					for i, l := range as.Lhs {
						lid, ok := ast.Unparen(l).(*ast.Ident)
						rid, ok2 := ast.Unparen(as.Rhs[i]).(*ast.Ident)
						if !ok || !ok2 || rid.Name == "nil" {
							continue
						}
						lo, _ := info.Uses[lid].(*types.Var)
						ro, _ := info.Uses[rid].(*types.Var)
						if lo == nil || ro == nil || !isErr(lo.Type()) || !isErr(ro.Type()) {
							continue
						}
						if lo.Pos() >= fl.Pos() && lo.Pos() < fl.End() {
							continue // declared inside the goroutine: not shared
						}
						ord++
						ob := Obligation{Key: fmt.Sprintf("%s#%d", name, ord), Pos: c.Position(as.Pos()), Status: Violation,
							Detail: fmt.Sprintf("%s = %s is stored into the shared error variable whether or not %s is nil: a worker that finishes successfully after another worker has failed overwrites the recorded error with nil, and the function reports success",
								lid.Name, rid.Name, rid.Name)}
						path := enclosing(fl.Body, as)
						for j, a := range path {
							is, ok := a.(*ast.IfStmt)
							if !ok || j+1 >= len(path) {
								continue
							}
							var conds []ast.Expr
							conds = append(conds, conjuncts(is.Cond)...)
							for _, cd := range conds {
								be, ok := ast.Unparen(cd).(*ast.BinaryExpr)
								if !ok {
									continue
								}
								x, y := ast.Unparen(be.X), ast.Unparen(be.Y)
								isX := func(e ast.Expr) bool { id, ok := e.(*ast.Ident); return ok && info.Uses[id] == types.Object(ro) }
								isNil := func(e ast.Expr) bool { id, ok := e.(*ast.Ident); return ok && id.Name == "nil" }
								if (isX(x) && isNil(y)) || (isX(y) && isNil(x)) {
									if (be.Op.String() == "!=" && path[j+1] == ast.Node(is.Body)) || (be.Op.String() == "==" && is.Else != nil && path[j+1] == ast.Node(is.Else)) {
										ob.Status = OK
										ob.Detail = fmt.Sprintf("%s = %s is stored only when %s is not nil (test at %s)", lid.Name, rid.Name, rid.Name, c.Position(is.Pos()))
									}
								}
							}
							// `if err := f(); err != nil {` defines ro in the init: covered by the same test
						}
						if !anchored {
							if ob.Status == Violation {
								ob.Detail = "verdict violation (outside the anchored packages): " + ob.Detail
							}
							ob.Status = Info
						}
						out = append(out, ob)
					}
					return true
				})
			}
		}
	}
	return out
}
