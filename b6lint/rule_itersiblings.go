package main

import (
	"fmt"
	"go/ast"
	"go/token"
	"go/types"
	"sort"
	"strings"

	"golang.org/x/tools/go/packages"
)

// ITER-SIBLINGS (C03): Next and Advance of a search iterator are two entry points into the same
// positioned sequence; inside unions and intersections an iterator is driven by either of
// them in any order. Whatever bounds or configures the sequence must therefore be honoured by
// both, and an iterator that positions itself lazily on first use must do so whichever of
// the two is called first.
//
// Subjects: every named type of the module (any package) that implements search.Iterator or
// search.TokenIterator and declares both Next and Advance with bodies (types that only get them
// by embedding are represented by the embedded type). Today 16 types: search
// {arrayIndexIterator, emptyIterator, intersection, keyRange, tokenIterator, tokenPrefix,
// treeListIterator, treeTokenIterator, union}, b6 {intersectsCap, intersectsCells,
// intersectsMultiPolygon, intersectsPoint, intersectsPolyline}, ingest/compact {Iterator,
// tokenIterator}.
//
// Instance #1 per type — configuration fields. A configuration field is a field of the
// iterator struct that no method of the type assigns (begin, end, values, list, header, ...;
// fields filled by the constructor only). reads(M) is the set of fields M reads through its
// receiver, directly or through methods of the same type it calls (helpers, the sibling, the
// value accessor). Required:
//
//	every configuration field in reads(Next) is in reads(Advance);
//	every configuration field that Advance reads *plainly* is in reads(Next).
//
// A read in Advance is not plain — and so creates no duty for Next — in two accepted idioms,
// both consequences of "Advance compares with a key, Next only steps":
//
//	key-directed  the read is the receiver or an argument of a call that also takes the key
//	              parameter or a local computed from it (a.values.CompareKey(a.list[i], key),
//	              i.nt.Encode(id.Namespace) with id := key.(b6.FeatureID)), including reads
//	              inside a function literal passed to such a search (sort.Search);
//	accessor      the read happens inside the type's value accessor — the methods reachable from
//	              Value()/Token() (FeatureID() decoding the current value through i.nt) — which
//	              Advance calls to compare the current position with the key.
//
// Instance #2 per type that has one — lazy initialisation. A start flag is a bool field that some
// method assigns and that Next or Advance (or a helper, the sibling excluded) tests in an `if`.
// If one sibling tests it, the other must test it too, and the calls made on the not-started
// branch (`if !r.f {...}`, or the else of `if r.f {...}`) must be the same set of calls after
// renaming the receiver (keyRange: r.iterator.Advance(r.begin); union and treeListIterator:
// r.start()). Types whose lazy state is not a bool flag (arrayIndexIterator i = -1,
// compact.Iterator i == 0) have no #2.
//
// Not covered: that the shared fields are used to the same effect (only that they are
// consulted); ordering between initial positioning and the move; iterators outside the two
// interfaces (b6.Features implementations).
func init() {
	register(&Rule{
		Name:    "ITER-SIBLINGS",
		IR:      "ast",
		Props:   []string{"C03", "C06", "C08"}, // C08: the posting-list iterator's pair only (Narrow). C06: the same sibling agreement is a necessary condition of the iterator algebra (Advance must land inside the range Next would enumerate)
		FloorBy: map[string]int{"C08": 1},
		Narrow: func(o *Obligation) {
			if strings.Contains(o.Key, "ingest/compact.(*Iterator).") {
				o.Props = []string{"C03", "C06", "C08"}
			} else {
				o.Props = []string{"C03", "C06"}
			}
		},
		Floor: 19, // 16 iterator types (#1) + 3 start flags (#2: keyRange, union, treeListIterator)
		Doc: "for every type implementing search.Iterator / search.TokenIterator with its own Next and Advance: the configuration fields " +
			"(fields no method assigns) read by Next are read by Advance and those read plainly by Advance are read by Next; a bool " +
			"start flag tested by one of them before positioning is tested by the other with the same initial positioning calls",
		Run: runIterSiblings,
	})
}

type gIterType struct {
	pkg     *packages.Package
	named   *types.Named
	st      *types.Struct
	methods map[string]*ast.FuncDecl // declared methods with bodies
}

// gRecvObj returns the receiver variable of a method declaration (nil if unnamed).
func gRecvObj(info *types.Info, fd *ast.FuncDecl) types.Object {
	if fd.Recv == nil || len(fd.Recv.List) == 0 || len(fd.Recv.List[0].Names) == 0 {
		return nil
	}
	return info.Defs[fd.Recv.List[0].Names[0]]
}

func (c *Ctx) gIteratorTypes() []gIterType {
	sp := c.Pkg("search")
	if sp == nil {
		return nil
	}
	var ifaces []*types.Interface
	for _, n := range []string{"Iterator", "TokenIterator"} {
		if tn, ok := sp.Types.Scope().Lookup(n).(*types.TypeName); ok {
			if i, ok := tn.Type().Underlying().(*types.Interface); ok {
				ifaces = append(ifaces, i)
			}
		}
	}
	var out []gIterType
	for _, p := range c.SortedPkgs() {
		scope := p.Types.Scope()
		for _, name := range scope.Names() {
			tn, ok := scope.Lookup(name).(*types.TypeName)
			if !ok || tn.IsAlias() {
				continue
			}
			named, ok := tn.Type().(*types.Named)
			if !ok || named.TypeParams().Len() > 0 {
				continue
			}
			st, ok := named.Underlying().(*types.Struct)
			if !ok {
				continue
			}
			impl := false
			for _, i := range ifaces {
				if types.Implements(named, i) || types.Implements(types.NewPointer(named), i) {
					impl = true
				}
			}
			if !impl {
				continue
			}
			it := gIterType{pkg: p, named: named, st: st, methods: map[string]*ast.FuncDecl{}}
			for i := 0; i < named.NumMethods(); i++ {
				if fd, _ := c.Decl(named.Method(i)); fd != nil && fd.Body != nil {
					it.methods[named.Method(i).Name()] = fd
				}
			}
			if it.methods["Next"] == nil || it.methods["Advance"] == nil {
				continue
			}
			out = append(out, it)
		}
	}
	return out
}

// gFieldRead is one read of a receiver field.
type gFieldRead struct {
	field    *types.Var
	kind     string // "plain", "key", "accessor"
	via      string // method in which the read occurs
	position token.Pos
}

func runIterSiblings(c *Ctx) []Obligation {
	var out []Obligation
	for _, it := range c.gIteratorTypes() {
		info := it.pkg.TypesInfo
		isField := map[*types.Var]bool{}
		for i := 0; i < it.st.NumFields(); i++ {
			isField[it.st.Field(i)] = true
		}
		// receiver field selected by e (r.f), for the receiver of fd
		recvField := func(recv types.Object, e ast.Expr) *types.Var {
			se, ok := ast.Unparen(e).(*ast.SelectorExpr)
			if !ok {
				return nil
			}
			id, ok := ast.Unparen(se.X).(*ast.Ident)
			if !ok || recv == nil || info.ObjectOf(id) != recv {
				return nil
			}
			sel := info.Selections[se]
			if sel == nil || sel.Kind() != types.FieldVal {
				return nil
			}
			v, _ := sel.Obj().(*types.Var)
			if v == nil || !isField[v] {
				return nil
			}
			return v
		}
		// fields assigned by some method
		assigned := map[*types.Var]bool{}
		var mnames []string
		for n := range it.methods {
			mnames = append(mnames, n)
		}
		sort.Strings(mnames)
		for _, mn := range mnames {
			fd := it.methods[mn]
			recv := gRecvObj(info, fd)
			ast.Inspect(fd.Body, func(n ast.Node) bool {
				switch s := n.(type) {
				case *ast.AssignStmt:
					for _, l := range s.Lhs {
						if v := recvField(recv, l); v != nil {
							assigned[v] = true
						}
					}
				case *ast.IncDecStmt:
					if v := recvField(recv, s.X); v != nil {
						assigned[v] = true
					}
				case *ast.UnaryExpr:
					if s.Op == token.AND {
						if v := recvField(recv, s.X); v != nil {
							assigned[v] = true // address taken: may be written elsewhere
						}
					}
				}
				return true
			})
		}
		// method of the same type called through the receiver
		ownMethod := func(recv types.Object, call *ast.CallExpr) string {
			se, ok := ast.Unparen(call.Fun).(*ast.SelectorExpr)
			if !ok {
				return ""
			}
			id, ok := ast.Unparen(se.X).(*ast.Ident)
			if !ok || recv == nil || info.ObjectOf(id) != recv {
				return ""
			}
			f := calleeFunc(info, call)
			if f == nil {
				return ""
			}
			if fd := it.methods[f.Name()]; fd != nil {
				if d, _ := c.Decl(f); d == fd {
					return f.Name()
				}
			}
			return ""
		}
		// accessor closure: methods reachable from Value / Token
		accessor := map[string]bool{}
		var growAcc func(mn string)
		growAcc = func(mn string) {
			fd := it.methods[mn]
			if fd == nil || accessor[mn] {
				return
			}
			accessor[mn] = true
			recv := gRecvObj(info, fd)
			ast.Inspect(fd.Body, func(n ast.Node) bool {
				if call, ok := n.(*ast.CallExpr); ok {
					if m := ownMethod(recv, call); m != "" && m != "Next" && m != "Advance" {
						growAcc(m)
					}
				}
				return true
			})
		}
		growAcc("Value")
		growAcc("Token")

		// reads of method mn, following own-method calls; skipSibling excludes Next/Advance.
		var collect func(mn string, inAccessor bool, skipSibling bool, seen map[string]bool, out *[]gFieldRead)
		collect = func(mn string, inAccessor bool, skipSibling bool, seen map[string]bool, out *[]gFieldRead) {
			fd := it.methods[mn]
			if fd == nil || seen[mn] {
				return
			}
			seen[mn] = true
			recv := gRecvObj(info, fd)
			// locals derived from the key parameter (only meaningful in Advance itself)
			keyed := map[types.Object]bool{}
			if mn == "Advance" && fd.Type.Params != nil {
				for _, f := range fd.Type.Params.List {
					for _, n := range f.Names {
						if o := info.Defs[n]; o != nil {
							keyed[o] = true
						}
					}
				}
				mentions := func(e ast.Node) bool {
					found := false
					ast.Inspect(e, func(x ast.Node) bool {
						if id, ok := x.(*ast.Ident); ok && keyed[info.ObjectOf(id)] {
							found = true
						}
						return true
					})
					return found
				}
				for changed := true; changed; {
					changed = false
					ast.Inspect(fd.Body, func(n ast.Node) bool {
						if as, ok := n.(*ast.AssignStmt); ok && len(as.Lhs) == len(as.Rhs) {
							for i, l := range as.Lhs {
								if id, ok := l.(*ast.Ident); ok {
									if o := info.ObjectOf(id); o != nil && !keyed[o] && recvField(recv, l) == nil && mentions(as.Rhs[i]) {
										keyed[o] = true
										changed = true
									}
								}
							}
						}
						return true
					})
				}
			}
			mentionsKey := func(e ast.Node) bool {
				found := false
				ast.Inspect(e, func(x ast.Node) bool {
					if id, ok := x.(*ast.Ident); ok && keyed[info.ObjectOf(id)] {
						found = true
					}
					return true
				})
				return found
			}
			// pure writes r.f = ... are not reads
			pureWrite := map[ast.Expr]bool{}
			ast.Inspect(fd.Body, func(n ast.Node) bool {
				if as, ok := n.(*ast.AssignStmt); ok && as.Tok == token.ASSIGN {
					for _, l := range as.Lhs {
						if recvField(recv, l) != nil {
							pureWrite[ast.Unparen(l)] = true
						}
					}
				}
				return true
			})
			var stack []ast.Node
			ast.Inspect(fd.Body, func(n ast.Node) bool {
				if n == nil {
					stack = stack[:len(stack)-1]
					return true
				}
				stack = append(stack, n)
				if call, ok := n.(*ast.CallExpr); ok {
					if m := ownMethod(recv, call); m != "" {
						if !(skipSibling && (m == "Next" || m == "Advance")) {
							collect(m, inAccessor || accessor[m], skipSibling, seen, out)
						}
					}
				}
				se, ok := n.(*ast.SelectorExpr)
				if !ok || pureWrite[se] {
					return true
				}
				v := recvField(recv, se)
				if v == nil {
					return true
				}
				kind := "plain"
				if inAccessor {
					kind = "accessor"
				} else if len(keyed) > 0 {
					// innermost enclosing call that has the read as receiver/argument
					for i := len(stack) - 2; i >= 0; i-- {
						if call, ok := stack[i].(*ast.CallExpr); ok {
							if mentionsKey(call) {
								kind = "key"
							}
							break
						}
					}
				}
				*out = append(*out, gFieldRead{v, kind, mn, se.Pos()})
				return true
			})
		}
		reads := func(mn string, skipSibling bool) []gFieldRead {
			var rs []gFieldRead
			collect(mn, false, skipSibling, map[string]bool{}, &rs)
			return rs
		}
		nextReads, advReads := reads("Next", false), reads("Advance", false)
		summarise := func(rs []gFieldRead) (any map[*types.Var]bool, plain map[*types.Var]bool) {
			any, plain = map[*types.Var]bool{}, map[*types.Var]bool{}
			for _, r := range rs {
				any[r.field] = true
				if r.kind == "plain" {
					plain[r.field] = true
				}
			}
			return
		}
		nAny, _ := summarise(nextReads)
		aAny, aPlain := summarise(advReads)
		tname := relPkg(it.pkg) + "." + it.named.Obj().Name()
		advFd, nextFd := it.methods["Advance"], it.methods["Next"]
		advName := c.FuncName(it.pkg, advFd)

		// ---- #1 configuration fields
		ob := Obligation{Key: gNthKey(advName, 1), Pos: c.Position(advFd.Pos())}
		var cfgNames, problems []string
		describe := func(set map[*types.Var]bool) string {
			var ns []string
			for i := 0; i < it.st.NumFields(); i++ {
				f := it.st.Field(i)
				if set[f] && !assigned[f] {
					ns = append(ns, f.Name())
				}
			}
			if len(ns) == 0 {
				return "-"
			}
			return strings.Join(ns, ",")
		}
		for i := 0; i < it.st.NumFields(); i++ {
			f := it.st.Field(i)
			if assigned[f] {
				continue
			}
			cfgNames = append(cfgNames, f.Name())
			if nAny[f] && !aAny[f] {
				problems = append(problems, fmt.Sprintf("Next (%s) consults configuration field %s but Advance (%s) never does: a sequence entered through Advance ignores it", c.Position(nextFd.Pos()), f.Name(), c.Position(advFd.Pos())))
			}
			if aPlain[f] && !nAny[f] {
				problems = append(problems, fmt.Sprintf("Advance (%s) consults configuration field %s outside key comparison and value access but Next (%s) never does", c.Position(advFd.Pos()), f.Name(), c.Position(nextFd.Pos())))
			}
		}
		if len(cfgNames) == 0 {
			cfgNames = []string{"-"}
		}
		if len(problems) > 0 {
			ob.Status = Violation
			ob.Detail = fmt.Sprintf("iterator %s: %s", tname, problems[0])
			ob.Path = problems
		} else {
			ob.Status = OK
			ob.Detail = fmt.Sprintf("iterator %s: configuration fields {%s}; Next reads {%s}, Advance reads {%s} (plain {%s})", tname, strings.Join(cfgNames, ","), describe(nAny), describe(aAny), describe(aPlain))
		}
		out = append(out, ob)

		// ---- #2 start flag
		type flagUse struct {
			tested bool
			calls  []string
			at     token.Pos
		}
		flagUses := func(mn string, flag *types.Var) flagUse {
			var u flagUse
			seen := map[string]bool{}
			var visit func(mn string)
			visit = func(mn string) {
				fd := it.methods[mn]
				if fd == nil || seen[mn] {
					return
				}
				seen[mn] = true
				recv := gRecvObj(info, fd)
				rname := ""
				if recv != nil {
					rname = recv.Name()
				}
				norm := func(e ast.Expr) string {
					s := types.ExprString(e)
					if rname != "" {
						// rename the receiver: identifiers are delimited, a textual prefix match on "r." suffices
						var b strings.Builder
						for i := 0; i < len(s); {
							if strings.HasPrefix(s[i:], rname+".") && (i == 0 || !(s[i-1] == '_' || s[i-1] == '.' || (s[i-1] >= '0' && s[i-1] <= '9') || (s[i-1] >= 'a' && s[i-1] <= 'z') || (s[i-1] >= 'A' && s[i-1] <= 'Z'))) {
								b.WriteString("recv.")
								i += len(rname) + 1
								continue
							}
							b.WriteByte(s[i])
							i++
						}
						s = b.String()
					}
					return s
				}
				ast.Inspect(fd.Body, func(n ast.Node) bool {
					switch s := n.(type) {
					case *ast.CallExpr:
						if m := ownMethod(recv, s); m != "" && m != "Next" && m != "Advance" {
							visit(m)
						}
					case *ast.IfStmt:
						var branch ast.Node
						cond := ast.Unparen(s.Cond)
						if ue, ok := cond.(*ast.UnaryExpr); ok && ue.Op == token.NOT && recvField(recv, ue.X) == flag {
							branch = s.Body
						} else if recvField(recv, cond) == flag {
							u.tested = true
							if u.at == token.NoPos {
								u.at = s.Pos()
							}
							if s.Else != nil {
								branch = s.Else
							}
						}
						if branch != nil {
							u.tested = true
							if u.at == token.NoPos {
								u.at = s.Pos()
							}
							ast.Inspect(branch, func(x ast.Node) bool {
								if call, ok := x.(*ast.CallExpr); ok {
									u.calls = append(u.calls, norm(call))
								}
								return true
							})
						}
					}
					return true
				})
			}
			visit(mn)
			sort.Strings(u.calls)
			// distinct
			var d []string
			for i, s := range u.calls {
				if i == 0 || s != u.calls[i-1] {
					d = append(d, s)
				}
			}
			u.calls = d
			return u
		}
		for i := 0; i < it.st.NumFields(); i++ {
			f := it.st.Field(i)
			b, isBasic := f.Type().Underlying().(*types.Basic)
			if !isBasic || b.Kind() != types.Bool || !assigned[f] {
				continue
			}
			nu, au := flagUses("Next", f), flagUses("Advance", f)
			if !nu.tested && !au.tested {
				continue
			}
			ob := Obligation{Key: gNthKey(advName, 2), Pos: c.Position(advFd.Pos())}
			switch {
			case nu.tested && !au.tested:
				ob.Status = Violation
				ob.Detail = fmt.Sprintf("iterator %s: Next tests the start flag %s at %s and positions with {%s} when it is not set, but Advance (%s) never tests it: an iterator first driven through Advance is not positioned at its start", tname, f.Name(), c.Position(nu.at), strings.Join(nu.calls, "; "), c.Position(advFd.Pos()))
			case au.tested && !nu.tested:
				ob.Status = Violation
				ob.Detail = fmt.Sprintf("iterator %s: Advance tests the start flag %s at %s and positions with {%s} when it is not set, but Next (%s) never tests it", tname, f.Name(), c.Position(au.at), strings.Join(au.calls, "; "), c.Position(nextFd.Pos()))
			case strings.Join(nu.calls, "\n") != strings.Join(au.calls, "\n"):
				ob.Status = Violation
				ob.Detail = fmt.Sprintf("iterator %s: on first use (start flag %s not set) Next positions with {%s} but Advance with {%s}", tname, f.Name(), strings.Join(nu.calls, "; "), strings.Join(au.calls, "; "))
			default:
				ob.Status = OK
				ob.Detail = fmt.Sprintf("iterator %s: start flag %s is tested by Next and Advance; both position with {%s}", tname, f.Name(), strings.Join(nu.calls, "; "))
			}
			out = append(out, ob)
			break // one start flag per type
		}
	}
	return out
}
