package main

import (
	"fmt"
	"go/ast"
	"go/token"
	"go/types"
	"sort"
	"strings"
)

// MERGE-ORDERED (C03): FindFeatures must yield features in FeatureID order. An implementation
// that answers from one source inherits the order of that source; one that combines several
// sources must interleave them with an ID-ordered merge.
//
// Part 1 — one instance per FindFeatures method of a type that implements b6.World (found with
// types.Implements over every named type of every module package). Inside the method:
//
//	source    a call whose result implements b6.Features and none of whose arguments is a
//	          b6.Features (or a slice of them): w.FindFeatures(q), b6.NewSearchFeatureIterator(...)
//	wrapper   a call, or a (pointer to a) composite literal, with exactly one b6.Features operand:
//	          m.tags.WrapFeatures(x), &mutableFeatureIterator{i: x, ...}
//	combiner  a call or literal with two or more b6.Features operands, or one []b6.Features operand
//
// The method combines sources when it has two or more source call sites or a source call site
// inside a loop. Then every returned expression, followed through wrappers, local variables
// (single definition) and slices filled element-wise or by append, must be a call of an approved
// merger — b6.MergeFeatures or ingest.newOverlayFeatures, resolved through types — whenever
// that return draws on two source sites or on a source evaluated by a loop the return is not
// part of: each such source must sit among the merger's operands. Anything else (returning one
// element of a slice of sources, an unapproved combiner such as a concatenating iterator or a
// struct literal holding two iterators) is a violation; an expression form the rule cannot
// follow is undecided. Methods with at most one source, and returns that each hand back a
// single source, are ok as they stand.
//
// Part 2 — one instance per approved merger: the iterator type it returns must order by
// FeatureID.Less.
//   - heap merger (b6.MergeFeatures -> *mergedFeatures over featuresHeap): the Less(i, j) method
//     of the heap type used with container/heap must be the single statement
//     `return A.Less(B)` with callee (b6.FeatureID).Less, A mentioning parameter i and not j,
//     B mentioning j and not i (a min-heap on FeatureID);
//   - two-way merger (ingest.newOverlayFeatures -> *overlayFeatures): its Next method calls
//     (b6.FeatureID).Less between two different fields of the receiver, every method of the type
//     that calls FeatureID.Less uses the same (receiver-field, argument-field) orientation, and
//     no method of the type applies <, >, <=, >= to the components of a FeatureID.
//
// Not covered: that each source is itself sorted; de-duplication; that FeatureID.Less is a
// total order (LESS-LEX); mergers added later under other names (they are violations until
// approved here).
func init() {
	register(&Rule{
		Name:    "MERGE-ORDERED",
		IR:      "ast",
		Props:   []string{"C03", "C16"},
		FloorBy: map[string]int{"C03": 10, "C16": 3},
		Floor:   10, // 8 FindFeatures implementations + 2 mergers
		Doc: "every FindFeatures method of a b6.World implementation that combines more than one b6.Features source returns (through wrappers) " +
			"a call of b6.MergeFeatures or ingest.newOverlayFeatures fed by all its sources; both mergers order by FeatureID.Less",
		Run: func(c *Ctx) []Obligation {
			out := runMergeOrdered(c)
			for i := range out {
				if out[i].Props == nil {
					out[i].Props = []string{"C03"}
				}
			}
			return out
		},
	})
}

type gMergeCtx struct {
	c         *Ctx
	features  *types.Interface
	featureID *types.Named
	less      *types.Func
	mergers   map[*types.Func]bool
}

func (m *gMergeCtx) isFeatures(t types.Type) bool {
	return t != nil && types.Implements(t, m.features)
}

func (m *gMergeCtx) isFeaturesSlice(t types.Type) bool {
	if t == nil {
		return false
	}
	if s, ok := t.Underlying().(*types.Slice); ok {
		return m.isFeatures(s.Elem())
	}
	return false
}

// gFlow is the resolution of an expression of type b6.Features.
type gFlow struct {
	sources  map[*ast.CallExpr]bool // source call sites merged below an approved merger (or single)
	problems []string               // violations
	unknown  []string               // undecided
}

func runMergeOrdered(c *Ctx) []Obligation {
	root := c.Pkg("")
	if root == nil {
		return nil
	}
	lookupIface := func(name string) *types.Interface {
		tn, _ := root.Types.Scope().Lookup(name).(*types.TypeName)
		if tn == nil {
			return nil
		}
		i, _ := tn.Type().Underlying().(*types.Interface)
		return i
	}
	world, features := lookupIface("World"), lookupIface("Features")
	if world == nil || features == nil {
		return nil
	}
	m := &gMergeCtx{c: c, features: features, mergers: map[*types.Func]bool{}}
	if tn, ok := root.Types.Scope().Lookup("FeatureID").(*types.TypeName); ok {
		m.featureID, _ = tn.Type().(*types.Named)
	}
	if m.featureID != nil {
		m.less = gMethod(m.featureID, "Less")
	}
	if f, ok := root.Types.Scope().Lookup("MergeFeatures").(*types.Func); ok {
		m.mergers[f] = true
	}
	if ip := c.Pkg("ingest"); ip != nil {
		if f, ok := ip.Types.Scope().Lookup("newOverlayFeatures").(*types.Func); ok {
			m.mergers[f] = true
		}
	}

	var out []Obligation
	// ---- Part 1: FindFeatures implementations
	for _, p := range c.SortedPkgs() {
		scope := p.Types.Scope()
		for _, name := range scope.Names() {
			tn, ok := scope.Lookup(name).(*types.TypeName)
			if !ok || tn.IsAlias() {
				continue
			}
			named, ok := tn.Type().(*types.Named)
			if !ok || named.TypeParams().Len() > 0 {
				continue
			}
			if _, isIface := named.Underlying().(*types.Interface); isIface {
				continue
			}
			if !types.Implements(named, world) && !types.Implements(types.NewPointer(named), world) {
				continue
			}
			ff := gMethod(named, "FindFeatures")
			if ff == nil {
				continue // promoted from an embedded world: that world's own method is the instance
			}
			fd, fp := c.Decl(ff)
			if fd == nil || fd.Body == nil {
				continue
			}
			out = append(out, m.checkFindFeatures(fd, fp.TypesInfo, c.FuncName(fp, fd)))
		}
	}
	// ---- Part 2: the mergers
	var ms []*types.Func
	for f := range m.mergers {
		ms = append(ms, f)
	}
	sort.Slice(ms, func(i, j int) bool { return ms[i].FullName() < ms[j].FullName() })
	for _, f := range ms {
		out = append(out, m.checkMerger(f))
	}
	return out
}

func (m *gMergeCtx) checkFindFeatures(fd *ast.FuncDecl, info *types.Info, name string) Obligation {
	c := m.c
	ob := Obligation{Key: gNthKey(name, 1), Pos: c.Position(fd.Pos())}

	featuresOperands := func(args []ast.Expr) (single []ast.Expr, slices []ast.Expr) {
		for _, a := range args {
			t := info.TypeOf(a)
			switch {
			case m.isFeatures(t):
				single = append(single, a)
			case m.isFeaturesSlice(t):
				slices = append(slices, a)
			}
		}
		return
	}
	litOperands := func(cl *ast.CompositeLit) []ast.Expr {
		var vals []ast.Expr
		for _, el := range cl.Elts {
			if kv, ok := el.(*ast.KeyValueExpr); ok {
				vals = append(vals, kv.Value)
			} else {
				vals = append(vals, el)
			}
		}
		return vals
	}
	// source call sites
	var sources []*ast.CallExpr
	inLoop := map[*ast.CallExpr]bool{}
	loopOf := map[*ast.CallExpr]ast.Node{} // outermost enclosing loop
	var loopStack []ast.Node
	var loopDepth int
	var walk func(n ast.Node)
	walk = func(n ast.Node) {
		ast.Inspect(n, func(x ast.Node) bool {
			switch s := x.(type) {
			case *ast.ForStmt:
				if s.Init != nil {
					walk(s.Init)
				}
				loopDepth++
				loopStack = append(loopStack, s)
				if s.Cond != nil {
					walk(s.Cond)
				}
				if s.Post != nil {
					walk(s.Post)
				}
				walk(s.Body)
				loopDepth--
				loopStack = loopStack[:len(loopStack)-1]
				return false
			case *ast.RangeStmt:
				walk(s.X)
				loopDepth++
				loopStack = append(loopStack, s)
				walk(s.Body)
				loopDepth--
				loopStack = loopStack[:len(loopStack)-1]
				return false
			case *ast.CallExpr:
				if m.isFeatures(info.TypeOf(s)) {
					single, slices := featuresOperands(s.Args)
					if len(single) == 0 && len(slices) == 0 {
						sources = append(sources, s)
						if loopDepth > 0 {
							inLoop[s] = true
							loopOf[s] = loopStack[0]
						}
					}
				}
			}
			return true
		})
	}
	walk(fd.Body)
	combines := len(sources) >= 2
	for _, s := range sources {
		if inLoop[s] {
			combines = true
		}
	}
	if !combines {
		ob.Status = OK
		if len(sources) == 0 {
			ob.Detail = "no b6.Features source is combined (constant result)"
		} else {
			ob.Detail = fmt.Sprintf("single source %s; its order is returned unchanged", types.ExprString(sources[0]))
		}
		return ob
	}

	// definitions of local variables
	defs := map[types.Object][]ast.Expr{}  // v := e / v = e
	elems := map[types.Object][]ast.Expr{} // v[i] = e, v = append(v, e...)
	inspectShallow(fd.Body, func(n ast.Node) bool {
		switch s := n.(type) {
		case *ast.AssignStmt:
			if len(s.Lhs) != len(s.Rhs) {
				return true
			}
			for i, l := range s.Lhs {
				switch lx := ast.Unparen(l).(type) {
				case *ast.Ident:
					obj := info.ObjectOf(lx)
					if obj == nil {
						continue
					}
					if call, ok := ast.Unparen(s.Rhs[i]).(*ast.CallExpr); ok && isBuiltin(info, call, "append") && len(call.Args) > 0 {
						if id, ok := ast.Unparen(call.Args[0]).(*ast.Ident); ok && info.ObjectOf(id) == obj {
							elems[obj] = append(elems[obj], call.Args[1:]...)
							continue
						}
					}
					defs[obj] = append(defs[obj], s.Rhs[i])
				case *ast.IndexExpr:
					if id, ok := ast.Unparen(lx.X).(*ast.Ident); ok {
						if obj := info.ObjectOf(id); obj != nil {
							elems[obj] = append(elems[obj], s.Rhs[i])
						}
					}
				}
			}
		case *ast.ValueSpec:
			for i, id := range s.Names {
				if i < len(s.Values) {
					defs[info.ObjectOf(id)] = append(defs[info.ObjectOf(id)], s.Values[i])
				}
			}
		}
		return true
	})

	fl := &gFlow{sources: map[*ast.CallExpr]bool{}}
	type srcHit struct {
		call  *ast.CallExpr
		under bool
	}
	var hits []srcHit // sources reached from the return being resolved
	visiting := map[types.Object]bool{}
	var resolve func(e ast.Expr, underMerger bool)
	resolveOperands := func(single, slices []ast.Expr, under bool) {
		for _, a := range single {
			resolve(a, under)
		}
		for _, a := range slices {
			id, ok := ast.Unparen(a).(*ast.Ident)
			if !ok {
				fl.unknown = append(fl.unknown, "slice operand "+types.ExprString(a)+" is not a local variable")
				continue
			}
			obj := info.ObjectOf(id)
			if len(elems[obj]) == 0 {
				fl.unknown = append(fl.unknown, "no element of slice "+id.Name+" is assigned in this method")
			}
			for _, e := range elems[obj] {
				resolve(e, under)
			}
		}
	}
	resolve = func(e ast.Expr, under bool) {
		e = ast.Unparen(e)
		switch x := e.(type) {
		case *ast.CallExpr:
			if tv, ok := info.Types[x.Fun]; ok && tv.IsType() && len(x.Args) == 1 { // conversion
				resolve(x.Args[0], under)
				return
			}
			single, slices := featuresOperands(x.Args)
			n := len(single)
			switch {
			case n == 0 && len(slices) == 0:
				hits = append(hits, srcHit{x, under})
				fl.sources[x] = true
			case n == 1 && len(slices) == 0:
				resolve(single[0], under)
			default:
				f := calleeFunc(info, x)
				if f != nil && m.mergers[f.Origin()] {
					resolveOperands(single, slices, true)
				} else {
					fl.problems = append(fl.problems, fmt.Sprintf("%s at %s combines b6.Features values but is neither b6.MergeFeatures nor newOverlayFeatures", types.ExprString(x.Fun), m.c.Position(x.Pos())))
					resolveOperands(single, slices, under)
				}
			}
		case *ast.UnaryExpr:
			if x.Op == token.AND {
				resolve(x.X, under)
				return
			}
			fl.unknown = append(fl.unknown, "cannot follow "+types.ExprString(e))
		case *ast.CompositeLit:
			single, slices := featuresOperands(litOperands(x))
			if len(single) == 1 && len(slices) == 0 {
				resolve(single[0], under)
			} else if len(single) == 0 && len(slices) == 0 {
				// a constant iterator (e.g. EmptyFeatures{})
			} else {
				fl.problems = append(fl.problems, fmt.Sprintf("literal %s at %s combines b6.Features values without an ID-ordered merger", types.ExprString(x.Type), m.c.Position(x.Pos())))
				resolveOperands(single, slices, under)
			}
		case *ast.Ident:
			obj := info.ObjectOf(x)
			if obj == nil || visiting[obj] {
				return
			}
			if len(defs[obj]) != 1 {
				fl.unknown = append(fl.unknown, fmt.Sprintf("variable %s has %d definitions in this method; cannot follow", x.Name, len(defs[obj])))
				return
			}
			visiting[obj] = true
			resolve(defs[obj][0], under)
			visiting[obj] = false
		case *ast.IndexExpr:
			if m.isFeaturesSlice(info.TypeOf(x.X)) {
				fl.problems = append(fl.problems, fmt.Sprintf("%s at %s selects one element of several sources instead of merging them", types.ExprString(x), m.c.Position(x.Pos())))
				if id, ok := ast.Unparen(x.X).(*ast.Ident); ok {
					for _, el := range elems[info.ObjectOf(id)] {
						resolve(el, under)
					}
				}
				return
			}
			fl.unknown = append(fl.unknown, "cannot follow "+types.ExprString(e))
		default:
			fl.unknown = append(fl.unknown, "cannot follow "+types.ExprString(e))
		}
	}
	inspectShallow(fd.Body, func(n ast.Node) bool {
		rs, ok := n.(*ast.ReturnStmt)
		if !ok {
			return true
		}
		if len(rs.Results) != 1 {
			fl.unknown = append(fl.unknown, "return without an explicit result at "+c.Position(rs.Pos()))
			return true
		}
		hits = nil
		resolve(rs.Results[0], false)
		// this return combines sources if it draws on two source sites, or on one that is
		// evaluated repeatedly by a loop the return is not part of
		distinct := map[*ast.CallExpr]bool{}
		combining := false
		for _, h := range hits {
			distinct[h.call] = true
			if l := loopOf[h.call]; l != nil && !(l.Pos() <= rs.Pos() && rs.End() <= l.End()) {
				combining = true
			}
		}
		if len(distinct) >= 2 {
			combining = true
		}
		if combining {
			for _, h := range hits {
				if !h.under {
					fl.problems = append(fl.problems, fmt.Sprintf("source %s at %s reaches the result returned at %s outside an ID-ordered merger", types.ExprString(h.call), c.Position(h.call.Pos()), c.Position(rs.Pos())))
				}
			}
		}
		return true
	})
	var srcs []string
	for _, s := range sources {
		t := types.ExprString(s)
		if inLoop[s] {
			t += " (in a loop)"
		}
		srcs = append(srcs, t)
	}
	if len(sources) >= 2 {
		// a world that layers one source of features over another: shadowing in searches (C16)
		ob.Props = []string{"C03", "C16"}
	}
	switch {
	case len(fl.problems) > 0:
		ob.Status = Violation
		ob.Detail = fmt.Sprintf("%s combines %d source sites (%s) but does not return them through an ID-ordered merger: %s", name, len(sources), strings.Join(srcs, "; "), fl.problems[0])
		ob.Path = fl.problems
	case len(fl.unknown) > 0:
		ob.Status = Undecided
		ob.Detail = fmt.Sprintf("%s combines %d source sites (%s); the flow to the result cannot be followed: %s", name, len(sources), strings.Join(srcs, "; "), fl.unknown[0])
		ob.Path = fl.unknown
	default:
		ob.Status = OK
		ob.Detail = fmt.Sprintf("%d source sites (%s): every returned iterator that draws on more than one of them is an ID-ordered merge", len(sources), strings.Join(srcs, "; "))
	}
	return ob
}

// checkMerger verifies that the iterator type returned by an approved merger orders by
// FeatureID.Less.
func (m *gMergeCtx) checkMerger(f *types.Func) Obligation {
	c := m.c
	fd, p := c.Decl(f)
	ob := Obligation{Key: gNthKey(relPkgOf(f)+"."+f.Name(), 1), Pos: c.Position(f.Pos())}
	if fd == nil || fd.Body == nil || m.less == nil {
		ob.Status, ob.Detail = Undecided, "merger has no body in the module, or b6.FeatureID.Less is missing"
		return ob
	}
	ob.Key = gNthKey(c.FuncName(p, fd), 1)
	info := p.TypesInfo
	// the iterator type: the composite literal returned
	var iter *types.Named
	inspectShallow(fd.Body, func(n ast.Node) bool {
		if rs, ok := n.(*ast.ReturnStmt); ok && len(rs.Results) == 1 {
			e := ast.Unparen(rs.Results[0])
			if ue, ok := e.(*ast.UnaryExpr); ok && ue.Op == token.AND {
				e = ast.Unparen(ue.X)
			}
			if cl, ok := e.(*ast.CompositeLit); ok {
				iter = namedOf(info.TypeOf(cl))
			}
		}
		return true
	})
	if iter == nil {
		ob.Status, ob.Detail = Undecided, "merger does not return a composite literal of an iterator type"
		return ob
	}
	st, _ := iter.Underlying().(*types.Struct)
	next := gMethod(iter, "Next")
	if st == nil || next == nil {
		ob.Status, ob.Detail = Undecided, "merger's iterator type is not a struct with a Next method"
		return ob
	}
	isLessCall := func(info *types.Info, call *ast.CallExpr) bool {
		g := calleeFunc(info, call)
		return g != nil && g.Origin() == m.less
	}
	// relational operators on FeatureID components anywhere in the type's methods
	var relops []string
	type orient struct{ recv, arg string }
	orients := map[orient][]string{}
	nextHasLess := false
	var heapField *types.Named
	for i := 0; i < iter.NumMethods(); i++ {
		md, mp := c.Decl(iter.Method(i))
		if md == nil || md.Body == nil {
			continue
		}
		minfo := mp.TypesInfo
		ast.Inspect(md.Body, func(n ast.Node) bool {
			switch x := n.(type) {
			case *ast.BinaryExpr:
				switch x.Op {
				case token.LSS, token.GTR, token.LEQ, token.GEQ:
					for _, side := range []ast.Expr{x.X, x.Y} {
						if se, ok := ast.Unparen(side).(*ast.SelectorExpr); ok {
							if n := namedOf(minfo.TypeOf(se.X)); n != nil && n == m.featureID {
								relops = append(relops, fmt.Sprintf("%s at %s", types.ExprString(x), c.Position(x.Pos())))
							}
						}
					}
				}
			case *ast.CallExpr:
				if isLessCall(minfo, x) {
					se := ast.Unparen(x.Fun).(*ast.SelectorExpr)
					o := orient{types.ExprString(se.X), types.ExprString(x.Args[0])}
					orients[o] = append(orients[o], c.Position(x.Pos()))
					if iter.Method(i) == next {
						nextHasLess = true
					}
				}
				// container/heap use names the heap type
				if g := calleeFunc(minfo, x); g != nil && g.Pkg() != nil && g.Pkg().Path() == "container/heap" && len(x.Args) > 0 {
					if n := namedOf(minfo.TypeOf(x.Args[0])); n != nil {
						heapField = n
					}
				}
			}
			return true
		})
	}
	if len(relops) > 0 {
		ob.Status = Violation
		ob.Detail = fmt.Sprintf("iterator %s of merger %s orders FeatureID components with a relational operator (%s) instead of FeatureID.Less", iter.Obj().Name(), f.Name(), relops[0])
		ob.Path = relops
		return ob
	}
	if heapField != nil {
		// heap merger: check the heap type's Less(i, j)
		lessM := gMethod(heapField, "Less")
		ld, lp := c.Decl(lessM)
		if lessM == nil || ld == nil || ld.Body == nil {
			ob.Status, ob.Detail = Undecided, fmt.Sprintf("heap type %s has no Less method with a body", heapField.Obj().Name())
			return ob
		}
		linfo := lp.TypesInfo
		var params []types.Object
		for _, fl := range ld.Type.Params.List {
			for _, n := range fl.Names {
				params = append(params, linfo.Defs[n])
			}
		}
		mentions := func(e ast.Expr, o types.Object) bool {
			found := false
			ast.Inspect(e, func(n ast.Node) bool {
				if id, ok := n.(*ast.Ident); ok && linfo.Uses[id] == o {
					found = true
				}
				return true
			})
			return found
		}
		okShape := false
		why := "its body is not the single statement `return A.Less(B)`"
		if len(ld.Body.List) == 1 && len(params) == 2 {
			if rs, ok := ld.Body.List[0].(*ast.ReturnStmt); ok && len(rs.Results) == 1 {
				if call, ok := ast.Unparen(rs.Results[0]).(*ast.CallExpr); ok && isLessCall(linfo, call) && len(call.Args) == 1 {
					se := ast.Unparen(call.Fun).(*ast.SelectorExpr)
					a, b := se.X, call.Args[0]
					switch {
					case mentions(a, params[0]) && !mentions(a, params[1]) && mentions(b, params[1]) && !mentions(b, params[0]):
						okShape = true
					default:
						why = fmt.Sprintf("%s does not compare element %s (receiver) with element %s (argument)", types.ExprString(call), params[0].Name(), params[1].Name())
					}
				} else {
					why = "it does not return a call of b6.FeatureID.Less"
				}
			}
		}
		if okShape {
			ob.Status = OK
			ob.Detail = fmt.Sprintf("heap merger: %s.Less(i, j) is FeatureID(i).Less(FeatureID(j)); iterator %s", heapField.Obj().Name(), iter.Obj().Name())
		} else {
			ob.Status = Violation
			ob.Detail = fmt.Sprintf("merger %s: the heap order %s at %s is not a min-heap on FeatureID.Less: %s", f.Name(), c.FuncName(lp, ld), c.Position(ld.Pos()), why)
		}
		return ob
	}
	// two-way merger: the iterator that lets an upper layer shadow its base in searches (C16)
	ob.Props = []string{"C03", "C16"}
	if !nextHasLess {
		ob.Status = Violation
		ob.Detail = fmt.Sprintf("merger %s: %s.Next never compares its sides with FeatureID.Less", f.Name(), iter.Obj().Name())
		return ob
	}
	var os []string
	for o, at := range orients {
		if o.recv == o.arg {
			ob.Status = Violation
			ob.Detail = fmt.Sprintf("merger %s: %s.Less(%s) at %s compares a side with itself", f.Name(), o.recv, o.arg, at[0])
			return ob
		}
		os = append(os, fmt.Sprintf("%s.Less(%s) at %s", o.recv, o.arg, strings.Join(at, ", ")))
	}
	sort.Strings(os)
	if len(orients) != 1 {
		ob.Status = Violation
		ob.Detail = fmt.Sprintf("merger %s: the methods of %s compare their two sides in different orientations: %s", f.Name(), iter.Obj().Name(), strings.Join(os, "; "))
		ob.Path = os
		return ob
	}
	ob.Status = OK
	ob.Detail = fmt.Sprintf("two-way merger: every comparison in %s is %s", iter.Obj().Name(), os[0])
	return ob
}

func relPkgOf(f *types.Func) string {
	if f.Pkg() == nil {
		return "?"
	}
	rel := strings.TrimPrefix(strings.TrimPrefix(f.Pkg().Path(), ModulePath), "/")
	if rel == "" {
		return "b6"
	}
	return rel
}
