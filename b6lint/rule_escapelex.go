package main

import (
	"fmt"
	"go/ast"
	"go/constant"
	"go/token"
	"go/types"
	"sort"
	"strings"

	"golang.org/x/tools/go/packages"
)

// ESCAPE-LEX (C20): text that the shell prints without quotes lexes as the token the grammar
// wants at that place.
//
// Printer side (package api, functions reachable by static calls from UnparseExpression). An
// *escaper* is a func(string) string that returns its argument unchanged or quoted. Read shape:
//
//	if v == "" { return "" }                       // constant results under v == "" are ignored
//	E := <formula of comparisons of v[0] with constants>
//	if !E { for _, r := range v[1:] { if E = !P(r); E { break } } }   // P: func(rune) bool
//	if E { v = fmt.Sprintf("%q", v) }               // or strconv.Quote(v)
//	return v
//
// or a direct delegation `return G(v)` to another escaper. From it the rule takes Q = the exact
// set of first bytes for which E starts true (evaluated with the interval evaluator of
// UNSAT-GUARD over the byte range 0..255 — bytes >= 0x80 stand for every non-ASCII rune — not by
// running anything) and the predicate P applied to the remaining runes. The text is left
// unquoted iff v[0] is outside Q and every later rune satisfies P. Any other shape is `undecided`.
// The *role* of an escaper comes from its call sites in the printing functions: the argument
// mentions the Key field of a b6 tag (key role) or its Value field (value role).
//
// Lexer side, by shape: the method func(*T) int whose parameter type T is declared in the
// generated parser (yySymType) and that switches on one byte of the input. Each case gives, for
// its characters, the token class: the generated-parser token constants returned in that case,
// directly or by the lexing method the case calls (SYMBOL for letters, TAG_KEY for '#' '@', INT /
// FLOAT for digits, STRING for '"', FEATURE_ID for '/'), the character itself for punctuation, or
// nothing (the "bad token" error). The runes a token continues with are those accepted by the
// predicate called in the loop of that lexing method.
//
// Grammar side (anchored, from api/shell.y — the yacc tables in y.go cannot be read back):
// `tag: TAG_KEY '=' tagvalue | SYMBOL '=' tagvalue`, `tagvalue: SYMBOL | STRING`. So a key must
// lex as TAG_KEY or SYMBOL, a value as SYMBOL or STRING.
//
// Obligations per escaper, ordinals in this order: one per case of the lexer's dispatch switch
// (source order) and one for the bytes no case takes — the first bytes of that group which the
// escaper leaves unquoted must start a token class the role allows, the violation names the
// witness characters; then one for the remaining runes — every rune P lets through is a rune the
// lexer continues that token with (same predicate, or truth-set inclusion when both predicates are
// single-return formulas); then one for the quoted form — a STRING token must be allowed in the
// role's position. A function that always quotes (UnparseString) is not an escaper.
func init() {
	register(&Rule{
		Name:  "ESCAPE-LEX",
		IR:    "ast",
		Props: []string{"C20"},
		Floor: 20, // EscapeTagKey and EscapeTagValue: 7 lexer cases + the rest of the bytes + remaining runes + quoted form, each
		Doc: "for every escaper the printing functions use for tag keys and values, the first characters it leaves unquoted start, in the hand-written lexer, a token the grammar accepts at that position " +
			"(key: TAG_KEY or SYMBOL; value: SYMBOL or STRING), the later characters it lets through continue that token, and its quoted form is accepted there",
		Run: runEscapeLex,
	})
}

// jelAllowed: token classes the grammar accepts, by role (from api/shell.y).
var jelAllowed = map[string][]string{
	"key":   {"TAG_KEY", "SYMBOL"},
	"value": {"SYMBOL", "STRING"},
}

func jelByteUniverse() jSet {
	return jSet{{jB{constant.MakeInt64(0), true}, jB{constant.MakeInt64(255), true}}}
}

func jelHas(s jSet, v int64) bool {
	k := constant.MakeInt64(v)
	for _, iv := range s {
		lo := iv.lo.v == nil || constant.Compare(k, token.GTR, iv.lo.v) || (iv.lo.closed && constant.Compare(k, token.EQL, iv.lo.v))
		hi := iv.hi.v == nil || constant.Compare(k, token.LSS, iv.hi.v) || (iv.hi.closed && constant.Compare(k, token.EQL, iv.hi.v))
		if lo && hi {
			return true
		}
	}
	return false
}

// jelTruth: the exact set of operand values for which the formula is true; ok is false when the
// formula has a leaf that is not a comparison of the operand with a constant.
func jelTruth(info *types.Info, formula ast.Expr, operand ast.Expr, universe jSet) (jSet, bool) {
	exact := true
	jFormulaLeaves(info, formula, func(leaf ast.Expr) {
		a, ok := jAtomOf(info, leaf)
		if !ok || !sameExpr(info, a.operand, operand) {
			exact = false
		}
	})
	if !exact {
		return nil, false
	}
	fc := &jFormulaCheck{info: info, operand: operand, integer: true, universe: universe}
	t, _, _ := fc.eval(formula)
	return t, true
}

func jelChar(b int64) string {
	if b >= 0x80 {
		return fmt.Sprintf("byte 0x%02x (first byte of a non-ASCII rune)", b)
	}
	return fmt.Sprintf("%q", rune(b))
}

func jelChars(bs []int64) string {
	var s []string
	for i, b := range bs {
		if i == 12 {
			s = append(s, fmt.Sprintf("… (%d in all)", len(bs)))
			break
		}
		s = append(s, jelChar(b))
	}
	return strings.Join(s, " ")
}

type jelEscaper struct {
	fn       *types.Func
	fd       *ast.FuncDecl
	quoted   jSet        // first bytes that force quoting
	rest     *types.Func // predicate on the remaining runes (nil: none)
	delegate *types.Func
	why      string // undecided reason
	roles    map[string]bool
}

// jelQuoteOf: is e `fmt.Sprintf("%q", v)` / strconv.Quote(v) of the object v?
func jelQuoteOf(info *types.Info, e ast.Expr, v types.Object) bool {
	call, ok := ast.Unparen(e).(*ast.CallExpr)
	if !ok {
		return false
	}
	f := calleeFunc(info, call)
	if f == nil || f.Pkg() == nil {
		return false
	}
	isV := func(x ast.Expr) bool {
		id, ok := ast.Unparen(x).(*ast.Ident)
		return ok && info.ObjectOf(id) == v
	}
	switch f.Pkg().Path() + "." + f.Name() {
	case "fmt.Sprintf":
		if len(call.Args) == 2 && isV(call.Args[1]) {
			if s, ok := jConstString(info, call.Args[0]); ok && s == "%q" {
				return true
			}
		}
	case "strconv.Quote":
		return len(call.Args) == 1 && isV(call.Args[0])
	}
	return false
}

// jelIsEscaperShape: func(string) string of package p.
func jelStringToString(f *types.Func) bool {
	sig, ok := f.Type().(*types.Signature)
	if !ok || sig.Recv() != nil || sig.Params().Len() != 1 || sig.Results().Len() != 1 {
		return false
	}
	isStr := func(t types.Type) bool {
		b, ok := t.(*types.Basic)
		return ok && b.Kind() == types.String
	}
	return isStr(sig.Params().At(0).Type()) && isStr(sig.Results().At(0).Type())
}

func jelAnalyse(c *Ctx, p *packages.Package, fn *types.Func, fd *ast.FuncDecl) *jelEscaper {
	info := p.TypesInfo
	e := &jelEscaper{fn: fn, fd: fd, roles: map[string]bool{}}
	if len(fd.Type.Params.List) != 1 || len(fd.Type.Params.List[0].Names) != 1 {
		return nil
	}
	v := info.Defs[fd.Type.Params.List[0].Names[0]]
	isV := func(x ast.Expr) bool {
		id, ok := ast.Unparen(x).(*ast.Ident)
		return ok && info.ObjectOf(id) == v
	}
	// delegation
	if len(fd.Body.List) == 1 {
		if r, ok := fd.Body.List[0].(*ast.ReturnStmt); ok && len(r.Results) == 1 {
			if call, ok := ast.Unparen(r.Results[0]).(*ast.CallExpr); ok && len(call.Args) == 1 && isV(call.Args[0]) {
				if g := calleeFunc(info, call); g != nil && g.Pkg() == p.Types && jelStringToString(g) {
					e.delegate = g.Origin()
					return e
				}
			}
		}
	}
	// the quoting statement and its guard
	var flag types.Object
	quotes := 0
	unguarded := false
	ast.Inspect(fd.Body, func(n ast.Node) bool {
		var quoted ast.Expr
		switch x := n.(type) {
		case *ast.AssignStmt:
			if len(x.Lhs) == 1 && len(x.Rhs) == 1 && isV(x.Lhs[0]) && jelQuoteOf(info, x.Rhs[0], v) {
				quoted = x.Rhs[0]
			}
		case *ast.ReturnStmt:
			if len(x.Results) == 1 && jelQuoteOf(info, x.Results[0], v) {
				quoted = x.Results[0]
			}
		}
		if quoted == nil {
			return true
		}
		quotes++
		chain := enclosing(fd.Body, n)
		for i := len(chain) - 2; i >= 0; i-- {
			ifs, ok := chain[i].(*ast.IfStmt)
			if !ok {
				continue
			}
			if chain[i+1] != ast.Node(ifs.Body) {
				e.why = "the quoting statement sits in an else branch"
				return true
			}
			id, ok := ast.Unparen(ifs.Cond).(*ast.Ident)
			if !ok {
				e.why = "the quoting statement is guarded by " + types.ExprString(ifs.Cond) + ", not by a flag"
				return true
			}
			flag = info.ObjectOf(id)
			return true
		}
		unguarded = true
		return true
	})
	if quotes == 0 || unguarded {
		return nil // not an escaper: it never quotes, or it always does (UnparseString)
	}
	if quotes > 1 && e.why == "" {
		e.why = "more than one quoting statement"
	}
	if e.why != "" || flag == nil {
		return e
	}
	// the flag: initial formula on v[0], later assignments `flag = !P(r)` under `if !flag`
	var init ast.Expr
	ast.Inspect(fd.Body, func(n ast.Node) bool {
		as, ok := n.(*ast.AssignStmt)
		if !ok || e.why != "" {
			return true
		}
		for i, l := range as.Lhs {
			id, ok := l.(*ast.Ident)
			if !ok || info.ObjectOf(id) != flag || len(as.Lhs) != len(as.Rhs) {
				continue
			}
			rhs := as.Rhs[i]
			if as.Tok == token.DEFINE {
				if init != nil {
					e.why = "the flag is defined twice"
				}
				init = rhs
				continue
			}
			// flag = !P(r)
			u, ok := ast.Unparen(rhs).(*ast.UnaryExpr)
			var call *ast.CallExpr
			if ok && u.Op == token.NOT {
				call, _ = ast.Unparen(u.X).(*ast.CallExpr)
			}
			if call == nil || len(call.Args) != 1 {
				e.why = "the flag is re-assigned " + types.ExprString(rhs) + " at " + c.Position(as.Pos()) + ", not `!P(r)`"
				continue
			}
			pf := calleeFunc(info, call)
			if pf == nil {
				e.why = "the flag is re-assigned from a dynamic call at " + c.Position(as.Pos())
				continue
			}
			// r ranges over v[1:], and the assignment is under `if !flag`
			okRange, okGuard := false, false
			chain := enclosing(fd.Body, as)
			for _, anc := range chain {
				switch x := anc.(type) {
				case *ast.RangeStmt:
					if se, ok := ast.Unparen(x.X).(*ast.SliceExpr); ok && isV(se.X) && se.High == nil && se.Low != nil {
						if k := jConst(info, se.Low); k != nil && k.ExactString() == "1" {
							if rid, ok := x.Value.(*ast.Ident); ok {
								if aid, ok := ast.Unparen(call.Args[0]).(*ast.Ident); ok && info.ObjectOf(aid) == info.ObjectOf(rid) {
									okRange = true
								}
							}
						}
					}
				case *ast.IfStmt:
					if u, ok := ast.Unparen(x.Cond).(*ast.UnaryExpr); ok && u.Op == token.NOT {
						if id, ok := ast.Unparen(u.X).(*ast.Ident); ok && info.ObjectOf(id) == flag && jwContains(x.Body, as) {
							okGuard = true
						}
					}
				}
			}
			switch {
			case !okRange:
				e.why = "the flag is re-assigned at " + c.Position(as.Pos()) + " outside a range over v[1:]"
			case !okGuard:
				e.why = "the flag is re-assigned at " + c.Position(as.Pos()) + " without the guard `if !flag`: a later rune could switch quoting off again"
			case e.rest != nil && e.rest != pf.Origin():
				e.why = "two different predicates on the remaining runes"
			default:
				e.rest = pf.Origin()
			}
		}
		return true
	})
	if e.why != "" {
		return e
	}
	if init == nil {
		e.why = "the flag has no defining assignment"
		return e
	}
	// operand v[0]
	var operand ast.Expr
	jFormulaLeaves(info, init, func(leaf ast.Expr) {
		if a, ok := jAtomOf(info, leaf); ok && operand == nil {
			if ix, ok := ast.Unparen(a.operand).(*ast.IndexExpr); ok && isV(ix.X) {
				if k := jConst(info, ix.Index); k != nil && k.ExactString() == "0" {
					operand = a.operand
				}
			}
		}
	})
	if operand == nil {
		e.why = "the flag's first value " + jShort(types.ExprString(init)) + " is not a formula on v[0]"
		return e
	}
	q, exact := jelTruth(info, init, operand, jelByteUniverse())
	if !exact {
		e.why = "the flag's first value " + jShort(types.ExprString(init)) + " has parts that are not comparisons of v[0] with constants"
		return e
	}
	e.quoted = q
	// the other returns: only `return v` and constants under v == ""
	inspectShallow(fd.Body, func(n ast.Node) bool {
		r, ok := n.(*ast.ReturnStmt)
		if !ok || len(r.Results) != 1 || e.why != "" {
			return true
		}
		if isV(r.Results[0]) || jelQuoteOf(info, r.Results[0], v) {
			return true
		}
		if jConst(info, r.Results[0]) != nil {
			chain := enclosing(fd.Body, r)
			for i := len(chain) - 2; i >= 0; i-- {
				if ifs, ok := chain[i].(*ast.IfStmt); ok {
					if b, ok := ast.Unparen(ifs.Cond).(*ast.BinaryExpr); ok && b.Op == token.EQL && isV(b.X) {
						if s, ok := jConstString(info, b.Y); ok && s == "" {
							return true
						}
					}
				}
			}
		}
		e.why = "return " + types.ExprString(r.Results[0]) + " at " + c.Position(r.Pos()) + " is neither the argument nor its quoted form"
		return true
	})
	return e
}

// jelRuneTruth: truth set of a predicate func(r rune) bool { return <formula on r> }.
func jelRuneTruth(c *Ctx, f *types.Func) (jSet, bool) {
	fd, p := c.Decl(f)
	if fd == nil || fd.Body == nil || len(fd.Body.List) != 1 || len(fd.Type.Params.List) != 1 || len(fd.Type.Params.List[0].Names) != 1 {
		return nil, false
	}
	r, ok := fd.Body.List[0].(*ast.ReturnStmt)
	if !ok || len(r.Results) != 1 {
		return nil, false
	}
	min, max, _ := jIntRange(types.Int32)
	return jelTruth(p.TypesInfo, r.Results[0], fd.Type.Params.List[0].Names[0], jSet{{jB{min, true}, jB{max, true}}})
}

type jelClause struct {
	chars   []int64
	classes []string
}

type jelLexer struct {
	fd      *ast.FuncDecl
	clauses []jelClause            // the cases of the dispatch switch, in source order
	class   map[int64][]string     // first byte -> token classes
	cont    map[string]*types.Func // token class -> predicate its lexing method loops on
	contAmb map[string]bool        // class with more than one predicate
	where   map[string]string
}

func jelFindLexer(c *Ctx, p *packages.Package) (*jelLexer, string) {
	info := p.TypesInfo
	isGenConst := func(e ast.Expr) (string, bool) {
		id, ok := ast.Unparen(e).(*ast.Ident)
		if !ok {
			return "", false
		}
		k, ok := info.ObjectOf(id).(*types.Const)
		if !ok || k.Pkg() != p.Types || !jGenerated(c, k.Pos()) {
			return "", false
		}
		return k.Name(), true
	}
	// tokens returned by a lexing method, and the predicate its loop calls
	tokensOf := func(f *types.Func) ([]string, *types.Func) {
		fd, _ := c.Decl(f)
		if fd == nil || fd.Body == nil {
			return nil, nil
		}
		var toks []string
		var pred *types.Func
		ast.Inspect(fd.Body, func(n ast.Node) bool {
			switch x := n.(type) {
			case *ast.ReturnStmt:
				if len(x.Results) == 1 {
					if name, ok := isGenConst(x.Results[0]); ok {
						toks = jrAdd(toks, name)
					}
				}
			case *ast.ForStmt:
				ast.Inspect(x.Body, func(m ast.Node) bool {
					if call, ok := m.(*ast.CallExpr); ok && len(call.Args) == 1 {
						if g := calleeFunc(info, call); g != nil && g.Pkg() == p.Types {
							if sig := g.Type().(*types.Signature); sig.Results().Len() == 1 {
								if b, ok := sig.Results().At(0).Type().(*types.Basic); ok && b.Kind() == types.Bool {
									pred = g.Origin()
								}
							}
						}
					}
					return true
				})
			}
			return true
		})
		return toks, pred
	}
	var found *jelLexer
	n := 0
	for _, fd := range c.FuncDecls(p) {
		if fd.Recv == nil || jGenerated(c, fd.Pos()) {
			continue
		}
		sig := info.Defs[fd.Name].Type().(*types.Signature)
		if sig.Params().Len() != 1 || sig.Results().Len() != 1 {
			continue
		}
		pt := namedOf(sig.Params().At(0).Type())
		if pt == nil || pt.Obj().Pkg() != p.Types || !jGenerated(c, pt.Obj().Pos()) {
			continue
		}
		ast.Inspect(fd.Body, func(x ast.Node) bool {
			sw, ok := x.(*ast.SwitchStmt)
			if !ok || sw.Tag == nil {
				return true
			}
			if b, ok := info.TypeOf(sw.Tag).Underlying().(*types.Basic); !ok || b.Kind() != types.Uint8 {
				return true
			}
			lx := &jelLexer{fd: fd, class: map[int64][]string{}, cont: map[string]*types.Func{}, contAmb: map[string]bool{}, where: map[string]string{}}
			for _, s := range sw.Body.List {
				cl := s.(*ast.CaseClause)
				var chars []int64
				for _, e := range cl.List {
					if k := jConst(info, e); k != nil {
						if v, ok := constant.Int64Val(constant.ToInt(k)); ok {
							chars = append(chars, v)
						}
					}
				}
				var classes []string
				for _, st := range cl.Body {
					ast.Inspect(st, func(m ast.Node) bool {
						r, ok := m.(*ast.ReturnStmt)
						if !ok || len(r.Results) != 1 {
							return true
						}
						res := ast.Unparen(r.Results[0])
						if name, ok := isGenConst(res); ok {
							classes = jrAdd(classes, name)
							return true
						}
						if call, ok := res.(*ast.CallExpr); ok {
							if tv, ok := info.Types[call.Fun]; ok && tv.IsType() {
								classes = jrAdd(classes, "the character itself")
								return true
							}
							if g := calleeFunc(info, call); g != nil {
								toks, pred := tokensOf(g)
								classes = jrAdd(classes, toks...)
								for _, tk := range toks {
									if old, ok := lx.cont[tk]; ok && old != pred {
										lx.contAmb[tk] = true
									}
									lx.cont[tk] = pred
								}
							}
						}
						return true
					})
				}
				for _, ch := range chars {
					lx.class[ch] = jrAdd(lx.class[ch], classes...)
				}
				if len(chars) > 0 {
					lx.clauses = append(lx.clauses, jelClause{chars, classes})
				}
			}
			if len(lx.class) >= 8 {
				found = lx
				n++
			}
			return true
		})
	}
	if n != 1 {
		return nil, fmt.Sprintf("found %d lexer dispatch switches (a method taking the generated parser's value type that switches on one input byte); need exactly one", n)
	}
	return found, ""
}

func runEscapeLex(c *Ctx) []Obligation {
	p := c.Pkg("api")
	if p == nil {
		return nil
	}
	info := p.TypesInfo
	lx, lwhy := jelFindLexer(c, p)
	if lx == nil {
		return []Obligation{{Key: "api.lexer#1", Pos: "-", Status: Undecided, Detail: lwhy}}
	}

	// printing functions
	inScope := map[*types.Func]bool{}
	var scopeDecls []*ast.FuncDecl
	if entry, _ := p.Types.Scope().Lookup("UnparseExpression").(*types.Func); entry != nil {
		work := []*types.Func{entry}
		inScope[entry] = true
		for len(work) > 0 {
			f := work[0]
			work = work[1:]
			fd, fp := c.Decl(f)
			if fd == nil || fd.Body == nil || fp != p {
				continue
			}
			scopeDecls = append(scopeDecls, fd)
			ast.Inspect(fd.Body, func(n ast.Node) bool {
				if call, ok := n.(*ast.CallExpr); ok {
					if g := calleeFunc(info, call); g != nil && g.Pkg() == p.Types && !inScope[g.Origin()] {
						inScope[g.Origin()] = true
						work = append(work, g.Origin())
					}
				}
				return true
			})
		}
	}
	sort.Slice(scopeDecls, func(i, j int) bool { return scopeDecls[i].Pos() < scopeDecls[j].Pos() })

	escapers := map[*types.Func]*jelEscaper{}
	var order []*jelEscaper
	for _, fd := range scopeDecls {
		fn := info.Defs[fd.Name].(*types.Func)
		if !jelStringToString(fn) {
			continue
		}
		if e := jelAnalyse(c, p, fn, fd); e != nil {
			escapers[fn] = e
			order = append(order, e)
		}
	}
	// a delegation counts only when its target is an escaper
	for _, e := range order {
		if e.delegate != nil && escapers[e.delegate] == nil {
			delete(escapers, e.fn)
		}
	}
	// roles from the call sites
	for _, fd := range scopeDecls {
		ast.Inspect(fd.Body, func(n ast.Node) bool {
			call, ok := n.(*ast.CallExpr)
			if !ok || len(call.Args) != 1 {
				return true
			}
			g := calleeFunc(info, call)
			if g == nil || escapers[g.Origin()] == nil || info.Defs[fd.Name] == types.Object(g.Origin()) {
				return true
			}
			if caller, _ := info.Defs[fd.Name].(*types.Func); caller != nil && escapers[caller] != nil && escapers[caller].delegate == g.Origin() {
				return true // the delegation itself is not a use
			}
			role := ""
			ast.Inspect(call.Args[0], func(m ast.Node) bool {
				sel, ok := m.(*ast.SelectorExpr)
				if !ok {
					return true
				}
				s, ok := info.Selections[sel]
				if !ok || s.Kind() != types.FieldVal {
					return true
				}
				st, ok := s.Recv().Underlying().(*types.Struct)
				if n := namedOf(s.Recv()); !ok || n == nil || n.Obj().Pkg() == nil || n.Obj().Pkg().Path() != ModulePath || st.NumFields() != 2 {
					return true
				}
				switch sel.Sel.Name {
				case "Key":
					role = "key"
				case "Value":
					role = "value"
				}
				return true
			})
			if role == "" {
				role = "?"
			}
			escapers[g.Origin()].roles[role] = true
			return true
		})
	}

	var out []Obligation
	for _, e := range order {
		if escapers[e.fn] == nil {
			continue
		}
		name := c.FuncName(p, e.fd)
		pos := c.Position(e.fd.Pos())
		// resolve delegation
		eff, via := e, ""
		for hop := 0; eff.delegate != nil && hop < 4; hop++ {
			via += " (delegates to " + eff.delegate.Name() + ")"
			eff = escapers[eff.delegate]
		}
		var roles []string
		for r := range e.roles {
			roles = append(roles, r)
		}
		sort.Strings(roles)
		undecided := ""
		switch {
		case eff == nil || eff.delegate != nil:
			undecided = "delegation chain cannot be resolved"
		case eff.why != "":
			undecided = "cannot read the escaper" + via + ": " + eff.why
		case len(roles) == 0:
			undecided = "no call site in the printing functions tells whether it escapes keys or values"
		case e.roles["?"]:
			undecided = "a call site passes neither the Key nor the Value field of a tag"
		}
		if undecided != "" {
			for i := 1; i <= len(lx.clauses)+3; i++ {
				out = append(out, Obligation{Key: fmt.Sprintf("%s#%d", name, i), Pos: pos, Status: Undecided, Detail: undecided})
			}
			continue
		}
		allowed := map[string]bool{}
		first := true
		for _, r := range roles {
			set := map[string]bool{}
			for _, t := range jelAllowed[r] {
				set[t] = true
			}
			if first {
				allowed, first = set, false
			} else {
				for t := range allowed {
					if !set[t] {
						delete(allowed, t)
					}
				}
			}
		}
		var allowedNames []string
		for t := range allowed {
			allowedNames = append(allowedNames, t)
		}
		sort.Strings(allowedNames)
		roleText := strings.Join(roles, " and ") + " role" + via

		// one obligation per case of the lexer's dispatch, then one for the bytes no case takes
		groups := append([]jelClause(nil), lx.clauses...)
		var none jelClause
		for b := int64(0); b < 256; b++ {
			if _, ok := lx.class[b]; !ok {
				none.chars = append(none.chars, b)
			}
		}
		groups = append(groups, none)
		ord := 0
		for _, g := range groups {
			ord++
			ob := Obligation{Key: fmt.Sprintf("%s#%d", name, ord), Pos: pos}
			cls := strings.Join(g.classes, "/")
			if cls == "" {
				cls = "no token (the lexer reports a bad token)"
			}
			var unq []int64
			for _, b := range g.chars {
				if !jelHas(eff.quoted, b) {
					unq = append(unq, b)
				}
			}
			ok := len(g.classes) > 0
			for _, t := range g.classes {
				if !allowed[t] {
					ok = false
				}
			}
			switch {
			case len(unq) == 0:
				ob.Status = OK
				ob.Detail = fmt.Sprintf("%s (%s): text starting with %s (lexed as %s) is always quoted", e.fn.Name(), roleText, jelChars(g.chars), cls)
			case ok:
				ob.Status = OK
				ob.Detail = fmt.Sprintf("%s (%s): text starting with %s may stay unquoted and starts %s, which the grammar accepts there", e.fn.Name(), roleText, jelChars(unq), cls)
			default:
				ob.Status = Violation
				ob.Detail = fmt.Sprintf("%s (%s) leaves text unquoted when it starts with %s, which the lexer reads as %s, not as %s; witness: a %s starting with %s prints unquoted and does not parse back",
					e.fn.Name(), roleText, jelChars(unq), cls, strings.Join(allowedNames, " or "), roles[0], jelChar(unq[0]))
			}
			out = append(out, ob)
		}

		// #2 remaining runes
		ord++
		ob := Obligation{Key: fmt.Sprintf("%s#%d", name, ord), Pos: pos}
		switch {
		case eff.rest == nil:
			ob.Status, ob.Detail = Undecided, e.fn.Name()+" does not test the remaining runes"
		default:
			var problems, oks []string
			for _, t := range allowedNames {
				if t == "STRING" {
					continue
				}
				switch {
				case lx.contAmb[t] || lx.cont[t] == nil:
					problems = append(problems, "?the lexing method of "+t+" has no single continuation predicate")
				case lx.cont[t] == eff.rest:
					oks = append(oks, t+" continues with the same predicate "+eff.rest.Name())
				default:
					es, ok1 := jelRuneTruth(c, eff.rest)
					ls, ok2 := jelRuneTruth(c, lx.cont[t])
					if !ok1 || !ok2 {
						problems = append(problems, fmt.Sprintf("?cannot compare %s with the lexer's %s", eff.rest.Name(), lx.cont[t].Name()))
					} else if extra := jIntersect(es, jComplement(ls, true)); len(extra) > 0 {
						problems = append(problems, fmt.Sprintf("%s lets through runes in %s that end a %s token in the lexer (%s)", eff.rest.Name(), extra, t, lx.cont[t].Name()))
					} else {
						oks = append(oks, fmt.Sprintf("every rune %s accepts continues a %s token (%s)", eff.rest.Name(), t, lx.cont[t].Name()))
					}
				}
			}
			und, vio := []string{}, []string{}
			for _, pr := range problems {
				if strings.HasPrefix(pr, "?") {
					und = append(und, pr[1:])
				} else {
					vio = append(vio, pr)
				}
			}
			switch {
			case len(vio) > 0:
				ob.Status, ob.Detail = Violation, e.fn.Name()+" ("+roleText+"): "+strings.Join(vio, "; ")
			case len(und) > 0:
				ob.Status, ob.Detail = Undecided, e.fn.Name()+" ("+roleText+"): "+strings.Join(und, "; ")
			default:
				ob.Status, ob.Detail = OK, e.fn.Name()+" ("+roleText+"): "+strings.Join(oks, "; ")
			}
		}
		out = append(out, ob)

		// #3 the quoted form
		ord++
		ob = Obligation{Key: fmt.Sprintf("%s#%d", name, ord), Pos: pos}
		if allowed["STRING"] {
			ob.Status = OK
			ob.Detail = fmt.Sprintf("%s (%s): the quoted form is a STRING token, which the grammar accepts there", e.fn.Name(), roleText)
		} else {
			ob.Status = Violation
			ob.Detail = fmt.Sprintf("%s (%s): the quoted form is a STRING token, but the grammar accepts only %s there (api/shell.y, rule tag): whatever this escaper quotes prints as text that does not parse back",
				e.fn.Name(), roleText, strings.Join(allowedNames, " or "))
		}
		out = append(out, ob)
	}
	return out
}
