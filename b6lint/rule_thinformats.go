package main

import (
	"fmt"
	"go/ast"
	"go/constant"
	"go/token"
	"go/types"
	"sort"
	"strings"

	"golang.org/x/tools/go/cfg"
)

// POSTING-PADDING (C08): posting-list blocks are filled up with a padding byte, and the reader
// finds the end of a block's data by walking back over bytes equal to the padding. That is sound
// only because the padding can never be the last byte of a varint: its top bit is set. Both sides
// must use the same constant.
//
// Slots (by shape, package ingest/compact): the padding function is a function []byte → []byte
// that appends one package-level constant K of type byte in a loop (today padIDBlock / Padding).
// Obligations: #msb K & 0x80 != 0; #reader some method named Next of a type of the package
// compares an element of a byte slice with K itself (the same constant object, not a literal).
func init() {
	register(&Rule{
		Name:  "POSTING-PADDING",
		IR:    "ast",
		Props: []string{"C08"},
		Floor: 2,
		Doc:   "the byte that pads posting-list blocks has its top bit set, so it can never be the final byte of a varint, and the iterator recognises padding by comparing with the same constant",
		Run:   runPostingPadding,
	})
	register(&Rule{
		Name:  "TILE-COMMANDS",
		IR:    "ast",
		Props: []string{"C33"},
		Floor: 4,
		Doc: "the vector-tile command integers are built by sibling methods of the encoder as (COMMAND & mask) | (count << shift): all siblings use the same mask and shift, mask == 1<<shift - 1, " +
			"and the command constants are distinct and fit the mask",
		Run: runTileCommands,
	})
}

func runPostingPadding(c *Ctx) []Obligation {
	var out []Obligation
	p := c.Pkg("ingest/compact")
	if p == nil {
		return out
	}
	info := p.TypesInfo
	var pad *types.Const
	var padFn string
	var padPos token.Pos
	for _, fd := range c.FuncDecls(p) {
		obj, _ := info.Defs[fd.Name].(*types.Func)
		if obj == nil || fd.Recv != nil {
			continue
		}
		sig := obj.Type().(*types.Signature)
		isBytes := func(t types.Type) bool {
			sl, ok := t.Underlying().(*types.Slice)
			if !ok {
				return false
			}
			b, ok := sl.Elem().Underlying().(*types.Basic)
			return ok && b.Kind() == types.Byte
		}
		if sig.Params().Len() != 1 || sig.Results().Len() != 1 || !isBytes(sig.Params().At(0).Type()) || !isBytes(sig.Results().At(0).Type()) {
			continue
		}
		ast.Inspect(fd.Body, func(n ast.Node) bool {
			loop, ok := n.(*ast.ForStmt)
			if !ok {
				return true
			}
			ast.Inspect(loop.Body, func(m ast.Node) bool {
				call, ok := m.(*ast.CallExpr)
				if !ok || !isBuiltin(info, call, "append") || len(call.Args) != 2 {
					return true
				}
				if id, ok := ast.Unparen(call.Args[1]).(*ast.Ident); ok {
					if k, ok := info.Uses[id].(*types.Const); ok && k.Parent() == p.Types.Scope() {
						pad, padFn, padPos = k, c.FuncName(p, fd), call.Pos()
					}
				}
				return true
			})
			return true
		})
	}
	if pad == nil {
		return out
	}
	msb := Obligation{Key: padFn + "#msb", Pos: c.Position(padPos), Status: OK}
	if v, ok := constant.Int64Val(pad.Val()); !ok || v&0x80 == 0 || v > 0xff {
		msb.Status = Violation
		msb.Detail = fmt.Sprintf("%s pads blocks with %s = %s, whose top bit is clear: it is a complete one-byte varint, so the reader cannot tell padding from data", padFn, pad.Name(), pad.Val())
	} else {
		msb.Detail = fmt.Sprintf("%s pads blocks with %s = %s (top bit set: never the last byte of a varint)", padFn, pad.Name(), pad.Val())
	}
	out = append(out, msb)
	rd := Obligation{Key: padFn + "#reader", Pos: c.Position(padPos), Status: Violation,
		Detail: fmt.Sprintf("no Next method of the package compares a byte with the constant %s: the reader does not recognise the padding the writer adds", pad.Name())}
	for _, fd := range c.FuncDecls(p) {
		if fd.Recv == nil || fd.Name.Name != "Next" {
			continue
		}
		ast.Inspect(fd.Body, func(n ast.Node) bool {
			be, ok := n.(*ast.BinaryExpr)
			if !ok || (be.Op != token.EQL && be.Op != token.NEQ) {
				return true
			}
			for _, pr := range [][2]ast.Expr{{be.X, be.Y}, {be.Y, be.X}} {
				if id, ok := ast.Unparen(pr[1]).(*ast.Ident); ok && info.Uses[id] == types.Object(pad) {
					if _, ok := ast.Unparen(pr[0]).(*ast.IndexExpr); ok {
						rd.Status = OK
						rd.Detail = fmt.Sprintf("%s skips padding by comparing with %s at %s", c.FuncName(p, fd), pad.Name(), c.Position(be.Pos()))
					}
				}
			}
			return true
		})
	}
	out = append(out, rd)
	return out
}

func runTileCommands(c *Ctx) []Obligation {
	var out []Obligation
	p := c.Pkg("renderer")
	if p == nil {
		return out
	}
	info := p.TypesInfo
	type cmd struct {
		fn          string
		pos         token.Pos
		code        int64
		codeName    string
		mask, shift int64
	}
	var cmds []cmd
	ci := func(e ast.Expr) (int64, bool) {
		tv := info.Types[e]
		if tv.Value == nil {
			return 0, false
		}
		return constant.Int64Val(constant.ToInt(tv.Value))
	}
	for _, fd := range c.FuncDecls(p) {
		if fd.Recv == nil {
			continue
		}
		ast.Inspect(fd.Body, func(n ast.Node) bool {
			call, ok := n.(*ast.CallExpr)
			if !ok || !isBuiltin(info, call, "append") || len(call.Args) != 2 {
				return true
			}
			or, ok := ast.Unparen(call.Args[1]).(*ast.BinaryExpr)
			if !ok || or.Op != token.OR {
				return true
			}
			and, ok1 := ast.Unparen(or.X).(*ast.BinaryExpr)
			shl, ok2 := ast.Unparen(or.Y).(*ast.BinaryExpr)
			if !ok1 || !ok2 || and.Op != token.AND || shl.Op != token.SHL {
				return true
			}
			code, okc := ci(and.X)
			mask, okm := ci(and.Y)
			shift, oks := ci(shl.Y)
			if !okc || !okm || !oks {
				return true
			}
			cmds = append(cmds, cmd{c.FuncName(p, fd), call.Pos(), code, nodeText(c.Fset, and.X), mask, shift})
			return true
		})
	}
	sort.Slice(cmds, func(i, j int) bool { return cmds[i].fn < cmds[j].fn })
	if len(cmds) == 0 {
		return out
	}
	ref := cmds[0]
	seen := map[int64]string{}
	for _, m := range cmds {
		ob := Obligation{Key: m.fn, Pos: c.Position(m.pos), Status: OK}
		var bad []string
		if m.mask != ref.mask || m.shift != ref.shift {
			bad = append(bad, fmt.Sprintf("uses mask %#x and shift %d where %s uses mask %#x and shift %d", m.mask, m.shift, ref.fn, ref.mask, ref.shift))
		}
		if m.mask != (int64(1)<<uint(m.shift))-1 {
			bad = append(bad, fmt.Sprintf("mask %#x is not 1<<%d - 1: command and count overlap or leave a gap", m.mask, m.shift))
		}
		if m.code&^m.mask != 0 {
			bad = append(bad, fmt.Sprintf("command %s = %d does not fit the mask %#x", m.codeName, m.code, m.mask))
		}
		if other, dup := seen[m.code]; dup {
			bad = append(bad, fmt.Sprintf("command %s = %d is also the command of %s", m.codeName, m.code, other))
		}
		seen[m.code] = m.fn
		if len(bad) > 0 {
			ob.Status, ob.Detail = Violation, m.fn+": "+strings.Join(bad, "; ")
		} else {
			ob.Detail = fmt.Sprintf("%s builds (%s & %#x) | count << %d", m.fn, m.codeName, m.mask, m.shift)
		}
		out = append(out, ob)
	}
	all := Obligation{Key: "renderer#commands", Pos: c.Position(ref.pos), Status: OK, Detail: fmt.Sprintf("%d command builders with distinct commands", len(cmds))}
	if len(cmds) < 3 {
		all.Status, all.Detail = Violation, fmt.Sprintf("only %d command builders of the (COMMAND & mask) | count << shift shape found; MoveTo, LineTo and ClosePath are expected", len(cmds))
	}
	out = append(out, all)
	return out
}

// DECODE-ADVANCES (C08, C06): an iterator over an encoded list keeps a read position and a current
// value. Whenever it decodes a value into its *current value* it has consumed that value: the read
// position must move past it, or the next call decodes the same bytes again and yields the element
// twice. Decoding into a local (a peek, as in the block search of Advance) does not consume.
//
// Slots (by shape, package ingest/compact): in every method of a type that has a Next method, each
// assignment `X.v, n = binary.Uvarint(X.buf[X.pos:])` (or Varint) whose first target is a field of
// the receiver. Obligation: the byte count is not discarded (n is not the blank identifier) and the
// same block adds it to the position field the slice expression starts at (X.pos += n).
func init() {
	register(&Rule{
		Name:  "DECODE-ADVANCES",
		IR:    "ast",
		Props: []string{"C08", "C06"},
		Floor: 2,
		Doc: "in the posting-list iterator every varint decoded into the iterator's current value is consumed: its byte count is kept and added to the read position in the same block " +
			"(a decode into a local is a peek and is exempt)",
		Run: runDecodeAdvances,
	})
}

func runDecodeAdvances(c *Ctx) []Obligation {
	var out []Obligation
	p := c.Pkg("ingest/compact")
	if p == nil {
		return out
	}
	info := p.TypesInfo
	hasNext := map[*types.Named]bool{}
	for _, fd := range c.FuncDecls(p) {
		if fd.Recv != nil && fd.Name.Name == "Next" {
			if obj, _ := info.Defs[fd.Name].(*types.Func); obj != nil {
				if n := namedOf(obj.Type().(*types.Signature).Recv().Type()); n != nil {
					hasNext[n] = true
				}
			}
		}
	}
	for _, fd := range c.FuncDecls(p) {
		if fd.Recv == nil || len(fd.Recv.List) != 1 || len(fd.Recv.List[0].Names) != 1 {
			continue
		}
		obj, _ := info.Defs[fd.Name].(*types.Func)
		if obj == nil {
			continue
		}
		rn := namedOf(obj.Type().(*types.Signature).Recv().Type())
		if rn == nil || !hasNext[rn] {
			continue
		}
		recv := info.Defs[fd.Recv.List[0].Names[0]]
		isRecvField := func(e ast.Expr) bool {
			sel, ok := ast.Unparen(e).(*ast.SelectorExpr)
			if !ok {
				return false
			}
			id, ok := ast.Unparen(sel.X).(*ast.Ident)
			return ok && info.Uses[id] == recv
		}
		name := c.FuncName(p, fd)
		ord := 0
		ast.Inspect(fd.Body, func(n ast.Node) bool {
			blk, ok := n.(*ast.BlockStmt)
			if !ok {
				return true
			}
			for _, st := range blk.List {
				as, ok := st.(*ast.AssignStmt)
				if !ok || len(as.Lhs) != 2 || len(as.Rhs) != 1 || !isRecvField(as.Lhs[0]) {
					continue
				}
				call, ok := ast.Unparen(as.Rhs[0]).(*ast.CallExpr)
				if !ok || len(call.Args) != 1 {
					continue
				}
				fn := calleeFunc(info, call)
				if fn == nil || fn.Pkg() == nil || fn.Pkg().Path() != "encoding/binary" || (fn.Name() != "Uvarint" && fn.Name() != "Varint") {
					continue
				}
				se, ok := ast.Unparen(call.Args[0]).(*ast.SliceExpr)
				if !ok || se.Low == nil || !isRecvField(se.Low) {
					continue
				}
				ord++
				ob := Obligation{Key: fmt.Sprintf("%s#%d", name, ord), Pos: c.Position(as.Pos()), Status: OK}
				cnt, _ := as.Lhs[1].(*ast.Ident)
				switch {
				case cnt == nil || cnt.Name == "_":
					ob.Status = Violation
					ob.Detail = fmt.Sprintf("%s decodes the iterator's current value from %s but discards the number of bytes read: the read position %s still points at this value, so the next call yields it again",
						nodeText(c.Fset, as), nodeText(c.Fset, call.Args[0]), nodeText(c.Fset, se.Low))
				default:
					cobj := info.Defs[cnt]
					if cobj == nil {
						cobj = info.Uses[cnt]
					}
					advanced := false
					for _, st2 := range blk.List {
						as2, ok := st2.(*ast.AssignStmt)
						if !ok || len(as2.Lhs) != 1 || len(as2.Rhs) != 1 || as2.Pos() < as.Pos() {
							continue
						}
						if as2.Tok == token.ADD_ASSIGN && sameExpr(info, as2.Lhs[0], se.Low) {
							if id, ok := ast.Unparen(as2.Rhs[0]).(*ast.Ident); ok && info.Uses[id] == cobj {
								advanced = true
							}
						}
					}
					// the count may be declared in an enclosing block and added after an if/else: look in the enclosing function too
					if !advanced {
						ast.Inspect(fd.Body, func(m ast.Node) bool {
							as2, ok := m.(*ast.AssignStmt)
							if ok && as2.Tok == token.ADD_ASSIGN && len(as2.Lhs) == 1 && len(as2.Rhs) == 1 && as2.Pos() > as.Pos() && sameExpr(info, as2.Lhs[0], se.Low) {
								if id, ok := ast.Unparen(as2.Rhs[0]).(*ast.Ident); ok && info.Uses[id] == cobj {
									advanced = true
								}
							}
							return true
						})
					}
					if advanced {
						ob.Detail = fmt.Sprintf("%s: the byte count %s is added to %s", nodeText(c.Fset, as), cnt.Name, nodeText(c.Fset, se.Low))
					} else {
						ob.Status = Violation
						ob.Detail = fmt.Sprintf("%s decodes the iterator's current value but %s is never advanced by %s", nodeText(c.Fset, as), nodeText(c.Fset, se.Low), cnt.Name)
					}
				}
				out = append(out, ob)
			}
			return true
		})
	}
	return out
}

// SAVE-BEFORE-WRITE (C08, C06): "Advance doesn't move the iterator when it fails": the iterator
// saves some of its fields in locals (`ons, oi, ovalue := i.ns, i.i, i.value`), searches, and on
// failure puts the saved values back. The restore re-establishes the state the iterator was in
// only if the save really was taken before the search started to write those fields: a direct
// assignment to a saved field that can reach the save makes the "saved" value a value of the
// search, and the failing Advance leaves the iterator somewhere else.
//
// Slots (by shape, packages ingest/compact and search): in a method, a tuple definition of at
// least two locals from receiver fields, in one statement, that is later mirrored by one assignment
// of exactly those locals back to the same fields (single-variable hand-offs such as
// `node := t.node; …; t.node = node` are cursor moves, not snapshots). Obligation per pair: no direct assignment to one of the
// saved fields is both positioned before the save and able to reach it on the control-flow graph.
// (Calls of the receiver's own methods before the save are the iterator's initial positioning and
// are not counted.)
func init() {
	register(&Rule{
		Name:  "SAVE-BEFORE-WRITE",
		IR:    "cfg",
		Props: []string{"C08", "C06"},
		Floor: 1,
		Doc: "where an iterator method saves receiver fields in locals and later assigns exactly those locals back (restore on failure), no direct assignment to a saved field reaches the save: " +
			"the values restored are the ones the iterator had before the search began to move it",
		Run: runSaveBeforeWrite,
	})
}

func runSaveBeforeWrite(c *Ctx) []Obligation {
	var out []Obligation
	for _, rel := range []string{"ingest/compact", "search"} {
		p := c.Pkg(rel)
		if p == nil {
			continue
		}
		info := p.TypesInfo
		for _, fd := range c.FuncDecls(p) {
			if fd.Recv == nil || len(fd.Recv.List) != 1 || len(fd.Recv.List[0].Names) != 1 {
				continue
			}
			recv := info.Defs[fd.Recv.List[0].Names[0]]
			fieldOf := func(e ast.Expr) types.Object {
				sel, ok := ast.Unparen(e).(*ast.SelectorExpr)
				if !ok {
					return nil
				}
				if id, ok := ast.Unparen(sel.X).(*ast.Ident); ok && info.Uses[id] == recv {
					if s := info.Selections[sel]; s != nil {
						return s.Obj()
					}
				}
				return nil
			}
			name := c.FuncName(p, fd)
			// saves: locals := fields
			type save struct {
				stmt   *ast.AssignStmt
				locals []types.Object
				fields []types.Object
			}
			var saves []save
			inspectShallow(fd.Body, func(n ast.Node) bool {
				as, ok := n.(*ast.AssignStmt)
				if !ok || as.Tok != token.DEFINE || len(as.Lhs) != len(as.Rhs) || len(as.Lhs) < 2 {
					return true // a snapshot of the iterator's state is a tuple of at least two fields
				}
				var s save
				s.stmt = as
				for i, l := range as.Lhs {
					id, ok := l.(*ast.Ident)
					f := fieldOf(as.Rhs[i])
					if !ok || f == nil || info.Defs[id] == nil {
						return true
					}
					s.locals = append(s.locals, info.Defs[id])
					s.fields = append(s.fields, f)
				}
				saves = append(saves, s)
				return true
			})
			ord := 0
			for _, s := range saves {
				// mirrored restore
				restored := false
				inspectShallow(fd.Body, func(n ast.Node) bool {
					as, ok := n.(*ast.AssignStmt)
					if !ok || as.Tok != token.ASSIGN || len(as.Lhs) != len(s.fields) || len(as.Rhs) != len(s.fields) || as.Pos() < s.stmt.Pos() {
						return true
					}
					for i := range as.Lhs {
						id, ok := ast.Unparen(as.Rhs[i]).(*ast.Ident)
						if !ok || info.Uses[id] != s.locals[i] || fieldOf(as.Lhs[i]) != s.fields[i] {
							return true
						}
					}
					restored = true
					return true
				})
				if !restored {
					continue
				}
				ord++
				ob := Obligation{Key: fmt.Sprintf("%s#%d", name, ord), Pos: c.Position(s.stmt.Pos()), Status: OK}
				g := newCFG(info, fd.Body)
				saveLoc, okLoc := findNode(g, s.stmt)
				var bad []string
				inspectShallow(fd.Body, func(n ast.Node) bool {
					as, ok := n.(*ast.AssignStmt)
					if !ok || as == s.stmt || as.Pos() >= s.stmt.Pos() {
						return true
					}
					for _, l := range as.Lhs {
						f := fieldOf(l)
						if f == nil {
							continue
						}
						for _, sf := range s.fields {
							if f != sf {
								continue
							}
							// can this write reach the save?
							wl, ok := findNode(g, as)
							if !ok || !okLoc {
								bad = append(bad, fmt.Sprintf("%s at %s (reachability undecided)", nodeText(c.Fset, as), c.Position(as.Pos())))
								continue
							}
							if cfgReaches(g, wl, saveLoc) {
								bad = append(bad, fmt.Sprintf("%s at %s", nodeText(c.Fset, as), c.Position(as.Pos())))
							}
						}
					}
					return true
				})
				if len(bad) > 0 {
					ob.Status = Violation
					ob.Detail = fmt.Sprintf("%s saves %d field(s) for a later restore, but a saved field has already been written on a path to the save: %s — what is restored on failure is not the state the iterator was in", name, len(s.fields), strings.Join(bad, "; "))
				} else {
					ob.Detail = fmt.Sprintf("%s saves %d field(s) at %s before any direct write to them, and restores exactly those on failure", name, len(s.fields), c.Position(s.stmt.Pos()))
				}
				out = append(out, ob)
			}
		}
	}
	return out
}

// cfgReaches reports whether control can flow from location a to location b (same block: a before b).
func cfgReaches(g *cfg.CFG, a, b nodeLoc) bool {
	if a.b == b.b && a.i < b.i {
		return true
	}
	seen := map[int32]bool{}
	var walk func(bi int32) bool
	walk = func(bi int32) bool {
		if seen[bi] {
			return false
		}
		seen[bi] = true
		for _, s := range g.Blocks[bi].Succs {
			if s.Index == b.b.Index || walk(s.Index) {
				return true
			}
		}
		return false
	}
	return walk(a.b.Index)
}

// RESTART-ASSIGNS (C07, C06): an iterator that finds its current node deleted restarts: it calls a
// positioning helper (`start`) and carries on from there. The helper reports whether it found a
// position by testing the cursor field afterwards (`return t.node != nil`). That report is true to
// the container only if the helper assigns the cursor on every path: a helper that assigns it only
// inside its descent loop leaves the old — deleted — node in place when the container is empty, says
// "found", and the caller restarts on the same deleted node for ever.
//
// Slots (by shape, package search): methods of types that have a Next method which return a
// comparison of a receiver field F with nil and assign F inside a loop. Obligation: F is also
// assigned before the loop on every path (so that the zero-iteration path does not report a stale
// value), or the method returns a value that does not depend on F.
func init() {
	register(&Rule{
		Name:  "RESTART-ASSIGNS",
		IR:    "cfg",
		Props: []string{"C07", "C06"},
		Floor: 1,
		Doc:   "an iterator's positioning helper that reports `cursor != nil` assigns the cursor on every path, not only inside its descent loop: on an empty container it must not report the stale (deleted) node as a position",
		Run:   runRestartAssigns,
	})
}

func runRestartAssigns(c *Ctx) []Obligation {
	var out []Obligation
	p := c.Pkg("search")
	if p == nil {
		return out
	}
	info := p.TypesInfo
	hasNext := map[*types.Named]bool{}
	for _, fd := range c.FuncDecls(p) {
		if fd.Recv != nil && fd.Name.Name == "Next" {
			if obj, _ := info.Defs[fd.Name].(*types.Func); obj != nil {
				if n := namedOf(obj.Type().(*types.Signature).Recv().Type()); n != nil {
					hasNext[n] = true
				}
			}
		}
	}
	for _, fd := range c.FuncDecls(p) {
		if fd.Recv == nil || len(fd.Recv.List) != 1 || len(fd.Recv.List[0].Names) != 1 {
			continue
		}
		obj, _ := info.Defs[fd.Name].(*types.Func)
		if obj == nil {
			continue
		}
		rn := namedOf(obj.Type().(*types.Signature).Recv().Type())
		if rn == nil || !hasNext[rn] {
			continue
		}
		recv := info.Defs[fd.Recv.List[0].Names[0]]
		fieldOf := func(e ast.Expr) types.Object {
			sel, ok := ast.Unparen(e).(*ast.SelectorExpr)
			if !ok {
				return nil
			}
			if id, ok := ast.Unparen(sel.X).(*ast.Ident); ok && info.Uses[id] == recv {
				if s := info.Selections[sel]; s != nil {
					return s.Obj()
				}
			}
			return nil
		}
		// returns of `F != nil` / `F == nil`
		var retField types.Object
		var retStmt *ast.ReturnStmt
		inspectShallow(fd.Body, func(n ast.Node) bool {
			r, ok := n.(*ast.ReturnStmt)
			if !ok || len(r.Results) != 1 {
				return true
			}
			be, ok := ast.Unparen(r.Results[0]).(*ast.BinaryExpr)
			if !ok || (be.Op != token.NEQ && be.Op != token.EQL) {
				return true
			}
			for _, pr := range [][2]ast.Expr{{be.X, be.Y}, {be.Y, be.X}} {
				if id, ok := ast.Unparen(pr[1]).(*ast.Ident); ok && id.Name == "nil" {
					if f := fieldOf(pr[0]); f != nil {
						retField, retStmt = f, r
					}
				}
			}
			return true
		})
		if retField == nil {
			continue
		}
		// assignments to F: inside loops vs outside
		var inLoop, outside []*ast.AssignStmt
		var walk func(n ast.Node, loop bool)
		walk = func(n ast.Node, loop bool) {
			ast.Inspect(n, func(m ast.Node) bool {
				if m == nil || m == n {
					return true
				}
				switch x := m.(type) {
				case *ast.FuncLit:
					return false
				case *ast.ForStmt:
					walk(x.Body, true)
					return false
				case *ast.RangeStmt:
					walk(x.Body, true)
					return false
				case *ast.AssignStmt:
					for _, l := range x.Lhs {
						if fieldOf(l) == retField {
							if loop {
								inLoop = append(inLoop, x)
							} else {
								outside = append(outside, x)
							}
						}
					}
				}
				return true
			})
		}
		walk(fd.Body, false)
		if len(inLoop) == 0 {
			continue
		}
		ob := Obligation{Key: c.FuncName(p, fd), Pos: c.Position(fd.Pos()), Status: OK}
		// must-pass-through: every path from entry to the return passes an assignment outside a loop body
		g := newCFG(info, fd.Body)
		isOutside := func(n ast.Node) bool {
			for _, a := range outside {
				if n == ast.Node(a) {
					return true
				}
			}
			return false
		}
		reached := false
		seen := map[int32]bool{}
		var visit func(bi int32)
		visit = func(bi int32) {
			if seen[bi] || reached {
				return
			}
			seen[bi] = true
			b := g.Blocks[bi]
			for _, n := range b.Nodes {
				if isOutside(n) {
					return
				}
				// skip the in-loop assignments: the path of interest is the one on which the loop body never runs
				for _, a := range inLoop {
					if n == ast.Node(a) {
						return
					}
				}
				if n == ast.Node(retStmt) {
					reached = true
					return
				}
			}
			for _, s := range b.Succs {
				visit(s.Index)
			}
		}
		if len(g.Blocks) > 0 {
			visit(0)
		}
		fname := retField.Name()
		if reached {
			ob.Status = Violation
			ob.Detail = fmt.Sprintf("%s reports `%s` but assigns %s only inside its loop (%s): when the loop body never runs (an empty container) the field keeps its previous value — for an iterator that restarts because its node was deleted, the deleted node — and the helper reports it as a position",
				fd.Name.Name, strings.TrimSpace(nodeText(c.Fset, retStmt)), fname, c.Position(inLoop[0].Pos()))
		} else {
			ob.Detail = fmt.Sprintf("%s assigns %s on every path before it reports `%s`", fd.Name.Name, fname, strings.TrimSpace(nodeText(c.Fset, retStmt)))
		}
		out = append(out, ob)
	}
	return out
}

// WIDTH-LADDER (C09): fixed-width integers are stored in the fewest bytes that hold the value. The
// width is chosen by a ladder of mask tests (`if v&M1 == 0 { return 1 } else if v&M2 == 0 { return 2 } …`)
// and the value is then written and read back byte by byte for that many bytes. The ladder is right
// only if the mask tested for width k is exactly "all bits above the low 8k": a mask that is one
// nibble short lets values with bits just above 8k through, and they are stored truncated.
//
// Slots (by shape, package encoding): functions uint64 → int whose body is an if/else-if chain of
// tests `v&M == 0` returning integer constants. One obligation per rung: M == ^uint64(0) << (8*k) for
// the constant k it returns, and the value returned after the chain is 8.
func init() {
	register(&Rule{
		Name:  "WIDTH-LADDER",
		IR:    "ast",
		Props: []string{"C09"},
		Floor: 7,
		Doc:   "in the byte-width ladder of the fixed-width integer codec, the mask tested for width k is exactly the bits above the low 8k bits, for every rung, and the fall-through width is 8",
		Run:   runWidthLadder,
	})
}

func runWidthLadder(c *Ctx) []Obligation {
	var out []Obligation
	p := c.Pkg("encoding")
	if p == nil {
		return out
	}
	info := p.TypesInfo
	for _, fd := range c.FuncDecls(p) {
		obj, _ := info.Defs[fd.Name].(*types.Func)
		if obj == nil || fd.Recv != nil {
			continue
		}
		sig := obj.Type().(*types.Signature)
		if sig.Params().Len() != 1 || sig.Results().Len() != 1 {
			continue
		}
		if b, ok := sig.Params().At(0).Type().Underlying().(*types.Basic); !ok || b.Kind() != types.Uint64 {
			continue
		}
		param := sig.Params().At(0)
		if len(fd.Body.List) < 1 {
			continue
		}
		is, ok := fd.Body.List[0].(*ast.IfStmt)
		if !ok {
			continue
		}
		name := c.FuncName(p, fd)
		rungs := 0
		for cur := is; cur != nil; {
			be, ok := ast.Unparen(cur.Cond).(*ast.BinaryExpr)
			if !ok || be.Op != token.EQL {
				break
			}
			and, ok := ast.Unparen(be.X).(*ast.BinaryExpr)
			if !ok || and.Op != token.AND {
				break
			}
			id, ok := ast.Unparen(and.X).(*ast.Ident)
			if !ok || info.Uses[id] != types.Object(param) {
				break
			}
			mtv := info.Types[and.Y]
			if mtv.Value == nil || len(cur.Body.List) != 1 {
				break
			}
			ret, ok := cur.Body.List[0].(*ast.ReturnStmt)
			if !ok || len(ret.Results) != 1 {
				break
			}
			ktv := info.Types[ret.Results[0]]
			if ktv.Value == nil {
				break
			}
			k, _ := constant.Int64Val(ktv.Value)
			mask, exact := constant.Uint64Val(constant.ToInt(mtv.Value))
			rungs++
			ob := Obligation{Key: fmt.Sprintf("%s#%d", name, k), Pos: c.Position(cur.Pos()), Status: OK}
			want := ^uint64(0) << uint(8*k)
			switch {
			case !exact || k < 1 || k > 7:
				ob.Status, ob.Detail = Undecided, fmt.Sprintf("rung returning %d: mask or width not understood", k)
			case mask != want:
				ob.Status = Violation
				ob.Detail = fmt.Sprintf("width %d is chosen when v&%#x == 0, but %d bytes hold exactly the values with v&%#x == 0: values with a bit set in %#x are stored in %d bytes and read back truncated", k, mask, k, want, want&^mask|mask&^want, k)
			default:
				ob.Detail = fmt.Sprintf("width %d is chosen exactly when v&%#x == 0", k, mask)
			}
			out = append(out, ob)
			next, _ := cur.Else.(*ast.IfStmt)
			cur = next
		}
		if rungs == 0 {
			continue
		}
		// fall-through
		if last, ok := fd.Body.List[len(fd.Body.List)-1].(*ast.ReturnStmt); ok && len(last.Results) == 1 {
			if tv := info.Types[last.Results[0]]; tv.Value != nil {
				if k, _ := constant.Int64Val(tv.Value); k != 8 {
					out = append(out, Obligation{Key: name + "#fallthrough", Pos: c.Position(last.Pos()), Status: Violation,
						Detail: fmt.Sprintf("values that pass no rung are given width %d, not 8", k)})
				}
			}
		}
	}
	return out
}

// SIGNED-SHIFT (C09, C10): zigzag coding maps a signed integer to an unsigned one and back:
// encode (x << 1) ^ (x >> 63) — the right shift must be arithmetic (signed) to smear the sign bit —
// and decode (u >> 1) ^ -(u & 1) — the right shift must be logical (unsigned), otherwise the top bit
// of u is smeared into the result and every value of magnitude 2^(w-2) and above decodes wrongly.
// The only visible difference is the type of the operand that is shifted.
//
// Slots (by shape, packages encoding and ingest/compact): functions with one integer parameter and
// one integer result of the other signedness whose body is a single return of an XOR of a shift
// and a term built from the low bit or the sign. Obligation: in the decoder (unsigned parameter) the
// operand of `>>` is unsigned; in the encoder (signed parameter) the operand of `>>` is signed.
func init() {
	register(&Rule{
		Name:  "SIGNED-SHIFT",
		IR:    "ast",
		Props: []string{"C09", "C10"},
		Floor: 2,
		Doc:   "in the zigzag pair the decoder shifts its unsigned argument right before converting it (a logical shift) and the encoder shifts its signed argument right (an arithmetic shift): the type of the operand of >> is the one the identity needs",
		Run:   runSignedShift,
	})
}

func runSignedShift(c *Ctx) []Obligation {
	var out []Obligation
	for _, rel := range []string{"encoding", "ingest/compact"} {
		p := c.Pkg(rel)
		if p == nil {
			continue
		}
		info := p.TypesInfo
		for _, fd := range c.FuncDecls(p) {
			obj, _ := info.Defs[fd.Name].(*types.Func)
			if obj == nil || fd.Recv != nil || fd.Body == nil {
				continue
			}
			sig := obj.Type().(*types.Signature)
			if sig.Params().Len() != 1 || sig.Results().Len() != 1 {
				continue
			}
			pb, ok1 := sig.Params().At(0).Type().Underlying().(*types.Basic)
			rb, ok2 := sig.Results().At(0).Type().Underlying().(*types.Basic)
			if !ok1 || !ok2 || pb.Info()&types.IsInteger == 0 || rb.Info()&types.IsInteger == 0 {
				continue
			}
			pUnsigned, rUnsigned := pb.Info()&types.IsUnsigned != 0, rb.Info()&types.IsUnsigned != 0
			if pUnsigned == rUnsigned {
				continue
			}
			// the right shifts in the body, and additions to the unsigned argument before a narrowing
			var shifts []*ast.BinaryExpr
			var wraps []*ast.BinaryExpr
			prm := sig.Params().At(0)
			ast.Inspect(fd.Body, func(n ast.Node) bool {
				be, ok := n.(*ast.BinaryExpr)
				if !ok {
					return true
				}
				switch be.Op {
				case token.SHR:
					shifts = append(shifts, be)
				case token.ADD, token.SUB:
					for _, side := range []ast.Expr{be.X, be.Y} {
						if id, ok := ast.Unparen(side).(*ast.Ident); ok && info.Uses[id] == prm && pUnsigned {
							wraps = append(wraps, be)
						}
					}
				}
				return true
			})
			if len(shifts) == 0 {
				continue
			}
			if len(wraps) > 0 {
				out = append(out, Obligation{Key: c.FuncName(p, fd), Pos: c.Position(wraps[0].Pos()), Status: Violation,
					Detail: fmt.Sprintf("the decoder computes %s on its unsigned argument, which takes every value of its width: at the extreme the sum wraps to 0 and the largest-magnitude value decodes to 0 (the coding is no longer invertible on all values)", nodeText(c.Fset, wraps[0]))})
				continue
			}
			if len(shifts) != 1 {
				// several shifts (a branching form): each is judged like the single one; report the first that fails
				bad := false
				for _, sh := range shifts {
					opb, _ := info.TypeOf(sh.X).Underlying().(*types.Basic)
					opUnsigned := opb != nil && opb.Info()&types.IsUnsigned != 0
					if pUnsigned != opUnsigned {
						out = append(out, Obligation{Key: c.FuncName(p, fd), Pos: c.Position(sh.Pos()), Status: Violation,
							Detail: fmt.Sprintf("%s is shifted with the wrong signedness for this direction of the coding", nodeText(c.Fset, sh.X))})
						bad = true
						break
					}
				}
				if !bad {
					out = append(out, Obligation{Key: c.FuncName(p, fd), Pos: c.Position(fd.Pos()), Status: OK, Detail: fmt.Sprintf("%d shifts, each with the signedness of its direction", len(shifts))})
				}
				continue
			}
			sh := shifts[0]
			ob := Obligation{Key: c.FuncName(p, fd), Pos: c.Position(sh.Pos()), Status: OK}
			opb, _ := info.TypeOf(sh.X).Underlying().(*types.Basic)
			opUnsigned := opb != nil && opb.Info()&types.IsUnsigned != 0
			switch {
			case pUnsigned && !opUnsigned:
				ob.Status = Violation
				ob.Detail = fmt.Sprintf("the decoder shifts %s, a signed value, right: the shift is arithmetic and smears the top bit of the encoded value, so every value of magnitude 2^(w-2) and above decodes wrongly; shift the unsigned argument first and convert afterwards", nodeText(c.Fset, sh.X))
			case !pUnsigned && opUnsigned:
				ob.Status = Violation
				ob.Detail = fmt.Sprintf("the encoder shifts %s, an unsigned value, right: the shift is logical and does not smear the sign bit, so negative values are encoded wrongly", nodeText(c.Fset, sh.X))
			case pUnsigned:
				ob.Detail = fmt.Sprintf("decoder: %s is shifted as an unsigned value (logical shift)", nodeText(c.Fset, sh.X))
			default:
				ob.Detail = fmt.Sprintf("encoder: %s is shifted as a signed value (arithmetic shift)", nodeText(c.Fset, sh.X))
			}
			out = append(out, ob)
		}
	}
	return out
}
