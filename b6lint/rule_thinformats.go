package main

import (
	"fmt"
	"go/ast"
	"go/constant"
	"go/token"
	"go/types"
	"sort"
	"strings"
)

// POSTING-PADDING (C08): posting-list blocks are filled up with a padding byte, and the reader
// finds the end of a block's data by walking back over bytes equal to the padding. That is sound
// only because the padding can never be the last byte of a varint: its top bit is set. Both sides
// must use the same constant.
//
// Slots (by shape, package ingest/compact): the padding function is a function []byte → []byte
// that appends one package-level constant K of type byte in a loop (today padIDBlock / Padding).
// Obligations: #msb K & 0x80 != 0; #reader some method named Next of a type of the package
// compares an element of a byte slice with K itself (the same constant object, not a literal).
func init() {
	register(&Rule{
		Name:  "POSTING-PADDING",
		IR:    "ast",
		Props: []string{"C08"},
		Floor: 2,
		Doc: "the byte that pads posting-list blocks has its top bit set, so it can never be the final byte of a varint, and the iterator recognises padding by comparing with the same constant",
		Run:   runPostingPadding,
	})
	register(&Rule{
		Name:  "TILE-COMMANDS",
		IR:    "ast",
		Props: []string{"C33"},
		Floor: 4,
		Doc: "the vector-tile command integers are built by sibling methods of the encoder as (COMMAND & mask) | (count << shift): all siblings use the same mask and shift, mask == 1<<shift - 1, " +
			"and the command constants are distinct and fit the mask",
		Run: runTileCommands,
	})
}

func runPostingPadding(c *Ctx) []Obligation {
	var out []Obligation
	p := c.Pkg("ingest/compact")
	if p == nil {
		return out
	}
	info := p.TypesInfo
	var pad *types.Const
	var padFn string
	var padPos token.Pos
	for _, fd := range c.FuncDecls(p) {
		obj, _ := info.Defs[fd.Name].(*types.Func)
		if obj == nil || fd.Recv != nil {
			continue
		}
		sig := obj.Type().(*types.Signature)
		isBytes := func(t types.Type) bool {
			sl, ok := t.Underlying().(*types.Slice)
			if !ok {
				return false
			}
			b, ok := sl.Elem().Underlying().(*types.Basic)
			return ok && b.Kind() == types.Byte
		}
		if sig.Params().Len() != 1 || sig.Results().Len() != 1 || !isBytes(sig.Params().At(0).Type()) || !isBytes(sig.Results().At(0).Type()) {
			continue
		}
		ast.Inspect(fd.Body, func(n ast.Node) bool {
			loop, ok := n.(*ast.ForStmt)
			if !ok {
				return true
			}
			ast.Inspect(loop.Body, func(m ast.Node) bool {
				call, ok := m.(*ast.CallExpr)
				if !ok || !isBuiltin(info, call, "append") || len(call.Args) != 2 {
					return true
				}
				if id, ok := ast.Unparen(call.Args[1]).(*ast.Ident); ok {
					if k, ok := info.Uses[id].(*types.Const); ok && k.Parent() == p.Types.Scope() {
						pad, padFn, padPos = k, c.FuncName(p, fd), call.Pos()
					}
				}
				return true
			})
			return true
		})
	}
	if pad == nil {
		return out
	}
	msb := Obligation{Key: padFn + "#msb", Pos: c.Position(padPos), Status: OK}
	if v, ok := constant.Int64Val(pad.Val()); !ok || v&0x80 == 0 || v > 0xff {
		msb.Status = Violation
		msb.Detail = fmt.Sprintf("%s pads blocks with %s = %s, whose top bit is clear: it is a complete one-byte varint, so the reader cannot tell padding from data", padFn, pad.Name(), pad.Val())
	} else {
		msb.Detail = fmt.Sprintf("%s pads blocks with %s = %s (top bit set: never the last byte of a varint)", padFn, pad.Name(), pad.Val())
	}
	out = append(out, msb)
	rd := Obligation{Key: padFn + "#reader", Pos: c.Position(padPos), Status: Violation,
		Detail: fmt.Sprintf("no Next method of the package compares a byte with the constant %s: the reader does not recognise the padding the writer adds", pad.Name())}
	for _, fd := range c.FuncDecls(p) {
		if fd.Recv == nil || fd.Name.Name != "Next" {
			continue
		}
		ast.Inspect(fd.Body, func(n ast.Node) bool {
			be, ok := n.(*ast.BinaryExpr)
			if !ok || (be.Op != token.EQL && be.Op != token.NEQ) {
				return true
			}
			for _, pr := range [][2]ast.Expr{{be.X, be.Y}, {be.Y, be.X}} {
				if id, ok := ast.Unparen(pr[1]).(*ast.Ident); ok && info.Uses[id] == types.Object(pad) {
					if _, ok := ast.Unparen(pr[0]).(*ast.IndexExpr); ok {
						rd.Status = OK
						rd.Detail = fmt.Sprintf("%s skips padding by comparing with %s at %s", c.FuncName(p, fd), pad.Name(), c.Position(be.Pos()))
					}
				}
			}
			return true
		})
	}
	out = append(out, rd)
	return out
}

func runTileCommands(c *Ctx) []Obligation {
	var out []Obligation
	p := c.Pkg("renderer")
	if p == nil {
		return out
	}
	info := p.TypesInfo
	type cmd struct {
		fn          string
		pos         token.Pos
		code        int64
		codeName    string
		mask, shift int64
	}
	var cmds []cmd
	ci := func(e ast.Expr) (int64, bool) {
		tv := info.Types[e]
		if tv.Value == nil {
			return 0, false
		}
		return constant.Int64Val(constant.ToInt(tv.Value))
	}
	for _, fd := range c.FuncDecls(p) {
		if fd.Recv == nil {
			continue
		}
		ast.Inspect(fd.Body, func(n ast.Node) bool {
			call, ok := n.(*ast.CallExpr)
			if !ok || !isBuiltin(info, call, "append") || len(call.Args) != 2 {
				return true
			}
			or, ok := ast.Unparen(call.Args[1]).(*ast.BinaryExpr)
			if !ok || or.Op != token.OR {
				return true
			}
			and, ok1 := ast.Unparen(or.X).(*ast.BinaryExpr)
			shl, ok2 := ast.Unparen(or.Y).(*ast.BinaryExpr)
			if !ok1 || !ok2 || and.Op != token.AND || shl.Op != token.SHL {
				return true
			}
			code, okc := ci(and.X)
			mask, okm := ci(and.Y)
			shift, oks := ci(shl.Y)
			if !okc || !okm || !oks {
				return true
			}
			cmds = append(cmds, cmd{c.FuncName(p, fd), call.Pos(), code, nodeText(c.Fset, and.X), mask, shift})
			return true
		})
	}
	sort.Slice(cmds, func(i, j int) bool { return cmds[i].fn < cmds[j].fn })
	if len(cmds) == 0 {
		return out
	}
	ref := cmds[0]
	seen := map[int64]string{}
	for _, m := range cmds {
		ob := Obligation{Key: m.fn, Pos: c.Position(m.pos), Status: OK}
		var bad []string
		if m.mask != ref.mask || m.shift != ref.shift {
			bad = append(bad, fmt.Sprintf("uses mask %#x and shift %d where %s uses mask %#x and shift %d", m.mask, m.shift, ref.fn, ref.mask, ref.shift))
		}
		if m.mask != (int64(1)<<uint(m.shift))-1 {
			bad = append(bad, fmt.Sprintf("mask %#x is not 1<<%d - 1: command and count overlap or leave a gap", m.mask, m.shift))
		}
		if m.code&^m.mask != 0 {
			bad = append(bad, fmt.Sprintf("command %s = %d does not fit the mask %#x", m.codeName, m.code, m.mask))
		}
		if other, dup := seen[m.code]; dup {
			bad = append(bad, fmt.Sprintf("command %s = %d is also the command of %s", m.codeName, m.code, other))
		}
		seen[m.code] = m.fn
		if len(bad) > 0 {
			ob.Status, ob.Detail = Violation, m.fn+": "+strings.Join(bad, "; ")
		} else {
			ob.Detail = fmt.Sprintf("%s builds (%s & %#x) | count << %d", m.fn, m.codeName, m.mask, m.shift)
		}
		out = append(out, ob)
	}
	all := Obligation{Key: "renderer#commands", Pos: c.Position(ref.pos), Status: OK, Detail: fmt.Sprintf("%d command builders with distinct commands", len(cmds))}
	if len(cmds) < 3 {
		all.Status, all.Detail = Violation, fmt.Sprintf("only %d command builders of the (COMMAND & mask) | count << shift shape found; MoveTo, LineTo and ClosePath are expected", len(cmds))
	}
	out = append(out, all)
	return out
}
