package main

// Helpers shared by the group-A rules (PRODUCER, STOP-AFTER-ERROR, ERR-RETURNED, CLOSE-ALL).
// Every identifier here carries the prefix a/A to stay clear of other rule authors.

import (
	"fmt"
	"go/ast"
	"go/token"
	"go/types"
	"sort"
	"strings"
	"sync"

	"golang.org/x/tools/go/cfg"
	"golang.org/x/tools/go/packages"
)

const aErrgroupPath = "golang.org/x/sync/errgroup"

// Packages whose enumerators / pools are subjects of C28 (the property's anchor files live here).
var aC28Packages = map[string]bool{"encoding": true, "ingest": true, "ingest/compact": true, "osm": true}

// ---------------------------------------------------------------- type predicates

func aIsContext(t types.Type) bool { return t != nil && isNamed(t, "context", "Context") }

func aIsError(t types.Type) bool {
	return t != nil && types.Identical(t, types.Universe.Lookup("error").Type())
}

// aErrSig returns the signature of a per-item callback type: a function that takes at least one
// argument and returns exactly `error` (func(...) error); else nil.
func aErrSig(t types.Type) *types.Signature {
	if t == nil {
		return nil
	}
	sig, _ := t.Underlying().(*types.Signature)
	if sig == nil || sig.Results().Len() != 1 || sig.Params().Len() == 0 {
		return nil
	}
	if !aIsError(sig.Results().At(0).Type()) {
		return nil
	}
	return sig
}

func aChanType(t types.Type) *types.Chan {
	if t == nil {
		return nil
	}
	ch, _ := t.Underlying().(*types.Chan)
	return ch
}

// aChanFamily: a channel, or a slice/array of channels (m.in, c[i] families).
func aChanFamily(t types.Type) *types.Chan {
	if t == nil {
		return nil
	}
	switch x := t.Underlying().(type) {
	case *types.Chan:
		return x
	case *types.Slice:
		return aChanType(x.Elem())
	case *types.Array:
		return aChanType(x.Elem())
	}
	return nil
}

func aIsEmptyStruct(t types.Type) bool {
	s, ok := t.Underlying().(*types.Struct)
	return ok && s.NumFields() == 0
}

func aIsPkgFunc(f *types.Func, pkg string, names ...string) bool {
	if f == nil || f.Pkg() == nil || f.Pkg().Path() != pkg {
		return false
	}
	if sig, ok := f.Type().(*types.Signature); ok && sig.Recv() != nil {
		return false
	}
	for _, n := range names {
		if f.Name() == n {
			return true
		}
	}
	return false
}

// aIsGroupMethod: method `name` of golang.org/x/sync/errgroup.Group.
func aIsGroupMethod(f *types.Func, name string) bool {
	if f == nil || f.Name() != name {
		return false
	}
	sig, ok := f.Type().(*types.Signature)
	if !ok || sig.Recv() == nil {
		return false
	}
	return isNamed(sig.Recv().Type(), aErrgroupPath, "Group")
}

// aCtxMethodCall: `X.<name>()` on a context.Context; returns X.
func aCtxMethodCall(info *types.Info, e ast.Expr, name string) ast.Expr {
	call, ok := ast.Unparen(e).(*ast.CallExpr)
	if !ok || len(call.Args) != 0 {
		return nil
	}
	sel, ok := ast.Unparen(call.Fun).(*ast.SelectorExpr)
	if !ok || sel.Sel.Name != name {
		return nil
	}
	if !aIsContext(info.TypeOf(sel.X)) {
		return nil
	}
	return sel.X
}

func aIsNilIdent(info *types.Info, e ast.Expr) bool {
	id, ok := ast.Unparen(e).(*ast.Ident)
	if !ok {
		return false
	}
	_, isNil := info.Uses[id].(*types.Nil)
	return isNil
}

func aObjOf(info *types.Info, e ast.Expr) types.Object {
	if id, ok := ast.Unparen(e).(*ast.Ident); ok {
		return info.ObjectOf(id)
	}
	return nil
}

// aRootObj resolves x, x[i], x.f, *x to the variable or field that names the family.
func aRootObj(info *types.Info, e ast.Expr) types.Object {
	switch x := ast.Unparen(e).(type) {
	case *ast.Ident:
		if o, ok := info.ObjectOf(x).(*types.Var); ok {
			return o
		}
	case *ast.IndexExpr:
		return aRootObj(info, x.X)
	case *ast.SelectorExpr:
		if o, ok := info.ObjectOf(x.Sel).(*types.Var); ok {
			return o
		}
	case *ast.StarExpr:
		return aRootObj(info, x.X)
	}
	return nil
}

// aRecvOperand returns X of a receive statement `<-X`, `v := <-X`, `v, ok = <-X`.
func aRecvOperand(s ast.Stmt) (*ast.UnaryExpr, *ast.AssignStmt) {
	switch x := s.(type) {
	case *ast.ExprStmt:
		if u, ok := ast.Unparen(x.X).(*ast.UnaryExpr); ok && u.Op == token.ARROW {
			return u, nil
		}
	case *ast.AssignStmt:
		if len(x.Rhs) == 1 {
			if u, ok := ast.Unparen(x.Rhs[0]).(*ast.UnaryExpr); ok && u.Op == token.ARROW {
				return u, x
			}
		}
	}
	return nil, nil
}

// aIsCancelRecvExpr: the operand of a receive is a cancellation source by type:
// `X.Done()` of a context, or a channel of struct{}.
func aIsCancelRecvExpr(info *types.Info, op ast.Expr) bool {
	if aCtxMethodCall(info, op, "Done") != nil {
		return true
	}
	if ch := aChanType(info.TypeOf(op)); ch != nil && aIsEmptyStruct(ch.Elem()) {
		return true
	}
	return false
}

// aSelectHasCancel: some case of the select receives from a cancellation source.
func aSelectHasCancel(info *types.Info, s *ast.SelectStmt) bool {
	for _, cc := range s.Body.List {
		if u, _ := aRecvOperand(cc.(*ast.CommClause).Comm); u != nil && aIsCancelRecvExpr(info, u.X) {
			return true
		}
	}
	return false
}

// ---------------------------------------------------------------- function units

// aUnit is a function declaration or one function literal inside it; analyses are per unit
// ("the same function body"), never across a literal boundary.
type aUnit struct {
	pkg    *packages.Package
	decl   *ast.FuncDecl
	lit    *ast.FuncLit
	body   *ast.BlockStmt
	ftype  *ast.FuncType
	parent *aUnit
	graph  *cfg.CFG
}

func (u *aUnit) info() *types.Info { return u.pkg.TypesInfo }

func (u *aUnit) cfg() *cfg.CFG {
	if u.graph == nil {
		u.graph = newCFG(u.info(), u.body)
	}
	return u.graph
}

func (u *aUnit) pos() token.Pos {
	if u.lit != nil {
		return u.lit.Pos()
	}
	return u.decl.Pos()
}

// params returns the parameter objects in order.
func (u *aUnit) params() []*types.Var {
	var out []*types.Var
	if u.ftype.Params == nil {
		return out
	}
	for _, f := range u.ftype.Params.List {
		if len(f.Names) == 0 {
			out = append(out, nil)
			continue
		}
		for _, n := range f.Names {
			v, _ := u.info().Defs[n].(*types.Var)
			out = append(out, v)
		}
	}
	return out
}

// aUnitsOfDecl returns the declaration unit followed by its literals in source order.
func aUnitsOfDecl(p *packages.Package, fd *ast.FuncDecl) []*aUnit {
	root := &aUnit{pkg: p, decl: fd, body: fd.Body, ftype: fd.Type}
	out := []*aUnit{root}
	var walk func(parent *aUnit)
	walk = func(parent *aUnit) {
		ast.Inspect(parent.body, func(n ast.Node) bool {
			if fl, ok := n.(*ast.FuncLit); ok {
				u := &aUnit{pkg: p, decl: fd, lit: fl, body: fl.Body, ftype: fl.Type, parent: parent}
				out = append(out, u)
				walk(u)
				return false
			}
			return true
		})
	}
	walk(root)
	sort.SliceStable(out, func(i, j int) bool { return out[i].pos() < out[j].pos() })
	return out
}

// aShallow walks the unit's own statements (not nested literals).
func aShallow(body ast.Node, f func(ast.Node) bool) { inspectShallow(body, f) }

func aUnitOfLit(units []*aUnit, fl *ast.FuncLit) *aUnit {
	for _, u := range units {
		if u.lit == fl {
			return u
		}
	}
	return nil
}

// aChain returns the nodes from the unit body down to target (target last), or nil.
func aChain(root ast.Node, target ast.Node) []ast.Node { return enclosing(root, target) }

// ---------------------------------------------------------------- nil facts

// aNilTest recognises `v != nil` / `v == nil` (either operand order) on an identifier.
func aNilTest(info *types.Info, e ast.Expr) (obj types.Object, isNeq bool, ok bool) {
	b, isBin := ast.Unparen(e).(*ast.BinaryExpr)
	if !isBin || (b.Op != token.NEQ && b.Op != token.EQL) {
		return nil, false, false
	}
	var other ast.Expr
	switch {
	case aIsNilIdent(info, b.Y):
		other = b.X
	case aIsNilIdent(info, b.X):
		other = b.Y
	default:
		return nil, false, false
	}
	o := aObjOf(info, other)
	if o == nil {
		return nil, false, false
	}
	return o, b.Op == token.NEQ, true
}

// aEval evaluates a condition under the facts "these variables are not nil":
// +1 true, -1 false, 0 unknown.
func aEval(info *types.Info, e ast.Expr, nonNil map[types.Object]bool) int {
	e = ast.Unparen(e)
	if o, neq, ok := aNilTest(info, e); ok {
		if nonNil[o] {
			if neq {
				return 1
			}
			return -1
		}
		return 0
	}
	switch x := e.(type) {
	case *ast.UnaryExpr:
		if x.Op == token.NOT {
			return -aEval(info, x.X, nonNil)
		}
	case *ast.BinaryExpr:
		l, r := aEval(info, x.X, nonNil), aEval(info, x.Y, nonNil)
		switch x.Op {
		case token.LAND:
			if l < 0 || r < 0 {
				return -1
			}
			if l > 0 && r > 0 {
				return 1
			}
		case token.LOR:
			if l > 0 || r > 0 {
				return 1
			}
			if l < 0 && r < 0 {
				return -1
			}
		}
	}
	return 0
}

// aImplied collects what an enclosing chain of if-statements says about nil-ness at a node:
// objects known to be non-nil where `at` stands.
func aImplied(info *types.Info, chain []ast.Node) map[types.Object]bool {
	facts := map[types.Object]bool{}
	var conj func(e ast.Expr, positive bool)
	conj = func(e ast.Expr, positive bool) {
		e = ast.Unparen(e)
		if o, neq, ok := aNilTest(info, e); ok {
			if neq == positive {
				facts[o] = true
			}
			return
		}
		switch x := e.(type) {
		case *ast.BinaryExpr:
			if positive && x.Op == token.LAND || !positive && x.Op == token.LOR {
				conj(x.X, positive)
				conj(x.Y, positive)
			}
		case *ast.UnaryExpr:
			if x.Op == token.NOT {
				conj(x.X, !positive)
			}
		}
	}
	for i := 0; i+1 < len(chain); i++ {
		if sw, ok := chain[i].(*ast.SwitchStmt); ok && sw.Tag == nil && i+2 < len(chain) {
			// switch { case cond: ... } - the clause that holds the node asserts its condition
			if cc, ok := chain[i+2].(*ast.CaseClause); ok && len(cc.List) == 1 {
				conj(cc.List[0], true)
			}
			continue
		}
		is, ok := chain[i].(*ast.IfStmt)
		if !ok {
			continue
		}
		switch chain[i+1] {
		case ast.Node(is.Body):
			conj(is.Cond, true)
		case is.Else:
			conj(is.Cond, false)
		}
	}
	return facts
}

// aNonNilExpr: the expression is certainly a non-nil error where it stands.
func aNonNilExpr(info *types.Info, e ast.Expr, facts map[types.Object]bool) bool {
	e = ast.Unparen(e)
	if o := aObjOf(info, e); o != nil {
		return facts[o]
	}
	if call, ok := e.(*ast.CallExpr); ok {
		f := calleeFunc(info, call)
		if aIsPkgFunc(f, "fmt", "Errorf") || aIsPkgFunc(f, "errors", "New") {
			return true
		}
	}
	return false
}

// ---------------------------------------------------------------- path search with nil facts

// aFlow is a forward search over a go/cfg graph that carries "variable is non-nil" facts and
// follows only the feasible edge at `v == nil` / `v != nil` conditions of if- and for-statements.
type aFlow struct {
	c    *Ctx
	info *types.Info
	// bad returns a reason when the node makes the path a witness.
	bad func(n ast.Node) string
	// stop ends a path as discharged.
	stop func(n ast.Node) bool
	// exitBad: reaching a normal function exit is a witness.
	exitBad bool
	// ctxErrNonNil: `v = X.Err()` on a context establishes v != nil (valid after <-X.Done()).
	ctxErrNonNil bool
	// overwrite returns a reason when a node overwriting a tracked variable ends the path as a witness.
	overwrite func(n ast.Node, o types.Object) string
	// tagless: case clauses of `switch { case cond: }` statements of the body (aTagless); their
	// single condition is a branch condition like an if's. nil: switch conditions are not evaluated.
	tagless map[*ast.CaseClause]bool
}

// aTagless collects the single-condition clauses of tagless switch statements of a body.
func aTagless(body ast.Node) map[*ast.CaseClause]bool {
	m := map[*ast.CaseClause]bool{}
	aShallow(body, func(n ast.Node) bool {
		if sw, ok := n.(*ast.SwitchStmt); ok && sw.Tag == nil {
			for _, st := range sw.Body.List {
				if cc, ok := st.(*ast.CaseClause); ok && len(cc.List) == 1 {
					m[cc] = true
				}
			}
		}
		return true
	})
	return m
}

func aFactsKey(f map[types.Object]bool) string {
	var ks []string
	for o, v := range f {
		if v {
			ks = append(ks, fmt.Sprintf("%d", o.Pos()))
		}
	}
	sort.Strings(ks)
	return strings.Join(ks, ",")
}

func aCopyFacts(f map[types.Object]bool) map[types.Object]bool {
	g := map[types.Object]bool{}
	for k, v := range f {
		if v {
			g[k] = true
		}
	}
	return g
}

// transfer applies an assignment node to the facts; returns a witness reason if an overwrite is bad.
func (fl *aFlow) transfer(n ast.Node, facts map[types.Object]bool) (map[types.Object]bool, string) {
	set := func(o types.Object, v bool) {
		if facts[o] != v {
			facts = aCopyFacts(facts)
			if v {
				facts[o] = true
			} else {
				delete(facts, o)
			}
		}
	}
	switch s := n.(type) {
	case *ast.AssignStmt:
		for i, l := range s.Lhs {
			o := aObjOf(fl.info, l)
			if o == nil {
				continue
			}
			nn := false
			if len(s.Lhs) == len(s.Rhs) {
				r := s.Rhs[i]
				if aNonNilExpr(fl.info, r, facts) {
					nn = true
				} else if fl.ctxErrNonNil && aCtxMethodCall(fl.info, r, "Err") != nil {
					nn = true
				}
			}
			if !nn && facts[o] && fl.overwrite != nil {
				if why := fl.overwrite(n, o); why != "" {
					return facts, why
				}
			}
			set(o, nn)
		}
	case *ast.ValueSpec:
		for _, name := range s.Names {
			if o := fl.info.ObjectOf(name); o != nil {
				set(o, false)
			}
		}
	}
	return facts, ""
}

// aIsExit: a block that leaves the function normally. The block after the last case of a
// select without default has no successors either, but control never gets there.
func aIsExit(info *types.Info, b *cfg.Block) bool {
	return b.Live && len(b.Succs) == 0 && b.Kind != cfg.KindSelectAfterCase && !endsInNoReturn(info, b)
}

// condOf returns the if/for condition that ends the block, if the block branches on one.
func aCondOf(b *cfg.Block, tagless map[*ast.CaseClause]bool) ast.Expr {
	if len(b.Succs) != 2 || len(b.Nodes) == 0 {
		return nil
	}
	last, ok := b.Nodes[len(b.Nodes)-1].(ast.Expr)
	if !ok {
		return nil
	}
	switch s := b.Succs[0].Stmt.(type) {
	case *ast.CaseClause:
		if b.Succs[0].Kind == cfg.KindSwitchCaseBody && tagless[s] && s.List[0] == last {
			return last
		}
	case *ast.IfStmt:
		if b.Succs[0].Kind == cfg.KindIfThen && s.Cond == last {
			return last
		}
	case *ast.ForStmt:
		if b.Succs[0].Kind == cfg.KindForBody && s.Cond == last {
			return last
		}
	}
	return nil
}

func (fl *aFlow) run(start *cfg.Block, idx int, facts map[types.Object]bool) []string {
	type item struct {
		b     *cfg.Block
		start int
		facts map[types.Object]bool
		trail []string
	}
	seen := map[string]bool{}
	work := []item{{start, idx, aCopyFacts(facts), nil}}
	for len(work) > 0 {
		it := work[0]
		work = work[1:]
		facts := it.facts
		stopped := false
		for i := it.start; i < len(it.b.Nodes); i++ {
			n := it.b.Nodes[i]
			if fl.bad != nil {
				if why := fl.bad(n); why != "" {
					return append(append([]string(nil), it.trail...), why+" at "+fl.c.Position(n.Pos())+": "+aNodeText(fl.c, n))
				}
			}
			if fl.stop != nil && fl.stop(n) {
				stopped = true
				break
			}
			var why string
			facts, why = fl.transfer(n, facts)
			if why != "" {
				return append(append([]string(nil), it.trail...), why+" at "+fl.c.Position(n.Pos())+": "+aNodeText(fl.c, n))
			}
		}
		if stopped {
			continue
		}
		if len(it.b.Succs) == 0 {
			if fl.exitBad && aIsExit(fl.info, it.b) {
				where := "the end of the function"
				if len(it.b.Nodes) > 0 {
					last := it.b.Nodes[len(it.b.Nodes)-1]
					where = fl.c.Position(last.Pos()) + ": " + aNodeText(fl.c, last)
				}
				return append(append([]string(nil), it.trail...), "leaves the function at "+where)
			}
			continue
		}
		succs := it.b.Succs
		if cond := aCondOf(it.b, fl.tagless); cond != nil {
			switch aEval(fl.info, cond, facts) {
			case 1:
				succs = succs[:1]
			case -1:
				succs = succs[1:]
			}
		}
		for _, s := range succs {
			key := fmt.Sprintf("%d|%s", s.Index, aFactsKey(facts))
			if seen[key] {
				continue
			}
			seen[key] = true
			t := it.trail
			if len(s.Nodes) > 0 {
				t = append(append([]string(nil), it.trail...), fmt.Sprintf("%s (%s)", fl.c.Position(s.Nodes[0].Pos()), s.Kind))
			}
			work = append(work, item{s, 0, facts, t})
		}
	}
	return nil
}

// aNodeText renders a node for a report (util's nodeText does not know send statements).
func aNodeText(c *Ctx, n ast.Node) string {
	if s, ok := n.(*ast.SendStmt); ok {
		t := types.ExprString(s.Chan) + " <- " + types.ExprString(s.Value)
		if len(t) > 90 {
			t = t[:87] + "..."
		}
		return t
	}
	return nodeText(c.Fset, n)
}

// aBlockOf finds the block of the given kind created for stmt.
func aBlockOf(g *cfg.CFG, kind cfg.BlockKind, stmt ast.Node) *cfg.Block {
	for _, b := range g.Blocks {
		if b.Kind == kind && b.Stmt == stmt {
			return b
		}
	}
	return nil
}

// aSelectOfComm maps each communication statement of every select in the body to its select.
func aSelectOfComm(body ast.Node) map[ast.Node]*ast.SelectStmt {
	m := map[ast.Node]*ast.SelectStmt{}
	aShallow(body, func(n ast.Node) bool {
		if s, ok := n.(*ast.SelectStmt); ok {
			for _, cc := range s.Body.List {
				if comm := cc.(*ast.CommClause).Comm; comm != nil {
					m[comm] = s
				}
			}
		}
		return true
	})
	return m
}

// aBreakTarget resolves the statement a break/continue leaves, given the chain down to it.
func aBranchTarget(unitBody ast.Node, chain []ast.Node, br *ast.BranchStmt) ast.Stmt {
	if br.Label != nil {
		var target ast.Stmt
		ast.Inspect(unitBody, func(n ast.Node) bool {
			if ls, ok := n.(*ast.LabeledStmt); ok && ls.Label.Name == br.Label.Name {
				target = ls.Stmt
			}
			return target == nil
		})
		return target
	}
	for i := len(chain) - 2; i >= 0; i-- {
		switch s := chain[i].(type) {
		case *ast.ForStmt, *ast.RangeStmt:
			return s.(ast.Stmt)
		case *ast.SwitchStmt, *ast.TypeSwitchStmt, *ast.SelectStmt:
			if br.Tok == token.BREAK {
				return s.(ast.Stmt)
			}
		case *ast.FuncLit:
			return nil
		}
	}
	return nil
}

func aContains(outer, inner ast.Node) bool {
	return outer != nil && inner != nil && outer.Pos() <= inner.Pos() && inner.End() <= outer.End()
}

// ---------------------------------------------------------------- callbacks of enumerators

// aEnum is a function with an error-returning callback parameter, and the places where that
// callback (or a closure/func value derived from it) is invoked or handed to another function.
type aEnum struct {
	pkg   *packages.Package
	decl  *ast.FuncDecl
	name  string
	units []*aUnit
	cbs   map[types.Object]bool // callback-valued variables: the parameters and derived closures
	lits  map[*ast.FuncLit]bool // derived closures (literals that invoke a callback and return error)
	sites []*aSite
}

// aSite is one invocation of the callback: a direct call, or a call that is given the callback.
type aSite struct {
	unit     *aUnit
	call     *ast.CallExpr
	delegate bool
	ord      int
}

func aIsYAMLUnmarshal(fd *ast.FuncDecl) bool {
	return fd.Recv != nil && fd.Name.Name == "UnmarshalYAML"
}

// aIsCallbackExpr: the expression denotes a callback value (variable, derived literal, or a
// conversion of one).
func (e *aEnum) isCallbackExpr(info *types.Info, x ast.Expr) bool {
	x = ast.Unparen(x)
	switch v := x.(type) {
	case *ast.Ident:
		return e.cbs[info.ObjectOf(v)]
	case *ast.FuncLit:
		return e.lits[v]
	case *ast.CallExpr: // conversion T(cb)
		if len(v.Args) == 1 {
			if tv, ok := info.Types[v.Fun]; ok && tv.IsType() {
				return e.isCallbackExpr(info, v.Args[0])
			}
		}
	}
	return false
}

// aFindEnum analyses one declaration; nil if it has no error-returning callback parameter that
// is used.
func aFindEnum(c *Ctx, p *packages.Package, fd *ast.FuncDecl) *aEnum {
	if aIsYAMLUnmarshal(fd) {
		return nil
	}
	info := p.TypesInfo
	e := &aEnum{pkg: p, decl: fd, name: c.FuncName(p, fd), cbs: map[types.Object]bool{}, lits: map[*ast.FuncLit]bool{}}
	if fd.Type.Params != nil {
		for _, f := range fd.Type.Params.List {
			for _, n := range f.Names {
				if o := info.Defs[n]; o != nil && aErrSig(o.Type()) != nil {
					e.cbs[o] = true
				}
			}
		}
	}
	if len(e.cbs) == 0 {
		return nil
	}
	e.units = aUnitsOfDecl(p, fd)
	isInvocation := func(call *ast.CallExpr) (direct, delegate bool) {
		if f := calleeFunc(info, call); f != nil && (aIsGroupMethod(f, "Go") || aIsGroupMethod(f, "TryGo")) {
			return false, false
		}
		if tv, ok := info.Types[call.Fun]; ok && tv.IsType() {
			return false, false // conversion
		}
		if e.isCallbackExpr(info, call.Fun) {
			return true, false
		}
		for _, a := range call.Args {
			if e.isCallbackExpr(info, a) {
				return false, true
			}
		}
		return false, false
	}
	// Fixpoint: literals that return error and invoke a callback are callbacks themselves, and so
	// are the variables they are bound to; func-typed results of a call that is given a callback
	// (ParalleliseEmit) are callbacks too.
	for changed := true; changed; {
		changed = false
		for _, u := range e.units {
			if u.lit != nil && !e.lits[u.lit] && aErrSig(info.TypeOf(u.lit)) != nil {
				uses := false
				aShallow(u.body, func(n ast.Node) bool {
					if call, ok := n.(*ast.CallExpr); ok {
						if d, g := isInvocation(call); d || g {
							uses = true
						}
					}
					return !uses
				})
				if uses {
					e.lits[u.lit] = true
					changed = true
				}
			}
			aShallow(u.body, func(n ast.Node) bool {
				as, ok := n.(*ast.AssignStmt)
				if !ok {
					return true
				}
				mark := func(l ast.Expr) {
					if o := aObjOf(info, l); o != nil && !e.cbs[o] && aErrSig(o.Type()) != nil {
						e.cbs[o] = true
						changed = true
					}
				}
				if len(as.Lhs) == len(as.Rhs) {
					for i, r := range as.Rhs {
						if e.isCallbackExpr(info, r) {
							mark(as.Lhs[i])
						}
					}
				} else if len(as.Rhs) == 1 {
					if call, ok := ast.Unparen(as.Rhs[0]).(*ast.CallExpr); ok {
						if _, g := isInvocation(call); g {
							for _, l := range as.Lhs {
								mark(l)
							}
						}
					}
				}
				return true
			})
		}
	}
	ord := 0
	for _, u := range e.units {
		var calls []*ast.CallExpr
		aShallow(u.body, func(n ast.Node) bool {
			if call, ok := n.(*ast.CallExpr); ok {
				calls = append(calls, call)
			}
			return true
		})
		for _, call := range calls {
			d, g := isInvocation(call)
			if !d && !g {
				continue
			}
			if g {
				// a call that is given the callback is an invocation only if an error comes back
				// (the last result is error); otherwise it is a constructor of a derived callback.
				tv := info.TypeOf(call)
				isErr := false
				switch t := tv.(type) {
				case *types.Tuple:
					isErr = t.Len() > 0 && aIsError(t.At(t.Len()-1).Type())
				default:
					isErr = aIsError(tv)
				}
				if !isErr {
					continue
				}
			}
			e.sites = append(e.sites, &aSite{unit: u, call: call, delegate: g})
		}
	}
	if len(e.sites) == 0 {
		return nil
	}
	sort.SliceStable(e.sites, func(i, j int) bool { return e.sites[i].call.Pos() < e.sites[j].call.Pos() })
	for _, s := range e.sites {
		ord++
		s.ord = ord
	}
	return e
}

// aEnums returns the enumerators of all module packages, in package and source order.
func aEnums(c *Ctx) []*aEnum {
	var out []*aEnum
	for _, p := range c.SortedPkgs() {
		for _, fd := range c.FuncDecls(p) {
			if e := aFindEnum(c, p, fd); e != nil {
				out = append(out, e)
			}
		}
	}
	return out
}

// aResultVar finds the variable that receives the error result of the site, and the statement
// (a CFG node) that holds the call. kind: "return" (call is the operand of a return), "assign",
// "discard" (expression statement), "other".
func aResultVar(u *aUnit, call *ast.CallExpr) (node ast.Node, v types.Object, kind string) {
	chain := aChain(u.body, call)
	info := u.info()
	for i := len(chain) - 2; i >= 0; i-- {
		switch s := chain[i].(type) {
		case *ast.ReturnStmt:
			return s, nil, "return"
		case *ast.AssignStmt:
			if len(s.Rhs) == 1 && ast.Unparen(s.Rhs[0]) == ast.Expr(call) {
				l := s.Lhs[len(s.Lhs)-1]
				if o := aObjOf(info, l); o != nil && aIsError(o.Type()) {
					return s, o, "assign"
				}
				return s, nil, "store"
			}
			for j, r := range s.Rhs {
				if len(s.Lhs) == len(s.Rhs) && ast.Unparen(r) == ast.Expr(call) {
					if o := aObjOf(info, s.Lhs[j]); o != nil && aIsError(o.Type()) {
						return s, o, "assign"
					}
					return s, nil, "store"
				}
			}
			return s, nil, "other"
		case *ast.ExprStmt:
			if ast.Unparen(s.X) == ast.Expr(call) {
				return s, nil, "discard"
			}
			return s, nil, "other"
		case ast.Stmt:
			return s, nil, "other"
		}
	}
	return nil, nil, "other"
}

// aAnchoredC28 reports whether the package is one whose enumerators C28 speaks about.
func aAnchoredC28(p *packages.Package) bool { return aC28Packages[relPkg(p)] }

// Names the property itself anchors: "feature enumeration of any world", "modified-tag enumeration".
var aEnumNames = map[string]bool{"EachFeature": true, "EachModifiedFeature": true, "EachModifiedTag": true}

var (
	aScopeMu    sync.Mutex
	aScopeCache = map[*Ctx]*aScope{}
)

// aScope is the set of enumerators C28 speaks about, with the reason each one is in it.
type aScope struct {
	enums []*aEnum
	why   map[*ast.FuncDecl]string
	pools []aProdOb // PRODUCER's findings, computed once per run
}

// aScopeOf computes (once per loaded program) which enumerators are subjects of C28:
//   - a function of an anchored package (encoding, ingest, ingest/compact, osm) that has an
//     error-returning callback parameter and owns a producer/worker pool (the streaming readers:
//     Uint64Map.EachItem, MemoryFeatureSource.Read, eachIngestFeature, ModifiedTags.EachModifiedTag,
//     ReadPBFWithOptions, ParalleliseEmit, MergedFeatureSource.Read);
//   - a function or method of an anchored package named EachFeature, EachModifiedFeature or
//     EachModifiedTag (names anchored by the property) with such a parameter;
//   - every module function one of those hands its callback to by a static call (readOSMDataBlob,
//     readRawOSMDataBlob, readPrimitiveGroup, readDenseNodes, ...), transitively.
//
// All other functions with an error-returning callback are analysed too and reported as info.
func aScopeOf(c *Ctx) *aScope {
	aScopeMu.Lock()
	defer aScopeMu.Unlock()
	if s := aScopeCache[c]; s != nil {
		return s
	}
	s := &aScope{why: map[*ast.FuncDecl]string{}}
	s.enums = aEnums(c)
	byDecl := map[*ast.FuncDecl]*aEnum{}
	for _, e := range s.enums {
		byDecl[e.decl] = e
	}
	owners := map[*ast.FuncDecl]bool{}
	for _, p := range c.SortedPkgs() {
		for _, fd := range c.FuncDecls(p) {
			if !aStartsGoroutines(p.TypesInfo, fd) {
				continue
			}
			obs := aProducerPool(c, p, fd)
			if len(obs) > 0 {
				owners[fd] = true
			}
			s.pools = append(s.pools, obs...)
		}
	}
	var work []*aEnum
	for _, e := range s.enums {
		if !aAnchoredC28(e.pkg) {
			continue
		}
		switch {
		case owners[e.decl]:
			s.why[e.decl] = "owns a worker pool"
		case aEnumNames[e.decl.Name.Name]:
			s.why[e.decl] = "named " + e.decl.Name.Name
		default:
			continue
		}
		work = append(work, e)
	}
	for len(work) > 0 {
		e := work[0]
		work = work[1:]
		for _, st := range e.sites {
			if !st.delegate {
				continue
			}
			f := calleeFunc(st.unit.info(), st.call)
			if f == nil {
				continue
			}
			fd, _ := c.Decl(f)
			if d := byDecl[fd]; fd != nil && d != nil && s.why[fd] == "" {
				s.why[fd] = "is handed the callback by " + e.name
				work = append(work, d)
			}
		}
	}
	aScopeCache[c] = s
	return s
}
