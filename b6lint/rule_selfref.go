package main

import (
	"fmt"
	"go/ast"
	"go/token"
	"go/types"
	"sort"

	"golang.org/x/tools/go/packages"
)

// SELFREF (C14): a world type T (a struct whose pointer implements b6.World) is self-referential
// when a function builds a T (`w := &T{...}`, `T{...}`, `new(T)`) and then stores into one of its
// fields a value that is given the world itself: `w.f = g(..., w, ...)` or `w.f = &I{.., h: w}`
// (today: `w.index = newMutableFeatureIndex(w)`; the constructor g keeps its argument in
// I.h = mutableFeatureIndex.features). Wherever such a struct is copied into a local —
// `c := *x`, or a literal of T that carries `f: x.f` over — and the copy leaves the function
// (its address is taken, or it is returned, stored or passed on), the copy's back-reference must
// be re-seated to the copy on every path from the copy to a normal exit of the function.
//
// Accepted re-seating statements for copy c, back-reference field f and inner field h:
//
//	(i)   c.f = <expression that is given &c>            e.g. c.f = g(&c), c.f = &I{h: &c}
//	(ii)  c.f.h = &c                                     in-place re-seat of the copied holder
//	(iii) c.f = &i / c.f = i  where the local i has been given the copy before:
//	      `i.h = &c` earlier in the function, or i defined by a literal with `h: &c`
//
// (for a pointer copy `c := &T{f: x.f}` read c instead of &c). Anything else leaves the copy's
// f pointing at a holder whose h is still the original world: a violation with the offending path.
func init() {
	register(&Rule{
		Name:  "SELFREF",
		IR:    "cfg",
		Props: []string{"C14"},
		Floor: 1, // ingest.(*MutableOverlayWorld).Snapshot: copy := *m
		Doc: "where a world struct whose constructor stores a pointer to the world itself inside one of its fields (w.index = newMutableFeatureIndex(w)) is copied (copy := *m) " +
			"and the copy leaves the function, the copy's back-reference is re-seated to the copy on every path to the function's exit",
		Run: runSelfRef,
	})
}

type eBackRef struct {
	field   *types.Var   // f of T
	inner   *types.Var   // h of I (nil when unknown)
	holder  *types.Named // I
	builtBy string
	where   string
}

func runSelfRef(c *Ctx) []Obligation {
	ifs := eLoadIfaces(c)
	if !ifs.ok() {
		return []Obligation{{Key: "b6.World#1", Pos: "-", Status: Undecided, Detail: "interface b6.World not found"}}
	}
	// step 1: self-referential world types
	back := map[*types.Named][]*eBackRef{}
	for _, p := range c.SortedPkgs() {
		info := p.TypesInfo
		for _, fd := range c.FuncDecls(p) {
			ast.Inspect(fd.Body, func(n ast.Node) bool {
				as, ok := n.(*ast.AssignStmt)
				if !ok || as.Tok != token.ASSIGN || len(as.Lhs) != len(as.Rhs) {
					return true
				}
				for i, l := range as.Lhs {
					sel, ok := ast.Unparen(l).(*ast.SelectorExpr)
					if !ok {
						continue
					}
					wid, ok := ast.Unparen(sel.X).(*ast.Ident)
					if !ok {
						continue
					}
					wobj, _ := info.ObjectOf(wid).(*types.Var)
					if wobj == nil || wobj.IsField() {
						continue
					}
					named := namedOf(wobj.Type())
					if named == nil {
						continue
					}
					st, ok := named.Underlying().(*types.Struct)
					if !ok || !types.Implements(types.NewPointer(named), ifs.world) {
						continue
					}
					f := eFieldOf(info, l, wobj)
					if f == nil || eFieldIndex(st, f) < 0 {
						continue
					}
					// w is an object under construction
					d := eSingleDef(info, fd.Body, wobj)
					if d == nil || d.n != 1 || !eIsConstruction(info, d.rhs, named) {
						continue
					}
					_, isPtr := wobj.Type().Underlying().(*types.Pointer)
					pos, call := eSelfArg(info, as.Rhs[i], wobj, isPtr)
					if pos == nil {
						continue
					}
					br := &eBackRef{field: f, where: c.Position(as.Pos()), builtBy: nodeText(c.Fset, as.Rhs[i])}
					eResolveInner(c, info, br, as.Rhs[i], call, pos)
					dup := false
					for _, o := range back[named] {
						if o.field == f {
							dup = true
						}
					}
					if !dup {
						back[named] = append(back[named], br)
					}
				}
				return true
			})
		}
	}
	if len(back) == 0 {
		return nil
	}
	// step 2 and 3: copies
	var out []Obligation
	for _, p := range c.SortedPkgs() {
		info := p.TypesInfo
		for _, fd := range c.FuncDecls(p) {
			name := c.FuncName(p, fd)
			ord := 0
			for _, cp := range eCopySites(info, fd, back) {
				for _, br := range back[cp.named] {
					if cp.carried != nil && !cp.carried[br.field] {
						continue
					}
					ord++
					ob := Obligation{Key: fmt.Sprintf("%s#%d", name, ord), Pos: c.Position(cp.stmt.Pos())}
					ob.Status, ob.Detail, ob.Path = eSelfRefDecide(c, p, fd, cp, br)
					out = append(out, ob)
				}
			}
		}
	}
	return out
}

// eIsConstruction: &T{...}, T{...} or new(T).
func eIsConstruction(info *types.Info, e ast.Expr, named *types.Named) bool {
	e = ast.Unparen(e)
	if u, ok := e.(*ast.UnaryExpr); ok && u.Op == token.AND {
		e = ast.Unparen(u.X)
	}
	switch x := e.(type) {
	case *ast.CompositeLit:
		return namedOf(info.TypeOf(x)) == named
	case *ast.CallExpr:
		return isBuiltin(info, x, "new") && len(x.Args) == 1 && namedOf(info.TypeOf(x.Args[0])) == named
	}
	return false
}

// eSelfArg finds where expression e is given the object obj (obj when it is a pointer variable,
// &obj when it is a struct variable): as a call argument or as a composite literal element.
// It returns that occurrence and the innermost call it is an argument of (nil for a literal).
func eSelfArg(info *types.Info, e ast.Expr, obj types.Object, isPtr bool) (ast.Expr, *ast.CallExpr) {
	isSelf := func(x ast.Expr) bool {
		x = ast.Unparen(x)
		if isPtr {
			id, ok := x.(*ast.Ident)
			return ok && info.ObjectOf(id) == obj
		}
		u, ok := x.(*ast.UnaryExpr)
		if !ok || u.Op != token.AND {
			return false
		}
		id, ok := ast.Unparen(u.X).(*ast.Ident)
		return ok && info.ObjectOf(id) == obj
	}
	var found ast.Expr
	var in *ast.CallExpr
	ast.Inspect(e, func(n ast.Node) bool {
		if found != nil {
			return false
		}
		switch x := n.(type) {
		case *ast.CallExpr:
			for _, a := range x.Args {
				if isSelf(a) {
					found, in = a, x
				}
			}
		case *ast.CompositeLit:
			for _, el := range x.Elts {
				v := el
				if kv, ok := el.(*ast.KeyValueExpr); ok {
					v = kv.Value
				}
				if isSelf(v) {
					found = v
				}
			}
		}
		return true
	})
	return found, in
}

// eResolveInner finds the field of the holder in which the world pointer ends up.
func eResolveInner(c *Ctx, info *types.Info, br *eBackRef, rhs ast.Expr, call *ast.CallExpr, self ast.Expr) {
	fromLiteral := func(info *types.Info, root ast.Node, isVal func(ast.Expr) bool) {
		ast.Inspect(root, func(n ast.Node) bool {
			cl, ok := n.(*ast.CompositeLit)
			if !ok {
				return true
			}
			named := namedOf(info.TypeOf(cl))
			if named == nil {
				return true
			}
			st, ok := named.Underlying().(*types.Struct)
			if !ok {
				return true
			}
			for i, el := range cl.Elts {
				if kv, ok := el.(*ast.KeyValueExpr); ok {
					if k, ok := kv.Key.(*ast.Ident); ok && isVal(kv.Value) {
						for j := 0; j < st.NumFields(); j++ {
							if st.Field(j).Name() == k.Name {
								br.inner, br.holder = st.Field(j), named
							}
						}
					}
				} else if isVal(el) && i < st.NumFields() {
					br.inner, br.holder = st.Field(i), named
				}
			}
			return true
		})
	}
	if call == nil {
		fromLiteral(info, rhs, func(e ast.Expr) bool { return ast.Unparen(e) == ast.Unparen(self) })
		return
	}
	g := calleeFunc(info, call)
	if g == nil {
		return
	}
	gd, gp := c.Decl(g)
	if gd == nil || gd.Body == nil {
		return
	}
	idx := -1
	for i, a := range call.Args {
		if ast.Unparen(a) == ast.Unparen(self) {
			idx = i
		}
	}
	var params []types.Object
	for _, fl := range gd.Type.Params.List {
		for _, nm := range fl.Names {
			params = append(params, gp.TypesInfo.Defs[nm])
		}
	}
	if idx < 0 || idx >= len(params) {
		return
	}
	prm := params[idx]
	isPrm := func(e ast.Expr) bool {
		id, ok := ast.Unparen(e).(*ast.Ident)
		return ok && gp.TypesInfo.ObjectOf(id) == prm
	}
	fromLiteral(gp.TypesInfo, gd.Body, isPrm)
	if br.inner == nil {
		ast.Inspect(gd.Body, func(n ast.Node) bool {
			as, ok := n.(*ast.AssignStmt)
			if !ok || len(as.Lhs) != len(as.Rhs) {
				return true
			}
			for i, r := range as.Rhs {
				if !isPrm(r) {
					continue
				}
				if sel, ok := ast.Unparen(as.Lhs[i]).(*ast.SelectorExpr); ok {
					if s := gp.TypesInfo.Selections[sel]; s != nil && s.Kind() == types.FieldVal {
						br.inner, _ = s.Obj().(*types.Var)
						br.holder = namedOf(gp.TypesInfo.TypeOf(sel.X))
					}
				}
			}
			return true
		})
	}
}

type eCopySite struct {
	stmt    ast.Node
	named   *types.Named
	obj     types.Object // the local holding the copy (nil: anonymous literal)
	isPtr   bool
	carried map[*types.Var]bool // for literals: which back-reference fields are carried over (nil: all)
	what    string
}

func eCopySites(info *types.Info, fd *ast.FuncDecl, back map[*types.Named][]*eBackRef) []eCopySite {
	var sites []eCopySite
	selfType := func(t types.Type) *types.Named {
		n := namedOf(t)
		if n != nil && back[n] != nil {
			return n
		}
		return nil
	}
	// literal of T that carries a back-reference field of another T over
	carriedBy := func(e ast.Expr) (*types.Named, map[*types.Var]bool) {
		e = ast.Unparen(e)
		if u, ok := e.(*ast.UnaryExpr); ok && u.Op == token.AND {
			e = ast.Unparen(u.X)
		}
		cl, ok := e.(*ast.CompositeLit)
		if !ok {
			return nil, nil
		}
		named := selfType(info.TypeOf(cl))
		if named == nil {
			return nil, nil
		}
		carried := map[*types.Var]bool{}
		for _, el := range cl.Elts {
			kv, ok := el.(*ast.KeyValueExpr)
			if !ok {
				continue
			}
			k, ok := kv.Key.(*ast.Ident)
			if !ok {
				continue
			}
			for _, br := range back[named] {
				if br.field.Name() != k.Name {
					continue
				}
				if sel, ok := eStrip(kv.Value).(*ast.SelectorExpr); ok {
					if s := info.Selections[sel]; s != nil && s.Obj() == types.Object(br.field) {
						carried[br.field] = true
					}
				}
			}
		}
		if len(carried) == 0 {
			return nil, nil
		}
		return named, carried
	}
	one := func(stmt ast.Node, l ast.Expr, r ast.Expr) {
		id, isIdent := ast.Unparen(l).(*ast.Ident)
		var obj types.Object
		if isIdent && id.Name != "_" {
			obj = info.ObjectOf(id)
		}
		if st, ok := ast.Unparen(r).(*ast.StarExpr); ok {
			if named := selfType(info.TypeOf(r)); named != nil {
				if _, isPtr := info.TypeOf(st.X).Underlying().(*types.Pointer); isPtr && obj != nil {
					if _, isStruct := obj.Type().Underlying().(*types.Struct); isStruct {
						sites = append(sites, eCopySite{stmt: stmt, named: named, obj: obj, what: types.ExprString(l) + " := " + types.ExprString(r)})
					}
				}
			}
			return
		}
		if named, carried := carriedBy(r); named != nil {
			s := eCopySite{stmt: stmt, named: named, carried: carried, what: "literal " + types.ExprString(l) + " = " + named.Obj().Name() + "{...}"}
			if obj != nil {
				if v, ok := obj.(*types.Var); ok && !v.IsField() && namedOf(v.Type()) == named {
					s.obj = obj
					_, s.isPtr = v.Type().Underlying().(*types.Pointer)
				}
			}
			sites = append(sites, s)
		}
	}
	ast.Inspect(fd.Body, func(n ast.Node) bool {
		switch x := n.(type) {
		case *ast.AssignStmt:
			if len(x.Lhs) == len(x.Rhs) {
				for i := range x.Lhs {
					one(x, x.Lhs[i], x.Rhs[i])
				}
			}
		case *ast.ValueSpec:
			if len(x.Names) == len(x.Values) {
				for i := range x.Names {
					one(x, x.Names[i], x.Values[i])
				}
			}
		case *ast.ReturnStmt:
			for _, r := range x.Results {
				if named, carried := carriedBy(r); named != nil {
					sites = append(sites, eCopySite{stmt: x, named: named, carried: carried, what: "returned literal " + named.Obj().Name() + "{...}"})
				}
			}
		}
		return true
	})
	sort.SliceStable(sites, func(i, j int) bool { return sites[i].stmt.Pos() < sites[j].stmt.Pos() })
	return sites
}

func eSelfRefDecide(c *Ctx, p *packages.Package, fd *ast.FuncDecl, cp eCopySite, br *eBackRef) (string, string, []string) {
	info := p.TypesInfo
	holder := "its holder"
	if br.holder != nil && br.inner != nil {
		holder = br.holder.Obj().Name() + "." + br.inner.Name()
	}
	origin := fmt.Sprintf("field %s is built by %s at %s with a pointer to the world itself (kept in %s)", br.field.Name(), br.builtBy, br.where, holder)
	if cp.obj == nil {
		return Undecided, fmt.Sprintf("%s carries %s over into a world that is not bound to a local variable, so it cannot be re-seated; %s", cp.what, br.field.Name(), origin), nil
	}
	body := eInnermostBody(fd, cp.stmt)
	isSelf := func(x ast.Expr) bool {
		x = ast.Unparen(x)
		if cp.isPtr {
			id, ok := x.(*ast.Ident)
			return ok && info.ObjectOf(id) == cp.obj
		}
		u, ok := x.(*ast.UnaryExpr)
		if !ok || u.Op != token.AND {
			return false
		}
		id, ok := ast.Unparen(u.X).(*ast.Ident)
		return ok && info.ObjectOf(id) == cp.obj
	}
	// does the copy leave the function?
	published := false
	ast.Inspect(body, func(n ast.Node) bool {
		switch x := n.(type) {
		case *ast.UnaryExpr:
			if isSelf(x) {
				published = true
			}
		case *ast.ReturnStmt:
			for _, r := range x.Results {
				if id, ok := ast.Unparen(r).(*ast.Ident); ok && info.ObjectOf(id) == cp.obj {
					published = true
				}
			}
		case *ast.CallExpr:
			for _, a := range x.Args {
				if id, ok := ast.Unparen(a).(*ast.Ident); ok && info.ObjectOf(id) == cp.obj {
					published = true
				}
			}
		case *ast.AssignStmt:
			for _, r := range x.Rhs {
				if id, ok := ast.Unparen(r).(*ast.Ident); ok && info.ObjectOf(id) == cp.obj && n != cp.stmt {
					published = true
				}
			}
		case *ast.KeyValueExpr:
			if id, ok := ast.Unparen(x.Value).(*ast.Ident); ok && info.ObjectOf(id) == cp.obj {
				published = true
			}
		}
		return true
	})
	if !published {
		return OK, fmt.Sprintf("%s: the copy never leaves %s", cp.what, fd.Name.Name), nil
	}
	// a local holder that has been given the copy
	seatedLocal := func(e ast.Expr, before token.Pos) bool {
		e = ast.Unparen(e)
		if u, ok := e.(*ast.UnaryExpr); ok && u.Op == token.AND {
			e = ast.Unparen(u.X)
		}
		id, ok := e.(*ast.Ident)
		if !ok || br.inner == nil {
			return false
		}
		iobj := info.ObjectOf(id)
		if iobj == nil {
			return false
		}
		seated := false
		ast.Inspect(body, func(n ast.Node) bool {
			switch x := n.(type) {
			case *ast.AssignStmt:
				if x.Pos() >= before || len(x.Lhs) != len(x.Rhs) {
					return true
				}
				for k, l := range x.Lhs {
					// i.h = &c
					if f := eFieldOf(info, l, iobj); f == br.inner {
						if _, isSel := eStrip(l).(*ast.SelectorExpr); isSel {
							seated = isSelf(x.Rhs[k])
						}
					}
					// i := I{h: &c} / &I{h: &c}
					if lid, ok := l.(*ast.Ident); ok && info.ObjectOf(lid) == iobj {
						seated = false
						ast.Inspect(x.Rhs[k], func(m ast.Node) bool {
							if kv, ok := m.(*ast.KeyValueExpr); ok {
								if kid, ok := kv.Key.(*ast.Ident); ok && kid.Name == br.inner.Name() && isSelf(kv.Value) {
									seated = true
								}
							}
							return true
						})
					}
				}
			}
			return true
		})
		return seated
	}
	isReseat := func(n ast.Node) bool {
		as, ok := n.(*ast.AssignStmt)
		if !ok || len(as.Lhs) != len(as.Rhs) {
			return false
		}
		for k, l := range as.Lhs {
			sel, ok := eStrip(l).(*ast.SelectorExpr)
			if !ok {
				continue
			}
			// (i), (iii): c.f = ...
			if f := eFieldOf(info, l, cp.obj); f == br.field {
				if pos, _ := eSelfArg(info, as.Rhs[k], cp.obj, cp.isPtr); pos != nil {
					return true
				}
				if seatedLocal(as.Rhs[k], as.Pos()) {
					return true
				}
				continue
			}
			// (ii): c.f.h = &c
			if br.inner != nil {
				if s := info.Selections[sel]; s != nil && s.Obj() == types.Object(br.inner) {
					if f := eFieldOf(info, sel.X, cp.obj); f == br.field && isSelf(as.Rhs[k]) {
						return true
					}
				}
			}
		}
		return false
	}
	g := newCFG(info, body)
	loc, ok := findNode(g, cp.stmt)
	if !ok {
		return Undecided, "copy statement not found in the control-flow graph", nil
	}
	ps := &pathSearch{c: c, info: info, stop: isReseat, exitIsBad: true}
	if w := ps.run(loc); w != nil {
		self := "&" + cp.obj.Name()
		if cp.isPtr {
			self = cp.obj.Name()
		}
		return Violation, fmt.Sprintf("%s copies the world and the copy leaves %s, but %s.%s is not re-seated to %s on every path to the exit: %s, so the copy's %s still refers to the original world",
			cp.what, fd.Name.Name, cp.obj.Name(), br.field.Name(), self, origin, br.field.Name()), w
	}
	return OK, fmt.Sprintf("%s: %s.%s is re-seated to the copy on every path to the exit (%s)", cp.what, cp.obj.Name(), br.field.Name(), origin), nil
}
