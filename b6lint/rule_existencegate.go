package main

import (
	"fmt"
	"go/ast"
	"go/token"
	"go/types"
	"strings"

	"golang.org/x/tools/go/cfg"
	"golang.org/x/tools/go/packages"
)

// EXISTENCE-GATE (C26, C12): a by-ID mutator of a world changes nothing for an id that does
// not exist, and says so.
//
// Instances (by type): every implementation of a mutating method of ingest.MutableWorld that
// takes a b6.FeatureID parameter (AddTag, RemoveTag) on a type implementing the interface; key
// pkg.(Recv).Method#gate.
//
// Write effects on the receiver's own state are those of COMMIT-POINT (same own-state and
// callee-summary machinery, rule_commitpoint.go). A write statement is keyed by the id when it
// mentions the id parameter or a local variable that depends on it (assigned from an expression
// mentioning the id or another such variable: f := m.features.FindMutableFeatureByID(id),
// base := …FindFeatureByID(id), f = NewFeatureFromWorld(base), …). Writes that do not depend on
// the id are not in the slot.
//
// Existence tests (go/cfg branch conditions; `!E` swaps the outcomes, `A && B` implies on its true
// edge what either operand implies when true, `A || B` on its false edge what either implies
// when false):
//   - `x != nil` / `x == nil`, where x was assigned by the statement directly before the test (or
//     in the if statement's init) from a lookup of the id: a call that has the id parameter as an
//     argument, is made on the receiver's own state (m.features.FindMutableFeatureByID(id)) or on
//     an interface-typed field of the receiver (the base world: m.base.FindFeatureByID(id)), and
//     returns one nil-able value; the lookup may be wrapped in calls that map nil to nil (the
//     callee's first statement is `if p == nil { return nil }`: m.tags.WrapFeature(…));
//   - `ok` / `!ok` of a comma-ok index of an own-state map with the id as key;
//   - a bool-returning call of that kind used as the condition (m.base.HasFeatureWithID(id)).
//
// Obligation: every write keyed by the id is dominated by the success edge of an existence
// test (the edge has the test as its only predecessor). A test in the world's own feature map
// gates the writes of its own branch; a test in the base is a valid gate only if its failing
// edge leaves the function with a non-nil error on every path (`if base == nil { return
// fmt.Errorf(…) }`), so that a missing feature is reported, not silently skipped.
//
// Accepted idioms: `if f := lookup; f != nil { … } else { base := …; if base == nil { return err } … }`
// (both worlds today), the early-return form, writes nested in further conditions below the gate
// (`if tag := base.Get(key); tag.IsValid() { … }`). Not decided: that the success branch for an
// own-map hit reports failures of its own; BasicMutableWorld.RemoveTag returns nil for a missing
// id (nothing is written, so the gate holds).
func init() {
	register(&Rule{
		Name:  "EXISTENCE-GATE",
		IR:    "cfg",
		Props: []string{"C26", "C12"},
		// AddTag and RemoveTag of ingest.BasicMutableWorld and ingest.MutableOverlayWorld (ReadOnlyWorld's write nothing)
		Floor: 4,
		Doc: "in every by-ID mutator (AddTag, RemoveTag) of an ingest.MutableWorld implementation, every statement with a write effect on the receiver's own state that depends on the id parameter " +
			"is dominated by the success edge of an existence test of that id — a lookup in the world's own feature map, or a lookup in the base whose failing edge returns a non-nil error",
		Run: runExistenceGate,
	})
}

func runExistenceGate(c *Ctx) []Obligation {
	t, err := iLoadTypes(c)
	if err != nil {
		return iAnchorFailure(err)
	}
	c.BuildSSA()
	wa := &iWriteAnalysis{c: c, memo: map[string][]iWrite{}, busy: map[string]bool{}}
	var out []Obligation
	for _, p := range c.SortedPkgs() {
		for _, fd := range c.FuncDecls(p) {
			obj, _ := p.TypesInfo.Defs[fd.Name].(*types.Func)
			if obj == nil || !t.iIsMutator(obj) {
				continue
			}
			if _, isIface := iRecvType(obj).Underlying().(*types.Interface); isIface {
				continue
			}
			// the id parameter
			var id *types.Var
			sig := obj.Type().(*types.Signature)
			for i := 0; i < sig.Params().Len(); i++ {
				if isNamed(sig.Params().At(i).Type(), ModulePath, "FeatureID") {
					id = sig.Params().At(i)
				}
			}
			if id == nil {
				continue
			}
			out = append(out, iExistenceGateFunc(c, wa, p, fd, obj, id))
		}
	}
	return out
}

type iGateTest struct {
	cond    ast.Expr
	block   *cfg.Block
	success *cfg.Block
	failing *cfg.Block
	where   string // "own" or "base"
	what    string
}

func iExistenceGateFunc(c *Ctx, wa *iWriteAnalysis, p *packages.Package, fd *ast.FuncDecl, obj *types.Func, id *types.Var) Obligation {
	info := p.TypesInfo
	ob := Obligation{Key: c.FuncName(p, fd) + "#gate", Pos: c.Position(fd.Pos())}
	fn := c.SSAFunc(obj)
	if fn == nil || len(fn.Params) == 0 || fd.Recv == nil || len(fd.Recv.List) == 0 || len(fd.Recv.List[0].Names) == 0 {
		ob.Status, ob.Detail = OK, "the method has an unnamed receiver: it cannot touch the world's state"
		return ob
	}
	recv := info.ObjectOf(fd.Recv.List[0].Names[0])
	isID := func(e ast.Expr) bool {
		x, ok := ast.Unparen(e).(*ast.Ident)
		return ok && info.ObjectOf(x) == types.Object(id)
	}
	// rootedAt: the expression is the receiver or a selection/index/dereference chain on it;
	// viaIface reports whether the chain passes through an interface-typed field (the base world)
	var rooted func(e ast.Expr) (ok, viaIface bool)
	rooted = func(e ast.Expr) (bool, bool) {
		switch x := ast.Unparen(e).(type) {
		case *ast.Ident:
			return info.ObjectOf(x) == recv, false
		case *ast.SelectorExpr:
			ok, via := rooted(x.X)
			if !ok {
				return false, false
			}
			if tv := info.TypeOf(x); tv != nil {
				if _, isI := tv.Underlying().(*types.Interface); isI {
					via = true
				}
			}
			return true, via
		case *ast.StarExpr:
			return rooted(x.X)
		case *ast.IndexExpr:
			return rooted(x.X)
		}
		return false, false
	}
	// nilToNil: the callee's first statement is `if p == nil { return nil }` for parameter index i
	nilToNil := func(f *types.Func, argIdx int) bool {
		decl, dp := c.Decl(f)
		if decl == nil || decl.Body == nil || len(decl.Body.List) == 0 {
			return false
		}
		ifs, ok := decl.Body.List[0].(*ast.IfStmt)
		if !ok || ifs.Init != nil || len(ifs.Body.List) != 1 {
			return false
		}
		be, ok := ast.Unparen(ifs.Cond).(*ast.BinaryExpr)
		if !ok || be.Op != token.EQL {
			return false
		}
		pid, ok := ast.Unparen(be.X).(*ast.Ident)
		nid, ok2 := ast.Unparen(be.Y).(*ast.Ident)
		if !ok || !ok2 || dp.TypesInfo.ObjectOf(nid) != types.Universe.Lookup("nil") {
			return false
		}
		sig := f.Type().(*types.Signature)
		if argIdx >= sig.Params().Len() || dp.TypesInfo.ObjectOf(pid) != types.Object(sig.Params().At(argIdx)) {
			return false
		}
		ret, ok := ifs.Body.List[0].(*ast.ReturnStmt)
		if !ok || len(ret.Results) != 1 {
			return false
		}
		rid, ok := ast.Unparen(ret.Results[0]).(*ast.Ident)
		return ok && dp.TypesInfo.ObjectOf(rid) == types.Universe.Lookup("nil")
	}
	// lookup classifies an expression as a lookup of the id: "own", "base" or "".
	var lookup func(e ast.Expr) string
	lookup = func(e ast.Expr) string {
		switch x := ast.Unparen(e).(type) {
		case *ast.CallExpr:
			sel, ok := ast.Unparen(x.Fun).(*ast.SelectorExpr)
			if !ok {
				return ""
			}
			hasID := false
			for _, a := range x.Args {
				if isID(a) {
					hasID = true
				}
			}
			if ok, via := rooted(sel.X); ok && hasID {
				if via {
					return "base"
				}
				return "own"
			}
			// a nil-preserving wrapper around a lookup
			if f := calleeFunc(info, x); f != nil {
				for i, a := range x.Args {
					if w := lookup(a); w != "" && nilToNil(f.Origin(), i) {
						return w
					}
				}
			}
		case *ast.IndexExpr:
			if ok, via := rooted(x.X); ok && !via && isID(x.Index) {
				if _, isMap := info.TypeOf(x.X).Underlying().(*types.Map); isMap {
					return "own"
				}
			}
		}
		return ""
	}

	g := newCFG(info, fd.Body)
	dom, preds := iDominators(g)
	// the statement that assigns each tested variable: directly before the test in source
	// (if-init, or the previous statement of the same block list)
	defBefore := map[*ast.IfStmt]*ast.AssignStmt{}
	ast.Inspect(fd.Body, func(n ast.Node) bool {
		switch x := n.(type) {
		case *ast.IfStmt:
			if as, ok := x.Init.(*ast.AssignStmt); ok {
				defBefore[x] = as
			}
		case *ast.BlockStmt:
			for i, s := range x.List {
				if ifs, ok := s.(*ast.IfStmt); ok && ifs.Init == nil && i > 0 {
					if as, ok := x.List[i-1].(*ast.AssignStmt); ok {
						defBefore[ifs] = as
					}
				}
			}
		}
		return true
	})
	ifOf := map[ast.Expr]*ast.IfStmt{} // leaf condition → its if statement
	ast.Inspect(fd.Body, func(n ast.Node) bool {
		if ifs, ok := n.(*ast.IfStmt); ok {
			ast.Inspect(ifs.Cond, func(m ast.Node) bool {
				if e, ok := m.(ast.Expr); ok {
					if _, seen := ifOf[e]; !seen {
						ifOf[e] = ifs
					}
				}
				return true
			})
		}
		return true
	})
	definedAs := func(cond ast.Expr, o types.Object, commaOK bool) string {
		ifs := ifOf[cond]
		if ifs == nil {
			return ""
		}
		as := defBefore[ifs]
		if as == nil || len(as.Rhs) != 1 {
			return ""
		}
		idx := 0
		if commaOK {
			idx = 1
		}
		if len(as.Lhs) <= idx {
			return ""
		}
		lid, ok := as.Lhs[idx].(*ast.Ident)
		if !ok || info.ObjectOf(lid) != o {
			return ""
		}
		if commaOK {
			if _, isIx := ast.Unparen(as.Rhs[0]).(*ast.IndexExpr); !isIx {
				return ""
			}
		} else if len(as.Lhs) != 1 {
			if _, isIx := ast.Unparen(as.Rhs[0]).(*ast.IndexExpr); !isIx {
				return ""
			}
		}
		return lookup(as.Rhs[0])
	}
	var tests []iGateTest
	for _, b := range g.Blocks {
		if !b.Live || len(b.Succs) != 2 || len(b.Nodes) == 0 {
			continue
		}
		cond, ok := b.Nodes[len(b.Nodes)-1].(ast.Expr)
		if !ok {
			continue
		}
		// exists(e) tells which kind of existence fact ("own"/"base") the condition implies when
		// it is true and when it is false: !E swaps, A && B implies on true what either implies,
		// A || B implies on false what either implies.
		var exists func(e ast.Expr) (onTrue, onFalse string)
		exists = func(e ast.Expr) (string, string) {
			switch x := ast.Unparen(e).(type) {
			case *ast.UnaryExpr:
				if x.Op == token.NOT {
					t, f := exists(x.X)
					return f, t
				}
			case *ast.BinaryExpr:
				switch x.Op {
				case token.LAND:
					t1, _ := exists(x.X)
					t2, _ := exists(x.Y)
					if t1 != "" {
						return t1, ""
					}
					return t2, ""
				case token.LOR:
					_, f1 := exists(x.X)
					_, f2 := exists(x.Y)
					if f1 != "" {
						return "", f1
					}
					return "", f2
				case token.NEQ, token.EQL:
					v, n := x.X, x.Y
					if nid, ok := ast.Unparen(v).(*ast.Ident); ok && info.ObjectOf(nid) == types.Universe.Lookup("nil") {
						v, n = n, v
					}
					nid, ok := ast.Unparen(n).(*ast.Ident)
					vid, ok2 := ast.Unparen(v).(*ast.Ident)
					if !ok || !ok2 || info.ObjectOf(nid) != types.Universe.Lookup("nil") {
						return "", ""
					}
					w := definedAs(cond, info.ObjectOf(vid), false)
					if x.Op == token.NEQ {
						return w, ""
					}
					return "", w
				}
			case *ast.Ident:
				return definedAs(cond, info.ObjectOf(x), true), ""
			case *ast.CallExpr:
				if tv := info.TypeOf(x); tv != nil && types.Identical(tv.Underlying(), types.Typ[types.Bool]) {
					return lookup(x), ""
				}
			}
			return "", ""
		}
		onTrue, onFalse := exists(cond)
		where, successTrue := onTrue, true
		if where == "" {
			where, successTrue = onFalse, false
		}
		if where == "" {
			continue
		}
		outcome := "true"
		if !successTrue {
			outcome = "false"
		}
		tst := iGateTest{cond: cond, block: b, success: b.Succs[0], failing: b.Succs[1], where: where,
			what: fmt.Sprintf("the %s outcome of %s at %s (lookup in the %s)", outcome, types.ExprString(cond), c.Position(cond.Pos()), map[string]string{"own": "world's own state", "base": "base world"}[where])}
		if !successTrue {
			tst.success, tst.failing = tst.failing, tst.success
		}
		tests = append(tests, tst)
	}

	// a base test is a valid gate only if its failing edge always leaves with a non-nil error
	errT := types.Universe.Lookup("error").Type()
	sig := obj.Type().(*types.Signature)
	errIdx := -1
	for i := 0; i < sig.Results().Len(); i++ {
		if types.Identical(sig.Results().At(i).Type(), errT) {
			errIdx = i
		}
	}
	rejects := func(from *cfg.Block) (bool, string) {
		seen := map[*cfg.Block]bool{from: true}
		work := []*cfg.Block{from}
		for len(work) > 0 {
			b := work[0]
			work = work[1:]
			returned := false
			for _, n := range b.Nodes {
				if rs, ok := n.(*ast.ReturnStmt); ok {
					returned = true
					if errIdx < 0 || len(rs.Results) != sig.Results().Len() {
						if len(rs.Results) == 0 || errIdx < 0 {
							return false, "it reaches " + c.Position(rs.Pos()) + ", which returns no error"
						}
						continue // return f(): taken as an error path
					}
					if nid, ok := ast.Unparen(rs.Results[errIdx]).(*ast.Ident); ok && info.ObjectOf(nid) == types.Universe.Lookup("nil") {
						return false, "it reaches " + c.Position(rs.Pos()) + ", which returns nil"
					}
				}
			}
			if returned {
				continue
			}
			if len(b.Succs) == 0 && isExitBlock(info, b) {
				return false, "it falls off the end of the function"
			}
			for _, s := range b.Succs {
				if !seen[s] {
					seen[s] = true
					work = append(work, s)
				}
			}
		}
		return true, ""
	}

	// variables that depend on the id
	dep := map[types.Object]bool{id: true}
	mentions := func(n ast.Node) bool {
		found := false
		ast.Inspect(n, func(x ast.Node) bool {
			if i, ok := x.(*ast.Ident); ok && dep[info.ObjectOf(i)] {
				found = true
			}
			return !found
		})
		return found
	}
	for changed := true; changed; {
		changed = false
		ast.Inspect(fd.Body, func(n ast.Node) bool {
			as, ok := n.(*ast.AssignStmt)
			if !ok {
				return true
			}
			any := false
			for _, r := range as.Rhs {
				if mentions(r) {
					any = true
				}
			}
			if any {
				for _, l := range as.Lhs {
					if lid, ok := l.(*ast.Ident); ok && lid.Name != "_" {
						if o := info.ObjectOf(lid); o != nil && !dep[o] {
							dep[o] = true
							changed = true
						}
					}
				}
			}
			return true
		})
	}

	// the writes
	writes := wa.writes(fn, fn.Params[0], nil, iCommitDepth)
	var gated, listing []string
	seenNode := map[ast.Node]bool{}
	nKeyed := 0
	for _, w := range writes {
		loc, ok := iFindNodeAt(g, w.pos)
		if !ok {
			continue
		}
		node := loc.b.Nodes[loc.i]
		if seenNode[node] {
			continue
		}
		seenNode[node] = true
		if !mentions(node) {
			listing = append(listing, fmt.Sprintf("%s %s: does not depend on %s", c.Position(node.Pos()), nodeText(c.Fset, node), id.Name()))
			continue
		}
		nKeyed++
		var by *iGateTest
		var invalid []string
		for i := range tests {
			tst := &tests[i]
			if len(preds[tst.success]) != 1 || !dom[loc.b][tst.success] {
				continue
			}
			if tst.where == "base" {
				if ok, why := rejects(tst.failing); !ok {
					invalid = append(invalid, fmt.Sprintf("%s succeeded, but its failing edge does not report the missing feature: %s", tst.what, why))
					continue
				}
			}
			by = tst
			break
		}
		if by == nil {
			ob.Status = Violation
			ob.Pos = c.Position(node.Pos())
			ob.Detail = fmt.Sprintf("%s at %s changes the world's own state for %s (%s) without a successful existence test of %s dominating it: for an id that exists in neither the world nor its base the change is recorded and reported as success",
				nodeText(c.Fset, node), c.Position(node.Pos()), id.Name(), w.why, id.Name())
			if len(invalid) > 0 {
				ob.Detail += "; " + invalid[0]
			}
			for _, tst := range tests {
				ob.Path = append(ob.Path, "existence test: "+tst.what)
			}
			ob.Path = append(ob.Path, gated...)
			return ob
		}
		gated = append(gated, fmt.Sprintf("%s %s: gated by %s", c.Position(node.Pos()), nodeText(c.Fset, node), by.what))
	}
	ob.Status = OK
	switch {
	case nKeyed == 0:
		ob.Detail = fmt.Sprintf("no write effect on the receiver's own state depends on %s", id.Name())
	default:
		ob.Detail = fmt.Sprintf("each of the %d statements that change the receiver's own state for %s is dominated by the success edge of an existence test: %s", nKeyed, id.Name(), strings.Join(gated, "; "))
	}
	ob.Path = listing
	return ob
}
