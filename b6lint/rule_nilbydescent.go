package main

import (
	"fmt"
	"go/ast"
	"go/token"
	"go/types"
)

// NIL-BY-DESCENT (C07): deleting a tree node with two children splices its in-order successor into
// its place. The successor is found by descending one child field until it is nil
// (`for n.left != nil { n = n.left }`), so that field of the result is nil by construction, and the
// subtree that has to be kept when the successor is unlinked hangs on the *other* child. Reading
// the field the descent ran out of (`replaceInGrandparent(next, next.left)`) compiles, passes every
// test in which the successor is a leaf, and drops the successor's other subtree otherwise.
//
// Discovery, by shape (whole module): a descent helper is a function whose results are all one
// pointer parameter or local n, after a loop `for n.F != nil { n = n.F }`. Subjects: the variables
// bound to the result of a descent helper. Obligation: between the binding and the first assignment
// to v.F (in source order within the function), v.F is not read: it is nil there, and a read of it
// as a value stands for the node's other subtree.
func init() {
	register(&Rule{
		Name:  "NIL-BY-DESCENT",
		IR:    "ast",
		Props: []string{"C07"},
		Floor: 1,
		Doc:   "the child field that a descent helper followed until it was nil (findMinimum follows left) is not read from the helper's result before it is assigned: it is nil by construction, and the subtree to keep when the successor is unlinked is the other child",
		Run:   runNilByDescent,
	})
}

func runNilByDescent(c *Ctx) []Obligation {
	var out []Obligation
	for _, p := range c.SortedPkgs() {
		info := p.TypesInfo
		helpers := map[*types.Func]*types.Var{} // helper -> field followed
		for _, fd := range c.FuncDecls(p) {
			obj, _ := info.Defs[fd.Name].(*types.Func)
			if obj == nil || fd.Body == nil {
				continue
			}
			sig := obj.Type().(*types.Signature)
			if sig.Results().Len() != 1 {
				continue
			}
			if _, ok := sig.Results().At(0).Type().(*types.Pointer); !ok {
				continue
			}
			// find a loop `for n.F != nil { n = n.F }`
			var n types.Object
			var field *types.Var
			ast.Inspect(fd.Body, func(m ast.Node) bool {
				fs, ok := m.(*ast.ForStmt)
				if !ok || fs.Init != nil || fs.Post != nil || fs.Cond == nil || len(fs.Body.List) != 1 {
					return true
				}
				be, ok := ast.Unparen(fs.Cond).(*ast.BinaryExpr)
				if !ok || be.Op.String() != "!=" {
					return true
				}
				if id, ok := ast.Unparen(be.Y).(*ast.Ident); !ok || id.Name != "nil" {
					return true
				}
				sel, ok := ast.Unparen(be.X).(*ast.SelectorExpr)
				if !ok {
					return true
				}
				id, ok := ast.Unparen(sel.X).(*ast.Ident)
				if !ok {
					return true
				}
				as, ok := fs.Body.List[0].(*ast.AssignStmt)
				if !ok || len(as.Lhs) != 1 || len(as.Rhs) != 1 {
					return true
				}
				lid, ok := as.Lhs[0].(*ast.Ident)
				if !ok || info.Uses[lid] != info.Uses[id] || !sameExpr(info, ast.Unparen(as.Rhs[0]), sel) {
					return true
				}
				if s := info.Selections[sel]; s != nil {
					n = info.Uses[id]
					field, _ = s.Obj().(*types.Var)
				}
				return true
			})
			if n == nil || field == nil {
				continue
			}
			// every non-nil return returns n
			okAll, some := true, false
			ast.Inspect(fd.Body, func(m ast.Node) bool {
				if _, isLit := m.(*ast.FuncLit); isLit {
					return false
				}
				ret, ok := m.(*ast.ReturnStmt)
				if !ok || len(ret.Results) != 1 {
					return true
				}
				if id, ok := ast.Unparen(ret.Results[0]).(*ast.Ident); ok {
					if id.Name == "nil" {
						return true
					}
					if info.Uses[id] == n {
						some = true
						return true
					}
				}
				okAll = false
				return true
			})
			if okAll && some {
				helpers[obj] = field
			}
		}
		if len(helpers) == 0 {
			continue
		}
		for _, fd := range c.FuncDecls(p) {
			if fd.Body == nil {
				continue
			}
			name := c.FuncName(p, fd)
			ord := 0
			ast.Inspect(fd.Body, func(m ast.Node) bool {
				as, ok := m.(*ast.AssignStmt)
				if !ok || len(as.Lhs) != 1 || len(as.Rhs) != 1 {
					return true
				}
				call, ok := ast.Unparen(as.Rhs[0]).(*ast.CallExpr)
				if !ok {
					return true
				}
				f := calleeFunc(info, call)
				field, isHelper := helpers[f]
				if !isHelper {
					return true
				}
				id, ok := as.Lhs[0].(*ast.Ident)
				if !ok {
					return true
				}
				v := info.Defs[id]
				if v == nil {
					v = info.Uses[id]
				}
				if v == nil {
					return true
				}
				ord++
				ob := Obligation{Key: fmt.Sprintf("%s#%d", name, ord), Pos: c.Position(as.Pos()), Status: OK,
					Detail: fmt.Sprintf("%s.%s is nil after %s and is not read before it is assigned", id.Name, field.Name(), srcText(c.Fset, as))}
				// source-order scan after the binding
				assigned := false
				ast.Inspect(fd.Body, func(k ast.Node) bool {
					if k == nil || assigned || ob.Status != OK {
						return false
					}
					if k.Pos() <= as.Pos() && k.End() <= as.End() {
						return true
					}
					if k.End() <= as.End() {
						return true
					}
					switch x := k.(type) {
					case *ast.AssignStmt:
						if x.Pos() > as.End() {
							// reads on the right-hand side first
							for _, r := range x.Rhs {
								if pos, found := readsField(info, r, v, field); found && !assigned {
									ob.Status = Violation
									ob.Pos = c.Position(pos)
									ob.Detail = fmt.Sprintf("%s.%s is read at %s, but %s was found by following %s until it was nil: the value is always nil there, and the subtree to keep is the node's other child", id.Name, field.Name(), c.Position(pos), id.Name, field.Name())
									return false
								}
							}
							for _, l := range x.Lhs {
								if sel, ok := ast.Unparen(l).(*ast.SelectorExpr); ok {
									if xid, ok := ast.Unparen(sel.X).(*ast.Ident); ok && info.Uses[xid] == v {
										if s := info.Selections[sel]; s != nil && s.Obj() == field {
											assigned = true
										}
									}
								}
								if lid, ok := l.(*ast.Ident); ok && info.Uses[lid] == v {
									assigned = true // v rebound
								}
							}
							return false
						}
					case *ast.SelectorExpr:
						if x.Pos() > as.End() {
							if xid, ok := ast.Unparen(x.X).(*ast.Ident); ok && info.Uses[xid] == v {
								if s := info.Selections[x]; s != nil && s.Obj() == field {
									ob.Status = Violation
									ob.Pos = c.Position(x.Pos())
									ob.Detail = fmt.Sprintf("%s.%s is read at %s, but %s was found by following %s until it was nil: the value is always nil there, and the subtree to keep is the node's other child", id.Name, field.Name(), c.Position(x.Pos()), id.Name, field.Name())
									return false
								}
							}
						}
					}
					return true
				})
				out = append(out, ob)
				return true
			})
		}
	}
	return out
}

// readsField reports a read of v.field inside e.
func readsField(info *types.Info, e ast.Expr, v types.Object, field *types.Var) (pos token.Pos, found bool) {
	ast.Inspect(e, func(n ast.Node) bool {
		if sel, ok := n.(*ast.SelectorExpr); ok && !found {
			if id, ok := ast.Unparen(sel.X).(*ast.Ident); ok && info.Uses[id] == v {
				if s := info.Selections[sel]; s != nil && s.Obj() == field {
					pos, found = sel.Pos(), true
				}
			}
		}
		return true
	})
	return
}
