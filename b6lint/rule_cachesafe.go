package main

import (
	"fmt"
	"go/ast"
	"go/token"
	"go/types"
	"sort"
	"strings"

	"golang.org/x/tools/go/packages"
	"golang.org/x/tools/go/ssa"
)

// CACHE-SAFE (C35): an object stored in a cache of a compact world is handed to every later
// reader of the same key. That is safe only for types that do not change after construction, or
// that make their lazy fills under a mutex of their own. A type that decodes part of itself on
// demand without a lock (marshalledRelation.fillMembers: re-slice to zero, then append member by
// member) is fine as long as every lookup builds a private object - and races as soon as it is
// put into the cache. GUARDED-BY and LOCK-CONSISTENCY cannot see this: the type owns no mutex and
// the write is under no lock at all.
//
// Instances: cache stores in ingest/compact - `(*lru.Cache).Add(k, v)` on a cache field, or
// `x.<map field>[k] = v` with struct values, where x's type owns a mutex and is a world or
// feature type (implements an exported interface of the root package b6; build-time accumulators
// such as Validator.paths or NamespacedCounts are PARALLEL-EFFECTS' subject) - and, per store,
// every concrete struct type the stored value can have. The types are collected from the
// constructors that feed v: v's assignments, the return statements of statically called module
// functions (depth 6), composite literals and &composite literals; interface calls
// (f.base.FindFeatureByID) are not followed. The set is narrowed by the cacheability guard when
// it has the repository's shape: the store is guarded by a conjunct that is (a variable bound
// once to) a disjunction of comparisons `id.Type == C`, id is passed on to the function whose
// result is stored, and that function returns from the arms of a `switch id.Type`; only arms
// with one of the admitted constants count. Key: `func#<n-th store>.<Type>`.
//
// Obligation (SSA): no reader-visible method of the type - the methods, promoted ones included,
// by which the type implements exported interfaces of the root package b6 (the cache hands the
// object out as a b6.Feature; setters such as the promoted (*FeatureID).SetFeatureID or
// UnmarshalJSON are in none of them) - writes a field of the receiver or storage reachable from
// it (field or element store, append / re-slice assigned back, map update; the same done by a
// statically called module function that receives the receiver, a field's address or a slice /
// map / pointer loaded from it; depth 6) unless a mutex reachable from the receiver is held
// exclusively at the write or at the call that leads to it. The report names the cache store,
// the type, the method, the chain of calls and the unlocked write.
// Accepted idioms: lazy fill under the object's own lock, also in a helper that is only called
// with that lock held (Polyline; Polygon / Feature -> featureWithLock -> fillGeometry); writes to
// objects the method has just allocated; value receivers (they work on a copy).
//
// Not covered: writes behind interface calls; aliasing through values returned to callers.
func init() {
	register(&Rule{
		Name:  "CACHE-SAFE",
		IR:    "ssa",
		Props: []string{"C35"},
		Floor: 2, // FindFeatureByID#1.wrappedMarshalledPhysicalFeature, FindFeatureByID#1.marshalledArea
		Doc: "every concrete type that can be stored in a shared cache of a compact world (derived from the constructors that feed the stored value, narrowed by the cacheability guard) " +
			"is safe to share: none of its methods writes receiver-reachable storage unless a mutex of the receiver is held",
		Run: runCacheSafe,
	})
}

type hCS struct {
	c      *Ctx
	p      *packages.Package
	info   *types.Info
	locker *hLocker
	memo   map[string]string
}

// singleBinding: the only expression ever assigned to variable v inside body, or nil.
func hSingleBinding(info *types.Info, body ast.Node, v types.Object) ast.Expr {
	var bound []ast.Expr
	ast.Inspect(body, func(n ast.Node) bool {
		switch x := n.(type) {
		case *ast.AssignStmt:
			if len(x.Lhs) == len(x.Rhs) {
				for i, l := range x.Lhs {
					if hIdentObj(info, l) == v {
						bound = append(bound, x.Rhs[i])
					}
				}
			} else {
				for _, l := range x.Lhs {
					if hIdentObj(info, l) == v {
						bound = append(bound, nil)
					}
				}
			}
		case *ast.ValueSpec:
			for i, nm := range x.Names {
				if info.ObjectOf(nm) == v && i < len(x.Values) {
					bound = append(bound, x.Values[i])
				}
			}
		}
		return true
	})
	if len(bound) == 1 {
		return bound[0]
	}
	return nil
}

// hTypeTest: e is a disjunction of `x.F == C` over one variable x and field F; returns x, F and the constants.
func hTypeTest(info *types.Info, e ast.Expr) (types.Object, string, []*types.Const) {
	var x types.Object
	field := ""
	var consts []*types.Const
	ok := true
	var walk func(e ast.Expr)
	walk = func(e ast.Expr) {
		e = ast.Unparen(e)
		be, isBin := e.(*ast.BinaryExpr)
		if !isBin {
			ok = false
			return
		}
		if be.Op == token.LOR {
			walk(be.X)
			walk(be.Y)
			return
		}
		if be.Op != token.EQL {
			ok = false
			return
		}
		for _, pair := range [][2]ast.Expr{{be.X, be.Y}, {be.Y, be.X}} {
			sel, isSel := ast.Unparen(pair[0]).(*ast.SelectorExpr)
			if !isSel {
				continue
			}
			base := hIdentObj(info, sel.X)
			var k *types.Const
			switch ce := ast.Unparen(pair[1]).(type) {
			case *ast.Ident:
				k, _ = info.ObjectOf(ce).(*types.Const)
			case *ast.SelectorExpr:
				k, _ = info.ObjectOf(ce.Sel).(*types.Const)
			}
			if base == nil || k == nil {
				continue
			}
			if x != nil && (x != base || field != sel.Sel.Name) {
				ok = false
			}
			x, field = base, sel.Sel.Name
			consts = append(consts, k)
			return
		}
		ok = false
	}
	walk(e)
	if !ok || x == nil {
		return nil, "", nil
	}
	return x, field, consts
}

// typesOf collects the concrete struct types an expression can evaluate to.
func (h *hCS) typesOf(p *packages.Package, body ast.Node, e ast.Expr, depth int, out map[*types.TypeName]bool, unknown *[]string) {
	if e == nil || depth > 6 {
		return
	}
	info := p.TypesInfo
	e = ast.Unparen(e)
	switch x := e.(type) {
	case *ast.CompositeLit:
		if n := namedOf(info.TypeOf(x)); n != nil {
			if _, isStruct := n.Underlying().(*types.Struct); isStruct {
				out[n.Obj()] = true
			}
		}
	case *ast.UnaryExpr:
		if x.Op == token.AND {
			h.typesOf(p, body, x.X, depth, out, unknown)
		}
	case *ast.Ident:
		obj := info.ObjectOf(x)
		if _, isNil := obj.(*types.Nil); isNil {
			return
		}
		v, ok := obj.(*types.Var)
		if !ok {
			return
		}
		// every assignment of the variable in this function
		found := false
		ast.Inspect(body, func(n ast.Node) bool {
			switch a := n.(type) {
			case *ast.AssignStmt:
				if len(a.Lhs) == len(a.Rhs) {
					for i, l := range a.Lhs {
						if hIdentObj(info, l) == v {
							found = true
							h.typesOf(p, body, a.Rhs[i], depth+1, out, unknown)
						}
					}
				}
			case *ast.ValueSpec:
				for i, nm := range a.Names {
					if info.ObjectOf(nm) == v && i < len(a.Values) {
						found = true
						h.typesOf(p, body, a.Values[i], depth+1, out, unknown)
					}
				}
			}
			return true
		})
		if !found {
			if n := namedOf(v.Type()); n != nil {
				if _, isStruct := n.Underlying().(*types.Struct); isStruct {
					out[n.Obj()] = true // a parameter or field of concrete type
				}
			}
		}
	case *ast.TypeAssertExpr:
		h.typesOf(p, body, x.X, depth, out, unknown)
	case *ast.CallExpr:
		if tv, ok := info.Types[x.Fun]; ok && tv.IsType() && len(x.Args) == 1 {
			h.typesOf(p, body, x.Args[0], depth, out, unknown) // conversion
			return
		}
		f := calleeFunc(info, x)
		fd, fp := h.c.Decl(f)
		if fd == nil || fd.Body == nil || fp == nil {
			if f != nil {
				*unknown = append(*unknown, f.Name())
			} else {
				*unknown = append(*unknown, types.ExprString(x.Fun))
			}
			return
		}
		h.returnsOf(fp, fd, nil, nil, "", depth+1, out, unknown)
	}
}

// returnsOf collects the types of the values returned by fd. When param/allowed are set, returns
// inside arms of `switch param.<field>` count only if the arm names an allowed constant.
func (h *hCS) returnsOf(p *packages.Package, fd *ast.FuncDecl, param types.Object, allowed map[*types.Const]bool, field string, depth int, out map[*types.TypeName]bool, unknown *[]string) {
	info := p.TypesInfo
	var visit func(n ast.Node, live bool)
	visit = func(n ast.Node, live bool) {
		switch x := n.(type) {
		case nil:
			return
		case *ast.FuncLit:
			return
		case *ast.ReturnStmt:
			if live && len(x.Results) >= 1 {
				h.typesOf(p, fd.Body, x.Results[0], depth, out, unknown)
			}
			return
		case *ast.SwitchStmt:
			restricts := false
			if param != nil && x.Tag != nil {
				if sel, ok := ast.Unparen(x.Tag).(*ast.SelectorExpr); ok && hIdentObj(info, sel.X) == param && sel.Sel.Name == field {
					restricts = true
				}
			}
			if x.Init != nil {
				visit(x.Init, live)
			}
			for _, cs := range x.Body.List {
				cc := cs.(*ast.CaseClause)
				armLive := live
				if restricts && cc.List != nil {
					armLive = false
					for _, e := range cc.List {
						var k *types.Const
						switch ce := ast.Unparen(e).(type) {
						case *ast.Ident:
							k, _ = info.ObjectOf(ce).(*types.Const)
						case *ast.SelectorExpr:
							k, _ = info.ObjectOf(ce.Sel).(*types.Const)
						}
						if k == nil || allowed[k] {
							armLive = live // an unknown label cannot be excluded
						}
					}
				}
				for _, st := range cc.Body {
					visit(st, armLive)
				}
			}
			return
		}
		// generic descent over statements
		ast.Inspect(n, func(c ast.Node) bool {
			if c == nil || c == n {
				return true
			}
			switch c.(type) {
			case *ast.FuncLit:
				return false
			case *ast.ReturnStmt, *ast.SwitchStmt:
				visit(c, live)
				return false
			}
			return true
		})
	}
	visit(fd.Body, true)
}

// ---- does a method write what it was given? -------------------------------------------------------

// writes reports the first write of fn to storage reachable from parameter idx that is made
// without an exclusive lock rooted at that parameter, or "".
func (h *hCS) writes(fn *ssa.Function, idx int, depth int) string {
	if fn == nil || fn.Blocks == nil || depth > 6 || idx >= len(fn.Params) {
		return ""
	}
	key := fmt.Sprintf("%s/%d", fn.String(), idx)
	if w, ok := h.memo[key]; ok {
		return w
	}
	h.memo[key] = ""
	param := fn.Params[idx]
	if _, byValue := param.Type().Underlying().(*types.Struct); byValue {
		return "" // a copy
	}
	held := h.locker.locks(fn)
	prefix := hPath(param)
	locked := func(ins ssa.Instruction) bool {
		for k, m := range held[ins] {
			if m == 2 && (k == prefix || strings.HasPrefix(k, prefix+".") || strings.HasPrefix(k, prefix+"^")) {
				return true
			}
		}
		return false
	}
	res := ""
	for _, b := range fn.Blocks {
		for _, ins := range b.Instrs {
			if res != "" {
				break
			}
			switch x := ins.(type) {
			case *ssa.Store:
				if root, _ := hRootOf(x.Addr); root == ssa.Value(param) && !locked(ins) {
					res = fmt.Sprintf("%s writes %s at %s with no mutex of the object held", hCSName(fn), hPath(x.Addr), h.c.Position(x.Pos()))
				}
			case *ssa.MapUpdate:
				if root, _ := hRootOf(x.Map); root == ssa.Value(param) && !locked(ins) {
					res = fmt.Sprintf("%s updates map %s at %s with no mutex of the object held", hCSName(fn), hPath(x.Map), h.c.Position(x.Pos()))
				}
			case ssa.CallInstruction:
				if _, isGo := x.(*ssa.Go); isGo {
					continue
				}
				com := x.Common()
				static := com.StaticCallee()
				if com.IsInvoke() || static == nil || static.Blocks == nil {
					continue
				}
				if pk := hFuncPkg(static); pk == nil || !strings.HasPrefix(pk.Pkg.Path(), ModulePath) {
					continue
				}
				if locked(ins) {
					continue
				}
				for ai, a := range com.Args {
					switch a.Type().Underlying().(type) {
					case *types.Pointer, *types.Slice, *types.Map:
					default:
						continue
					}
					if root, _ := hRootOf(a); root != ssa.Value(param) {
						continue
					}
					if w := h.writes(static, ai, depth+1); w != "" {
						res = fmt.Sprintf("%s passes %s to %s at %s with no mutex of the object held, and %s", hCSName(fn), hPath(a), static.Name(), h.c.Position(x.Pos()), w)
						break
					}
				}
			}
		}
	}
	h.memo[key] = res
	return res
}

func runCacheSafe(c *Ctx) []Obligation {
	c.BuildSSA()
	p := c.Pkg("ingest/compact")
	if p == nil {
		return []Obligation{{Key: "compact#anchor", Status: Undecided, Detail: "package ingest/compact not loaded"}}
	}
	h := &hCS{c: c, p: p, info: p.TypesInfo, locker: hNewLocker(c), memo: map[string]string{}}
	info := p.TypesInfo
	var out []Obligation
	for _, fd := range c.FuncDecls(p) {
		name := c.FuncName(p, fd)
		// cache stores of this function, in source order
		type store struct {
			node  ast.Node
			value ast.Expr
			text  string
		}
		var stores []store
		inspectShallow(fd.Body, func(n ast.Node) bool {
			switch x := n.(type) {
			case *ast.CallExpr:
				f := calleeFunc(info, x)
				if f == nil || f.Name() != "Add" || len(x.Args) != 2 {
					return true
				}
				sig := f.Type().(*types.Signature)
				if sig.Recv() == nil || !isNamed(sig.Recv().Type(), hLruPath, "Cache") {
					return true
				}
				stores = append(stores, store{x, x.Args[1], types.ExprString(x)})
			case *ast.AssignStmt:
				if x.Tok != token.ASSIGN || len(x.Lhs) != 1 || len(x.Rhs) != 1 {
					return true
				}
				ix, ok := ast.Unparen(x.Lhs[0]).(*ast.IndexExpr)
				if !ok {
					return true
				}
				if _, isMap := info.TypeOf(ix.X).Underlying().(*types.Map); !isMap {
					return true
				}
				sel, ok := ast.Unparen(ix.X).(*ast.SelectorExpr)
				if !ok {
					return true
				}
				s := info.Selections[sel]
				if s == nil || s.Kind() != types.FieldVal || len(hMutexFields(s.Recv())) == 0 {
					return true
				}
				n := namedOf(s.Recv())
				if n == nil || n.Obj().Pkg() != p.Types || len(hRootIfaceMethods(c, n)) == 0 {
					return true
				}
				if vn := namedOf(info.TypeOf(x.Rhs[0])); vn == nil {
					return true // plain values (numbers, strings) are copied out of the map
				} else if _, isStruct := vn.Underlying().(*types.Struct); !isStruct {
					if _, isIface := vn.Underlying().(*types.Interface); !isIface {
						return true
					}
				}
				stores = append(stores, store{x, x.Rhs[0], nodeText(c.Fset, x)})
			}
			return true
		})
		for si, st := range stores {
			base := fmt.Sprintf("%s#%d", name, si+1)
			pos := c.Position(st.node.Pos())
			// cacheability guard: conjuncts on the way to the store
			var keyVar types.Object
			field := ""
			var allowed map[*types.Const]bool
			guardText := ""
			chain := enclosing(fd.Body, st.node)
			for i := 0; i+1 < len(chain); i++ {
				ifs, ok := chain[i].(*ast.IfStmt)
				if !ok || chain[i+1] != ast.Node(ifs.Body) {
					continue
				}
				for _, fact := range hFacts(ifs.Cond, true) {
					if !fact.val {
						continue
					}
					e := fact.leaf
					if v, ok := hIdentObj(info, e).(*types.Var); ok {
						if b := hSingleBinding(info, fd.Body, v); b != nil {
							e = b
						}
					}
					if x, f, ks := hTypeTest(info, e); x != nil {
						set := map[*types.Const]bool{}
						for _, k := range ks {
							if allowed == nil || allowed[k] {
								set[k] = true
							}
						}
						keyVar, field, allowed = x, f, set
						guardText = types.ExprString(e)
					}
				}
			}
			// concrete types of the stored value
			typesSet := map[*types.TypeName]bool{}
			var unknown []string
			narrowed := false
			if v := hIdentObj(info, st.value); v != nil && keyVar != nil {
				if call, ok := ast.Unparen(hSingleBinding(info, fd.Body, v)).(*ast.CallExpr); ok && call != nil {
					if f := calleeFunc(info, call); f != nil {
						if gd, gp := c.Decl(f); gd != nil && gd.Body != nil && gp != nil {
							// the callee's parameter that receives the tested variable
							var param types.Object
							pi := 0
							for _, fl := range gd.Type.Params.List {
								for _, nm := range fl.Names {
									if pi < len(call.Args) && hIdentObj(info, call.Args[pi]) == keyVar {
										param = gp.TypesInfo.ObjectOf(nm)
									}
									pi++
								}
							}
							if param != nil {
								h.returnsOf(gp, gd, param, allowed, field, 1, typesSet, &unknown)
								narrowed = true
							}
						}
					}
				}
			}
			if !narrowed {
				h.typesOf(p, fd.Body, st.value, 0, typesSet, &unknown)
			}
			var names []string
			byName := map[string]*types.TypeName{}
			for tn := range typesSet {
				names = append(names, tn.Name())
				byName[tn.Name()] = tn
			}
			sort.Strings(names)
			how := "all constructors that feed the value"
			if narrowed {
				how = fmt.Sprintf("constructors admitted by the guard `%s`", guardText)
			}
			note := ""
			if len(unknown) > 0 {
				sort.Strings(unknown)
				note = "; values produced by calls that cannot be followed (" + strings.Join(unknown, ", ") + ") are not covered"
			}
			if len(names) == 0 {
				out = append(out, Obligation{Key: base, Pos: pos, Status: Undecided, Detail: fmt.Sprintf("%s: no concrete type could be derived for the value stored by %s%s", name, st.text, note)})
				continue
			}
			for _, tname := range names {
				tn := byName[tname]
				ob := Obligation{Key: base + "." + tname, Pos: pos}
				var bad []string
				ms := c.Prog.MethodSets.MethodSet(types.NewPointer(tn.Type()))
				visible := hRootIfaceMethods(c, tn.Type().(*types.Named))
				var mnames []string
				for i := 0; i < ms.Len(); i++ {
					if !visible[ms.At(i).Obj().Name()] {
						continue
					}
					fn := c.Prog.MethodValue(ms.At(i))
					if fn == nil {
						continue
					}
					mnames = append(mnames, fn.Name())
					if w := h.writes(fn, 0, 0); w != "" {
						bad = append(bad, fmt.Sprintf("method %s: %s", fn.Name(), w))
					}
				}
				if len(bad) > 0 {
					sort.Strings(bad)
					ob.Status = Violation
					ob.Detail = fmt.Sprintf("%s stores values of type %s in a cache shared by all readers (%s; %s), but the type is not safe to share: %s; two readers that get the same cached object run this write concurrently",
						name, tname, st.text, how, bad[0])
					ob.Path = bad
				} else {
					ob.Status = OK
					ob.Detail = fmt.Sprintf("%s: %s may store %s (%s); none of its %d reader-visible methods writes receiver-reachable storage outside a mutex of the object%s", name, st.text, tname, how, len(mnames), note)
				}
				out = append(out, ob)
			}
		}
	}
	return out
}

// hRootIfaceMethods: names of the methods by which *t implements exported interfaces of the root package.
func hRootIfaceMethods(c *Ctx, t *types.Named) map[string]bool {
	out := map[string]bool{}
	root := c.Pkg("")
	if root == nil {
		return out
	}
	sc := root.Types.Scope()
	for _, n := range sc.Names() {
		tn, ok := sc.Lookup(n).(*types.TypeName)
		if !ok || !tn.Exported() {
			continue
		}
		it, ok := tn.Type().Underlying().(*types.Interface)
		if !ok || it.NumMethods() == 0 {
			continue
		}
		if named, ok := tn.Type().(*types.Named); ok && named.TypeParams().Len() > 0 {
			continue
		}
		if types.Implements(types.NewPointer(t), it) || types.Implements(t, it) {
			for i := 0; i < it.NumMethods(); i++ {
				out[it.Method(i).Name()] = true
			}
		}
	}
	return out
}

func hCSName(fn *ssa.Function) string {
	if hFuncPkg(fn) == nil {
		return fn.String() // synthetic wrapper of a promoted method
	}
	return hSSAName(fn)
}
