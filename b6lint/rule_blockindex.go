package main

import (
	"fmt"
	"go/ast"
	"go/types"
	"sort"
)

// BLOCK-INDEX (C27): a PBF block has its own string table, and everything in the block refers to
// strings by their index in it. The writer starts a new table for every block (`w.strings =
// make(…)` in its reset method). An index into the table is therefore only good inside the block it
// was looked up in: one that is kept in a field of the writer between calls ("the last role written
// and its index") outlives the table unless the reset method clears that field too, and after a
// block boundary the cached index names whatever string sits at that position of the new table.
//
// Discovery, by shape (package osm): the lookup method of a type is the method that reads and fills
// a map[string]int field M of its receiver and returns the index; the reset method is the one that
// assigns M afresh. Subjects: the fields of the receiver that are assigned, anywhere in the
// package, a result of the lookup method. One obligation per such field: the reset method assigns
// it. A summary obligation on the reset method keeps the rule non-vacuous while no index is cached
// (today none is).
func init() {
	register(&Rule{
		Name:  "BLOCK-INDEX",
		IR:    "ast",
		Props: []string{"C27"},
		Floor: 1,
		Doc:   "an index into the writer's per-block string table that is kept in a field between calls is cleared by the method that starts a new table: a cached index does not survive the block it was looked up in",
		Run:   runBlockIndex,
	})
}

func runBlockIndex(c *Ctx) []Obligation {
	var out []Obligation
	p := c.Pkg("osm")
	if p == nil {
		return out
	}
	info := p.TypesInfo
	// lookup methods and their map field; reset methods
	type tbl struct {
		field  *types.Var
		lookup *types.Func
		reset  *ast.FuncDecl
	}
	tables := map[*types.Var]*tbl{}
	fieldOf := func(e ast.Expr, recv types.Object) *types.Var {
		sel, ok := ast.Unparen(e).(*ast.SelectorExpr)
		if !ok {
			return nil
		}
		if x, ok := ast.Unparen(sel.X).(*ast.Ident); !ok || info.Uses[x] != recv {
			return nil
		}
		if s := info.Selections[sel]; s != nil {
			v, _ := s.Obj().(*types.Var)
			return v
		}
		return nil
	}
	for _, fd := range c.FuncDecls(p) {
		recv := gRecvObj(info, fd)
		obj, _ := info.Defs[fd.Name].(*types.Func)
		if recv == nil || obj == nil || fd.Body == nil {
			continue
		}
		sig := obj.Type().(*types.Signature)
		ast.Inspect(fd.Body, func(n ast.Node) bool {
			as, ok := n.(*ast.AssignStmt)
			if !ok {
				return true
			}
			for i, l := range as.Lhs {
				// M[s] = i inside a method returning an integer: the lookup
				if ix, ok := ast.Unparen(l).(*ast.IndexExpr); ok {
					if f := fieldOf(ix.X, recv); f != nil {
						if mt, ok := f.Type().Underlying().(*types.Map); ok && sig.Results().Len() == 1 && types.Identical(mt.Elem(), sig.Results().At(0).Type()) {
							if tables[f] == nil {
								tables[f] = &tbl{field: f}
							}
							tables[f].lookup = obj
						}
					}
				}
				// M = make(…): the reset
				if f := fieldOf(l, recv); f != nil && i < len(as.Rhs) {
					if _, isMap := f.Type().Underlying().(*types.Map); isMap {
						if call, ok := ast.Unparen(as.Rhs[i]).(*ast.CallExpr); ok && isBuiltin(info, call, "make") {
							if tables[f] == nil {
								tables[f] = &tbl{field: f}
							}
							tables[f].reset = fd
						}
					}
				}
			}
			return true
		})
	}
	for _, t := range tables {
		if t.lookup == nil || t.reset == nil {
			continue
		}
		resetRecv := gRecvObj(info, t.reset)
		// fields assigned a lookup result anywhere
		cached := map[*types.Var]string{}
		for _, fd := range c.FuncDecls(p) {
			recv := gRecvObj(info, fd)
			if recv == nil || fd.Body == nil {
				continue
			}
			ast.Inspect(fd.Body, func(n ast.Node) bool {
				as, ok := n.(*ast.AssignStmt)
				if !ok {
					return true
				}
				for i, l := range as.Lhs {
					f := fieldOf(l, recv)
					if f == nil {
						continue
					}
					var rhs ast.Expr
					if len(as.Rhs) == len(as.Lhs) {
						rhs = as.Rhs[i]
					} else if len(as.Rhs) == 1 {
						rhs = as.Rhs[0]
					}
					if call, ok := ast.Unparen(rhs).(*ast.CallExpr); ok && calleeFunc(info, call) == t.lookup {
						cached[f] = c.Position(as.Pos())
					}
				}
				return true
			})
		}
		resets := map[*types.Var]bool{}
		ast.Inspect(t.reset.Body, func(n ast.Node) bool {
			if as, ok := n.(*ast.AssignStmt); ok {
				for _, l := range as.Lhs {
					if f := fieldOf(l, resetRecv); f != nil {
						resets[f] = true
					}
				}
			}
			return true
		})
		rname := c.FuncName(p, t.reset)
		var fs []*types.Var
		for f := range cached {
			fs = append(fs, f)
		}
		sort.Slice(fs, func(i, j int) bool { return fs[i].Name() < fs[j].Name() })
		for _, f := range fs {
			ob := Obligation{Key: rname + "#" + f.Name(), Pos: cached[f], Status: OK,
				Detail: fmt.Sprintf("the field %s holds an index into %s and is cleared by %s", f.Name(), t.field.Name(), t.reset.Name.Name)}
			if !resets[f] {
				ob.Status = Violation
				ob.Detail = fmt.Sprintf("the field %s is assigned an index into the per-block table %s (at %s) and is not cleared by %s, which starts a new table: after a block boundary the cached index names whatever string sits at that position of the new table", f.Name(), t.field.Name(), cached[f], t.reset.Name.Name)
			}
			out = append(out, ob)
		}
		out = append(out, Obligation{Key: rname, Pos: c.Position(t.reset.Pos()), Status: OK,
			Detail: fmt.Sprintf("%s starts a new %s; %d field(s) cache an index into it across calls", t.reset.Name.Name, t.field.Name(), len(fs))})
	}
	sort.Slice(out, func(i, j int) bool { return out[i].Key < out[j].Key })
	return out
}
