package main

import (
	"fmt"
	"go/ast"
	"go/types"
	"strings"
)

// COVERING-SOURCE (C04): a feature is found by a spatial query only if the cells it is indexed
// under meet the cells of the query's covering. Both sides get their cells from an
// s2.RegionCoverer, which treats cells as closed: a point on the edge shared by two cells is
// covered by both, and the query's own test (s2.Cell.ContainsPoint) accepts it for both. A
// covering put together by hand for one kind of geometry (the cell the point's centre falls in,
// s2.CellIDFromLatLng(..).Parent(level)) names one of them only, and the filter hides a feature the
// query accepts.
//
// Subjects, by type: every function that is handed an s2.RegionCoverer and returns an
// s2.CellUnion. One obligation per return statement: the value returned is empty (an empty
// literal, make, nil) or draws on the result of a method of the coverer (directly, or through a
// local variable whose assignments do).
func init() {
	register(&Rule{
		Name:  "COVERING-SOURCE",
		IR:    "ast",
		Props: []string{"C04"},
		Floor: 3,
		Doc:   "a function that is handed an s2.RegionCoverer and returns a covering returns, on every path, the empty covering or cells obtained from that coverer (not cells chosen by hand: the coverer treats cells as closed, as the queries' own tests do)",
		Run:   runCoveringSource,
	})
}

func runCoveringSource(c *Ctx) []Obligation {
	var out []Obligation
	isS2 := func(t types.Type, name string) bool {
		if p, ok := t.(*types.Pointer); ok {
			t = p.Elem()
		}
		n, ok := t.(*types.Named)
		return ok && n.Obj().Name() == name && n.Obj().Pkg() != nil && strings.HasSuffix(n.Obj().Pkg().Path(), "github.com/golang/geo/s2")
	}
	for _, p := range c.SortedPkgs() {
		info := p.TypesInfo
		for _, fd := range c.FuncDecls(p) {
			obj, _ := info.Defs[fd.Name].(*types.Func)
			if obj == nil || fd.Body == nil {
				continue
			}
			sig := obj.Type().(*types.Signature)
			if sig.Results().Len() != 1 || !isS2(sig.Results().At(0).Type(), "CellUnion") {
				continue
			}
			var coverer types.Object
			for i := 0; i < sig.Params().Len(); i++ {
				if isS2(sig.Params().At(i).Type(), "RegionCoverer") {
					coverer = sig.Params().At(i)
				}
			}
			if coverer == nil {
				continue
			}
			usesCoverer := func(e ast.Expr) bool {
				found := false
				ast.Inspect(e, func(n ast.Node) bool {
					if call, ok := n.(*ast.CallExpr); ok {
						if sel, ok := ast.Unparen(call.Fun).(*ast.SelectorExpr); ok {
							if id, ok := ast.Unparen(sel.X).(*ast.Ident); ok && info.Uses[id] == coverer {
								found = true
							}
						}
					}
					return true
				})
				return found
			}
			// locals all of whose assignments are empty or draw on the coverer
			assigns := map[types.Object][]ast.Expr{}
			ast.Inspect(fd.Body, func(n ast.Node) bool {
				if as, ok := n.(*ast.AssignStmt); ok && len(as.Lhs) == len(as.Rhs) {
					for i, l := range as.Lhs {
						if id, ok := l.(*ast.Ident); ok {
							o := info.Defs[id]
							if o == nil {
								o = info.Uses[id]
							}
							if o != nil {
								assigns[o] = append(assigns[o], as.Rhs[i])
							}
						}
					}
				}
				return true
			})
			isEmpty := func(e ast.Expr) bool {
				switch x := ast.Unparen(e).(type) {
				case *ast.CompositeLit:
					return len(x.Elts) == 0
				case *ast.Ident:
					return x.Name == "nil" && info.Uses[x] == types.Universe.Lookup("nil")
				case *ast.CallExpr:
					if isBuiltin(info, x, "make") {
						if len(x.Args) < 2 {
							return true
						}
						tv := info.Types[x.Args[1]]
						return tv.Value != nil && tv.Value.ExactString() == "0"
					}
				}
				return false
			}
			var verdict func(e ast.Expr, depth int) (string, bool) // reason, ok
			verdict = func(e ast.Expr, depth int) (string, bool) {
				if isEmpty(e) {
					return "the empty covering", true
				}
				if usesCoverer(e) {
					return "cells from " + coverer.Name(), true
				}
				if id, ok := ast.Unparen(e).(*ast.Ident); ok && depth < 3 {
					if o := info.Uses[id]; o != nil && len(assigns[o]) > 0 {
						some := false
						for _, r := range assigns[o] {
							why, ok := verdict(r, depth+1)
							if !ok {
								return why, false
							}
							if !isEmpty(r) {
								some = true
							}
						}
						if some {
							return "cells from " + coverer.Name() + " (through " + id.Name + ")", true
						}
						return "the empty covering", true
					}
				}
				return fmt.Sprintf("%s does not come from %s", srcText(c.Fset, e), coverer.Name()), false
			}
			name := c.FuncName(p, fd)
			n := 0
			inspectShallow(fd.Body, func(m ast.Node) bool {
				ret, ok := m.(*ast.ReturnStmt)
				if !ok || len(ret.Results) != 1 {
					return true
				}
				n++
				why, ok := verdict(ret.Results[0], 0)
				ob := Obligation{Key: fmt.Sprintf("%s#return%d", name, n), Pos: c.Position(ret.Pos()), Status: OK, Detail: "returns " + why}
				if !ok {
					ob.Status = Violation
					ob.Detail = fmt.Sprintf("%s returns a covering chosen by hand: %s. The coverer treats cells as closed (a point on a shared cell edge is covered by both cells), as the queries' own tests do; a hand-picked cell indexes the feature under one of them only", obj.Name(), why)
				}
				out = append(out, ob)
				return true
			})
		}
	}
	return out
}
