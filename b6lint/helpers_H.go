package main

import (
	"fmt"
	"go/token"
	"go/types"
	"sort"
	"strings"

	"golang.org/x/tools/go/ssa"
	"golang.org/x/tools/go/ssa/ssautil"
)

// Helpers of rule group H (GUARDED-BY, PARALLEL-EFFECTS): access paths of SSA addresses, an
// intraprocedural must-lockset with the "only called with the lock held" idiom, names of SSA
// functions in obligation-key form.

// hModuleFuncs lists every SSA function (declared, method, anonymous) of module packages that
// has a body, in a deterministic order.
func hModuleFuncs(c *Ctx) []*ssa.Function {
	c.BuildSSA()
	var out []*ssa.Function
	for fn := range ssautil.AllFunctions(c.Prog) {
		if fn.Blocks == nil || hFuncPkg(fn) == nil {
			continue
		}
		if !strings.HasPrefix(hFuncPkg(fn).Pkg.Path(), ModulePath) {
			continue
		}
		out = append(out, fn)
	}
	sort.Slice(out, func(i, j int) bool {
		if out[i].Pos() != out[j].Pos() {
			return out[i].Pos() < out[j].Pos()
		}
		return out[i].String() < out[j].String()
	})
	return out
}

// hFuncPkg: the package of a function; for anonymous functions and wrappers that of the parent/origin.
func hFuncPkg(fn *ssa.Function) *ssa.Package {
	for f := fn; f != nil; f = f.Parent() {
		if f.Pkg != nil {
			return f.Pkg
		}
		if o := f.Origin(); o != nil && o.Pkg != nil {
			return o.Pkg
		}
	}
	return nil
}

// hSSAName renders a function as pkg.(*Recv).Name, anonymous functions as Parent$n.
func hSSAName(fn *ssa.Function) string {
	if p := fn.Parent(); p != nil {
		n := 0
		for i, a := range p.AnonFuncs {
			if a == fn {
				n = i + 1
			}
		}
		return fmt.Sprintf("%s$%d", hSSAName(p), n)
	}
	rel := "?"
	if pk := hFuncPkg(fn); pk != nil {
		rel = strings.TrimPrefix(strings.TrimPrefix(pk.Pkg.Path(), ModulePath), "/")
		if rel == "" {
			rel = "b6"
		}
	}
	if recv := fn.Signature.Recv(); recv != nil {
		t := recv.Type()
		star := ""
		if p, ok := t.(*types.Pointer); ok {
			t = p.Elem()
			star = "*"
		}
		name := t.String()
		if n := namedOf(t); n != nil {
			name = n.Obj().Name()
		}
		if star != "" {
			return fmt.Sprintf("%s.(*%s).%s", rel, name, fn.Name())
		}
		return fmt.Sprintf("%s.(%s).%s", rel, name, fn.Name())
	}
	return rel + "." + fn.Name()
}

// hPath is a canonical access path of an SSA value/address inside one function. Two equal paths
// denote the same location as long as the roots are not reassigned (parameters, free variables
// and allocations are single-assignment in SSA). Unknown shapes get a unique name, so they
// never compare equal to anything else.
func hPath(v ssa.Value) string {
	switch x := v.(type) {
	case *ssa.Parameter:
		return "p:" + x.Name()
	case *ssa.FreeVar:
		return "fv:" + x.Name()
	case *ssa.Global:
		return "g:" + x.String()
	case *ssa.Alloc:
		return fmt.Sprintf("alloc:%s@%d", x.Comment, x.Pos())
	case *ssa.FieldAddr:
		return hPath(x.X) + "." + hFieldName(x.X.Type(), x.Field)
	case *ssa.Field:
		return hPath(x.X) + "." + hFieldName(x.X.Type(), x.Field)
	case *ssa.UnOp:
		if x.Op == token.MUL {
			return hPath(x.X) + "^"
		}
	case *ssa.IndexAddr:
		return hPath(x.X) + "[" + hPath(x.Index) + "]"
	case *ssa.Const:
		return "c:" + x.String()
	case *ssa.ChangeType:
		return hPath(x.X)
	}
	return "v:" + v.Name()
}

func hFieldName(t types.Type, i int) string {
	if p, ok := t.Underlying().(*types.Pointer); ok {
		t = p.Elem()
	}
	if st, ok := t.Underlying().(*types.Struct); ok && i < st.NumFields() {
		return st.Field(i).Name()
	}
	return fmt.Sprintf("f%d", i)
}

// hMutexOp classifies a call of a sync.Mutex / sync.RWMutex method: op is Lock, Unlock, RLock,
// RUnlock (or ""), addr the mutex address operand.
func hMutexOp(com *ssa.CallCommon) (op string, addr ssa.Value) {
	if com.IsInvoke() {
		return "", nil
	}
	f := com.StaticCallee()
	if f == nil || f.Signature.Recv() == nil || len(com.Args) == 0 {
		return "", nil
	}
	if !isNamed(f.Signature.Recv().Type(), "sync", "Mutex") && !isNamed(f.Signature.Recv().Type(), "sync", "RWMutex") {
		return "", nil
	}
	switch f.Name() {
	case "Lock", "Unlock", "RLock", "RUnlock":
		return f.Name(), com.Args[0]
	}
	return "", nil
}

func hIsMutexType(t types.Type) bool {
	if _, isPtr := types.Unalias(t).(*types.Pointer); isPtr {
		return false
	}
	return isNamed(t, "sync", "Mutex") || isNamed(t, "sync", "RWMutex")
}

// hLockMode: 2 = held exclusively, 1 = held shared.
type hLockset map[string]int

func (s hLockset) clone() hLockset {
	o := hLockset{}
	for k, v := range s {
		o[k] = v
	}
	return o
}

// anyExclusive: some mutex that other goroutines can see (not one allocated by this very
// function) is held exclusively.
func (s hLockset) anyExclusive() bool {
	for k, m := range s {
		if m == 2 && !strings.HasPrefix(k, "alloc:") {
			return true
		}
	}
	return false
}

func (s hLockset) String() string {
	var ks []string
	for k, m := range s {
		if m == 2 {
			ks = append(ks, k)
		} else {
			ks = append(ks, k+"(shared)")
		}
	}
	sort.Strings(ks)
	return "{" + strings.Join(ks, ", ") + "}"
}

func hMeet(a, b hLockset) hLockset {
	o := hLockset{}
	for k, m := range a {
		if n, ok := b[k]; ok {
			if n < m {
				m = n
			}
			o[k] = m
		}
	}
	return o
}

func hEqualLockset(a, b hLockset) bool {
	if len(a) != len(b) {
		return false
	}
	for k, m := range a {
		if b[k] != m {
			return false
		}
	}
	return true
}

// hLocksAt computes, for every instruction of fn, the set of mutexes that are held on every path
// from the entry (must-analysis; deferred unlocks keep the lock until the function returns).
// entry is the lockset assumed at function entry.
func hLocksAt(fn *ssa.Function, entry hLockset) map[ssa.Instruction]hLockset {
	at := map[ssa.Instruction]hLockset{}
	if len(fn.Blocks) == 0 {
		return at
	}
	in := map[*ssa.BasicBlock]hLockset{fn.Blocks[0]: entry.clone()}
	work := []*ssa.BasicBlock{fn.Blocks[0]}
	for len(work) > 0 {
		b := work[0]
		work = work[1:]
		cur := in[b].clone()
		for _, ins := range b.Instrs {
			at[ins] = cur.clone()
			if call, ok := ins.(*ssa.Call); ok {
				op, addr := hMutexOp(call.Common())
				switch op {
				case "Lock":
					cur[hPath(addr)] = 2
				case "RLock":
					if cur[hPath(addr)] < 1 {
						cur[hPath(addr)] = 1
					}
				case "Unlock", "RUnlock":
					delete(cur, hPath(addr))
				}
			}
		}
		for _, s := range b.Succs {
			old, seen := in[s]
			var nw hLockset
			if !seen {
				nw = cur.clone()
			} else {
				nw = hMeet(old, cur)
			}
			if !seen || !hEqualLockset(old, nw) {
				in[s] = nw
				work = append(work, s)
			}
		}
	}
	return at
}

// hCallIndex: static call sites of every module function, and the functions used as values.
type hCallIndex struct {
	sites     map[*ssa.Function][]ssa.CallInstruction
	valueUsed map[*ssa.Function]bool
}

func hBuildCallIndex(c *Ctx) *hCallIndex {
	ix := &hCallIndex{sites: map[*ssa.Function][]ssa.CallInstruction{}, valueUsed: map[*ssa.Function]bool{}}
	for _, fn := range hModuleFuncs(c) {
		for _, b := range fn.Blocks {
			for _, ins := range b.Instrs {
				var callee ssa.Value
				if ci, ok := ins.(ssa.CallInstruction); ok {
					com := ci.Common()
					if !com.IsInvoke() {
						callee = com.Value
						if f := com.StaticCallee(); f != nil {
							ix.sites[f] = append(ix.sites[f], ci)
						}
					}
				}
				for _, op := range ins.Operands(nil) {
					if op == nil || *op == nil {
						continue
					}
					if f, ok := (*op).(*ssa.Function); ok && (*op) != callee {
						ix.valueUsed[f] = true
					}
				}
			}
		}
	}
	return ix
}

// hLocker memoises locksets with inheritance: a function that is not exported, never used as a
// value, not a method that can satisfy an interface of the module, and whose every static call
// site holds mutex M of the object passed as parameter p, starts with M held.
type hLocker struct {
	c       *Ctx
	ix      *hCallIndex
	memo    map[*ssa.Function]map[ssa.Instruction]hLockset
	entry   map[*ssa.Function]hLockset
	busy    map[*ssa.Function]bool
	ifaceMs map[string]bool // names of methods of module interfaces
	// why[fn] records a call site that prevented inheritance (for diagnostics)
	why map[*ssa.Function]string
}

func hNewLocker(c *Ctx) *hLocker {
	l := &hLocker{c: c, ix: hBuildCallIndex(c), memo: map[*ssa.Function]map[ssa.Instruction]hLockset{},
		entry: map[*ssa.Function]hLockset{}, busy: map[*ssa.Function]bool{}, ifaceMs: map[string]bool{}, why: map[*ssa.Function]string{}}
	for _, p := range c.SortedPkgs() {
		sc := p.Types.Scope()
		for _, n := range sc.Names() {
			if tn, ok := sc.Lookup(n).(*types.TypeName); ok {
				if it, ok := tn.Type().Underlying().(*types.Interface); ok {
					for i := 0; i < it.NumMethods(); i++ {
						l.ifaceMs[it.Method(i).Name()] = true
					}
				}
			}
		}
	}
	return l
}

func (l *hLocker) locks(fn *ssa.Function) map[ssa.Instruction]hLockset {
	if m, ok := l.memo[fn]; ok {
		return m
	}
	m := hLocksAt(fn, l.entryLocks(fn))
	l.memo[fn] = m
	return m
}

// mutexFields lists the names of sync.Mutex / sync.RWMutex fields of the struct t points to.
func hMutexFields(t types.Type) []string {
	if p, ok := t.Underlying().(*types.Pointer); ok {
		t = p.Elem()
	}
	st, ok := t.Underlying().(*types.Struct)
	if !ok {
		return nil
	}
	var out []string
	for i := 0; i < st.NumFields(); i++ {
		if hIsMutexType(st.Field(i).Type()) {
			out = append(out, st.Field(i).Name())
		}
	}
	return out
}

func (l *hLocker) entryLocks(fn *ssa.Function) hLockset {
	if e, ok := l.entry[fn]; ok {
		return e
	}
	e := hLockset{}
	l.entry[fn] = e // also the answer while a cycle is being resolved: nothing inherited
	if fn.Parent() != nil || fn.Object() == nil || fn.Object().Exported() || l.ix.valueUsed[fn] {
		return e
	}
	if fn.Signature.Recv() != nil && l.ifaceMs[fn.Name()] {
		return e
	}
	sites := l.ix.sites[fn]
	if len(sites) == 0 || l.busy[fn] {
		return e
	}
	l.busy[fn] = true
	defer func() { l.busy[fn] = false }()
	for pi, p := range fn.Params {
		if _, isPtr := p.Type().Underlying().(*types.Pointer); !isPtr {
			continue
		}
		for _, mf := range hMutexFields(p.Type()) {
			mode := 2
			for _, site := range sites {
				args := site.Common().Args
				if pi >= len(args) {
					mode = 0
					break
				}
				if _, isGo := site.(*ssa.Go); isGo {
					mode = 0
					l.why[fn] = "started as a goroutine at " + l.c.Position(site.Pos())
					break
				}
				if _, isDefer := site.(*ssa.Defer); isDefer {
					mode = 0
					break
				}
				caller := site.Parent()
				held := l.locks(caller)[site.(ssa.Instruction)]
				k := hPath(args[pi]) + "." + mf
				if held[k] < mode {
					mode = held[k]
				}
				if mode == 0 {
					l.why[fn] = fmt.Sprintf("%s calls it at %s without holding %s", hSSAName(caller), l.c.Position(site.Pos()), k)
					break
				}
			}
			if mode > 0 {
				e["p:"+p.Name()+"."+mf] = mode
			}
		}
	}
	l.entry[fn] = e
	return e
}
