package main

import (
	"fmt"
	"go/ast"
	"go/types"
)

// EACH-ELEMENT (C07, C03): the index is updated per token: `Add(v, tokens)` and `Remove(v, tokens)`
// loop over the tokens they are given and touch one posting list per token. Such a loop has to
// reach every token: a guard clause that leaves the whole method with `return` when one token has
// no list ("nothing was ever indexed under this token") skips every later token, and the value
// stays listed under them. `continue` is what the guard means.
//
// Subjects, by shape (package search, and informational elsewhere): methods without results that
// range over a slice parameter and change state reachable from the receiver inside the loop (a
// call on something selected from the receiver). Obligation: the loop body has no bare `return`
// (function literals apart).
func init() {
	register(&Rule{
		Name:  "EACH-ELEMENT",
		IR:    "ast",
		Props: []string{"C07", "C03"},
		Floor: 3,
		Doc:   "a method without results that updates the receiver once per element of a slice parameter (Add/Remove of the indices, per token) does not leave with a bare return from inside that loop: a guard for one element must not skip the remaining ones",
		Run:   runEachElement,
	})
}

func runEachElement(c *Ctx) []Obligation {
	var out []Obligation
	for _, p := range c.SortedPkgs() {
		info := p.TypesInfo
		for _, fd := range c.FuncDecls(p) {
			obj, _ := info.Defs[fd.Name].(*types.Func)
			recv := gRecvObj(info, fd)
			if obj == nil || recv == nil || fd.Body == nil {
				continue
			}
			sig := obj.Type().(*types.Signature)
			if sig.Results().Len() != 0 {
				continue
			}
			params := map[types.Object]bool{}
			for i := 0; i < sig.Params().Len(); i++ {
				if _, ok := sig.Params().At(i).Type().Underlying().(*types.Slice); ok {
					params[sig.Params().At(i)] = true
				}
			}
			if len(params) == 0 {
				continue
			}
			name := c.FuncName(p, fd)
			ord := 0
			for _, st := range fd.Body.List {
				rs, ok := st.(*ast.RangeStmt)
				if !ok {
					continue
				}
				id, ok := ast.Unparen(rs.X).(*ast.Ident)
				if !ok || !params[info.Uses[id]] {
					continue
				}
				// the body calls something selected from the receiver
				touches := false
				ast.Inspect(rs.Body, func(n ast.Node) bool {
					if sel, ok := n.(*ast.SelectorExpr); ok {
						if x, ok := ast.Unparen(sel.X).(*ast.Ident); ok && info.Uses[x] == recv {
							touches = true
						}
					}
					return true
				})
				if !touches {
					continue
				}
				ord++
				ob := Obligation{Key: fmt.Sprintf("%s#%d", name, ord), Pos: c.Position(rs.Pos()), Status: OK,
					Detail: fmt.Sprintf("the loop over %s reaches every element: no return inside it", id.Name)}
				ast.Inspect(rs.Body, func(n ast.Node) bool {
					switch x := n.(type) {
					case *ast.FuncLit:
						return false
					case *ast.ReturnStmt:
						if ob.Status == OK {
							ob.Status = Violation
							ob.Pos = c.Position(x.Pos())
							ob.Detail = fmt.Sprintf("%s leaves with a bare return from inside its loop over %s: the elements after the one that took this branch are never processed (a guard for one element should `continue`)", obj.Name(), id.Name)
						}
					}
					return true
				})
				if relPkg(p) != "search" {
					if ob.Status == Violation {
						ob.Detail = "verdict violation (outside package search): " + ob.Detail
					}
					ob.Status = Info
				}
				out = append(out, ob)
			}
		}
	}
	return out
}
