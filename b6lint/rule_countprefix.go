package main

import (
	"fmt"
	"go/ast"
	"go/token"
	"go/types"
	"strconv"
)

// COUNT-PREFIX (C33): a vector-tile geometry is a stream of command integers, each carrying the
// number of coordinate pairs that follow it (`MoveTo(1)` + one pair, `LineTo(n)` + n pairs). A
// decoder takes the count at its word: if the count and the pairs actually written differ, the
// next command is read as a coordinate (or a coordinate as a command) and nothing after it decodes
// to the feature's geometry. The count and the loop that writes the pairs are separate statements.
//
// Discovery, by shape (package renderer): the encoder type is the struct with methods that append
// to one []uint32 field; its counted commands are the methods with one int parameter that append
// one value built from the parameter with a shift; its pair writers are the methods that append two
// values, and methods that consist of a call of a pair writer. Subjects: every call of a counted
// command as a statement. The statements that follow it in the same block, up to the next command
// of the encoder, are summed symbolically: a pair writer call counts 1; `for i := 1; i < len(S);
// i++` and `for i := len(S)-1; i > 0; i--` whose body counts 1 count len(S)-1; an if/else counts
// what both branches count, if they agree. Obligation: the count handed to the command equals the
// sum — the same constant, or len(S)-1 over the same S, where a count held in a local variable is
// followed to its definition and S must not be reassigned between that definition and the command
// (a length taken before a simplification step is stale).
func init() {
	register(&Rule{
		Name:  "COUNT-PREFIX",
		IR:    "ast",
		Props: []string{"C33"},
		Floor: 6,
		Doc:   "the count handed to every counted tile command (MoveTo, LineTo) equals the number of coordinate pairs the following statements write before the next command, symbolically: the same constant, or len(S)-1 for the slice S the writing loop ranges over, taken after the last reassignment of S",
		Run:   runCountPrefix,
	})
}

type symCount struct {
	k     int    // constant part
	slice string // "" or the text of S in len(S)-1 (one term at most)
	bad   string
}

func (a symCount) add(b symCount) symCount {
	if a.bad != "" {
		return a
	}
	if b.bad != "" {
		return b
	}
	r := symCount{k: a.k + b.k, slice: a.slice}
	if b.slice != "" {
		if a.slice != "" {
			r.bad = "more than one loop writes pairs"
		}
		r.slice = b.slice
	}
	return r
}

func (a symCount) String() string {
	switch {
	case a.bad != "":
		return "? (" + a.bad + ")"
	case a.slice != "" && a.k == 0:
		return "len(" + a.slice + ")-1"
	case a.slice != "":
		return fmt.Sprintf("len(%s)-1%+d", a.slice, a.k)
	}
	return strconv.Itoa(a.k)
}

func runCountPrefix(c *Ctx) []Obligation {
	var out []Obligation
	p := c.Pkg("renderer")
	if p == nil {
		return out
	}
	info := p.TypesInfo
	// classify the encoder's methods
	counted := map[*types.Func]bool{}
	command := map[*types.Func]bool{}
	writer := map[*types.Func]bool{}
	appendsTo := func(fd *ast.FuncDecl) (n int, shiftParam bool) {
		recv := gRecvObj(info, fd)
		if recv == nil || fd.Body == nil || len(fd.Body.List) == 0 {
			return 0, false
		}
		for _, st := range fd.Body.List {
			as, ok := st.(*ast.AssignStmt)
			if !ok || len(as.Rhs) != 1 {
				continue
			}
			call, ok := as.Rhs[0].(*ast.CallExpr)
			if !ok || !isBuiltin(info, call, "append") || len(call.Args) < 2 {
				continue
			}
			if sl, ok := info.TypeOf(call.Args[0]).Underlying().(*types.Slice); !ok || !types.Identical(sl.Elem(), types.Typ[types.Uint32]) {
				continue
			}
			n = len(call.Args) - 1
			ast.Inspect(call, func(m ast.Node) bool {
				if be, ok := m.(*ast.BinaryExpr); ok && be.Op == token.SHL {
					shiftParam = true
				}
				return true
			})
		}
		return
	}
	var encoder *types.Named
	for _, fd := range c.FuncDecls(p) {
		obj, _ := info.Defs[fd.Name].(*types.Func)
		if obj == nil || fd.Recv == nil {
			continue
		}
		n, shift := appendsTo(fd)
		sig := obj.Type().(*types.Signature)
		switch {
		case n == 1 && shift:
			command[obj] = true
			if sig.Params().Len() == 1 {
				if b, ok := sig.Params().At(0).Type().Underlying().(*types.Basic); ok && b.Kind() == types.Int {
					counted[obj] = true
				}
			}
			encoder = namedOf(sig.Recv().Type())
		case n == 2 && !shift:
			writer[obj] = true
		}
	}
	// methods that consist of one call of a pair writer
	for _, fd := range c.FuncDecls(p) {
		obj, _ := info.Defs[fd.Name].(*types.Func)
		if obj == nil || fd.Recv == nil || fd.Body == nil || len(fd.Body.List) != 1 {
			continue
		}
		if es, ok := fd.Body.List[0].(*ast.ExprStmt); ok {
			if call, ok := es.X.(*ast.CallExpr); ok {
				if f := calleeFunc(info, call); f != nil && writer[f] {
					writer[obj] = true
				}
			}
		}
	}
	if encoder == nil {
		return out
	}
	stmtCall := func(st ast.Stmt) (*ast.CallExpr, *types.Func) {
		es, ok := st.(*ast.ExprStmt)
		if !ok {
			return nil, nil
		}
		call, ok := es.X.(*ast.CallExpr)
		if !ok {
			return nil, nil
		}
		return call, calleeFunc(info, call)
	}
	lenMinus1 := func(e ast.Expr) (string, bool) { // len(S)-1 -> S
		be, ok := ast.Unparen(e).(*ast.BinaryExpr)
		if !ok || be.Op != token.SUB {
			return "", false
		}
		if tv := info.Types[be.Y]; tv.Value == nil || tv.Value.ExactString() != "1" {
			return "", false
		}
		call, ok := ast.Unparen(be.X).(*ast.CallExpr)
		if !ok || !isBuiltin(info, call, "len") {
			return "", false
		}
		return srcText(c.Fset, call.Args[0]), true
	}
	lenOf := func(e ast.Expr) (string, bool) {
		call, ok := ast.Unparen(e).(*ast.CallExpr)
		if !ok || !isBuiltin(info, call, "len") {
			return "", false
		}
		return srcText(c.Fset, call.Args[0]), true
	}
	var count func(stmts []ast.Stmt) symCount
	count = func(stmts []ast.Stmt) symCount {
		total := symCount{}
		for _, st := range stmts {
			switch x := st.(type) {
			case *ast.ExprStmt:
				if _, f := stmtCall(x); f != nil && writer[f] {
					total = total.add(symCount{k: 1})
				}
			case *ast.ForStmt:
				body := count(x.Body.List)
				if body.bad != "" {
					return body
				}
				if body.k == 0 && body.slice == "" {
					continue
				}
				if body.k != 1 || body.slice != "" {
					return symCount{bad: "a loop whose body writes " + body.String() + " pairs"}
				}
				// for i := 1; i < len(S); i++   or   for i := len(S)-1; i > 0; i--
				init, ok1 := x.Init.(*ast.AssignStmt)
				cond, ok2 := x.Cond.(*ast.BinaryExpr)
				post, ok3 := x.Post.(*ast.IncDecStmt)
				if !ok1 || !ok2 || !ok3 || len(init.Rhs) != 1 {
					return symCount{bad: "a loop of an unknown form writes pairs"}
				}
				if tv := info.Types[init.Rhs[0]]; tv.Value != nil && tv.Value.ExactString() == "1" && cond.Op == token.LSS && post.Tok == token.INC {
					if s, ok := lenOf(cond.Y); ok {
						total = total.add(symCount{slice: s})
						continue
					}
				}
				if s, ok := lenMinus1(init.Rhs[0]); ok && cond.Op == token.GTR && post.Tok == token.DEC {
					if tv := info.Types[cond.Y]; tv.Value != nil && tv.Value.ExactString() == "0" {
						total = total.add(symCount{slice: s})
						continue
					}
				}
				return symCount{bad: fmt.Sprintf("the loop %s; %s; %s does not run len(S)-1 times in a recognised way", srcText(c.Fset, x.Init), srcText(c.Fset, x.Cond), srcText(c.Fset, x.Post))}
			case *ast.RangeStmt:
				if b := count(x.Body.List); b.k != 0 || b.slice != "" || b.bad != "" {
					return symCount{bad: "a range loop writes pairs"}
				}
			case *ast.IfStmt:
				a := count(x.Body.List)
				b := symCount{}
				switch e := x.Else.(type) {
				case *ast.BlockStmt:
					b = count(e.List)
				case *ast.IfStmt:
					b = count([]ast.Stmt{e})
				}
				if a.bad != "" {
					return a
				}
				if b.bad != "" {
					return b
				}
				if a != b {
					return symCount{bad: fmt.Sprintf("the branches of an if write %s and %s pairs", a, b)}
				}
				total = total.add(a)
			case *ast.BlockStmt:
				total = total.add(count(x.List))
			}
			if total.bad != "" {
				return total
			}
		}
		return total
	}
	for _, fd := range c.FuncDecls(p) {
		if fd.Body == nil {
			continue
		}
		name := c.FuncName(p, fd)
		ord := 0
		ast.Inspect(fd.Body, func(n ast.Node) bool {
			blk, ok := n.(*ast.BlockStmt)
			if !ok {
				return true
			}
			for i, st := range blk.List {
				call, f := stmtCall(st)
				if f == nil || !counted[f] {
					continue
				}
				// following statements up to the next command
				var following []ast.Stmt
				for _, nx := range blk.List[i+1:] {
					if _, g := stmtCall(nx); g != nil && command[g] {
						break
					}
					following = append(following, nx)
				}
				got := count(following)
				ord++
				ob := Obligation{Key: fmt.Sprintf("%s#%d", name, ord), Pos: c.Position(call.Pos()), Status: OK}
				arg := ast.Unparen(call.Args[0])
				want := symCount{}
				stale := ""
				if tv := info.Types[arg]; tv.Value != nil {
					k, _ := strconv.Atoi(tv.Value.ExactString())
					want.k = k
				} else if s, ok := lenMinus1(arg); ok {
					want.slice = s
				} else {
					// a local: v or v-1 with v := len(S)
					var id *ast.Ident
					minus := 0
					if x, ok := arg.(*ast.Ident); ok {
						id = x
					} else if be, ok := arg.(*ast.BinaryExpr); ok && be.Op == token.SUB {
						if tv := info.Types[be.Y]; tv.Value != nil && tv.Value.ExactString() == "1" {
							id, _ = ast.Unparen(be.X).(*ast.Ident)
							minus = 1
						}
					}
					resolved := false
					if id != nil {
						v := info.Uses[id]
						var def *ast.AssignStmt
						ndefs := 0
						ast.Inspect(fd.Body, func(m ast.Node) bool {
							if as, ok := m.(*ast.AssignStmt); ok && len(as.Lhs) == 1 && len(as.Rhs) == 1 {
								if l, ok := as.Lhs[0].(*ast.Ident); ok && (info.Defs[l] == v || info.Uses[l] == v) && v != nil {
									def = as
									ndefs++
								}
							}
							return true
						})
						if def != nil && ndefs == 1 {
							var s string
							var ok bool
							if minus == 1 {
								s, ok = lenOf(def.Rhs[0])
							} else {
								s, ok = lenMinus1(def.Rhs[0])
							}
							if ok {
								resolved = true
								want.slice = s
								// S reassigned between the definition and the command?
								ast.Inspect(fd.Body, func(m ast.Node) bool {
									if as, ok := m.(*ast.AssignStmt); ok && as.Pos() > def.End() && as.End() < call.Pos() {
										for _, l := range as.Lhs {
											if srcText(c.Fset, l) == s {
												stale = c.Position(as.Pos())
											}
										}
									}
									return true
								})
							}
						}
					}
					if !resolved {
						want.bad = "the count " + srcText(c.Fset, arg) + " is not a constant, len(S)-1 or a local defined once from len(S)"
					}
				}
				switch {
				case want.bad != "" || got.bad != "":
					ob.Status = Undecided
					ob.Detail = fmt.Sprintf("%s: count %s, pairs written %s", srcText(c.Fset, call), want, got)
				case stale != "":
					ob.Status = Violation
					ob.Detail = fmt.Sprintf("%s announces %s pairs, but that length was taken before %s was reassigned at %s: the loop that follows writes len(%s)-1 pairs of the new slice, so the count and the pairs written differ whenever the reassignment changes the length", srcText(c.Fset, call), want, want.slice, stale, got.slice)
				case want != got:
					ob.Status = Violation
					ob.Detail = fmt.Sprintf("%s announces %s coordinate pairs but the statements up to the next command write %s: a decoder reads the next command as a coordinate (or a coordinate as a command)", srcText(c.Fset, call), want, got)
				default:
					ob.Detail = fmt.Sprintf("%s is followed by exactly %s coordinate pairs before the next command", srcText(c.Fset, call), got)
				}
				out = append(out, ob)
			}
			return true
		})
	}
	return out
}
