package main

import (
	"fmt"
	"go/ast"
	"go/token"
	"go/types"
)

// ERR-RETURNED (C28): the error a callback returned reaches the enumerator's result.
//
// Slots: the invocation sites of STOP-AFTER-ERROR (same discovery: functions with an
// error-returning callback parameter; direct calls, calls of derived closures, delegating calls).
//
// Obligation per site - the error value must arrive at a *sink* on every path on which it is
// non-nil, without being overwritten on the way:
//   - it is the operand of a `return` (directly, or `v := cb(..)` ... `return v`) of
//     (a) the enumerator itself, (b) a derived closure (whoever invokes that closure is a site
//     of its own), or (c) a function given to errgroup.Group.Go - then the group's Wait() must
//     be what the enumerator returns: every return of the function that calls g.Go, after that
//     call, returns `g.Wait()`, a variable assigned from it, or a certainly non-nil error; an
//     enumerator without an error result (ParalleliseEmit) must return g.Wait() from a closure;
//   - it is stored in a variable captured from an enclosing function (`cause = err`,
//     `readOSMDataErr = err`): every later return of the function that owns the variable returns
//     that variable or a certainly non-nil error (`if readBlobErr != nil && .. { return readBlobErr }`);
//   - it is stored in an element of a captured slice of errors that the owner later scans
//     (`for _, err := range errors { if err != nil { return err } }`), with no return between.
//
// A discarded result, a result overwritten before the sink (`err = f(..)` twice), or a path that
// leaves the body without a sink is a violation.
//
// Scope as for STOP-AFTER-ERROR (aScopeOf); functions outside it are reported as info.
func init() {
	register(&Rule{
		Name:  "ERR-RETURNED",
		IR:    "cfg",
		Props: []string{"C28"},
		Floor: aStopFloor,
		Doc: "the error result of every invocation of an enumerator's callback (direct, derived closure, delegating call) reaches the enumerator's result: returned directly, " +
			"returned from an errgroup.Go function whose group's Wait() is what the enumerator returns, or stored in a captured variable that every later return of its owner returns; " +
			"it is never discarded or overwritten on the way",
		Run: runErrReturned,
	})
}

type aErrCtx struct {
	c    *Ctx
	e    *aEnum
	go_  map[*ast.FuncLit]types.Object // literal given to errgroup Go → group variable
	goAt map[*ast.FuncLit]*ast.CallExpr
}

func aUnitContaining(units []*aUnit, pos token.Pos) *aUnit {
	var best *aUnit
	for _, u := range units {
		if u.body.Pos() <= pos && pos < u.body.End() || (u.lit == nil && u.decl.Pos() <= pos && pos < u.decl.End()) {
			if best == nil || (u.body.Pos() >= best.body.Pos() && u.body.End() <= best.body.End()) {
				best = u
			}
		}
	}
	return best
}

// lastResult returns the last operand of a return statement, or nil.
func aLastResult(r *ast.ReturnStmt) ast.Expr {
	if len(r.Results) == 0 {
		return nil
	}
	return r.Results[len(r.Results)-1]
}

func aHasErrResult(info *types.Info, u *aUnit) bool {
	if u.ftype.Results == nil || len(u.ftype.Results.List) == 0 {
		return false
	}
	l := u.ftype.Results.List[len(u.ftype.Results.List)-1]
	return aIsError(info.TypeOf(l.Type))
}

// returnOK decides whether an error returned from unit u reaches the enumerator's result.
func (x *aErrCtx) returnOK(u *aUnit) (bool, string) {
	info := u.info()
	if u.lit == nil {
		return true, "returned by the enumerator"
	}
	if g, isGo := x.go_[u.lit]; isGo {
		return x.waitReturned(u, g)
	}
	if x.e.lits[u.lit] {
		return true, "returned by a derived closure"
	}
	_ = info
	return false, "returned from a function literal that is neither a derived callback nor an errgroup function"
}

func aIsWaitOf(info *types.Info, e ast.Expr, g types.Object) bool {
	call, ok := ast.Unparen(e).(*ast.CallExpr)
	if !ok || !aIsGroupMethod(calleeFunc(info, call), "Wait") {
		return false
	}
	sel, ok := ast.Unparen(call.Fun).(*ast.SelectorExpr)
	return ok && aRootObj(info, sel.X) == g
}

// waitReturned: the group's Wait() is what the function that started the group returns.
func (x *aErrCtx) waitReturned(u *aUnit, g types.Object) (bool, string) {
	if g == nil {
		return false, "the errgroup variable does not resolve"
	}
	owner := u.parent
	goCall := x.goAt[u.lit]
	if owner == nil || goCall == nil {
		return false, "the errgroup.Go call was not found"
	}
	info := owner.info()
	// variables assigned from g.Wait()
	waitVars := map[types.Object]bool{}
	waitReturnedSomewhere := false
	for _, w := range x.e.units {
		aShallow(w.body, func(n ast.Node) bool {
			switch s := n.(type) {
			case *ast.AssignStmt:
				if len(s.Rhs) == 1 && aIsWaitOf(info, s.Rhs[0], g) && len(s.Lhs) == 1 {
					if o := aObjOf(info, s.Lhs[0]); o != nil {
						waitVars[o] = true
					}
				}
			case *ast.ReturnStmt:
				if r := aLastResult(s); r != nil && aIsWaitOf(info, r, g) {
					waitReturnedSomewhere = true
				}
			}
			return true
		})
	}
	if !aHasErrResult(info, owner) {
		if waitReturnedSomewhere {
			return true, "returned from an errgroup function; the function that starts the group has no error result and hands out a closure that returns " + g.Name() + ".Wait()"
		}
		return false, "returned from an errgroup function, but " + g.Name() + ".Wait() is returned nowhere"
	}
	n := 0
	var bad *ast.ReturnStmt
	aShallow(owner.body, func(nd ast.Node) bool {
		r, ok := nd.(*ast.ReturnStmt)
		if !ok || r.Pos() < goCall.End() {
			return true
		}
		res := aLastResult(r)
		switch {
		case res == nil:
			bad = r
		case aIsWaitOf(info, res, g):
			n++
		case aObjOf(info, res) != nil && waitVars[aObjOf(info, res)]:
			n++
		case aNonNilExpr(info, res, aImplied(info, aChain(owner.body, r))):
		default:
			if bad == nil {
				bad = r
			}
		}
		return true
	})
	if bad != nil {
		return false, fmt.Sprintf("returned from an errgroup function, but %s at %s returns neither %s.Wait() nor a non-nil error", nodeText(x.c.Fset, bad), x.c.Position(bad.Pos()), g.Name())
	}
	if n == 0 {
		return false, "returned from an errgroup function, but " + g.Name() + ".Wait() is never returned by the function that starts the group"
	}
	ok, why := x.returnOK(owner)
	if !ok {
		return false, why
	}
	return true, "returned from an errgroup function whose " + g.Name() + ".Wait() is what every later return gives back"
}

// capturedOK: every later return of the owner of variable t returns t or a non-nil error.
func (x *aErrCtx) capturedOK(from *aUnit, t types.Object, elem bool) (bool, string) {
	owner := aUnitContaining(x.e.units, t.Pos())
	if owner == nil || owner.pkg != from.pkg {
		return false, "stored in " + t.Name() + ", which is not a local variable of the enumerator"
	}
	if v, ok := t.(*types.Var); ok && v.IsField() {
		return false, "stored in field " + t.Name()
	}
	info := owner.info()
	// the literal (directly inside owner) that contains the store
	start := from
	for start != nil && start.parent != owner {
		start = start.parent
	}
	if start == nil {
		return false, "stored in " + t.Name() + " of an unrelated function"
	}
	after := start.lit.Pos()
	var scan *ast.RangeStmt
	if elem {
		aShallow(owner.body, func(n ast.Node) bool {
			rs, ok := n.(*ast.RangeStmt)
			if !ok || scan != nil || rs.Pos() < after || aRootObj(info, rs.X) != t || rs.Value == nil {
				return true
			}
			val := aObjOf(info, rs.Value)
			found := false
			aShallow(rs.Body, func(m ast.Node) bool {
				if r, ok := m.(*ast.ReturnStmt); ok {
					if res := aLastResult(r); res != nil && aObjOf(info, res) == val && aImplied(info, aChain(rs.Body, r))[val] {
						found = true
					}
				}
				return true
			})
			if found {
				scan = rs
			}
			return true
		})
		if scan == nil {
			return false, "stored in an element of " + t.Name() + ", which is never scanned for a non-nil error that is returned"
		}
	}
	n := 0
	var bad *ast.ReturnStmt
	aShallow(owner.body, func(nd ast.Node) bool {
		r, ok := nd.(*ast.ReturnStmt)
		if !ok || r.Pos() < after {
			return true
		}
		if scan != nil && r.Pos() >= scan.Pos() {
			n++
			return true
		}
		res := aLastResult(r)
		switch {
		case res == nil:
			bad = r
		case aObjOf(info, res) == t:
			n++
		case aNonNilExpr(info, res, aImplied(info, aChain(owner.body, r))):
		default:
			if bad == nil {
				bad = r
			}
		}
		return true
	})
	if bad != nil {
		return false, fmt.Sprintf("stored in %s, but %s at %s returns neither %s nor a certainly non-nil error", t.Name(), nodeText(x.c.Fset, bad), x.c.Position(bad.Pos()), t.Name())
	}
	if n == 0 {
		return false, "stored in " + t.Name() + ", which its owner never returns"
	}
	ok, why := x.returnOK(owner)
	if !ok {
		return false, why
	}
	if elem {
		return true, "stored in an element of " + t.Name() + ", which the owner scans and returns the first non-nil error of"
	}
	return true, "stored in captured variable " + t.Name() + ", which every later return of its owner returns"
}

func runErrReturned(c *Ctx) []Obligation {
	var out []Obligation
	scope := aScopeOf(c)
	for _, e := range scope.enums {
		anchored := scope.why[e.decl] != ""
		x := &aErrCtx{c: c, e: e, go_: map[*ast.FuncLit]types.Object{}, goAt: map[*ast.FuncLit]*ast.CallExpr{}}
		info := e.pkg.TypesInfo
		for _, u := range e.units {
			aShallow(u.body, func(n ast.Node) bool {
				call, ok := n.(*ast.CallExpr)
				if !ok || len(call.Args) != 1 {
					return true
				}
				if f := calleeFunc(info, call); aIsGroupMethod(f, "Go") || aIsGroupMethod(f, "TryGo") {
					if fl, ok := ast.Unparen(call.Args[0]).(*ast.FuncLit); ok {
						if sel, ok := ast.Unparen(call.Fun).(*ast.SelectorExpr); ok {
							x.go_[fl] = aRootObj(info, sel.X)
							x.goAt[fl] = call
						}
					}
				}
				return true
			})
		}
		for _, s := range e.sites {
			ob := Obligation{Key: fmt.Sprintf("%s#%d", e.name, s.ord), Pos: c.Position(s.call.Pos())}
			what := "callback call " + nodeText(c.Fset, s.call)
			if s.delegate {
				what = "call that is handed the callback, " + nodeText(c.Fset, s.call) + ","
			}
			set := func(status, detail string, path []string) {
				ob.Status, ob.Detail, ob.Path = status, detail, path
				if !anchored && status != Info {
					ob.Status = Info
					ob.Detail = "not one of the enumerations C28 speaks about, no obligation; the analysis says " + status + ": " + detail
				}
				out = append(out, ob)
			}
			u := s.unit
			node, v, kind := aResultVar(u, s.call)
			switch kind {
			case "return":
				if ok, why := x.returnOK(u); ok {
					set(OK, fmt.Sprintf("the error of %s in %s is %s", what, e.name, why), nil)
				} else {
					set(Violation, fmt.Sprintf("the error of %s in %s does not reach the enumerator's result: it is %s", what, e.name, why), nil)
				}
				continue
			case "discard":
				set(Violation, fmt.Sprintf("the error of %s in %s is discarded", what, e.name), nil)
				continue
			case "store":
				as := node.(*ast.AssignStmt)
				var lhs ast.Expr
				for i, r := range as.Rhs {
					if ast.Unparen(r) == ast.Expr(s.call) && len(as.Lhs) == len(as.Rhs) {
						lhs = as.Lhs[i]
					}
				}
				if lhs == nil {
					lhs = as.Lhs[len(as.Lhs)-1]
				}
				t := aRootObj(info, lhs)
				_, isIndex := ast.Unparen(lhs).(*ast.IndexExpr)
				if t == nil {
					set(Undecided, fmt.Sprintf("the error of %s in %s is stored in %s, an expression the rule does not know", what, e.name, types.ExprString(lhs)), nil)
					continue
				}
				if ok, why := x.capturedOK(u, t, isIndex); ok {
					set(OK, fmt.Sprintf("the error of %s in %s is %s", what, e.name, why), nil)
				} else {
					set(Violation, fmt.Sprintf("the error of %s in %s does not reach the enumerator's result: it is %s", what, e.name, why), nil)
				}
				continue
			case "other":
				set(Undecided, fmt.Sprintf("the result of %s in %s is used in a way the rule does not know (%T)", what, e.name, node), nil)
				continue
			}
			// kind == "assign": follow v to a sink
			uinfo := u.info()
			if !(u.body.Pos() <= v.Pos() && v.Pos() < u.body.End()) && !aIsParamOf(u, v) {
				// v itself is captured from an enclosing function
				if ok, why := x.capturedOK(u, v, false); ok {
					set(OK, fmt.Sprintf("the error of %s in %s is %s", what, e.name, why), nil)
				} else {
					set(Violation, fmt.Sprintf("the error of %s in %s does not reach the enumerator's result: it is %s", what, e.name, why), nil)
				}
				continue
			}
			g := u.cfg()
			loc, found := findNode(g, s.call)
			if !found {
				set(Undecided, fmt.Sprintf("%s in %s not found in the control-flow graph", what, e.name), nil)
				continue
			}
			type sink struct {
				ret      *ast.ReturnStmt
				captured types.Object
				elem     bool
			}
			var sinks []sink
			seenSink := map[ast.Node]bool{}
			fl := &aFlow{c: c, info: uinfo, exitBad: true, tagless: aTagless(u.body),
				stop: func(n ast.Node) bool {
					switch st := n.(type) {
					case *ast.ReturnStmt:
						if res := aLastResult(st); res != nil && (aObjOf(uinfo, res) == v || aNonNilExpr(uinfo, res, nil)) {
							if !seenSink[n] {
								seenSink[n] = true
								sinks = append(sinks, sink{ret: st})
							}
							return true
						}
					case *ast.AssignStmt:
						for i, r := range st.Rhs {
							if len(st.Lhs) == len(st.Rhs) && aObjOf(uinfo, r) == v {
								t := aRootObj(uinfo, st.Lhs[i])
								if t == nil || t == v {
									continue
								}
								inside := u.body.Pos() <= t.Pos() && t.Pos() < u.body.End()
								if tv, ok := t.(*types.Var); ok && (tv.IsField() || !inside) {
									if !seenSink[n] {
										seenSink[n] = true
										_, isIndex := ast.Unparen(st.Lhs[i]).(*ast.IndexExpr)
										sinks = append(sinks, sink{captured: t, elem: isIndex})
									}
									return true
								}
							}
						}
					}
					return false
				},
				overwrite: func(n ast.Node, o types.Object) string {
					if o == v {
						return "the error in " + v.Name() + " is overwritten"
					}
					return ""
				},
			}
			if w := fl.run(loc.b, loc.i+1, map[types.Object]bool{v: true}); w != nil {
				set(Violation, fmt.Sprintf("the error of %s in %s (in %s) can be lost: on some path it is neither returned nor stored in a variable of the enumerator", what, e.name, v.Name()),
					append([]string{"from " + c.Position(s.call.Pos()) + " with a non-nil error in " + v.Name()}, w...))
				continue
			}
			if len(sinks) == 0 {
				set(Violation, fmt.Sprintf("the error of %s in %s (in %s) is never returned nor stored", what, e.name, v.Name()), nil)
				continue
			}
			allOK := true
			var whys []string
			for _, sk := range sinks {
				var ok bool
				var why string
				if sk.ret != nil {
					ok, why = x.returnOK(u)
				} else {
					ok, why = x.capturedOK(u, sk.captured, sk.elem)
				}
				if !ok {
					allOK = false
					whys = []string{why}
					break
				}
				dup := false
				for _, wv := range whys {
					if wv == why {
						dup = true
					}
				}
				if !dup {
					whys = append(whys, why)
				}
			}
			if allOK {
				set(OK, fmt.Sprintf("the error of %s in %s is %s on every path", what, e.name, aJoin(whys)), nil)
			} else {
				set(Violation, fmt.Sprintf("the error of %s in %s does not reach the enumerator's result: it is %s", what, e.name, aJoin(whys)), nil)
			}
		}
	}
	return out
}

func aJoin(s []string) string {
	out := ""
	for i, x := range s {
		if i > 0 {
			out += "; or "
		}
		out += x
	}
	return out
}

func aIsParamOf(u *aUnit, v types.Object) bool {
	for _, p := range u.params() {
		if p != nil && types.Object(p) == v {
			return true
		}
	}
	// named results
	if u.ftype.Results != nil {
		for _, f := range u.ftype.Results.List {
			for _, n := range f.Names {
				if u.info().Defs[n] == v {
					return true
				}
			}
		}
	}
	return false
}
