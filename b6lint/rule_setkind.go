package main

import (
	"fmt"
	"go/ast"
	"go/token"
	"go/types"
	"sort"
	"strings"

	"golang.org/x/tools/go/cfg"
	"golang.org/x/tools/go/packages"
)

// SET-KIND (C29): OSM node, way and relation IDs are separate number spaces, so a set of IDs
// (ingest.IDSet holds bare uint64) is only meaningful for one element kind. MEMBER-KEY checks
// that a membership test is keyed by the member; SET-KIND checks that it is made on the set of
// the member's own kind (a relation-typed member looked up in the set of area *ways* is the
// copy/paste this rule is for).
//
// Kinds are the ID types of package osm (NodeID, WayID, RelationID). The kind of an ID
// expression is derived, after stripping conversions, from
//   - its static type (`e.ID` under `case *osm.Way:` has type osm.WayID; `m.WayID()`),
//   - for the untyped `X.ID` of an osm.Member X: the enclosing `case osm.ElementTypeK:` arm of a
//     switch on X.Type, or the enclosing `if X.Type == osm.ElementTypeK`; failing that, the
//     typed accessors X.WayID()/X.RelationID()/X.NodeID() called in the branches of the if
//     statement whose condition holds the test; before that, the early-exit idiom decided on
//     go/cfg: `if X.Type != osm.ElementTypeK { continue }` (return/break, `== K … else
//     continue`, !, && on the true edge, || on the false edge): the test's block is unreachable
//     from the start of the loop body once the edges that imply "X is K" are removed. The constant-to-kind table is read from the
//     bodies of the osm.Member accessors (`if m.Type == ElementTypeWay { return WayID(m.ID) }`),
//   - for a local with a single definition: that definition.
//
// Sets are identified by object (struct field, local, parameter); a parameter is the same set
// as the argument of every static call site in the module. The kind of a set is the kind of
// the IDs passed to its one-argument, no-result methods (IDSet.Add).
//
// Slots: every call of a one-argument bool method of ingest.IDSet (IDSet.Has) in the module.
// Obligation per test whose argument kind K is known: the set receives IDs of kind K only; if
// nothing is added to the set inside the module (compact.(*Relation).FromOSM gets its sets as
// parameters and has no caller outside tests), every other test on the same set must be for
// kind K as well (the first test in source order establishes the kind). A test inside a loop
// over osm.Member values whose kind cannot be derived is undecided; elsewhere it is info.
func init() {
	register(&Rule{
		Name:  "SET-KIND",
		IR:    "ast",
		Props: []string{"C29"},
		// ingest.NewFeatureSourceFromPBF#1; ingest.(*pbfSource).Read#1,#2; ingest.reassembleMultiPolygon#1;
		// ingest/compact.(*Relation).FromOSM#1,#2
		Floor: 6,
		Doc: "every ingest.IDSet membership test is made on a set that holds IDs of the same OSM element kind (node/way/relation) as the ID looked up: " +
			"the kind added to the set (IDSet.Add under a *osm.Way / *osm.Relation arm, or keyed by a typed ID) equals the member kind established by the " +
			"enclosing osm.ElementType arm or typed accessor; a set without Add sites is consulted for one kind only",
		Run: runSetKind,
	})
}

type fKindCtx struct {
	c       *Ctx
	osm     *packages.Package
	idTypes map[*types.TypeName]bool         // osm.NodeID, WayID, RelationID
	consts  map[types.Object]*types.TypeName // osm.ElementTypeX -> ID type
	member  *types.Named                     // osm.Member
}

func fNewKindCtx(c *Ctx) *fKindCtx {
	op := c.Pkg("osm")
	if op == nil {
		return nil
	}
	k := &fKindCtx{c: c, osm: op, idTypes: map[*types.TypeName]bool{}, consts: map[types.Object]*types.TypeName{}}
	mtn, _ := op.Types.Scope().Lookup("Member").(*types.TypeName)
	if mtn == nil {
		return nil
	}
	k.member, _ = mtn.Type().(*types.Named)
	if k.member == nil {
		return nil
	}
	// accessors: func (m *Member) XID() XID { if m.Type == C { return XID(m.ID) } … }
	for i := 0; i < k.member.NumMethods(); i++ {
		m := k.member.Method(i)
		sig := m.Type().(*types.Signature)
		if sig.Params().Len() != 0 || sig.Results().Len() != 1 {
			continue
		}
		rn := namedOf(sig.Results().At(0).Type())
		if rn == nil || rn.Obj().Pkg() != op.Types {
			continue
		}
		if b, ok := rn.Underlying().(*types.Basic); !ok || b.Info()&types.IsInteger == 0 {
			continue
		}
		decl, dp := c.Decl(m)
		if decl == nil || decl.Body == nil {
			continue
		}
		var cobj types.Object
		n := 0
		ast.Inspect(decl.Body, func(x ast.Node) bool {
			ifs, ok := x.(*ast.IfStmt)
			if !ok {
				return true
			}
			if be, ok := ast.Unparen(ifs.Cond).(*ast.BinaryExpr); ok && be.Op == token.EQL {
				for _, side := range []ast.Expr{be.X, be.Y} {
					if o := fConstObj(dp.TypesInfo, side); o != nil {
						cobj = o
						n++
					}
				}
			}
			return true
		})
		if n == 1 && cobj != nil {
			k.consts[cobj] = rn.Obj()
			k.idTypes[rn.Obj()] = true
		}
	}
	if len(k.consts) == 0 {
		return nil
	}
	return k
}

func fConstObj(info *types.Info, e ast.Expr) types.Object {
	var id *ast.Ident
	switch x := ast.Unparen(e).(type) {
	case *ast.Ident:
		id = x
	case *ast.SelectorExpr:
		id = x.Sel
	}
	if id == nil {
		return nil
	}
	if c, ok := info.Uses[id].(*types.Const); ok {
		return c
	}
	return nil
}

func (k *fKindCtx) isMember(t types.Type) bool {
	n := namedOf(t)
	return n != nil && n.Obj() == k.member.Obj()
}

// baseObj resolves `x`, `x.f`, `(*x).f` to the object of the variable or field denoted.
func fBaseObj(info *types.Info, e ast.Expr) types.Object {
	switch x := ast.Unparen(e).(type) {
	case *ast.Ident:
		if v, ok := info.ObjectOf(x).(*types.Var); ok {
			return v
		}
	case *ast.SelectorExpr:
		if sel := info.Selections[x]; sel != nil && sel.Kind() == types.FieldVal {
			return sel.Obj()
		}
		if v, ok := info.Uses[x.Sel].(*types.Var); ok {
			return v
		}
	case *ast.StarExpr:
		return fBaseObj(info, x.X)
	case *ast.UnaryExpr:
		if x.Op == token.AND {
			return fBaseObj(info, x.X)
		}
	}
	return nil
}

// memberKind derives the kind of member X at the program point `site` inside body.
func (k *fKindCtx) memberKind(info *types.Info, body ast.Node, site ast.Node, x ast.Expr) (*types.TypeName, string) {
	xo := fBaseObj(info, x)
	if xo == nil {
		return nil, ""
	}
	isTypeOfX := func(e ast.Expr) bool {
		se, ok := ast.Unparen(e).(*ast.SelectorExpr)
		if !ok {
			return false
		}
		sel := info.Selections[se]
		if sel == nil || sel.Kind() != types.FieldVal || !k.isMember(sel.Recv()) {
			return false
		}
		if _, isConstTyped := k.constType(sel.Obj().Type()); !isConstTyped {
			return false
		}
		return fBaseObj(info, se.X) == xo
	}
	chain := enclosing(body, site)
	for i := len(chain) - 1; i >= 0; i-- {
		switch n := chain[i].(type) {
		case *ast.FuncLit:
			// the member variable may be captured; keep looking outward
		case *ast.CaseClause:
			if i < 2 {
				continue
			}
			sw, ok := chain[i-2].(*ast.SwitchStmt)
			if !ok || sw.Tag == nil || !isTypeOfX(sw.Tag) {
				continue
			}
			var kinds []*types.TypeName
			for _, e := range n.List {
				if t := k.consts[fConstObj(info, e)]; t != nil {
					kinds = append(kinds, t)
				} else {
					kinds = append(kinds, nil)
				}
			}
			if len(kinds) == 1 && kinds[0] != nil {
				return kinds[0], "case " + types.ExprString(n.List[0]) + " at " + k.c.Position(n.Pos())
			}
			return nil, ""
		case *ast.IfStmt:
			if !(n.Body.Pos() <= site.Pos() && site.End() <= n.Body.End()) {
				continue
			}
			var conj []ast.Expr
			var split func(e ast.Expr)
			split = func(e ast.Expr) {
				if b, ok := ast.Unparen(e).(*ast.BinaryExpr); ok && b.Op == token.LAND {
					split(b.X)
					split(b.Y)
					return
				}
				conj = append(conj, ast.Unparen(e))
			}
			split(n.Cond)
			for _, cj := range conj {
				be, ok := cj.(*ast.BinaryExpr)
				if !ok || be.Op != token.EQL {
					continue
				}
				for _, pr := range [][2]ast.Expr{{be.X, be.Y}, {be.Y, be.X}} {
					if isTypeOfX(pr[0]) {
						if t := k.consts[fConstObj(info, pr[1])]; t != nil {
							return t, "if " + types.ExprString(cj) + " at " + k.c.Position(n.Pos())
						}
					}
				}
			}
		}
	}
	// early-exit guard, decided on the control-flow graph
	if t, how := k.memberKindCFG(info, chain, site, xo, isTypeOfX); t != nil {
		return t, how
	}
	// typed accessors in the branches of the if statement whose condition contains the site
	for i := len(chain) - 1; i >= 0; i-- {
		ifs, ok := chain[i].(*ast.IfStmt)
		if !ok || !(ifs.Cond.Pos() <= site.Pos() && site.End() <= ifs.Cond.End()) {
			continue
		}
		found := map[*types.TypeName]bool{}
		ast.Inspect(ifs, func(m ast.Node) bool {
			call, ok := m.(*ast.CallExpr)
			if !ok || len(call.Args) != 0 {
				return true
			}
			se, ok := ast.Unparen(call.Fun).(*ast.SelectorExpr)
			if !ok || fBaseObj(info, se.X) != xo {
				return true
			}
			if f := calleeFunc(info, call); f != nil {
				if n := namedOf(f.Type().(*types.Signature).Results().At(0).Type()); f.Type().(*types.Signature).Results().Len() == 1 && n != nil && k.idTypes[n.Obj()] {
					found[n.Obj()] = true
				}
			}
			return true
		})
		if len(found) == 1 {
			for t := range found {
				return t, "typed accessor " + t.Name() + "() used in the branches of the if at " + k.c.Position(ifs.Pos())
			}
		}
		break
	}
	return nil, ""
}

// memberKindCFG decides the early-exit idiom `if X.Type != K { continue }` (also return/break,
// `if X.Type == K { … } else { continue }`, negations and &&/|| as go/cfg splits them): X is of
// kind K at the site when, in the CFG of the innermost function around the site, the site's
// block is unreachable from the start of the loop body that binds X (or from the function entry
// when X is not a range variable) once the "X is K" edges are removed — the true edge of
// `X.Type == K`, the false edge of `X.Type != K`. Exactly one kind must have that property.
func (k *fKindCtx) memberKindCFG(info *types.Info, chain []ast.Node, site ast.Node, xo types.Object, isTypeOfX func(ast.Expr) bool) (*types.TypeName, string) {
	var body *ast.BlockStmt
	var loop *ast.RangeStmt
	for _, n := range chain {
		switch x := n.(type) {
		case *ast.BlockStmt:
			if body == nil {
				body = x
			}
		case *ast.FuncLit:
			body, loop = x.Body, nil
		case *ast.RangeStmt:
			for _, v := range []ast.Expr{x.Key, x.Value} {
				if id, ok := v.(*ast.Ident); ok && info.ObjectOf(id) == xo {
					loop = x
				}
			}
		}
	}
	if body == nil {
		return nil, ""
	}
	g := newCFG(info, body)
	loc, ok := findNode(g, site)
	if !ok || len(g.Blocks) == 0 {
		return nil, ""
	}
	start := g.Blocks[0]
	if loop != nil {
		start = nil
		for _, b := range g.Blocks {
			if b.Kind == cfg.KindRangeBody && b.Stmt == ast.Stmt(loop) {
				start = b
			}
		}
		if start == nil {
			return nil, ""
		}
	}
	type edge struct{ from, to *cfg.Block }
	edges := map[*types.TypeName]map[edge]string{}
	for _, b := range g.Blocks {
		if len(b.Succs) != 2 || len(b.Nodes) == 0 || b.Succs[0] == b.Succs[1] {
			continue
		}
		cond, ok := b.Nodes[len(b.Nodes)-1].(ast.Expr)
		if !ok {
			continue
		}
		// go/cfg keeps a whole condition as one node: which kinds does each outcome imply?
		var implied func(e ast.Expr, outcome bool) []*types.TypeName
		implied = func(e ast.Expr, outcome bool) []*types.TypeName {
			switch x := ast.Unparen(e).(type) {
			case *ast.UnaryExpr:
				if x.Op == token.NOT {
					return implied(x.X, !outcome)
				}
			case *ast.BinaryExpr:
				switch {
				case x.Op == token.LAND && outcome, x.Op == token.LOR && !outcome:
					return append(implied(x.X, outcome), implied(x.Y, outcome)...)
				case x.Op == token.EQL && outcome, x.Op == token.NEQ && !outcome:
					for _, pr := range [][2]ast.Expr{{x.X, x.Y}, {x.Y, x.X}} {
						if isTypeOfX(pr[0]) {
							if t := k.consts[fConstObj(info, pr[1])]; t != nil {
								return []*types.TypeName{t}
							}
						}
					}
				}
			}
			return nil
		}
		for i, outcome := range []bool{true, false} {
			for _, t := range implied(cond, outcome) {
				if edges[t] == nil {
					edges[t] = map[edge]string{}
				}
				word := "true"
				if !outcome {
					word = "false"
				}
				edges[t][edge{b, b.Succs[i]}] = "the " + word + " edge of " + types.ExprString(cond) + " at " + k.c.Position(cond.Pos())
			}
		}
	}
	var kinds []*types.TypeName
	for t := range edges {
		kinds = append(kinds, t)
	}
	sort.Slice(kinds, func(i, j int) bool { return kinds[i].Name() < kinds[j].Name() })
	var found *types.TypeName
	var how string
	for _, t := range kinds {
		if start == loc.b {
			break // the site is in the first block of the body: nothing can guard it
		}
		seen := map[*cfg.Block]bool{start: true}
		work := []*cfg.Block{start}
		reached := false
		for len(work) > 0 && !reached {
			b := work[0]
			work = work[1:]
			for _, sc := range b.Succs {
				if _, cut := edges[t][edge{b, sc}]; cut || seen[sc] {
					continue
				}
				if loop != nil && sc.Kind == cfg.KindRangeLoop && sc.Stmt == ast.Stmt(loop) {
					continue // next iteration: a new member
				}
				seen[sc] = true
				if sc == loc.b {
					reached = true
					break
				}
				work = append(work, sc)
			}
		}
		if !reached {
			if found != nil {
				return nil, "" // two kinds at once: dead code
			}
			found = t
			var descs []string
			for _, d := range edges[t] {
				descs = append(descs, d)
			}
			sort.Strings(descs)
			how = "reachable only through " + strings.Join(descs, " / ")
		}
	}
	return found, how
}

// constType reports whether t is the type of the element-type constants.
func (k *fKindCtx) constType(t types.Type) (types.Type, bool) {
	for c := range k.consts {
		if types.Identical(c.Type(), t) {
			return t, true
		}
	}
	return nil, false
}

// kindOf derives the kind of an ID expression used at `site`.
func (k *fKindCtx) kindOf(info *types.Info, body ast.Node, site ast.Node, e ast.Expr, depth int) (*types.TypeName, string) {
	for {
		e = ast.Unparen(e)
		if t := info.TypeOf(e); t != nil {
			if n := namedOf(t); n != nil && k.idTypes[n.Obj()] {
				if _, isPtr := t.(*types.Pointer); !isPtr {
					return n.Obj(), "type " + n.Obj().Name() + " of " + types.ExprString(e)
				}
			}
		}
		if call, ok := e.(*ast.CallExpr); ok && len(call.Args) == 1 {
			if tv, ok := info.Types[call.Fun]; ok && tv.IsType() {
				e = call.Args[0]
				continue
			}
		}
		break
	}
	switch x := e.(type) {
	case *ast.SelectorExpr:
		if sel := info.Selections[x]; sel != nil && sel.Kind() == types.FieldVal && k.isMember(sel.Recv()) {
			return k.memberKind(info, body, site, x.X)
		}
	case *ast.Ident:
		if depth > 3 {
			return nil, ""
		}
		o := info.ObjectOf(x)
		if o == nil {
			return nil, ""
		}
		var defs []ast.Expr
		ast.Inspect(body, func(n ast.Node) bool {
			switch s := n.(type) {
			case *ast.AssignStmt:
				for i, l := range s.Lhs {
					if id, ok := ast.Unparen(l).(*ast.Ident); ok && info.ObjectOf(id) == o {
						if len(s.Lhs) == len(s.Rhs) {
							defs = append(defs, s.Rhs[i])
						} else {
							defs = append(defs, nil)
						}
					}
				}
			case *ast.ValueSpec:
				for i, nm := range s.Names {
					if info.ObjectOf(nm) == o && i < len(s.Values) {
						defs = append(defs, s.Values[i])
					}
				}
			case *ast.IncDecStmt:
				if id, ok := ast.Unparen(s.X).(*ast.Ident); ok && info.ObjectOf(id) == o {
					defs = append(defs, nil)
				}
			}
			return true
		})
		if len(defs) == 1 && defs[0] != nil {
			return k.kindOf(info, body, site, defs[0], depth+1)
		}
	}
	return nil, ""
}

type fSetUse struct {
	p      *packages.Package
	fd     *ast.FuncDecl
	call   *ast.CallExpr
	set    types.Object
	kind   *types.TypeName
	how    string
	inLoop bool // inside a loop over osm.Member values
}

func runSetKind(c *Ctx) []Obligation {
	k := fNewKindCtx(c)
	ing := c.Pkg("ingest")
	if k == nil || ing == nil {
		return nil
	}
	ingPath := ModulePath + "/ingest"
	// union of set objects: parameter == argument at static call sites
	parent := map[types.Object]types.Object{}
	var find func(o types.Object) types.Object
	find = func(o types.Object) types.Object {
		for parent[o] != nil && parent[o] != o {
			o = parent[o]
		}
		return o
	}
	union := func(a, b types.Object) {
		ra, rb := find(a), find(b)
		if ra == rb {
			return
		}
		// deterministic representative: smallest (package path, position)
		pa, pb := "", ""
		if ra.Pkg() != nil {
			pa = ra.Pkg().Path()
		}
		if rb.Pkg() != nil {
			pb = rb.Pkg().Path()
		}
		if pb < pa || pb == pa && rb.Pos() < ra.Pos() {
			ra, rb = rb, ra
		}
		parent[rb] = ra
	}
	isSet := func(t types.Type) bool { return t != nil && isNamed(t, ingPath, "IDSet") }
	var adds, tests []*fSetUse
	decls := fAllDecls(c)
	for _, d := range decls {
		info := d.p.TypesInfo
		ast.Inspect(d.fd.Body, func(n ast.Node) bool {
			switch x := n.(type) {
			case *ast.AssignStmt:
				if len(x.Lhs) == len(x.Rhs) {
					for i := range x.Lhs {
						if isSet(info.TypeOf(x.Lhs[i])) {
							if a, b := fBaseObj(info, x.Lhs[i]), fBaseObj(info, x.Rhs[i]); a != nil && b != nil {
								union(a, b)
							}
						}
					}
				}
			case *ast.CallExpr:
				f := calleeFunc(info, x)
				if f == nil {
					return true
				}
				sig := f.Type().(*types.Signature)
				// parameter passing
				if decl, dp := c.Decl(f); decl != nil {
					var params []types.Object
					for _, fld := range decl.Type.Params.List {
						if len(fld.Names) == 0 {
							params = append(params, nil)
						}
						for _, nm := range fld.Names {
							params = append(params, dp.TypesInfo.Defs[nm])
						}
					}
					for i, a := range x.Args {
						if i < len(params) && params[i] != nil && isSet(params[i].Type()) {
							if ao := fBaseObj(info, a); ao != nil {
								union(params[i], ao)
							}
						}
					}
				}
				if sig.Recv() == nil || !isSet(sig.Recv().Type()) || sig.Params().Len() != 1 || len(x.Args) != 1 {
					return true
				}
				se, ok := ast.Unparen(x.Fun).(*ast.SelectorExpr)
				if !ok {
					return true
				}
				so := fBaseObj(info, se.X)
				if so == nil {
					return true
				}
				u := &fSetUse{p: d.p, fd: d.fd, call: x, set: so}
				u.kind, u.how = k.kindOf(info, d.fd.Body, x, x.Args[0], 0)
				for _, anc := range enclosing(d.fd.Body, x) {
					if rs, ok := anc.(*ast.RangeStmt); ok {
						if t := info.TypeOf(rs.X); t != nil {
							if s, ok := t.Underlying().(*types.Slice); ok && k.isMember(s.Elem()) {
								u.inLoop = true
							}
						}
					}
				}
				switch {
				case sig.Results().Len() == 0:
					adds = append(adds, u)
				case sig.Results().Len() == 1:
					if b, ok := sig.Results().At(0).Type().Underlying().(*types.Basic); ok && b.Kind() == types.Bool {
						tests = append(tests, u)
					}
				}
			}
			return true
		})
	}
	addKinds := map[types.Object]map[*types.TypeName]*fSetUse{}
	for _, a := range adds {
		if a.kind == nil {
			continue
		}
		r := find(a.set)
		if addKinds[r] == nil {
			addKinds[r] = map[*types.TypeName]*fSetUse{}
		}
		if addKinds[r][a.kind] == nil {
			addKinds[r][a.kind] = a
		}
	}
	firstTest := map[types.Object]*fSetUse{}
	for _, t := range tests { // source order within sorted packages
		if t.kind == nil {
			continue
		}
		if r := find(t.set); firstTest[r] == nil {
			firstTest[r] = t
		}
	}
	kindName := func(t *types.TypeName) string {
		return strings.ToLower(strings.TrimSuffix(t.Name(), "ID")) + " IDs"
	}
	var out []Obligation
	ords := map[*ast.FuncDecl]int{}
	for _, t := range tests {
		ords[t.fd]++
		ob := Obligation{Key: fmt.Sprintf("%s#%d", c.FuncName(t.p, t.fd), ords[t.fd]), Pos: c.Position(t.call.Pos())}
		what := nodeText(c.Fset, t.call)
		r := find(t.set)
		if t.kind == nil {
			ob.Detail = what + ": the OSM element kind of the ID looked up cannot be derived (no typed ID, no enclosing osm.ElementType arm, no typed accessor)"
			if t.inLoop {
				ob.Status = Undecided
			} else {
				ob.Status = Info
			}
			out = append(out, ob)
			continue
		}
		ak := addKinds[r]
		switch {
		case len(ak) > 0:
			var have []string
			var kinds []*types.TypeName
			for kt := range ak {
				kinds = append(kinds, kt)
			}
			sort.Slice(kinds, func(i, j int) bool { return kinds[i].Name() < kinds[j].Name() })
			for _, kt := range kinds {
				have = append(have, fmt.Sprintf("%s (%s at %s)", kindName(kt), nodeText(c.Fset, ak[kt].call), c.Position(ak[kt].call.Pos())))
			}
			if len(ak) == 1 && ak[t.kind] != nil {
				ob.Status = OK
				ob.Detail = fmt.Sprintf("%s looks up %s (%s) in a set that receives %s", what, kindName(t.kind), t.how, strings.Join(have, ", "))
			} else {
				ob.Status = Violation
				ob.Detail = fmt.Sprintf("%s looks up %s (%s) in set %s, which receives %s: IDs of different OSM element kinds are different number spaces, so the test answers for an unrelated element",
					what, kindName(t.kind), t.how, r.Name(), strings.Join(have, ", "))
			}
		default:
			ft := firstTest[r]
			if ft == nil || ft.kind == t.kind {
				ob.Status = OK
				ob.Detail = fmt.Sprintf("%s looks up %s (%s); nothing is added to set %s inside the module, and every test on it is for that kind", what, kindName(t.kind), t.how, r.Name())
				// make sure no later test disagrees: those are reported at their own site
			} else {
				ob.Status = Violation
				ob.Detail = fmt.Sprintf("%s looks up %s (%s) in set %s, which %s at %s already consults for %s: one set cannot hold IDs of two OSM element kinds",
					what, kindName(t.kind), t.how, r.Name(), nodeText(c.Fset, ft.call), c.Position(ft.call.Pos()), kindName(ft.kind))
			}
		}
		out = append(out, ob)
	}
	return out
}
