package main

import (
	"fmt"
	"go/ast"
	"go/types"
	"sort"
)

// SPLIT-CRITICAL (C36): the builders that many goroutines write into at once (the byte-array and
// string-table builders, the validator, the counters) take their own lock inside each method, so a
// call is one critical section. What one logical record needs written together has to go into one
// call: a record written by two calls of the same locked method on the same builder (header first,
// data second) is two critical sections, and another goroutine's record for the same bucket can
// land between them — no data race, no error, every write inside the reserved space, and a bucket
// that no longer parses. With one goroutine nothing can interleave, so the build gives a different
// world only when it is parallel.
//
// Discovery, by shape (packages encoding, ingest, ingest/compact): a self-locking method is a
// method that calls Lock on a sync.Mutex/RWMutex field of its receiver. Subjects: functions with
// two or more distinct call sites of the same self-locking method on the same receiver expression.
// Obligation (control-flow graph): no path leads from one call site to another that names the same
// destination (all arguments but the payload are the same expressions: the same writer, the same
// bucket) — two adds of different items to a set are independent and are not instances of a split.
// Calls inside function literals belong to the literal.
func init() {
	register(&Rule{
		Name:  "SPLIT-CRITICAL",
		IR:    "cfg",
		Props: []string{"C36"},
		Floor: 8,
		Doc:   "a function does not write one logical record through two successive calls of the same self-locking method on the same shared builder (two critical sections that another goroutine's record can fall between); instances: every function calling a self-locking method of the parallel build's shared builders",
		Run:   runSplitCritical,
	})
}

func runSplitCritical(c *Ctx) []Obligation {
	var out []Obligation
	locking := map[*types.Func]bool{}
	isMutex := func(t types.Type) bool {
		if p, ok := t.(*types.Pointer); ok {
			t = p.Elem()
		}
		n, ok := t.(*types.Named)
		return ok && n.Obj().Pkg() != nil && n.Obj().Pkg().Path() == "sync" && (n.Obj().Name() == "Mutex" || n.Obj().Name() == "RWMutex")
	}
	pkgs := []string{"encoding", "ingest", "ingest/compact"}
	for _, rel := range pkgs {
		p := c.Pkg(rel)
		if p == nil {
			continue
		}
		info := p.TypesInfo
		for _, fd := range c.FuncDecls(p) {
			recv := gRecvObj(info, fd)
			obj, _ := info.Defs[fd.Name].(*types.Func)
			if recv == nil || obj == nil || fd.Body == nil {
				continue
			}
			ast.Inspect(fd.Body, func(n ast.Node) bool {
				call, ok := n.(*ast.CallExpr)
				if !ok {
					return true
				}
				sel, ok := ast.Unparen(call.Fun).(*ast.SelectorExpr)
				if !ok || sel.Sel.Name != "Lock" {
					return true
				}
				fsel, ok := ast.Unparen(sel.X).(*ast.SelectorExpr)
				if !ok || !isMutex(info.TypeOf(fsel)) {
					return true
				}
				if id, ok := ast.Unparen(fsel.X).(*ast.Ident); ok && info.Uses[id] == recv {
					locking[obj] = true
				}
				return true
			})
		}
	}
	for _, rel := range pkgs {
		p := c.Pkg(rel)
		if p == nil {
			continue
		}
		info := p.TypesInfo
		for _, u := range c.units(p, true) {
			body := u.body
			if body == nil {
				continue
			}
			groups := map[string][]*ast.CallExpr{}
			ast.Inspect(body, func(n ast.Node) bool {
				if fl, ok := n.(*ast.FuncLit); ok && fl.Body != body {
					return false
				}
				call, ok := n.(*ast.CallExpr)
				if !ok {
					return true
				}
				f := calleeFunc(info, call)
				if f == nil || !locking[f] {
					return true
				}
				sel, ok := ast.Unparen(call.Fun).(*ast.SelectorExpr)
				if !ok {
					return true
				}
				k := f.FullName() + " on " + srcText(c.Fset, sel.X)
				groups[k] = append(groups[k], call)
				return true
			})
			if len(groups) == 0 {
				continue
			}
			var keys []string
			for k := range groups {
				keys = append(keys, k)
			}
			sort.Strings(keys)
			g := newCFG(info, body)
			for i, k := range keys {
				calls := groups[k]
				ob := Obligation{Key: fmt.Sprintf("%s#%d", u.name, i+1), Pos: c.Position(calls[0].Pos()), Status: OK,
					Detail: fmt.Sprintf("%d call site(s) of %s: no two are in sequence", len(calls), k)}
				for a := 0; a < len(calls) && ob.Status == OK; a++ {
					for b := 0; b < len(calls); b++ {
						if a == b {
							continue
						}
						la, ok1 := findNode(g, calls[a])
						lb, ok2 := findNode(g, calls[b])
						if !ok1 || !ok2 {
							ob.Status = Undecided
							ob.Detail = "a call site was not found in the control-flow graph"
							break
						}
						// the same destination: every argument but the payload (the last, possibly variadic, ones)
						// is the same expression — two adds of different items to a set are independent
						sameDest := len(calls[a].Args) >= 2 && len(calls[b].Args) >= 2
						if sameDest {
							sigA := calleeFunc(info, calls[a]).Type().(*types.Signature)
							nfixed := sigA.Params().Len() - 1
							for k := 0; k < nfixed && k < len(calls[a].Args) && k < len(calls[b].Args); k++ {
								if !sameExpr(info, ast.Unparen(calls[a].Args[k]), ast.Unparen(calls[b].Args[k])) {
									sameDest = false
								}
							}
						}
						if sameDest && cfgReaches(g, la, lb) && calls[a].Pos() < calls[b].Pos() {
							ob.Status = Violation
							ob.Pos = c.Position(calls[b].Pos())
							ob.Detail = fmt.Sprintf("%s is followed on some path by %s: two critical sections of the same lock for what the function writes; a record of another goroutine can fall between them", srcText(c.Fset, calls[a]), srcText(c.Fset, calls[b]))
							break
						}
					}
				}
				out = append(out, ob)
			}
		}
	}
	return out
}
