package main

import (
	"fmt"
	"go/ast"
	"go/token"
	"go/types"
	"sort"

	"golang.org/x/tools/go/cfg"
)

// RESLICE-AFTER-COPY (C39): copy(D, S) transfers min(len(D), len(S)) elements. A destination
// that is re-sliced *afterwards* to a length taken from the source (`D = D[:len(S)]`) or to its
// capacity exposes, whenever len(D) < len(S) <= cap(D) at the time of the copy, array cells the
// copy never wrote: stale contents of the backing array (for a tag list: a tag that had been
// removed). The grow has to come first, or the reslice must be reached only when the copy
// is known to have transferred everything.
//
// Slots, by shape: calls of the builtin copy(D, S); for each, the later assignments
// `D = D[lo:hi]` (left side and sliced operand structurally equal to D after resolving
// identifiers) that are reachable from the copy on the control-flow graph and whose upper
// bound mentions len(S), cap(D), or a local defined once from one of those.
// Instances: every copy in a method of b6.Tags or of an ingest.Feature implementation / member
// type (the CLONE-DEPTH slot types) is an obligation even when no such reslice follows (so a
// repaired method stays an instance); elsewhere only copy/reslice pairs are reported, as info.
//
// Obligation per copy: for every such reslice, one of
//
//	(a) every path from the copy to the reslice passes the "copied everything" edge of a test
//	    of the copy's result n (or of len(D)) against the bound: false edge of `n < len(S)`,
//	    true edge of `n >= len(S)` / `n == len(S)` and the mirrored forms — the idiom of
//	    `i := copy(D, S); if i < len(S) { D = append(D, S[i:]...) } else { D = D[0:len(S)] }`;
//	(b) every path from the copy to the reslice re-assigns D in between (append of the tail);
//	(c) every path from the function entry to the copy establishes the length first:
//	    `D = make(T, hi)`, `D = D[:hi]` (grow first), or the true edge of `len(D) >= hi`
//	    (which is also the exit edge of `for len(D) < hi { D = append(D, zero) }`).
//
// Not decided: grows `D = D[:n]` that are not preceded by a copy (REUSE-ALIAS territory), and
// aliasing of D through other names.
func init() {
	register(&Rule{
		Name:  "RESLICE-AFTER-COPY",
		IR:    "cfg",
		Props: []string{"C39"},
		// b6.(Tags).Clone#1, b6.(*Tags).MergeFrom#1, ingest.(*AreaMembers).Clone#1,#2, ingest.(*AreaMembers).MergeFrom#1,#2,
		// ingest.(*RelationFeature).MergeFromRelationFeature#1
		Floor:   7,
		FloorBy: map[string]int{"C39": 7},
		Doc: "a destination of copy(D, S) that is afterwards re-sliced to a length derived from len(S) or cap(D) is re-sliced only where the copy is known to have " +
			"transferred every element (test of the copy's result), after D was re-assigned, or after the length was established before the copy: the grow must come first",
		Run: runResliceAfterCopy,
	})
}

// fPathAvoiding searches the CFG from (b, i) for the target node, not crossing cut nodes or
// cut edges. It returns the trail of a path found.
func fPathAvoiding(c *Ctx, b *cfg.Block, i int, target ast.Node, cutNode func(ast.Node) bool, cutEdge func(from, to *cfg.Block) bool) ([]string, bool) {
	type item struct {
		b     *cfg.Block
		i     int
		trail []string
	}
	seen := map[*cfg.Block]bool{}
	work := []item{{b, i, nil}}
	for len(work) > 0 {
		it := work[0]
		work = work[1:]
		stopped := false
		for k := it.i; k < len(it.b.Nodes); k++ {
			n := it.b.Nodes[k]
			if n == target {
				return append(append([]string(nil), it.trail...), "reaches "+c.Position(n.Pos())+" "+nodeText(c.Fset, n)), true
			}
			if cutNode != nil && cutNode(n) {
				stopped = true
				break
			}
		}
		if stopped {
			continue
		}
		for _, s := range it.b.Succs {
			if seen[s] || cutEdge != nil && cutEdge(it.b, s) {
				continue
			}
			seen[s] = true
			t := it.trail
			if len(s.Nodes) > 0 {
				t = append(append([]string(nil), it.trail...), fmt.Sprintf("%s (%s)", c.Position(s.Nodes[0].Pos()), s.Kind))
			}
			work = append(work, item{s, 0, t})
		}
	}
	return nil, false
}

type fCopySite struct {
	call *ast.CallExpr
	node ast.Node     // CFG node holding the call
	n    types.Object // variable that receives the result, or nil
}

func runResliceAfterCopy(c *Ctx) []Obligation {
	featureTypes := map[*types.TypeName]bool{}
	slots, _ := fCloneSlots(c)
	for _, s := range slots {
		featureTypes[s.named.Obj()] = true
	}
	var out []Obligation
	for _, p := range c.SortedPkgs() {
		info := p.TypesInfo
		for _, fd := range c.FuncDecls(p) {
			name := c.FuncName(p, fd)
			recv := fRecvNamed(info, fd)
			anchored := recv != nil && featureTypes[recv.Obj()]
			type unit struct {
				body *ast.BlockStmt
				obs  []fVGSite
			}
			units := []*unit{{body: fd.Body}}
			ast.Inspect(fd.Body, func(n ast.Node) bool {
				if fl, ok := n.(*ast.FuncLit); ok {
					units = append(units, &unit{body: fl.Body})
				}
				return true
			})
			var sites []fVGSite
			for _, u := range units {
				sites = append(sites, fResliceUnit(c, info, u.body, anchored)...)
			}
			sort.SliceStable(sites, func(i, j int) bool { return sites[i].pos < sites[j].pos })
			for i, s := range sites {
				s.ob.Key = fmt.Sprintf("%s#%d", name, i+1)
				s.ob.Pos = c.Position(s.pos)
				if !anchored {
					s.ob.Detail = "[" + s.ob.Status + " outside b6.Tags and the ingest feature types] " + s.ob.Detail
					s.ob.Status = Info
				}
				out = append(out, s.ob)
			}
		}
	}
	return out
}

func fResliceUnit(c *Ctx, info *types.Info, body *ast.BlockStmt, anchored bool) []fVGSite {
	// copies, with the variable receiving the result
	var copies []*fCopySite
	resultVar := map[*ast.CallExpr]types.Object{}
	inspectShallow(body, func(n ast.Node) bool {
		switch x := n.(type) {
		case *ast.AssignStmt:
			if len(x.Lhs) == 1 && len(x.Rhs) == 1 {
				if call, ok := ast.Unparen(x.Rhs[0]).(*ast.CallExpr); ok && isBuiltin(info, call, "copy") {
					if id := fIdentOf(x.Lhs[0]); id != nil && id.Name != "_" {
						resultVar[call] = info.ObjectOf(id)
					}
				}
			}
		case *ast.CallExpr:
			if isBuiltin(info, x, "copy") && len(x.Args) == 2 {
				copies = append(copies, &fCopySite{call: x})
			}
		}
		return true
	})
	if len(copies) == 0 {
		return nil
	}
	// single-definition locals, for bounds such as n := len(S)
	defOf := func(o types.Object) ast.Expr {
		var defs []ast.Expr
		inspectShallow(body, func(n ast.Node) bool {
			switch s := n.(type) {
			case *ast.AssignStmt:
				for i, l := range s.Lhs {
					if id := fIdentOf(l); id != nil && info.ObjectOf(id) == o {
						if len(s.Lhs) == len(s.Rhs) {
							defs = append(defs, s.Rhs[i])
						} else {
							defs = append(defs, nil)
						}
					}
				}
			case *ast.IncDecStmt:
				if id := fIdentOf(s.X); id != nil && info.ObjectOf(id) == o {
					defs = append(defs, nil)
				}
			case *ast.ValueSpec:
				for i, nm := range s.Names {
					if info.ObjectOf(nm) == o && i < len(s.Values) {
						defs = append(defs, s.Values[i])
					}
				}
			}
			return true
		})
		if len(defs) == 1 {
			return defs[0]
		}
		return nil
	}
	var g *cfg.CFG
	var sites []fVGSite
	for _, cs := range copies {
		D, S := cs.call.Args[0], cs.call.Args[1]
		cs.n = resultVar[cs.call]
		// does the bound mention len(S) or cap(D)?
		var risky func(e ast.Expr, depth int) bool
		risky = func(e ast.Expr, depth int) bool {
			found := false
			ast.Inspect(e, func(n ast.Node) bool {
				switch x := n.(type) {
				case *ast.CallExpr:
					if len(x.Args) == 1 && (isBuiltin(info, x, "len") && sameExpr(info, x.Args[0], S) || isBuiltin(info, x, "cap") && sameExpr(info, x.Args[0], D)) {
						found = true
					}
				case *ast.Ident:
					if v, ok := info.ObjectOf(x).(*types.Var); ok && depth < 3 && !v.IsField() {
						if d := defOf(v); d != nil && risky(d, depth+1) {
							found = true
						}
					}
				}
				return !found
			})
			return found
		}
		var reslices []*ast.AssignStmt
		inspectShallow(body, func(n ast.Node) bool {
			as, ok := n.(*ast.AssignStmt)
			if !ok || as.Tok != token.ASSIGN || len(as.Lhs) != len(as.Rhs) {
				return true
			}
			for i, l := range as.Lhs {
				se, ok := ast.Unparen(as.Rhs[i]).(*ast.SliceExpr)
				if ok && se.High != nil && sameExpr(info, l, D) && sameExpr(info, se.X, D) && risky(se.High, 0) {
					reslices = append(reslices, as)
				}
			}
			return true
		})
		if len(reslices) == 0 && !anchored {
			continue
		}
		ob := Obligation{}
		what := nodeText(c.Fset, cs.call)
		if len(reslices) == 0 {
			ob.Status = OK
			ob.Detail = what + ": the destination is not re-sliced afterwards to a length taken from the source or its capacity"
			sites = append(sites, fVGSite{cs.call.Pos(), ob})
			continue
		}
		if g == nil {
			g = newCFG(info, body)
		}
		loc, ok := findNode(g, cs.call)
		if !ok {
			ob.Status, ob.Detail = Undecided, what+": call not found in the control-flow graph"
			sites = append(sites, fVGSite{cs.call.Pos(), ob})
			continue
		}
		copyNode := loc.b.Nodes[loc.i]
		assignsD := func(n ast.Node, except ast.Node) bool {
			as, ok := n.(*ast.AssignStmt)
			if !ok || n == except {
				return false
			}
			for _, l := range as.Lhs {
				if sameExpr(info, l, D) {
					return true
				}
			}
			return false
		}
		var okWhy, bad []string
		var badPath []string
		reachable := 0
		for _, rsl := range reslices {
			hi := ast.Unparen(rsl.Rhs[0]).(*ast.SliceExpr).High
			if len(rsl.Rhs) != 1 {
				for i, l := range rsl.Lhs {
					if sameExpr(info, l, D) {
						hi = ast.Unparen(rsl.Rhs[i]).(*ast.SliceExpr).High
					}
				}
			}
			isBound := func(e ast.Expr) bool {
				if sameExpr(info, e, hi) {
					return true
				}
				if call, ok := ast.Unparen(e).(*ast.CallExpr); ok && isBuiltin(info, call, "len") && len(call.Args) == 1 && sameExpr(info, call.Args[0], S) {
					return true
				}
				return false
			}
			isCount := func(e ast.Expr) bool { // the copy's result, or len(D)
				if id := fIdentOf(e); id != nil && cs.n != nil && info.ObjectOf(id) == cs.n {
					return true
				}
				if call, ok := ast.Unparen(e).(*ast.CallExpr); ok && isBuiltin(info, call, "len") && len(call.Args) == 1 && sameExpr(info, call.Args[0], D) {
					return true
				}
				return false
			}
			// edge on which count >= bound is known
			allEdge := func(from, to *cfg.Block) bool {
				if len(from.Succs) != 2 || len(from.Nodes) == 0 {
					return false
				}
				be, ok := from.Nodes[len(from.Nodes)-1].(*ast.BinaryExpr)
				if !ok {
					return false
				}
				op := be.Op
				switch {
				case isCount(be.X) && isBound(be.Y):
				case isBound(be.X) && isCount(be.Y):
					switch op { // mirror: bound OP count  ==  count OP' bound
					case token.LSS:
						op = token.GTR
					case token.GTR:
						op = token.LSS
					case token.LEQ:
						op = token.GEQ
					case token.GEQ:
						op = token.LEQ
					}
				default:
					return false
				}
				switch op {
				case token.LSS, token.NEQ: // count < bound / count != bound: known on the false edge
					return to == from.Succs[1] && from.Succs[0] != from.Succs[1]
				case token.GEQ, token.EQL: // count >= bound / count == bound: known on the true edge
					return to == from.Succs[0] && from.Succs[0] != from.Succs[1]
				}
				return false
			}
			// (a)/(b): from the copy to the reslice
			after, reach := fPathAvoiding(c, loc.b, loc.i+1, rsl, func(n ast.Node) bool { return assignsD(n, rsl) }, allEdge)
			if _, any := fPathAvoiding(c, loc.b, loc.i+1, rsl, nil, nil); !any {
				continue // this reslice does not follow the copy
			}
			reachable++
			rtxt := fmt.Sprintf("%s at %s", nodeText(c.Fset, rsl), c.Position(rsl.Pos()))
			if !reach {
				okWhy = append(okWhy, rtxt+" is reached only where the copy transferred everything or after the destination was re-assigned")
				continue
			}
			// (c): from the entry to the copy
			establishes := func(n ast.Node) bool {
				as, ok := n.(*ast.AssignStmt)
				if !ok || n == copyNode {
					return false
				}
				for i, l := range as.Lhs {
					if !sameExpr(info, l, D) || len(as.Lhs) != len(as.Rhs) {
						continue
					}
					switch r := ast.Unparen(as.Rhs[i]).(type) {
					case *ast.CallExpr:
						if isBuiltin(info, r, "make") && len(r.Args) >= 2 && isBound(r.Args[1]) {
							return true
						}
					case *ast.SliceExpr:
						if r.High != nil && sameExpr(info, r.X, D) && isBound(r.High) {
							return true
						}
					}
				}
				return false
			}
			_, unestablished := fPathAvoiding(c, g.Blocks[0], 0, copyNode, establishes, allEdge)
			if !unestablished {
				okWhy = append(okWhy, rtxt+" follows the copy, but the destination was given that length before the copy on every path")
				continue
			}
			bad = append(bad, fmt.Sprintf("%s follows %s without a test that the copy transferred len(%s) elements and without the length having been established before the copy: when len(%s) < %s <= cap(%s) the cells beyond the old length keep stale array contents",
				rtxt, what, types.ExprString(S), types.ExprString(D), types.ExprString(hi), types.ExprString(D)))
			if badPath == nil {
				badPath = after
			}
		}
		switch {
		case len(bad) > 0:
			ob.Status, ob.Detail, ob.Path = Violation, fJoin(bad), badPath
		case reachable == 0:
			if !anchored {
				continue
			}
			ob.Status, ob.Detail = OK, what+": the destination is not re-sliced afterwards to a length taken from the source or its capacity"
		default:
			ob.Status, ob.Detail = OK, what+": "+fJoin(okWhy)
		}
		sites = append(sites, fVGSite{cs.call.Pos(), ob})
	}
	return sites
}
