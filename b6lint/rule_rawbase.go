package main

import (
	"fmt"
	"go/token"
	"go/types"
	"sort"
	"strings"

	"golang.org/x/tools/go/ssa"
)

// RAWBASE (C12): a layered world that records plain-tag modifications of base features in a field
// of a tag-modification type (a type with the sanitiser method WrapFeature(b6.Feature) b6.Feature;
// today ModifiedTags in fields MutableOverlayWorld.tags and MutableTagsOverlayWorld.tags) must
// never read the tags of a base feature, copy it, or hand it to its caller without wrapping it:
// the current tags of a base feature include the modifications.
//
// SSA taint, one obligation per source, in every method (and closure) of such a world type:
//
//	source    the result of the lookup method of b6.World (the method of b6.FeaturesByID that
//	          returns a b6.Feature, i.e. FindFeatureByID) invoked on a load of the receiver's
//	          field `base`
//	carried   through phi, interface conversions, type assertions, local variables, and into
//	          module callees that receive it (summaries to depth 3; a callee returning its
//	          parameter taints the call's result)
//	sanitiser passing the value to any method of the tag-modification type (WrapFeature, Wrap...)
//	sinks     (1) a method of the interface b6.Taggable (Get, AllTags) invoked on the value,
//	          (2) passing it to a copying constructor: a package-level function of the world's
//	          package with a single parameter implementing b6.Feature and a result implementing
//	          the mutable ingest.Feature (NewFeatureFromWorld and the constructors it dispatches to),
//	          (3) returning it from a method of the world type whose result is a b6.Feature.
//	not sinks comparison with nil, FeatureID(), geometry and reference accessors.
//
// A tainted value that escapes in a way the rule does not follow (stored in a field, captured by a
// closure, passed to a dynamic callee or to a function without source) is reported undecided.
func init() {
	register(&Rule{
		Name:  "RAWBASE",
		IR:    "ssa",
		Props: []string{"C12"},
		Floor: 4, // MutableOverlayWorld.{FindFeatureByID, AddTag, RemoveTag}, MutableTagsOverlayWorld.FindFeatureByID
		Doc: "in worlds that keep plain-tag modifications of base features, the result of base.FindFeatureByID reaches no tag read (Get/AllTags), " +
			"no copying constructor (NewFeatureFromWorld...) and no caller unless it first passes the sanitiser ModifiedTags.WrapFeature",
		Run: runRawBase,
	})
}

type eRawCtx struct {
	c        *Ctx
	ifs      *eIfaces
	lookup   *types.Func             // b6.World's feature lookup method
	copyCtor map[*types.Func]bool    // copying constructors (sinks)
	memo     map[string]*eRawSummary // callee summaries
}

type eRawSummary struct {
	sinks     []string
	undecided []string
	returns   bool // the tainted parameter can be returned
}

func runRawBase(c *Ctx) []Obligation {
	ifs := eLoadIfaces(c)
	if !ifs.ok() {
		return []Obligation{{Key: "b6.World#1", Pos: "-", Status: Undecided, Detail: "interfaces of package b6 not found"}}
	}
	c.BuildSSA()
	rc := &eRawCtx{c: c, ifs: ifs, copyCtor: map[*types.Func]bool{}, memo: map[string]*eRawSummary{}}
	// the lookup method: the method of b6.FeaturesByID with a single b6.Feature result, as declared on b6.World
	for i := 0; i < ifs.featuresByID.NumMethods(); i++ {
		m := ifs.featuresByID.Method(i)
		sig := m.Type().(*types.Signature)
		if sig.Results().Len() == 1 && types.Identical(sig.Results().At(0).Type(), ifs.featureNamed) {
			for j := 0; j < ifs.world.NumMethods(); j++ {
				if wm := ifs.world.Method(j); wm.Name() == m.Name() && types.Identical(wm.Type(), m.Type()) {
					rc.lookup = wm
				}
			}
		}
	}
	if rc.lookup == nil {
		return []Obligation{{Key: "b6.World#1", Pos: "-", Status: Undecided, Detail: "b6.World has no feature lookup method"}}
	}
	var out []Obligation
	for _, w := range eWorldTypes(c, ifs) {
		if w.tags == nil {
			continue
		}
		// copying constructors of the world's package
		_, mutFeature := eLookupIface(w.pkg, "Feature")
		scope := w.pkg.Types.Scope()
		for _, name := range scope.Names() {
			f, ok := scope.Lookup(name).(*types.Func)
			if !ok || mutFeature == nil {
				continue
			}
			sig := f.Type().(*types.Signature)
			if sig.Params().Len() != 1 || sig.Results().Len() != 1 || sig.Variadic() {
				continue
			}
			pt := sig.Params().At(0).Type()
			if _, isIface := pt.Underlying().(*types.Interface); !isIface || !types.Implements(pt, ifs.feature) {
				continue
			}
			if types.Implements(sig.Results().At(0).Type(), mutFeature) {
				rc.copyCtor[f] = true
			}
		}
		baseIdx := eFieldIndex(w.st, w.base)
		for _, fd := range eMethods(c, w.pkg, w.named) {
			obj, _ := w.pkg.TypesInfo.Defs[fd.Name].(*types.Func)
			if obj == nil {
				continue
			}
			top := c.SSAFunc(obj)
			if top == nil {
				continue
			}
			type src struct {
				call *ssa.Call
				fn   *ssa.Function
			}
			var srcs []src
			var walk func(fn *ssa.Function)
			walk = func(fn *ssa.Function) {
				for _, b := range fn.Blocks {
					for _, in := range b.Instrs {
						call, ok := in.(*ssa.Call)
						if !ok || !call.Common().IsInvoke() {
							continue
						}
						cc := call.Common()
						if cc.Method.Name() == rc.lookup.Name() && types.Identical(cc.Method.Type(), rc.lookup.Type()) && eSSAFieldOfRecv(cc.Value) == baseIdx {
							srcs = append(srcs, src{call, fn})
						}
					}
				}
				for _, a := range fn.AnonFuncs {
					walk(a)
				}
			}
			walk(top)
			sort.Slice(srcs, func(i, j int) bool { return srcs[i].call.Pos() < srcs[j].call.Pos() })
			for i, s := range srcs {
				ob := Obligation{Key: fmt.Sprintf("%s#%d", c.FuncName(w.pkg, fd), i+1), Pos: c.Position(s.call.Pos())}
				sum := rc.taint(s.fn, []ssa.Value{s.call}, 0, s.fn == top && eReturnsFeature(top, ifs))
				switch {
				case len(sum.sinks) > 0:
					ob.Status = Violation
					ob.Detail = fmt.Sprintf("the raw base feature from %s.%s reaches without %s.WrapFeature: %s", w.base.Name(), rc.lookup.Name(), w.tags.Name(), strings.Join(sum.sinks, "; "))
					ob.Path = sum.sinks
				case len(sum.undecided) > 0:
					ob.Status = Undecided
					ob.Detail = fmt.Sprintf("the raw base feature from %s.%s escapes: %s", w.base.Name(), rc.lookup.Name(), strings.Join(sum.undecided, "; "))
				default:
					ob.Status = OK
					ob.Detail = fmt.Sprintf("the result of %s.%s is only wrapped by %s, compared with nil or asked for its identity", w.base.Name(), rc.lookup.Name(), w.tags.Name())
				}
				out = append(out, ob)
			}
		}
	}
	return out
}

func eReturnsFeature(fn *ssa.Function, ifs *eIfaces) bool {
	res := fn.Signature.Results()
	for i := 0; i < res.Len(); i++ {
		if _, isIface := res.At(i).Type().Underlying().(*types.Interface); isIface && types.Implements(res.At(i).Type(), ifs.feature) {
			return true
		}
	}
	return false
}

func (rc *eRawCtx) isSanitiser(f *ssa.Function) bool {
	if f == nil || f.Signature.Recv() == nil {
		return false
	}
	return eHasWrapFeature(f.Signature.Recv().Type(), rc.ifs) != nil
}

func (rc *eRawCtx) isTaggableMethod(m *types.Func) bool {
	for i := 0; i < rc.ifs.taggable.NumMethods(); i++ {
		t := rc.ifs.taggable.Method(i)
		if t.Name() == m.Name() && types.Identical(t.Type(), m.Type()) {
			return true
		}
	}
	return false
}

// taint follows the seeds inside fn. returnIsSink: returning the value hands it to the caller of a
// world method (sink 3); otherwise a return is recorded in summary.returns.
func (rc *eRawCtx) taint(fn *ssa.Function, seeds []ssa.Value, depth int, returnIsSink bool) *eRawSummary {
	sum := &eRawSummary{}
	c := rc.c
	tainted := map[ssa.Value]bool{}
	var work []ssa.Value
	add := func(v ssa.Value) {
		if v != nil && !tainted[v] {
			tainted[v] = true
			work = append(work, v)
		}
	}
	for _, s := range seeds {
		add(s)
	}
	at := func(in ssa.Instruction) string { return c.Position(in.Pos()) }
	for len(work) > 0 {
		v := work[0]
		work = work[1:]
		refs := v.Referrers()
		if refs == nil {
			continue
		}
		for _, r := range *refs {
			switch x := r.(type) {
			case *ssa.Phi, *ssa.MakeInterface, *ssa.ChangeInterface, *ssa.ChangeType:
				add(x.(ssa.Value))
			case *ssa.TypeAssert:
				add(x)
			case *ssa.Extract:
				if x.Index == 0 {
					add(x)
				}
			case *ssa.DebugRef, *ssa.BinOp, *ssa.If:
				// comparison with nil: not a sink
			case *ssa.Store:
				if x.Val != v {
					continue
				}
				if a, ok := x.Addr.(*ssa.Alloc); ok && !a.Heap {
					for _, ar := range *a.Referrers() {
						if u, ok := ar.(*ssa.UnOp); ok && u.Op == token.MUL {
							add(u)
						}
					}
				} else if a, ok := x.Addr.(*ssa.Alloc); ok {
					// heap cell of a local (captured or address taken): follow loads in this function
					for _, ar := range *a.Referrers() {
						switch y := ar.(type) {
						case *ssa.UnOp:
							if y.Op == token.MUL {
								add(y)
							}
						case *ssa.MakeClosure:
							sum.undecided = append(sum.undecided, "captured by a closure at "+at(y))
						}
					}
				} else {
					sum.undecided = append(sum.undecided, "stored outside the function's locals at "+at(x))
				}
			case *ssa.Return:
				if returnIsSink {
					sum.sinks = append(sum.sinks, "returned to the caller at "+at(x))
				} else {
					sum.returns = true
				}
			case *ssa.MakeClosure:
				sum.undecided = append(sum.undecided, "captured by a closure at "+at(x))
			case ssa.CallInstruction:
				cc := x.Common()
				if cc.IsInvoke() {
					if cc.Value == v {
						if rc.isTaggableMethod(cc.Method) {
							sum.sinks = append(sum.sinks, fmt.Sprintf("tags read by .%s at %s", cc.Method.Name(), at(x)))
						}
						// other accessors of a raw base feature (identity, geometry, references) are fine
					}
					for _, a := range cc.Args {
						if a == v {
							sum.undecided = append(sum.undecided, fmt.Sprintf("passed to interface method %s at %s", cc.Method.Name(), at(x)))
						}
					}
					continue
				}
				callee := cc.StaticCallee()
				if callee == nil {
					if cc.Value != v {
						sum.undecided = append(sum.undecided, "passed to a dynamic callee at "+at(x))
					}
					continue
				}
				if rc.isSanitiser(callee) {
					continue
				}
				if obj, ok := callee.Object().(*types.Func); ok && rc.copyCtor[obj] {
					sum.sinks = append(sum.sinks, fmt.Sprintf("copied by %s at %s", callee.Name(), at(x)))
					continue
				}
				// a concrete method invoked on the value itself cannot happen (the value is an interface);
				// follow the value into module callees
				for i, a := range cc.Args {
					if a != v {
						continue
					}
					if len(callee.Blocks) == 0 || i >= len(callee.Params) {
						sum.undecided = append(sum.undecided, fmt.Sprintf("passed to %s (no source) at %s", callee.Name(), at(x)))
						continue
					}
					if depth >= 3 {
						sum.undecided = append(sum.undecided, fmt.Sprintf("passed to %s beyond the summary depth at %s", callee.Name(), at(x)))
						continue
					}
					key := fmt.Sprintf("%s/%d", callee.String(), i)
					cs, ok := rc.memo[key]
					if !ok {
						rc.memo[key] = &eRawSummary{} // cut recursion
						cs = rc.taint(callee, []ssa.Value{callee.Params[i]}, depth+1, false)
						rc.memo[key] = cs
					}
					for _, s := range cs.sinks {
						sum.sinks = append(sum.sinks, fmt.Sprintf("%s (via %s at %s)", s, callee.Name(), at(x)))
					}
					for _, s := range cs.undecided {
						sum.undecided = append(sum.undecided, fmt.Sprintf("%s (via %s at %s)", s, callee.Name(), at(x)))
					}
					if cs.returns {
						if val, ok := x.(ssa.Value); ok {
							add(val)
						}
					}
				}
			default:
				if in, ok := r.(ssa.Instruction); ok {
					sum.undecided = append(sum.undecided, fmt.Sprintf("used by %T at %s", r, at(in)))
				}
			}
		}
	}
	sort.Strings(sum.sinks)
	sort.Strings(sum.undecided)
	sum.sinks = eUniq(sum.sinks)
	sum.undecided = eUniq(sum.undecided)
	return sum
}

func eUniq(ss []string) []string {
	var out []string
	for i, s := range ss {
		if i == 0 || s != ss[i-1] {
			out = append(out, s)
		}
	}
	return out
}
